---- MODULE CombDeps ----
\* Combinational dependencies between the control signals of the scheduling model (C10).
\* Nodes: <<"run", b>>, <<"rdy", b>>, <<"rnb", t>>.  An edge <<x, y>> means "x is computed from y
\* in the same cycle".  D.bodies[b].rdyrun = a (0 = none) says that the readiness of b reads the
\* run signal of a (Forwarder/Pipe style).
EXTENDS Naturals, Sequences, FiniteSets
VARIABLES D, R, X
T == INSTANCE TxnCore

\* the documented rule: readiness may read run(a) only for a body a declared earlier by nesting
\* (any enclosing body) or by a.schedule_before(b)
RECURSIVE Ancestors(_, _)
Ancestors(b, n) == IF n = 0 \/ D.bodies[b].parent = 0 THEN {}
                   ELSE {D.bodies[b].parent} \cup Ancestors(D.bodies[b].parent, n - 1)
DeclaredEarlier(a, b) ==
  \/ a \in Ancestors(b, Len(D.bodies))
  \/ \E r \in T!Rels : D.rels[r].kind = "before" /\ D.rels[r].a = a /\ D.rels[r].b = b
RuleOK == \A b \in T!Bodies : D.bodies[b].rdyrun # 0 => DeclaredEarlier(D.bodies[b].rdyrun, b)

Before(po, u, t) == \E i, j \in 1..Len(po) : i < j /\ po[i] = u /\ po[j] = t
Edges(po) ==
  {<<<<"run", t>>, <<"rnb", t>>>> : t \in T!Trans} \cup {<<<<"run", t>>, <<"rdy", t>>>> : t \in T!Trans}
  \cup {<<<<"run", p[1]>>, <<"run", p[2]>>>> : p \in {q \in R.conf : Before(po, q[2], q[1])}}
  \cup UNION {{<<<<"rnb", t>>, <<"rdy", b>>>> : b \in {t} \cup R.tree[t]} : t \in T!Trans}
  \cup UNION {{<<<<"rnb", t>>, <<"run", d>>>> : d \in R.deps[t]} : t \in T!Trans}
  \cup UNION {{<<<<"run", m>>, <<"run", t>>>> : t \in R.tf[m]} : m \in T!Meths}
  \cup {<<<<"rdy", b>>, <<"run", D.bodies[b].rdyrun>>>> : b \in {x \in T!Bodies : D.bodies[x].rdyrun # 0}}
Nodes(E) == {e[1] : e \in E} \cup {e[2] : e \in E}
RECURSIVE Closure(_, _)
Closure(E, n) ==
  IF n = 0 THEN E
  ELSE LET E2 == Closure(E, n - 1)
       IN E2 \cup {<<p[1][1], p[2][2]>> : p \in {q \in E2 \X E2 : q[1][2] = q[2][1]}}
Acyclic(E) == \A n \in Nodes(E) : <<n, n>> \notin Closure(E, 5)    \* 2^5 >= 3 * |bodies|
====
