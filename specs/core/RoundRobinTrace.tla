---- MODULE RoundRobinTrace ----
\* Batch validation of port-level traces of OneHotRoundRobin / RoundRobin against RoundRobin.tla.
\* One line = one clock cycle = [req, grant, valid]: `req` is the request mask applied in the
\* cycle, `grant`/`valid` are the ports sampled just before the clock edge that ends it.
\* The pointer is NOT logged (grant_reg is private): `st` follows the model from its reset state
\* and the observation is compared with the model's ports.
\* Clauses (a line that breaks one gets the trace a REJECT naming it):
\*   ValidMatches     onehot: valid <=> some request now;  registered: valid <=> some request in
\*                    the previous (sampled) cycle
\*   GrantIsRequester onehot: requests # 0 => grant one-hot and a requester;
\*                    registered: valid => grant is a requester of the previous cycle
\*   BoundedWait      nobody is passed over count times in a row while requesting (history `wait`
\*                    computed from the OBSERVED qualified grants only)
\*   ModelStep        the ports are those of the model in its current state (rotation order, hold
\*                    when idle; raw onehot grant is a don't-care when valid is low)
EXTENDS Naturals, Sequences, FiniteSets, TLC, Json, IOUtils
Traces == JsonDeserialize(IOEnv.TRACE_FILE)
VARIABLES tid, l, st, wait, prevR, verdict, lost
vars == <<tid, l, st, wait, prevR, verdict, lost>>
C == INSTANCE RoundRobin
cfg == Traces[tid].cfg
Line == Traces[tid].cycles[l]
OneHot == cfg.kind = "onehot"
SetOf(mask) == {k \in C!Inputs(cfg) : (mask \div (2 ^ k)) % 2 = 1}
R == SetOf(Line.req)
ObsV == Line.valid = 1
\* raw grant port as a set of indices; bits beyond count cannot exist (port width)
ObsG == IF OneHot THEN SetOf(Line.grant) ELSE {Line.grant}
ObsGranted == IF ObsV THEN ObsG ELSE {}
\* the request set whose decision is visible on this line
Sampled == IF OneHot THEN R ELSE prevR

ValidMatches == ObsV <=> Sampled # {}
GrantIsRequester ==
  IF OneHot THEN R # {} => (Line.grant < 2 ^ cfg.count /\ Cardinality(ObsG) = 1 /\ ObsG \subseteq R)
  ELSE ObsV => ObsG \subseteq prevR
WaitAfter == C!WaitNext(cfg, wait, Sampled, ObsGranted)
BoundedWait == C!BoundedWait(cfg, WaitAfter)
ModelStep ==
  /\ ObsV = C!ValidOut(cfg, st, R)
  /\ IF OneHot THEN ObsV => ObsG = C!GrantOut(cfg, st, R)
     ELSE ObsG = C!GrantOut(cfg, st, R)

PropClauses == {"ValidMatches", "GrantIsRequester", "BoundedWait"}
Holds(n) == CASE n = "ValidMatches" -> ValidMatches
              [] n = "GrantIsRequester" -> GrantIsRequester
              [] n = "BoundedWait" -> BoundedWait
              [] OTHER -> ModelStep
\* `lost` = line of the first ModelStep failure (0 = none).  After the model is lost the three
\* property clauses (which need observations only) keep being judged to the end of the trace, so
\* the verdict tells a pure model deviation (rotation order / reset pointer) from a broken property.
Failing == {n \in PropClauses : ~Holds(n)} \cup (IF lost = 0 /\ ~ModelStep THEN {"ModelStep"} ELSE {})

Init == /\ tid \in 1..Len(Traces) /\ l = 1 /\ st = C!CInit(Traces[tid].cfg)
        /\ wait = C!Wait0(Traces[tid].cfg) /\ prevR = {} /\ verdict = "go" /\ lost = 0
Reject(line, clauses, pline) ==
  /\ verdict' = "reject"
  /\ PrintT("REJECT " \o ToJson([tid |-> tid, line |-> line, clauses |-> clauses, state |-> st,
                                   prev_req |-> prevR, prop_line |-> pline]))
Step == /\ verdict = "go" /\ l <= Len(Traces[tid].cycles)
        /\ IF Failing \subseteq {"ModelStep"}
           THEN /\ l' = l + 1 /\ wait' = WaitAfter /\ prevR' = R /\ UNCHANGED verdict
                /\ IF Failing = {} /\ lost = 0
                   THEN st' = C!CNext(cfg, st, R) /\ UNCHANGED lost
                   ELSE st' = st /\ lost' = (IF lost = 0 THEN l ELSE lost)   \* st frozen: last matched model state
           ELSE /\ Reject(IF lost = 0 THEN l ELSE lost, Failing \cup (IF lost = 0 THEN {} ELSE {"ModelStep"}), l)
                /\ UNCHANGED <<l, st, wait, prevR, lost>>
        /\ UNCHANGED tid
Fin == /\ verdict = "go" /\ l = Len(Traces[tid].cycles) + 1
       /\ IF lost = 0 THEN verdict' = "accept" /\ PrintT("ACCEPT " \o ToJson([tid |-> tid]))
          ELSE Reject(lost, {"ModelStep"}, 0)
       /\ UNCHANGED <<tid, l, st, wait, prevR, lost>>
Spec == Init /\ [][Step \/ Fin]_vars
====
