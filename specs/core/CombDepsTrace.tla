---- MODULE CombDepsTrace ----
\* C10: cases = [design, raised, cycle]; a design that follows the rule and is accepted by
\* elaboration must (a) have an acyclic model dependency graph for every admissible order and
\* (b) elaborate into a netlist without combinational cycle (observed).
EXTENDS Naturals, Sequences, FiniteSets, TLC, Json, IOUtils
Cases == JsonDeserialize(IOEnv.TRACE_FILE)
VARIABLES tid, R, status
vars == <<tid, R, status>>
C == INSTANCE CombDeps WITH D <- Cases[tid].design, R <- R, X <- <<>>
Init == tid \in 1..Len(Cases) /\ R = <<>> /\ status = "prep"
Prep == /\ status = "prep" /\ R' = C!T!Derive /\ status' = "judge" /\ UNCHANGED tid
Judge ==
  /\ status = "judge"
  /\ LET case == Cases[tid]
         wf == R.verdict = "ok" /\ C!RuleOK
         modelAcyclic == \A po \in R.orders : C!Acyclic(C!Edges(po))
         f == (IF wf /\ ~case.raised /\ case.cycle THEN {"WellFormedImpliesAcyclic"} ELSE {})
              \cup (IF wf /\ ~modelAcyclic THEN {"ModelAcyclic"} ELSE {})
              \cup (IF case.raised # (R.verdict # "ok") THEN {"RaisedIffIllFormed"} ELSE {})
     IN IF f = {}
        THEN status' = "accept" /\ PrintT("ACCEPT " \o ToJson([tid |-> tid, wf |-> wf, verdict |-> R.verdict, orders |-> Cardinality(R.orders)]))
        ELSE status' = "reject" /\ PrintT("REJECT " \o ToJson([tid |-> tid, line |-> 0, clauses |-> f, wf |-> wf, verdict |-> R.verdict]))
  /\ UNCHANGED <<tid, R>>
Spec == Init /\ [][Prep \/ Judge]_vars
====
