---- MODULE CondDepsTrace ----
\* C10 for designs that use condition(): cases = [design, raised, cycle].  Every design of vlib/condgen.py follows
\* the documented rules (readiness reads inputs only), so (a) the intended dependency graph CondDeps!Edges must be
\* acyclic (checked by TLC for every design) and (b) the real elaborated netlist must have no combinational cycle
\* (observed with Amaranth's bit-level check).
EXTENDS Naturals, Sequences, FiniteSets, TLC, Json, IOUtils
Cases == JsonDeserialize(IOEnv.TRACE_FILE)
VARIABLES tid, status
vars == <<tid, status>>
C == INSTANCE CondDeps WITH D <- Cases[tid].design
Init == tid \in 1..Len(Cases) /\ status = "judge"
Judge ==
  /\ status = "judge"
  /\ LET case == Cases[tid]
         f == (IF ~case.raised /\ case.cycle THEN {"WellFormedImpliesAcyclic"} ELSE {})
              \cup (IF ~C!Acyclic THEN {"ModelAcyclic"} ELSE {})
              \cup (IF case.raised THEN {"ElaborationRaised"} ELSE {})
     IN IF f = {}
        THEN status' = "accept" /\ PrintT("ACCEPT " \o ToJson([tid |-> tid, nodes |-> Cardinality(C!Nodes), edges |-> Cardinality(C!Edges)]))
        ELSE status' = "reject" /\ PrintT("REJECT " \o ToJson([tid |-> tid, line |-> 0, clauses |-> f]))
  /\ UNCHANGED tid
Spec == Init /\ [][Judge]_vars
====
