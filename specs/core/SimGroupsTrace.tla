---- MODULE SimGroupsTrace ----
\* Batch judge: cases [design, raised, units (observed merged transactions), cycles] recorded from the real library.
EXTENDS Naturals, Sequences, FiniteSets, TLC, Json, IOUtils
Cases == JsonDeserialize(IOEnv.TRACE_FILE)
VARIABLES tid, l, verdict
vars == <<tid, l, verdict>>
Case == Cases[tid]
NoLine == [inp |-> <<>>, trun |-> <<>>, mrun |-> <<>>]
S == INSTANCE SimGroups WITH D <- Case.design, L <- IF l >= 1 /\ l <= Len(Case.cycles) THEN Case.cycles[l] ELSE NoLine
\* line 0 judges the design as a whole
DesignClauses == {"AlgorithmMeetsDefinition", "RaisedIffUnsatisfiable", "UnitsFormed"}
CycleClauses == {"OnlyEnabledRun", "WholeGroupsRun", "NoWastedGroup", "MethodRunsWithCaller"}
Holds(n) == CASE n = "AlgorithmMeetsDefinition" -> S!AlgorithmMeetsDefinition
              [] n = "RaisedIffUnsatisfiable" -> Case.raised = S!Unsatisfiable
              [] n = "UnitsFormed" -> (Case.raised \/ ~Case.has_units) \/ S!UnitsFormed(Case.units)
              [] n = "OnlyEnabledRun" -> S!OnlyEnabledRun
              [] n = "WholeGroupsRun" -> S!WholeGroupsRun
              [] n = "NoWastedGroup" -> S!NoWastedGroup
              [] OTHER -> S!MethodRunsWithCaller
Failing == {n \in (IF l = 0 THEN DesignClauses ELSE CycleClauses) : ~Holds(n)}
Init == tid \in 1..Len(Cases) /\ l = 0 /\ verdict = "go"
Step == /\ verdict = "go" /\ l <= Len(Case.cycles)
        /\ IF Failing = {}
           THEN l' = l + 1 /\ UNCHANGED verdict
           ELSE /\ verdict' = "reject"
                /\ PrintT("REJECT " \o ToJson([tid |-> tid, line |-> l, clauses |-> Failing,
                                               groups |-> S!Groups, units |-> S!Units, unsat |-> S!Unsatisfiable]))
                /\ UNCHANGED l
        /\ UNCHANGED tid
Fin == /\ verdict = "go" /\ l = Len(Case.cycles) + 1
       /\ verdict' = "accept" /\ PrintT("ACCEPT " \o ToJson([tid |-> tid]))
       /\ UNCHANGED <<tid, l>>
Spec == Init /\ [][Step \/ Fin]_vars
====
