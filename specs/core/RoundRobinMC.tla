---- MODULE RoundRobinMC ----
\* Exhaustive model of the two round-robin arbiters (RoundRobin.tla): every configuration
\* (kind x count 1..MaxN), every request set in every reachable state (pointer, registered
\* valid, bounded-wait history).  `last` is the label of the transition (requests applied and the
\* ports visible while they were applied); it is hidden from the fingerprint by the VIEWs.
\* Two configurations are run on this module:
\*   full  : VIEW ViewFull  (state incl. wait history, up to rotation; ViewPlain = without the
\*           reduction)  INVARIANT Inv  PROPERTIES StepOK ServedInTime
\*   edges : VIEW ViewEdge  (component state only) + ACTION_CONSTRAINT Emit -> one EDGE line per
\*           transition of the component automaton (for the spec->code replay).
EXTENDS Naturals, Sequences, FiniteSets, TLC, Json, IOUtils
VARIABLES cfg, st, wait, last
C == INSTANCE RoundRobin
vars == <<cfg, st, wait, last>>
MaxN == IF "RR_MAXN" \in DOMAIN IOEnv THEN atoi(IOEnv.RR_MAXN) ELSE 6

Init == /\ cfg \in {c \in C!Configs : c.count <= MaxN}
        /\ st = C!CInit(cfg) /\ wait = C!Wait0(cfg)
        /\ last = [req |-> {}, grant |-> {}, valid |-> FALSE]
Cycle(R) ==
  /\ st' = C!CNext(cfg, st, R)
  /\ wait' = C!WaitNext(cfg, wait, R, C!Decision(cfg, st, R))
  /\ last' = [req |-> R, grant |-> C!GrantOut(cfg, st, R), valid |-> C!ValidOut(cfg, st, R)]
  /\ UNCHANGED cfg
Next == \E R \in C!ReqSets(cfg) : Cycle(R)
Spec == Init /\ [][Next]_vars

\* The arbiters are invariant under rotation of the input indices (RRPick only looks at positions
\* relative to the pointer; all checked properties are rotation invariant), so states are identified
\* up to rotation: the wait history is indexed relative to the pointer.  (Reset pointer = index 0.)
ViewFull ==
  IF Cardinality(st.g) # 1 THEN <<cfg, st, wait>>
  ELSE LET p == CHOOSE i \in st.g : TRUE
       IN <<cfg, st.v, [d \in 0..(cfg.count - 1) |-> wait[(p + d) % cfg.count]]>>
ViewPlain == <<cfg, st, wait>>      \* no symmetry reduction (thorough tier runs both)
ViewEdge == <<cfg, st>>

Inv == C!TypeOK(cfg, st) /\ C!BoundedWait(cfg, wait)
StepOK == [][C!StepProp(cfg, st, last'.req, st')]_vars
\* bounded wait stated on the transition: an input that has been passed over count-1 times in a
\* row and still requests gets this cycle's decision
ServedInTime ==
  [][\A k \in C!Inputs(cfg) : (wait[k] = cfg.count - 1 /\ k \in last'.req) => k \in C!Decision(cfg, st, last'.req)]_vars
\* the worst case is reached (non-vacuity of the bound, checked by a separate run that must FAIL)
NeverWorstCase == \A k \in C!Inputs(cfg) : cfg.count >= 2 => wait[k] < cfg.count - 1

EmitInit == TRUE
Emit == PrintT("EDGE " \o ToJson([cfg |-> cfg, from |-> st, lab |-> last', to |-> st']))
====
