---- MODULE Simultaneous ----
\* simultaneous() / Connect (property C13).  D = [kind "connect"|"sim", rev, meths (ready input),
\* pairs (simultaneous relations), callers ([ready, meth, extra, arg]), targets ([ready])];
\* L = one cycle [inp, args, mrun, mdin, mdout, crun, cres, trun].
\* In "connect" designs method 1 is Connect.write and method 2 is Connect.read.
EXTENDS Naturals, Sequences, FiniteSets
VARIABLES D, L
Bit(i) == IF i = 0 THEN 1 ELSE L.inp[i]
Meths == 1..Len(D.meths)
Callers == 1..Len(D.callers)
Pairs == {<<D.pairs[i][1], D.pairs[i][2]>> : i \in 1..Len(D.pairs)}
\* ---- C13
SameCycles == \A p \in Pairs : L.mrun[p[1]] = L.mrun[p[2]]
DataBothWays ==
  (D.kind = "connect" /\ L.mrun[1] = 1 /\ L.mrun[2] = 1) =>
     /\ L.mdout[2] = L.mdin[1]                    \* what read returns is what write was given
     /\ D.rev => L.mdout[1] = L.mdin[2]           \* and the reverse direction
\* kind "chainc": two Connects in a row (meths 1,2 = first write/read, 3,4 = second write/read); transaction A writes
\* the first, B reads the first and writes the second, C reads the second; A and C may share a nonexclusive target.
\* Only the sentences of C13 are judged on it (the per-caller model below describes single-method callers).
Modelled == D.kind # "chainc"
\* ---- model
RECURSIVE Grp(_, _)
Grp(S, n) == IF n = 0 THEN S ELSE Grp(S \cup {y \in Meths : \E x \in S : <<x, y>> \in Pairs \/ <<y, x>> \in Pairs}, n - 1)
GroupOf(m) == Grp({m}, Len(D.meths))
CallerEnabled(k) == Bit(D.callers[k].ready) = 1 /\ (D.callers[k].extra = 0 \/ Bit(D.targets[D.callers[k].extra].ready) = 1)
MethCanRun(m) == Bit(D.meths[m].ready) = 1 /\ \E k \in Callers : D.callers[k].meth = m /\ CallerEnabled(k)
ModelRunIffGroupCan == \A m \in Meths : (L.mrun[m] = 1) <=> \A x \in GroupOf(m) : MethCanRun(x)
ModelOneCaller ==
  \A m \in Meths : L.mrun[m] = 1 =>
     Cardinality({k \in Callers : D.callers[k].meth = m /\ L.crun[k] = 1}) = 1
ModelCallerRunsOnlyEnabled == \A k \in Callers : L.crun[k] = 1 => CallerEnabled(k) /\ L.mrun[D.callers[k].meth] = 1
\* (Connect.read takes no argument when the connection has no reverse layout)
ModelArgDelivered == \A k \in Callers :
  (L.crun[k] = 1 /\ ~(D.kind = "connect" /\ ~D.rev /\ D.callers[k].meth = 2)) =>
     L.mdin[D.callers[k].meth] = L.args[D.callers[k].arg]
ModelCallerSees ==
  \A k \in Callers : L.crun[k] = 1 =>
     IF D.kind = "connect"
     THEN IF D.callers[k].meth = 1 THEN (D.rev => L.cres[k] = L.mdin[2]) ELSE L.cres[k] = L.mdin[1]
     ELSE L.cres[k] = (L.mdin[D.callers[k].meth] + 1) % 8
ModelExtraRuns == \A k \in Callers : D.callers[k].extra # 0 => (L.trun[D.callers[k].extra] = L.crun[k])
====
