---- MODULE TxnCoreTrace ----
\* Validation of observations of real circuits (built by vlib/coregen.py with the public
\* Transactron API) against TxnCore.  A case = [design, raised, cycles]; one line = one clock
\* cycle (inputs and sampled public signals).  Hidden information (the priority order chosen
\* by the manager, the arbiter order/pointer) is inferred: `cands` is narrowed cycle by cycle.
EXTENDS Naturals, Sequences, FiniteSets, TLC, Json, IOUtils
Cases == JsonDeserialize(IOEnv.TRACE_FILE)
VARIABLES tid, l, R, X, cands, lastg, wait, status
vars == <<tid, l, R, X, cands, lastg, wait, status>>
C == INSTANCE TxnCore WITH D <- Cases[tid].design, R <- R, X <- X
Dz == Cases[tid].design
Eager == Dz.sched = "eager"
NLines == Len(Cases[tid].cycles)
Line == Cases[tid].cycles[l]
V == [inp |-> Line.inp, args |-> Line.args, mouts |-> Line.mouts]
RunB == [b \in C!Bodies |-> Line.run[b] = 1]
O == [runT |-> {t \in C!Trans : Line.run[t] = 1}, runB |-> RunB,
      din |-> [m \in C!Meths |-> Line.din[m]], sres |-> [s \in C!Sites |-> Line.sres[s]]]

\* ---- clauses bound to witness / public signals (C04, C06)
EnclRun(pos) == \A b \in C!EnclBodies(pos) : RunB[b]
CombCond(pos) == EnclRun(pos) /\ C!Holds(pos, V)
SiteCond(s) == EnclRun(Dz.sites[s].pos) /\ s \in X.on
SiteWitnessMatches == \A s \in C!Sites : (Line.swit[s] = 1) <=> SiteCond(s)
AvReadyGated == \A b \in C!Bodies : (Line.rdy[b] = 1) <=> b \in X.rdy
Wits(dom) == {w \in 1..Len(Dz.wits) : Dz.wits[w].dom = dom}
WitComb == \A w \in Wits("comb") : (Line.wit[w] = 1) <=> CombCond(Dz.wits[w].pos)
WitAv == \A w \in Wits("av") : (Line.wit[w] = 1) <=> C!Holds(Dz.wits[w].pos, V)
WitTop == \A w \in Wits("top") : Line.wit[w] = 1
WitSync == l < NLines =>
  \A w \in Wits("sync") : (Cases[tid].cycles[l + 1].wit[w] # Line.wit[w]) <=> CombCond(Dz.wits[w].pos)

\* ---- round robin (C09): hidden order of the arbiter inputs, pointer = last granted
ReqSet(c) == {t \in c : C!Enabled(t, RunB)}
CompSeq(ord, c) == SelectSeq(ord, LAMBDA t : t \in c)
RRGrant(ord, c) ==
  LET cs == CompSeq(ord, c)
      n == Len(cs)
      lg == c \cap lastg
      p == IF lg = {} THEN 1 ELSE CHOOSE i \in 1..n : cs[i] \in lg
      req == ReqSet(c)
      \* cyclic search order: p+1, ..., n, 1, ..., p-1, p
      At(k) == cs[((p + k - 1) % n) + 1]
      hits == {k \in 1..n : At(k) \in req}
  IN IF hits = {} THEN {} ELSE {At(C!MinOf(hits))}
ModelRROrders == {ord \in cands : \A c \in R.comps : RRGrant(ord, c) = c \cap O.runT}
ModelEagerOrders == {po \in cands : C!EagerRun(po) = O.runT}
ModelOrders == IF Eager THEN ModelEagerOrders ELSE ModelRROrders
ModelSched == ModelOrders # {}
ModelRunnable == \A t \in C!Trans : (Line.rnb[t] = 1) <=> C!Enabled(t, RunB)
CompOf(t) == CHOOSE c \in R.comps : t \in c
BoundedWait ==
  \A t \in C!Trans : (C!Enabled(t, RunB) /\ t \notin O.runT) => wait[t] + 1 <= Cardinality(CompOf(t)) - 1

Both == {"ExclusiveOnce", "JointRunOnlyIfExcl", "ConflictNeverJoint", "ConflictNeverJointSameTxn",
         "RunImpliesEnabled", "MethodRunIffActiveSite", "NestedRunsOnlyWithParent", "SiteWitnessMatches",
         "ArgRouting", "ResultRouting", "WitComb", "WitAv", "WitTop", "WitSync", "AvReadyGated",
         "ModelSched", "ModelRunnable"}
ClauseNames == Both \cup (IF Eager THEN {"NoWastedCycle", "PriorityRespected"}
                          ELSE {"AtMostOnePerComponent", "SomeoneRunsIfEnabled", "BoundedWait"})
Holds(n) ==
  CASE n = "ExclusiveOnce" -> C!ExclusiveOnce(O)
    [] n = "JointRunOnlyIfExcl" -> C!JointRunOnlyIfExcl(O)
    [] n = "ConflictNeverJoint" -> C!ConflictNeverJoint(O)
    [] n = "ConflictNeverJointSameTxn" -> C!ConflictNeverJointSameTxn(O)
    [] n = "RunImpliesEnabled" -> C!RunImpliesEnabled(O)
    [] n = "MethodRunIffActiveSite" -> C!MethodRunIffActiveSite(O)
    [] n = "NestedRunsOnlyWithParent" -> C!NestedRunsOnlyWithParent(O)
    [] n = "SiteWitnessMatches" -> SiteWitnessMatches
    [] n = "ArgRouting" -> C!ArgRouting(O)
    [] n = "ResultRouting" -> C!ResultRouting(O)
    [] n = "WitComb" -> WitComb
    [] n = "WitAv" -> WitAv
    [] n = "WitTop" -> WitTop
    [] n = "WitSync" -> WitSync
    [] n = "AvReadyGated" -> AvReadyGated
    [] n = "ModelSched" -> ModelSched
    [] n = "ModelRunnable" -> ModelRunnable
    [] n = "NoWastedCycle" -> C!NoWastedCycle(O)
    [] n = "PriorityRespected" -> C!PriorityRespected(O)
    [] n = "AtMostOnePerComponent" -> C!AtMostOnePerComponent(O)
    [] n = "SomeoneRunsIfEnabled" -> C!SomeoneRunsIfEnabled(O)
    [] OTHER -> BoundedWait
Failing == {n \in ClauseNames : ~Holds(n)}
IsModel(n) == n \in {"ModelSched", "ModelRunnable"}

Init == /\ tid \in 1..Len(Cases) /\ l = 1 /\ R = <<>> /\ X = <<>> /\ cands = {} /\ lastg = {} /\ wait = <<>>
        /\ status = "prep"
Prep ==
  /\ status = "prep"
  /\ LET d == C!Derive
         raised == Cases[tid].raised
     IN /\ R' = d
        /\ cands' = IF Eager THEN d.orders ELSE C!PermsOf(C!Trans)
        /\ wait' = [t \in C!Trans |-> 0]
        /\ IF raised # (d.verdict # "ok") /\ ~(raised /\ C!LateBefore)
           THEN /\ status' = "reject"
                /\ PrintT("REJECT " \o ToJson([tid |-> tid, line |-> 0, clauses |-> {"RaisedIffIllFormed"},
                                               verdict |-> d.verdict, raised |-> raised]))
           ELSE IF raised
           THEN status' = "accept" /\ PrintT("ACCEPT " \o ToJson([tid |-> tid, lines |-> 0,
                      verdict |-> IF d.verdict = "ok" THEN "outOfScope:lateBefore" ELSE d.verdict]))
           ELSE status' = "go"
  /\ UNCHANGED <<tid, l, lastg, X>>
\* phase 1 of a cycle: compute the context once (stored in a variable so that TLC evaluates it once)
Ctx ==
  /\ status = "go" /\ l <= NLines
  /\ X' = C!Context(V)
  /\ status' = "eval"
  /\ UNCHANGED <<tid, l, R, cands, lastg, wait>>
Step ==
  /\ status = "eval"
  /\ LET f == Failing IN
     IF \A n \in f : IsModel(n)
     THEN /\ l' = l + 1
          /\ IF f # {} THEN PrintT("DEVIATION " \o ToJson([tid |-> tid, line |-> l, clauses |-> f])) ELSE TRUE
          /\ cands' = IF ModelOrders # {} THEN ModelOrders
                      ELSE IF Eager THEN R.orders ELSE C!PermsOf(C!Trans)
          /\ lastg' = {t \in C!Trans : IF CompOf(t) \cap O.runT # {} THEN t \in O.runT ELSE t \in lastg}
          /\ wait' = [t \in C!Trans |-> IF C!Enabled(t, RunB) /\ t \notin O.runT THEN wait[t] + 1 ELSE 0]
          /\ status' = "go"
     ELSE /\ status' = "reject"
          /\ PrintT("REJECT " \o ToJson([tid |-> tid, line |-> l, clauses |-> f, verdict |-> R.verdict, raised |-> FALSE]))
          /\ UNCHANGED <<l, cands, lastg, wait>>
  /\ UNCHANGED <<tid, R, X>>
Fin == /\ status = "go" /\ l = NLines + 1
       /\ status' = "accept"
       /\ PrintT("ACCEPT " \o ToJson([tid |-> tid, verdict |-> R.verdict, lines |-> NLines]))
       /\ UNCHANGED <<tid, l, R, X, cands, lastg, wait>>
Spec == Init /\ [][Prep \/ Ctx \/ Step \/ Fin]_vars
====
