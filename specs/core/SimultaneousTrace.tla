---- MODULE SimultaneousTrace ----
EXTENDS Naturals, Sequences, FiniteSets, TLC, Json, IOUtils
Cases == JsonDeserialize(IOEnv.TRACE_FILE)
VARIABLES tid, l, status
vars == <<tid, l, status>>
C == INSTANCE Simultaneous WITH D <- Cases[tid].design, L <- Cases[tid].cycles[l]
NLines == Len(Cases[tid].cycles)
PropNames == {"SameCycles", "DataBothWays"}
ModelNames == {"ModelRunIffGroupCan", "ModelOneCaller", "ModelCallerRunsOnlyEnabled", "ModelArgDelivered",
               "ModelCallerSees", "ModelExtraRuns"}
Holds(n) ==
  CASE n = "SameCycles" -> C!SameCycles
    [] n = "DataBothWays" -> C!DataBothWays
    [] n = "ModelRunIffGroupCan" -> (~C!Modelled \/ C!ModelRunIffGroupCan)
    [] n = "ModelOneCaller" -> (~C!Modelled \/ C!ModelOneCaller)
    [] n = "ModelCallerRunsOnlyEnabled" -> (~C!Modelled \/ C!ModelCallerRunsOnlyEnabled)
    [] n = "ModelArgDelivered" -> (~C!Modelled \/ C!ModelArgDelivered)
    [] n = "ModelCallerSees" -> (~C!Modelled \/ C!ModelCallerSees)
    [] OTHER -> (~C!Modelled \/ C!ModelExtraRuns)
Failing == {n \in PropNames \cup ModelNames : ~Holds(n)}
Init == tid \in 1..Len(Cases) /\ l = 1 /\ status = "go"
Step == /\ status = "go" /\ l <= NLines
        /\ LET f == Failing IN
           IF f \cap PropNames = {}
           THEN /\ l' = l + 1 /\ UNCHANGED status
                /\ IF f # {} THEN PrintT("DEVIATION " \o ToJson([tid |-> tid, line |-> l, clauses |-> f])) ELSE TRUE
           ELSE /\ status' = "reject" /\ UNCHANGED l
                /\ PrintT("REJECT " \o ToJson([tid |-> tid, line |-> l, clauses |-> f]))
        /\ UNCHANGED tid
Fin == /\ status = "go" /\ l = NLines + 1 /\ status' = "accept"
       /\ PrintT("ACCEPT " \o ToJson([tid |-> tid, lines |-> NLines]))
       /\ UNCHANGED <<tid, l>>
Spec == Init /\ [][Step \/ Fin]_vars
====
