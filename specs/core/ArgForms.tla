---- MODULE ArgForms ----
\* C05, argument passing by FIELD NAME: whatever form the caller uses to hand over the argument of a method call
\* (keyword arguments, a dict, a struct-shaped signal with the fields in the method's order or in any other order,
\* directly or through provide() aliases), every field of the method's data_in receives the caller's value of the
\* field with the same name, and the caller sees the method's data_out.
\* Rows = [form, fields (sequence of names in the METHOD's order), given (name -> value handed over),
\*         din (name -> value observed in the method body), ran, res, out]
EXTENDS Naturals, Sequences, FiniteSets, TLC, Json, IOUtils
Rows == JsonDeserialize(IOEnv.TRACE_FILE)
VARIABLES i, verdict
vars == <<i, verdict>>
Row == Rows[i]
Names(r) == {r.fields[k] : k \in 1..Len(r.fields)}
FieldsByName(r) == r.ran = 1 => \A f \in Names(r) : r.din[f] = r.given[f]
ResultReturned(r) == r.ran = 1 => r.res = r.out
Ran(r) == r.ran = 1
Failing(r) == {n \in {"FieldsByName", "ResultReturned", "Ran"} :
                 ~(CASE n = "FieldsByName" -> FieldsByName(r) [] n = "ResultReturned" -> ResultReturned(r) [] OTHER -> Ran(r))}
Init == i = 1 /\ verdict = "go"
Step == /\ verdict = "go" /\ i <= Len(Rows)
        /\ IF Failing(Row) = {} THEN TRUE
           ELSE PrintT("REJECT " \o ToJson([tid |-> i, line |-> 0, clauses |-> Failing(Row)]))
        /\ i' = i + 1 /\ UNCHANGED verdict
Fin == /\ verdict = "go" /\ i = Len(Rows) + 1 /\ verdict' = "done"
       /\ PrintT("DONE " \o ToJson([rows |-> Len(Rows)])) /\ UNCHANGED i
Spec == Init /\ [][Step \/ Fin]_vars
====
