---- MODULE SimGroups ----
\* simultaneous() / simultaneous_alternatives() over several transactions and methods: which merged
\* transactions ("groups") exist, and which sets of transactions may run in one cycle.
\* Beyond the listed properties (check X02); C13 covers "a simultaneous pair runs in the same cycles" only.
\*
\* D = [nt, ready (input per transaction, 0 = always), tmeth (method called by the transaction, 0 = none),
\*      mready (input per method), decls (Seq of [kind "sim" | "alt", a, others]); an element is [k "t" | "m", i]]
\*   a.simultaneous(o1, .., on)              : every oi runs only together with a (and a with all of them)
\*   a.simultaneous_alternatives(o1, .., on) : a runs together with exactly one of the oi
\* L = one cycle [inp, trun, mrun].
EXTENDS Naturals, Sequences, FiniteSets
VARIABLES D, L

T == 1..D.nt
Bit(i) == IF i = 0 THEN 1 ELSE L.inp[i]
TransFor(e) == IF e.k = "t" THEN {e.i} ELSE {t \in T : D.tmeth[t] = e.i}
Decls == {D.decls[i] : i \in 1..Len(D.decls)}
Others(d) == {d.others[i] : i \in 1..Len(d.others)}
\* ---- what the declarations mean on transactions
\* pairs of transactions that must run together
SimEPairs == UNION {{<<d.a, o>> : o \in Others(d)} : d \in Decls}
SimTPairs == UNION {{{t1, t2} : t1 \in TransFor(p[1]), t2 \in TransFor(p[2])} : p \in SimEPairs}
\* transactions that are never considered together: the callers of one method, and the alternatives of one declaration
AltSets == {UNION {TransFor(o) : o \in Others(d)} : d \in {d \in Decls : d.kind = "alt"}}
CallerSets == {{t \in T : D.tmeth[t] = m} : m \in 1..Len(D.mready)}
Indep(t1, t2) == t1 # t2 /\ \E S \in AltSets \cup CallerSets : t1 \in S /\ t2 \in S
IndepFree(g) == \A t1, t2 \in g : ~Indep(t1, t2)
\* a declaration that can never be satisfied (the library must refuse it)
Unsatisfiable == \E p \in SimTPairs : \E t1, t2 \in p : Indep(t1, t2)

\* ---- groups, declaratively: maximal sets of transactions that are connected by "must run together" pairs lying
\* inside the set and contain no two transactions that are never considered together
RECURSIVE Reach(_, _, _)
Reach(S, g, n) == IF n = 0 THEN S ELSE Reach(S \cup {y \in g : \E x \in S : {x, y} \in SimTPairs}, g, n - 1)
Connected(g) == \A x \in g : Reach({x}, g, Cardinality(g)) = g
Cands == {g \in SUBSET T : Cardinality(g) >= 2 /\ IndepFree(g) /\ Connected(g)}
MaximalOf(C) == {g \in C : ~\E h \in C : g \subseteq h /\ g # h}
Groups == MaximalOf(Cands)

\* ---- groups, as TransactionManager._simultaneous computes them (work list: join a group with every overlapping
\* pair, drop joins that contain an independent pair, keep the maximal ones)
RECURSIVE Close(_)
Close(S) == LET N == S \cup {h \in {g \cup p : g \in S, p \in SimTPairs} : IndepFree(h) /\ \E g \in S, p \in SimTPairs : h = g \cup p /\ g \cap p # {}}
            IN IF N = S THEN S ELSE Close(N)
AlgGroups == MaximalOf(Close({p \in SimTPairs : IndepFree(p)}))
AlgorithmMeetsDefinition == ~Unsatisfiable => AlgGroups = Groups

\* ---- which transactions may run in a cycle
AllSim == UNION SimTPairs
Units == Groups \cup {{t} : t \in T \ AllSim}          \* the scheduled transactions after merging
MethsOf(u) == {D.tmeth[t] : t \in u} \ {0}
Conf(u, v) == u # v /\ (u \cap v # {} \/ MethsOf(u) \cap MethsOf(v) # {})
En(u) == \A t \in u : Bit(D.ready[t]) = 1 /\ (D.tmeth[t] = 0 \/ Bit(D.mready[D.tmeth[t]]) = 1)
Run == {t \in T : L.trun[t] = 1}
ConfFree(F) == \A u, v \in F : ~Conf(u, v)
Whole(R, F) == UNION F = R /\ ConfFree(F) /\ \A u \in F : En(u)
Maximal(F) == \A v \in Units \ F : En(v) => \E u \in F : Conf(u, v)
\* every transaction that runs is ready, and so is the method it calls
OnlyEnabledRun == \A t \in Run : En({t})
\* the running transactions are a union of whole, enabled, pairwise compatible groups: simultaneous transactions
\* run together, alternatives never do
WholeGroupsRun == \E F \in SUBSET {u \in Units : u \subseteq Run} : Whole(Run, F)
\* ... and nothing that could have run as well was left out (default scheduler)
NoWastedGroup == \E F \in SUBSET {u \in Units : u \subseteq Run} : Whole(Run, F) /\ Maximal(F)
MethodRunsWithCaller == \A m \in 1..Len(D.mready) : (L.mrun[m] = 1) <=> \E t \in Run : D.tmeth[t] = m
\* the model admits some outcome for every input (it is not contradictory)
Satisfiable == \E F \in SUBSET Units : ConfFree(F) /\ (\A u \in F : En(u)) /\ Maximal(F)
\* the merged transactions the implementation formed (read off TransactionManager.transactions after elaboration)
UnitsFormed(obs) == {{obs[i][j] : j \in 1..Len(obs[i])} : i \in 1..Len(obs)} = Units
====
