---- MODULE ConditionMC ----
\* Exhaustive check of the MODEL of condition(): for every design of the universe file, every input
\* valuation and every observation the model allows (ModelBodyRunsIffCan, ModelBranchChoice), the
\* sentences of C12 hold.
EXTENDS Naturals, Sequences, FiniteSets, TLC, Json, IOUtils
Designs == JsonDeserialize(IOEnv.TRACE_FILE)
VARIABLES tid, L
vars == <<tid, L>>
Dz == Designs[tid]
C == INSTANCE Condition WITH D <- Designs[tid], L <- L
NB == Len(Dz.branches)
NT == Len(Dz.targets)
Obs(d) == {[inp |-> i, prun |-> p, bw |-> w,
            trdy |-> [t \in 1..Len(d.targets) |-> IF d.targets[t].ready = 0 THEN 1 ELSE i[d.targets[t].ready]],
            trun |-> [t \in 1..Len(d.targets) |-> 0], tdin |-> [t \in 1..Len(d.targets) |-> 0]] :
              i \in [1..d.nin -> {0, 1}], p \in {0, 1}, w \in [1..Len(d.branches) -> {0, 1}]}
Init == tid \in 1..Len(Designs) /\ L = <<>>
\* choose any observation; keep those the model allows (branches run only inside running bodies)
Pick == /\ L = <<>>
        /\ L' \in Obs(Dz)
        /\ UNCHANGED tid
Allowed == /\ C!ModelBodyRunsIffCan /\ C!ModelBranchChoice
           /\ \A r \in C!Branches : C!BrRun(r) => C!EnclRun(C!BlockOf(r))
           /\ \A b \in C!Blocks : Cardinality({r \in C!BrSet(b) : C!BrRun(r)}) <= 1
           /\ \A b \in C!Blocks : Dz.blocks[b].priority =>
                \A j \in 1..Len(Dz.blocks[b].branches) : C!BrRun(Dz.blocks[b].branches[j]) =>
                   \A i \in 1..(j - 1) : ~C!BranchCanRun(Dz.blocks[b].branches[i])
Spec == Init /\ [][Pick]_vars
Judged == L # <<>> /\ Allowed
P1 == Judged => C!BranchNeedsParentCondAndCallees
P2 == Judged => C!AtMostOneBranch
P3 == Judged => C!DefaultOnlyIfNoCond
P4 == Judged => C!ParentNeedsBranchUnlessNonblocking
P5 == Judged => C!PriorityFirstAdmissible
\* vacuity guard: the model allows at least one observation per valuation (checked by counting in Python)
====
