---- MODULE SimultaneousMC ----
\* Exhaustive check of the model of simultaneous()/Connect: for every design of the universe file,
\* every input valuation and every observation the model allows, SameCycles and DataBothWays hold.
EXTENDS Naturals, Sequences, FiniteSets, TLC, Json, IOUtils
Designs == JsonDeserialize(IOEnv.TRACE_FILE)
VARIABLES tid, L
vars == <<tid, L>>
Dz == Designs[tid]
C == INSTANCE Simultaneous WITH D <- Designs[tid], L <- L
NM == Len(Dz.meths)
NC == Len(Dz.callers)
\* arguments: caller k passes k (distinct, non-zero); data follow the model's routing
Obs(d) == {[inp |-> i, args |-> [a \in 1..d.nargs |-> a], mrun |-> mr, crun |-> cr,
            trun |-> [t \in 1..Len(d.targets) |-> 0]] :
              i \in [1..d.nin -> {0, 1}], mr \in [1..Len(d.meths) -> {0, 1}], cr \in [1..Len(d.callers) -> {0, 1}]}
Din(o, m) == LET ks == {k \in 1..NC : Dz.callers[k].meth = m /\ o.crun[k] = 1}
             IN IF ks = {} THEN 0 ELSE o.args[Dz.callers[CHOOSE k \in ks : TRUE].arg]
WithData(o) == [o EXCEPT !.trun = o.trun] @@
  [mdin |-> [m \in 1..NM |-> Din(o, m)],
   mdout |-> [m \in 1..NM |-> IF Dz.kind = "connect" THEN (IF m = 1 THEN Din(o, 2) ELSE Din(o, 1)) ELSE (Din(o, m) + 1) % 8],
   cres |-> [k \in 1..NC |-> 0]]
Init == tid \in 1..Len(Designs) /\ L = <<>>
Pick == /\ L = <<>>
        /\ \E o \in Obs(Dz) : L' = WithData(o)
        /\ UNCHANGED tid
Spec == Init /\ [][Pick]_vars
Allowed == C!ModelRunIffGroupCan /\ C!ModelOneCaller /\ C!ModelCallerRunsOnlyEnabled
Judged == L # <<>> /\ Allowed
P1 == Judged => C!SameCycles
P2 == Judged => C!DataBothWays
====
