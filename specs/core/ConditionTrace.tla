---- MODULE ConditionTrace ----
\* Observations of real circuits using condition() judged against Condition.tla (C12).
EXTENDS Naturals, Sequences, FiniteSets, TLC, Json, IOUtils
Cases == JsonDeserialize(IOEnv.TRACE_FILE)
VARIABLES tid, l, status
vars == <<tid, l, status>>
C == INSTANCE Condition WITH D <- Cases[tid].design, L <- Cases[tid].cycles[l]
NLines == Len(Cases[tid].cycles)
PropNames == {"BranchNeedsParentCondAndCallees", "AtMostOneBranch", "DefaultOnlyIfNoCond",
              "ParentNeedsBranchUnlessNonblocking", "PriorityFirstAdmissible"}
ModelNames == {"ModelBodyRunsIffCan", "ModelBranchChoice", "ModelTargetRuns", "ModelTargetArg", "ModelTargetReady", "ModelWitness"}
Holds(n) ==
  CASE n = "BranchNeedsParentCondAndCallees" -> C!BranchNeedsParentCondAndCallees
    [] n = "AtMostOneBranch" -> C!AtMostOneBranch
    [] n = "DefaultOnlyIfNoCond" -> C!DefaultOnlyIfNoCond
    [] n = "ParentNeedsBranchUnlessNonblocking" -> C!ParentNeedsBranchUnlessNonblocking
    [] n = "PriorityFirstAdmissible" -> C!PriorityFirstAdmissible
    [] n = "ModelBodyRunsIffCan" -> C!ModelBodyRunsIffCan
    [] n = "ModelBranchChoice" -> C!ModelBranchChoice
    [] n = "ModelTargetRuns" -> C!ModelTargetRuns
    [] n = "ModelTargetArg" -> C!ModelTargetArg
    [] n = "ModelWitness" -> C!ModelWitness
    [] OTHER -> C!ModelTargetReady
Failing == {n \in PropNames \cup ModelNames : ~Holds(n)}
Init == tid \in 1..Len(Cases) /\ l = 1 /\ status = "go"
Step == /\ status = "go" /\ l <= NLines
        /\ LET f == Failing IN
           IF f \cap PropNames = {}
           THEN /\ l' = l + 1 /\ UNCHANGED status
                /\ IF f # {} THEN PrintT("DEVIATION " \o ToJson([tid |-> tid, line |-> l, clauses |-> f])) ELSE TRUE
           ELSE /\ status' = "reject" /\ UNCHANGED l
                /\ PrintT("REJECT " \o ToJson([tid |-> tid, line |-> l, clauses |-> f]))
        /\ UNCHANGED tid
Fin == /\ status = "go" /\ l = NLines + 1 /\ status' = "accept"
       /\ PrintT("ACCEPT " \o ToJson([tid |-> tid, lines |-> NLines]))
       /\ UNCHANGED <<tid, l>>
Spec == Init /\ [][Step \/ Fin]_vars
====
