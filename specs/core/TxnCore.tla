---- MODULE TxnCore ----
\* Scheduling semantics of Transactron (transactron/core): a *design* is a value D
\* (bodies, control structures, call sites with positions, relations), R holds relations
\* derived from D once (call chains, conflict graph, priority edges, verdict).
\* Written from the documentation and the property statements C01-C11.
\*
\* D.bodies[b]  = [kind "T"|"M", ready (input index, 0 = constant 1), nonexcl, single, hasarg,
\*                 validate (1 = argument must differ from 3), comb ("mux"|"or"|"orx": OR of the active arguments, "orx" additionally XOR 1), parent (0 = none),
\*                 mod, pos, sid]
\* D.structs[s] = [kind "If"|"Switch"|"FSM"|"Body", conds, els, test, pats, dflt, obs, body]
\* D.sites[s]   = [caller, callee, pos, argk "i"|"c"|"n"|"f", argv]
\*               argk: "i" argument input argv, "c" constant argv, "n" none, "f" the calling (exclusive) method
\*               forwards its own argument XOR argv
\* D.rels[r]    = [a, b, kind "conflict"|"before", prio "U"|"L"|"R", rdep]
\* D.wits[w]    = [dom "comb"|"sync"|"av"|"top", pos]
\* a position is a sequence of <<structure id, alternative>> from the module root
EXTENDS Naturals, Sequences, FiniteSets

VARIABLES D, R, X   \* design, relations derived from it once, per-cycle context

Bodies == 1..Len(D.bodies)
Sites == 1..Len(D.sites)
Structs == 1..Len(D.structs)
Rels == 1..Len(D.rels)
Trans == {b \in Bodies : D.bodies[b].kind = "T"}
Meths == Bodies \ Trans
Excls == {b \in Meths : ~D.bodies[b].nonexcl}

MinOf(S) == CHOOSE x \in S : \A y \in S : x <= y
MinLen(p, q) == IF Len(p) < Len(q) THEN Len(p) ELSE Len(q)

\* ---------------------------------------------------------------- control structures
\* a valuation v is a record [inp, args, mouts]
Bit(v, i) == IF i = 0 THEN 1 ELSE v.inp[i]

\* selected alternative of structure s under v (0 = none)
Sel(s, v) ==
  LET st == D.structs[s] IN
  CASE st.kind = "If" ->
         LET hit == {i \in 1..Len(st.conds) : Bit(v, st.conds[i]) = 1}
         IN IF hit # {} THEN MinOf(hit) ELSE IF st.els THEN Len(st.conds) + 1 ELSE 0
    [] st.kind = "Switch" ->
         LET val == Bit(v, st.test[1]) + 2 * Bit(v, st.test[2])
             hit == {i \in 1..Len(st.pats) : st.pats[i] = val}
         IN IF hit # {} THEN MinOf(hit) ELSE IF st.dflt THEN Len(st.pats) + 1 ELSE 0
    [] st.kind = "FSM" ->
         LET hit == {i \in 1..Len(st.obs) : Bit(v, st.obs[i]) = 1}
         IN IF hit # {} THEN MinOf(hit) ELSE 0
    [] OTHER -> 1      \* a body is a single-alternative structure; its run is handled apart

\* all ordinary conditions around a position hold
Holds(pos, v) == \A k \in 1..Len(pos) : Sel(pos[k][1], v) = pos[k][2]

\* structural exclusivity: the positions diverge on different alternatives of ONE structure
Excl(p, q) ==
  \E k \in 1..MinLen(p, q) :
     /\ \A j \in 1..(k - 1) : p[j] = q[j]
     /\ p[k][1] = q[k][1] /\ p[k][2] # q[k][2]

\* bodies lexically enclosing a position
EnclBodies(pos) == {D.structs[pos[k][1]].body : k \in {j \in 1..Len(pos) : D.structs[pos[j][1]].kind = "Body"}}

\* ---------------------------------------------------------------- call graph
SitesOf(b) == {s \in Sites : D.sites[s].caller = b}
SitesTo(m) == {s \in Sites : D.sites[s].callee = m}
RECURSIVE ChainsFrom(_, _)
ChainsFrom(b, n) ==
  IF n = 0 THEN {}
  ELSE UNION {{<<s>>} \cup {<<s>> \o c : c \in ChainsFrom(D.sites[s].callee, n - 1)} : s \in SitesOf(b)}
MaxDepth == Len(D.bodies) + 1
EndOf(c) == D.sites[c[Len(c)]].callee
PosOf(c, k) == D.sites[c[k]].pos

\* exclusivity of two call chains: decided at the first hop whose positions differ
ChainsExcl(c, d) ==
  LET n == MinLen(c, d)
      same == {k \in 0..n : \A j \in 1..k : PosOf(c, j) = PosOf(d, j)}
      k == CHOOSE x \in same : \A y \in same : y <= x
  IN IF k = Len(c) \/ k = Len(d) THEN FALSE ELSE Excl(PosOf(c, k + 1), PosOf(d, k + 1))

\* methods along a chain, from the callee upwards
Up(c) == [i \in 1..Len(c) |-> D.sites[c[Len(c) + 1 - i]].callee]
\* the method at which two chains ending in the same method merge
MergePoint(c, d) ==
  LET uc == Up(c)  ud == Up(d)
      n == MinLen(uc, ud)
      same == {k \in 1..n : \A j \in 1..k : uc[j] = ud[j]}
      k == CHOOSE x \in same : \A y \in same : y <= x
  IN uc[k]

\* ---------------------------------------------------------------- derived relations (R)

RDepsD(b) ==
  {D.rels[r].a : r \in {x \in Rels : D.rels[x].kind = "before" /\ D.rels[x].rdep /\ D.rels[x].b = b}}
  \cup (IF D.bodies[b].parent # 0 THEN {D.bodies[b].parent} ELSE {})

ImplicitConf(ch, t, u) ==
  \E c \in ch[t], d \in ch[u] :
     /\ EndOf(c) = EndOf(d)
     /\ ~D.bodies[MergePoint(c, d)].nonexcl
     /\ ~ChainsExcl(c, d)
TransExclD(ch, t, u) ==
  LET tt == {t} \cup {EndOf(c) : c \in ch[t]}
      uu == {u} \cup {EndOf(c) : c \in ch[u]}
  IN \E x \in tt, y \in uu : Excl(D.bodies[x].pos, D.bodies[y].pos)
TFD(ch, b) == IF b \in Trans THEN {b} ELSE {t \in Trans : \E c \in ch[t] : EndOf(c) = b}
ExplicitConf(ch, t, u) ==
  \E r \in Rels :
     /\ D.rels[r].kind = "conflict"
     /\ \/ t \in TFD(ch, D.rels[r].a) /\ u \in TFD(ch, D.rels[r].b)
        \/ u \in TFD(ch, D.rels[r].a) /\ t \in TFD(ch, D.rels[r].b)
     /\ ~TransExclD(ch, t, u)

\* priority edges <<first, second>>: `first` is scheduled before `second`
PrioEdgesD(ch) ==
  UNION {
    LET rel == D.rels[r]
        ta == TFD(ch, rel.a)  tb == TFD(ch, rel.b)
    IN IF rel.prio = "L" THEN ta \X tb ELSE IF rel.prio = "R" THEN tb \X ta ELSE {}
    : r \in Rels}
  \cup UNION {TFD(ch, D.bodies[b].parent) \X TFD(ch, b) : b \in {x \in Bodies : D.bodies[x].parent # 0}}

RECURSIVE TC(_, _)
TC(E, n) ==
  IF n = 0 THEN E
  ELSE LET E2 == TC(E, n - 1)
       IN E2 \cup {<<a, b>> \in Trans \X Trans : \E m \in Trans : <<a, m>> \in E2 /\ <<m, b>> \in E2}
Cyclic(E) == \E t \in Trans : <<t, t>> \in TC(E, Cardinality(Trans))

PermsOf(S) == {f \in [1..Cardinality(S) -> S] : \A i, j \in 1..Cardinality(S) : i # j => f[i] # f[j]}
LinExt(S, E) == {f \in PermsOf(S) : \A i, j \in 1..Cardinality(S) : <<f[i], f[j]>> \in E => i < j}

RECURSIVE Reach(_, _, _)
Reach(S, E, n) == IF n = 0 THEN S ELSE Reach(S \cup {y \in Trans : \E x \in S : <<x, y>> \in E \/ <<y, x>> \in E}, E, n - 1)
CompsOf(E) == {Reach({t}, E, Cardinality(Trans)) : t \in Trans}

\* ---------------------------------------------------------------- well-formedness (C11)
\* recursion is decided on the call graph (chains of a recursive design are not enumerated)
CallE == {<<D.sites[s].caller, D.sites[s].callee>> : s \in Sites}
RECURSIVE TCB(_, _)
TCB(E, n) ==
  IF n = 0 THEN E
  ELSE LET E2 == TCB(E, n - 1)
       IN E2 \cup {<<a, b>> \in Bodies \X Bodies : \E m \in Bodies : <<a, m>> \in E2 /\ <<m, b>> \in E2}
RecursiveCG == \E b \in Meths : <<b, b>> \in TCB(CallE, 4)      \* 2^4 >= number of bodies
Recursive(ch) == RecursiveCG
DoubleCall(ch) ==
  \E b \in Bodies : \E c, d \in ch[b] :
     c # d /\ EndOf(c) = EndOf(d) /\ ~D.bodies[EndOf(c)].nonexcl /\ ~ChainsExcl(c, d)
SingleCallerBroken(ch) ==
  \E m \in Meths : D.bodies[m].single /\ TFD(ch, m) # {} /\ Cardinality(SitesTo(m)) > 1
DepConflict(ch, conf) == \E t \in Trans : \E d \in RDepsD(t) \cap Trans : <<t, d>> \in conf

\* Usage rule of the library that is NOT one of C11's listed defects: schedule_before(a, b) with a
\* defined after b is refused ("scheduled before ... but defined afterwards").  Body structure ids are
\* numbered in definition order.  Such designs are outside C11's quantifier: a raise is excused, nothing
\* is demanded (the generator does not produce them; this only keeps replayed / shrunk designs honest).
LateBefore ==
  \E r \in Rels : D.rels[r].kind = "before" /\ D.bodies[D.rels[r].a].sid > D.bodies[D.rels[r].b].sid

VerdictD(ch, conf, prio) ==
  IF Recursive(ch) THEN "recursion"
  ELSE IF DoubleCall(ch) THEN "doubleCall"
  ELSE IF Cyclic(prio) THEN "cyclicPriority"
  ELSE IF DepConflict(ch, conf) THEN "depConflict"
  ELSE IF SingleCallerBroken(ch) THEN "singleCaller"
  ELSE "ok"

Derive ==
  LET rec == RecursiveCG
      ch == [b \in Bodies |-> IF rec THEN {} ELSE ChainsFrom(b, MaxDepth)]
      conf == IF rec THEN {} ELSE {<<t, u>> \in Trans \X Trans : t # u /\ (ImplicitConf(ch, t, u) \/ ExplicitConf(ch, t, u))}
      prio == PrioEdgesD(ch)
      verdict == VerdictD(ch, conf, prio)
      tree == [t \in Trans |-> {EndOf(c) : c \in ch[t]}]
  IN [chains |-> ch, conf |-> conf, prio |-> prio, verdict |-> verdict,
      orders |-> IF verdict = "ok" THEN LinExt(Trans, prio) ELSE {},
      comps |-> IF verdict = "ok" THEN CompsOf(conf) ELSE {},
      tree |-> tree,
      tf |-> [b \in Bodies |-> TFD(ch, b)],
      deps |-> [t \in Trans |-> UNION {RDepsD(b) : b \in {t} \cup tree[t]}]]

\* ---------------------------------------------------------------- one cycle
\* a valuation v is [inp, args, mouts]; the context X of a cycle is computed once from it:
\*   X.v, X.on (sites whose conditions hold), X.rdy (ready bodies), X.reach (per transaction the
\*   methods it reaches through enabled calls), X.stat (transactions whose whole static call tree
\*   is ready and whose would-be-active calls pass argument validation)
Ready(b, v) == Bit(v, D.bodies[b].ready) = 1 /\ Holds(D.bodies[b].pos, v)
ArgValV(s, v) ==
  CASE D.sites[s].argk = "i" -> v.args[D.sites[s].argv]
    [] D.sites[s].argk = "c" -> D.sites[s].argv
    [] OTHER -> 0
BitXor2(a, b) == LET x(p, q) == IF p = q THEN 0 ELSE 1
                 IN x(a % 2, b % 2) + 2 * x(a \div 2, b \div 2)
\* the value handed over at the k-th site of call chain c: a forwarding site passes on what its caller received
\* at the previous site of the chain (the first site of a chain belongs to a transaction and never forwards)
RECURSIVE ChainArg(_, _, _)
ChainArg(c, k, v) ==
  IF D.sites[c[k]].argk = "f"
  THEN IF k = 1 THEN 0 ELSE BitXor2(ChainArg(c, k - 1, v), D.sites[c[k]].argv)
  ELSE ArgValV(c[k], v)
Context(v) ==
  LET on == {s \in Sites : Holds(D.sites[s].pos, v)}
      rdy == {b \in Bodies : Ready(b, v)}
      chon(c) == \A i \in 1..Len(c) : c[i] \in on
      valid(t) == \A c \in R.chains[t] :
                    (D.bodies[EndOf(c)].validate = 1 /\ chon(c)) => ChainArg(c, Len(c), v) # 3
  IN [v |-> v, on |-> on, rdy |-> rdy,
      reach |-> [t \in Trans |-> {EndOf(c) : c \in {x \in R.chains[t] : chon(x)}}],
      stat |-> {t \in Trans : ({t} \cup R.tree[t]) \subseteq rdy /\ valid(t)}]

ArgVal(s) == ArgValV(s, X.v)
TransFor(b) == R.tf[b]
\* fully enabled (C03): own readiness, readiness of the whole static call tree (calls under false
\* conditions included), argument validation of the calls that would be active, run of every
\* ready-dependency (enclosing body of a nested body, schedule_before(ready_dependent=True))
Enabled(t, runB) == t \in X.stat /\ \A d \in R.deps[t] : runB[d]

\* method run implied by a set of running transactions
RunBBy(acc) == [b \in Bodies |-> IF b \in Trans THEN b \in acc ELSE \E t \in acc : b \in X.reach[t]]

\* eager scheduler: scan the transactions in priority order
RanBy(acc, d) == IF d \in Trans THEN d \in acc ELSE \E u \in acc : d \in X.reach[u]
EnabledBy(t, acc) == t \in X.stat /\ \A d \in R.deps[t] : RanBy(acc, d)
RECURSIVE Scan(_, _, _)
Scan(po, k, acc) ==
  IF k > Len(po) THEN acc
  ELSE LET t == po[k]
           go == EnabledBy(t, acc) /\ ~\E u \in acc : <<t, u>> \in R.conf
       IN Scan(po, k + 1, IF go THEN acc \cup {t} ELSE acc)
EagerRun(po) == Scan(po, 1, {})

\* ---------------------------------------------------------------- property clauses
\* O = [runT, runB, din (function Meths -> value), sres (function Sites -> value)]
Active(O, s) == O.runB[D.sites[s].caller] /\ s \in X.on
ActiveTo(O, m) == {s \in SitesTo(m) : Active(O, s)}

\* C01
ExclusiveOnce(O) == \A m \in Excls : Cardinality(ActiveTo(O, m)) <= 1
JointRunOnlyIfExcl(O) == \A t, u \in O.runT : <<t, u>> \notin R.conf
\* C02
SameTxnRel(r) == TransFor(D.rels[r].a) \cap TransFor(D.rels[r].b) # {}
ConflictNeverJoint(O) ==
  \A r \in Rels : (D.rels[r].kind = "conflict" /\ ~SameTxnRel(r)) => ~(O.runB[D.rels[r].a] /\ O.runB[D.rels[r].b])
ConflictNeverJointSameTxn(O) ==
  \A r \in Rels : (D.rels[r].kind = "conflict" /\ SameTxnRel(r)) => ~(O.runB[D.rels[r].a] /\ O.runB[D.rels[r].b])
\* C03
RunImpliesEnabled(O) == \A t \in O.runT : Enabled(t, O.runB)
\* C04
MethodRunIffActiveSite(O) == \A m \in Meths : O.runB[m] <=> ActiveTo(O, m) # {}
NestedRunsOnlyWithParent(O) == \A b \in Bodies : (D.bodies[b].parent # 0 /\ O.runB[b]) => O.runB[D.bodies[b].parent]
\* C05
RECURSIVE OrAll(_)
BitOr2(a, b) == LET o(x, y) == IF x + y > 0 THEN 1 ELSE 0
                IN o(a % 2, b % 2) + 2 * o(a \div 2, b \div 2)
OrAll(S) == IF S = {} THEN 0 ELSE LET x == CHOOSE y \in S : TRUE IN BitOr2(x, OrAll(S \ {x}))
\* the argument an active site hands over, judged on the observation: a forwarding site passes on the observed
\* data_in of its (running) caller
ArgValO(O, s) == IF D.sites[s].argk = "f" THEN BitXor2(O.din[D.sites[s].caller], D.sites[s].argv) ELSE ArgVal(s)
ArgRouting(O) ==
  \A m \in Meths : (D.bodies[m].hasarg /\ O.runB[m]) =>
     IF D.bodies[m].nonexcl
     THEN O.din[m] = (IF D.bodies[m].comb = "orx" THEN BitXor2(OrAll({ArgValO(O, s) : s \in ActiveTo(O, m)}), 1)
                      ELSE OrAll({ArgValO(O, s) : s \in ActiveTo(O, m)}))
     ELSE \E s \in ActiveTo(O, m) : O.din[m] = ArgValO(O, s)
ResultRouting(O) == \A s \in Sites : O.sres[s] = X.v.mouts[D.sites[s].callee]
\* C07 (eager scheduler)
NoWastedCycle(O) ==
  \A t \in Trans : (Enabled(t, O.runB) /\ t \notin O.runT) => \E u \in O.runT : <<t, u>> \in R.conf
\* C08
PrioPairs ==
  UNION {LET rel == D.rels[r] IN
         IF rel.kind = "conflict" /\ rel.prio = "L" THEN TransFor(rel.a) \X TransFor(rel.b)
         ELSE IF rel.kind = "conflict" /\ rel.prio = "R" THEN TransFor(rel.b) \X TransFor(rel.a) ELSE {}
         : r \in Rels}
PriorityRespected(O) ==
  \A p \in PrioPairs :
     LET hi == p[1]  lo == p[2] IN
     (hi # lo /\ <<hi, lo>> \in R.conf /\ Enabled(hi, O.runB) /\ Enabled(lo, O.runB) /\ lo \in O.runT)
        => \E w \in O.runT : w # lo /\ <<hi, w>> \in R.conf
\* C09 (round-robin scheduler), per cycle part
AtMostOnePerComponent(O) == \A c \in R.comps : Cardinality(c \cap O.runT) <= 1
SomeoneRunsIfEnabled(O) == \A c \in R.comps : (\E t \in c : Enabled(t, O.runB)) => c \cap O.runT # {}
====
