---- MODULE Condition ----
\* transactron.lib.simultaneous.condition() (property C12).  D describes one enclosing body
\* (transaction, or method called by one transaction) with a tree of condition blocks:
\*   D.blocks[b]    = [encl (0 = the enclosing body, else the branch containing the block),
\*                     nonblocking, priority, branches (sequence of branch ids, in program order)]
\*   D.branches[r]  = [block, cond (input index, 0 = default branch), calls (sequence of targets),
\*                     sub (nested block or 0)]
\*   D.targets[t]   = [ready (input index, 0 = constant 1)],  D.pcalls = targets called by the body itself
\* L is one cycle: [inp, prun, bw (branch witness), trun, trdy, tdin]
EXTENDS Naturals, Sequences, FiniteSets
VARIABLES D, L

Bit(i) == IF i = 0 THEN 1 ELSE L.inp[i]
Blocks == 1..Len(D.blocks)
Branches == 1..Len(D.branches)
Targets == 1..Len(D.targets)
SeqSet(s) == {s[i] : i \in 1..Len(s)}
BrSet(b) == SeqSet(D.blocks[b].branches)
BlockOf(r) == D.branches[r].block
IsDefault(r) == D.branches[r].cond = 0
HasDefault(b) == \E r \in BrSet(b) : IsDefault(r)
SomeCondHolds(b) == \E x \in BrSet(b) : ~IsDefault(x) /\ Bit(D.branches[x].cond) = 1
CondHolds(r) == IF IsDefault(r) THEN ~SomeCondHolds(BlockOf(r)) ELSE Bit(D.branches[r].cond) = 1
CalleesReady(r) == \A t \in SeqSet(D.branches[r].calls) : L.trdy[t] = 1
Admissible(r) == CondHolds(r) /\ CalleesReady(r)
\* A branch has run when its witness (a comb assignment inside the branch) is up, or when one of the methods it
\* calls executes with this branch's argument (every call site passes its own branch id, the enclosing body's own
\* calls pass 7; the targets are exclusive methods, so data_in identifies the caller).
BrRun(r) == \/ L.bw[r] = 1
            \/ \E t \in SeqSet(D.branches[r].calls) : L.trun[t] = 1 /\ L.tdin[t] = r
EnclRun(b) == IF D.blocks[b].encl = 0 THEN L.prun = 1 ELSE BrRun(D.blocks[b].encl)
\* every hop of the call chain from the harness transaction to a method-parent is taken (D.chain[i] =
\* [kind, cond]; "plain" hops have cond = 0)
ChainHolds == \A i \in 1..Len(D.chain) : Bit(D.chain[i].cond) = 1

\* ---- the sentences of C12
BranchNeedsParentCondAndCallees ==
  \A r \in Branches : BrRun(r) => EnclRun(BlockOf(r)) /\ CondHolds(r) /\ CalleesReady(r)
AtMostOneBranch == \A b \in Blocks : Cardinality({r \in BrSet(b) : BrRun(r)}) <= 1
DefaultOnlyIfNoCond == \A r \in Branches : (IsDefault(r) /\ BrRun(r)) => ~SomeCondHolds(BlockOf(r))
ParentNeedsBranchUnlessNonblocking ==
  \A b \in Blocks : EnclRun(b) =>
     \/ \E r \in BrSet(b) : BrRun(r)
     \/ D.blocks[b].nonblocking /\ ~SomeCondHolds(b)
PriorityFirstAdmissible ==
  \A b \in Blocks : D.blocks[b].priority =>
     \A j \in 1..Len(D.blocks[b].branches) : BrRun(D.blocks[b].branches[j]) =>
        \A i \in 1..(j - 1) : ~Admissible(D.blocks[b].branches[i])

\* ---- model (stronger than the property; used for conformance and by the exhaustive check)
RECURSIVE BlockCanRun(_)
BranchCanRun(r) == Admissible(r) /\ (D.branches[r].sub = 0 \/ BlockCanRun(D.branches[r].sub))
BlockCanRun(b) ==
  \/ \E r \in BrSet(b) : BranchCanRun(r)
  \/ D.blocks[b].nonblocking /\ ~HasDefault(b) /\ ~SomeCondHolds(b)
BodyCanRun ==
  /\ Bit(D.pready) = 1
  /\ D.pkind = "M" => Bit(D.cready) = 1
  /\ \A t \in SeqSet(D.pcalls) : L.trdy[t] = 1
  /\ BlockCanRun(1)
ModelBodyRunsIffCan == (L.prun = 1) <=> (BodyCanRun /\ ChainHolds)
\* a running enclosing body runs one runnable branch of each of its blocks (the first one with priority)
ModelBranchChoice ==
  \A b \in Blocks : EnclRun(b) =>
     IF \E r \in BrSet(b) : BranchCanRun(r)
     THEN \E r \in BrSet(b) : BrRun(r) /\ BranchCanRun(r)
     ELSE \A r \in BrSet(b) : ~BrRun(r)
CalledBy(t) == {r \in Branches : t \in SeqSet(D.branches[r].calls) /\ BrRun(r)}
ModelTargetRuns ==
  \A t \in Targets : (L.trun[t] = 1) <=> ((L.prun = 1 /\ t \in SeqSet(D.pcalls)) \/ CalledBy(t) # {})
ModelTargetArg ==
  \A t \in Targets : (L.trun[t] = 1 /\ CalledBy(t) # {}) => L.tdin[t] \in CalledBy(t)
\* the witness and the callees of a branch agree
ModelWitness == \A r \in Branches : BrRun(r) => L.bw[r] = 1
ModelTargetReady == \A t \in Targets : (L.trdy[t] = 1) <=> (IF D.targets[t].ready = 0 THEN TRUE ELSE L.inp[D.targets[t].ready] = 1)
====
