---- MODULE TxnCoreMC ----
\* Exhaustive check of the scheduling MODEL of TxnCore (no implementation involved): for every
\* design of the universe file, every admissible priority order (eager) or arbiter order and
\* reachable pointer state (round robin), and every valuation of the control inputs, the run sets
\* the model produces satisfy the property clauses C01-C04, C07, C08 (eager) / C09 (round robin).
EXTENDS Naturals, Sequences, FiniteSets, TLC, Json, IOUtils
Designs == JsonDeserialize(IOEnv.TRACE_FILE)
VARIABLES tid, R, X, ord, lastg, wait, status
vars == <<tid, R, X, ord, lastg, wait, status>>
C == INSTANCE TxnCore WITH D <- Designs[tid], R <- R, X <- X
Dz == Designs[tid]
Eager == Dz.sched = "eager"

\* all valuations of the control inputs; arguments take the two interesting values (valid / invalid)
Vals == {[inp |-> i, args |-> a, mouts |-> [b \in 1..Len(Dz.bodies) |-> 1]] :
            i \in [1..Dz.nin -> {0, 1}], a \in [1..Dz.nargs -> {1, 3}]}

\* ---- model runs
ReqSet(c) == {t \in c : C!EnabledBy(t, {})}
CompSeq(c) == SelectSeq(ord, LAMBDA t : t \in c)
RRGrant(c) ==
  LET cs == CompSeq(c)
      n == Len(cs)
      lg == c \cap lastg
      p == IF lg = {} THEN 1 ELSE CHOOSE i \in 1..n : cs[i] \in lg
      req == ReqSet(c)
      At(k) == cs[((p + k - 1) % n) + 1]
      hits == {k \in 1..n : At(k) \in req}
  IN IF hits = {} THEN {} ELSE {At(C!MinOf(hits))}
RunT == IF Eager THEN C!EagerRun(ord) ELSE UNION {RRGrant(c) : c \in R.comps}
RunB == C!RunBBy(RunT)
O == [runT |-> RunT, runB |-> RunB]
CompOf(t) == CHOOSE c \in R.comps : t \in c

Init == /\ tid \in 1..Len(Designs) /\ R = <<>> /\ X = <<>> /\ ord = <<>> /\ lastg = {} /\ wait = <<>>
        /\ status = "prep"
Prep == /\ status = "prep"
        /\ R' = C!Derive
        /\ status' = "order"
        /\ UNCHANGED <<tid, X, ord, lastg, wait>>
Order == /\ status = "order" /\ R.verdict = "ok"
         /\ ord' \in (IF Eager THEN R.orders ELSE C!PermsOf(C!Trans))
         /\ wait' = [t \in C!Trans |-> 0]
         /\ status' = "run"
         /\ UNCHANGED <<tid, R, X, lastg>>
\* one clock cycle: pick a valuation; the invariants look at the cycle just chosen
Cycle == /\ status \in (IF Eager THEN {"run"} ELSE {"run", "cyc"})   \* the eager scheduler has no state
         /\ \E v \in Vals : X' = C!Context(v)
         /\ status' = "cyc"
         \* pointer / wait bookkeeping of the cycle that is being left
         /\ IF status = "cyc" /\ ~Eager
            THEN /\ lastg' = {t \in C!Trans : IF CompOf(t) \cap RunT # {} THEN t \in RunT ELSE t \in lastg}
                 /\ wait' = [t \in C!Trans |-> IF C!EnabledBy(t, {}) /\ t \notin RunT THEN wait[t] + 1 ELSE 0]
            ELSE UNCHANGED <<lastg, wait>>
         /\ UNCHANGED <<tid, R, ord>>
Spec == Init /\ [][Prep \/ Order \/ Cycle]_vars

InCycle == status = "cyc"
ExclusiveOnce == InCycle => C!ExclusiveOnce(O)
JointRunOnlyIfExcl == InCycle => C!JointRunOnlyIfExcl(O)
ConflictNeverJoint == InCycle => C!ConflictNeverJoint(O)
RunImpliesEnabled == InCycle => C!RunImpliesEnabled(O)
MethodRunIffActiveSite == InCycle => C!MethodRunIffActiveSite(O)
NestedRunsOnlyWithParent == InCycle => C!NestedRunsOnlyWithParent(O)
NoWastedCycle == (InCycle /\ Eager) => C!NoWastedCycle(O)
PriorityRespected == (InCycle /\ Eager) => C!PriorityRespected(O)
AtMostOnePerComponent == (InCycle /\ ~Eager) => C!AtMostOnePerComponent(O)
SomeoneRunsIfEnabled == (InCycle /\ ~Eager) => C!SomeoneRunsIfEnabled(O)
BoundedWait == (InCycle /\ ~Eager) =>
  \A t \in C!Trans : (C!EnabledBy(t, {}) /\ t \notin RunT) => wait[t] + 1 <= Cardinality(CompOf(t)) - 1
====
