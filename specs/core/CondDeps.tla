---- MODULE CondDeps ----
\* Intended combinational dependencies of a design that uses condition() (C10).  D is a design of
\* vlib/condgen.py (see Condition.tla): an enclosing body (transaction, or method reached from the harness
\* transaction through a chain of plain / m.If / enable_call hops), a tree of condition blocks, branches calling
\* target methods, some of which validate their arguments.  Nodes are names of control signals; an edge
\* <<x, y>> says "x is computed from y in the same cycle".  All inputs (readiness inputs, branch conditions,
\* chain conditions, call arguments) are leaves: by the documented rules readiness depends on local state only,
\* and argument validation is a function of the arguments alone.
EXTENDS Naturals, Sequences, FiniteSets
VARIABLE D

Blocks == 1..Len(D.blocks)
Branches == 1..Len(D.branches)
Targets == 1..Len(D.targets)
SeqSet(s) == {s[i] : i \in 1..Len(s)}
BrSet(b) == SeqSet(D.blocks[b].branches)
N(kind, i) == <<kind, i>>
\* a branch can run (brnb) when its callees are ready and accept its arguments, and a nested block can run
BranchEdges ==
  UNION {{<<N("brnb", r), N("trdy", t)>> : t \in SeqSet(D.branches[r].calls)}
         \cup {<<N("brnb", r), N("tval", t)>> : t \in {x \in SeqSet(D.branches[r].calls) : D.targets[x].validate = 1}}
         \cup (IF D.branches[r].sub = 0 THEN {} ELSE {<<N("brnb", r), N("blknb", D.branches[r].sub)>>})
         : r \in Branches}
BlockEdges == UNION {{<<N("blknb", b), N("brnb", r)>> : r \in BrSet(b)} : b \in Blocks}
\* the enclosing body is ready when its own callees are and block 1 can run; the (caller) transaction runs when it
\* is runnable; the body runs when its caller does and every hop of the chain is taken (inputs)
BodyEdges ==
  {<<N("prdy", 0), N("blknb", 1)>>, <<N("crun", 0), N("prdy", 0)>>, <<N("prun", 0), N("crun", 0)>>}
  \cup {<<N("prdy", 0), N("trdy", t)>> : t \in SeqSet(D.pcalls)}
\* a branch runs inside its running enclosing body / branch; with priority, later branches look at earlier ones
RunEdges ==
  UNION {{<<N("brun", r), N("brnb", r)>>,
          <<N("brun", r), IF D.blocks[D.branches[r].block].encl = 0 THEN N("prun", 0)
                          ELSE N("brun", D.blocks[D.branches[r].block].encl)>>}
         \cup {<<N("brun", r), N("brnb", x)>> : x \in BrSet(D.branches[r].block)}
         \cup {<<N("trun", t), N("brun", r)>> : t \in SeqSet(D.branches[r].calls)}
         : r \in Branches}
  \cup {<<N("trun", t), N("prun", 0)>> : t \in SeqSet(D.pcalls)}
Edges == BranchEdges \cup BlockEdges \cup BodyEdges \cup RunEdges
Nodes == {e[1] : e \in Edges} \cup {e[2] : e \in Edges}
\* reachability by iterated squaring
RECURSIVE Closure(_, _)
Closure(E, n) ==
  IF n = 0 THEN E
  ELSE LET E2 == Closure(E, n - 1)
       IN E2 \cup {<<p[1][1], p[2][2]>> : p \in {q \in E2 \X E2 : q[1][2] = q[2][1]}}
Acyclic == \A n \in Nodes : <<n, n>> \notin Closure(Edges, 5)
====
