---- MODULE RoundRobin ----
\* Round-robin arbiters of transactron/utils/amaranth_ext/elaboratables.py (property C39):
\*   kind "onehot"     = OneHotRoundRobin(count): grant is COMBINATIONAL in `requests`, the pointer
\*                       (`grant_reg`, one-hot, reset value 1 = index 0) is the registered last grant;
\*   kind "registered" = RoundRobin(count=..): `grant` (binary index, reset 0) and `valid` (reset 0)
\*                       are REGISTERS: what is visible in cycle i was computed from the requests
\*                       sampled at the end of cycle i-1.
\* Functional style (state and configuration are values; one clock cycle = CNext) so that the
\* module is reusable: the round-robin transaction scheduler (C09) is `OneHotRoundRobin` behind
\* `grant[k] & valid`; use RRPick / Pick / CNext with count = size of the conflict component.
\*
\* Requests and grants are SETS of input indices 0..count-1 (bit k of the port <-> k \in set).
\* State: [g |-> set of indices (the one-hot pointer register / {grant index}), v |-> registered valid
\*        (always FALSE for "onehot", which has no such register)].
EXTENDS Naturals, FiniteSets

Kinds == {"onehot", "registered"}
Configs == {[kind |-> k, count |-> n] : k \in Kinds, n \in 1..6}
Inputs(cfg) == 0..(cfg.count - 1)
ReqSets(cfg) == SUBSET Inputs(cfg)

\* reset state: grant_reg = Signal.like(grant(init=1)) -> {0};  RoundRobin.grant init 0 -> {0}
CInit(cfg) == [g |-> {0}, v |-> FALSE]

\* ---- the selection, shaped like the code ------------------------------------------------
\* Both classes run, for pointer i, the statement list
\*     for j in (i-1, i-2, .., 0, count-1, .., i+1):  if requests[j]: grant = j
\* after the default `grant = pointer`; in Amaranth the LAST assignment whose condition holds wins.
\* Order(n, i)[k] is the k-th j of that list (k = 1..n-1).
Order(n, i) == [k \in 1..(n - 1) |-> (i + n - k) % n]
RRPick(n, i, R) ==
  LET hits == {k \in 1..(n - 1) : Order(n, i)[k] \in R}
  IN IF hits = {} THEN i                      \* nobody else asks: pointer/grant is held
     ELSE Order(n, i)[CHOOSE k \in hits : \A k2 \in hits : k2 <= k]
\* OneHotSwitchDynamic(grant_reg, default=True): a case per one-hot value, default -> grant = 0.
\* (registered kind: Switch(grant) has a Case for every representable in-range value.)
Pick(cfg, G, R) ==
  IF Cardinality(G) = 1 /\ G \subseteq Inputs(cfg)
  THEN {RRPick(cfg.count, CHOOSE i \in G : TRUE, R)}
  ELSE {}

\* ---- ports visible in a cycle in which request set R is applied ------------------------------
\* onehot: raw `grant` is Pick (equals the held pointer when nobody requests -- named deviation
\* from the sentence "otherwise grants none": the *qualified* grant `grant & valid`, which is what
\* the scheduler and the repository's test use, is none; the raw port is a don't-care when ~valid).
GrantOut(cfg, st, R) == IF cfg.kind = "onehot" THEN Pick(cfg, st.g, R) ELSE st.g
ValidOut(cfg, st, R) == IF cfg.kind = "onehot" THEN R # {} ELSE st.v
\* qualified grant: the set of inputs that are told "you run" in this cycle
Granted(cfg, st, R) == IF ValidOut(cfg, st, R) THEN GrantOut(cfg, st, R) ELSE {}

\* ---- clock edge ---------------------------------------------------------------------------------
CNext(cfg, st, R) ==
  [g |-> Pick(cfg, st.g, R),                                   \* grant_reg <= grant / grant <= pick
   v |-> IF cfg.kind = "onehot" THEN FALSE ELSE R # {}]        \* valid <= requests.any()

\* The decision taken from the requests R of a cycle (who is served for that cycle): for "onehot" it
\* is visible in the same cycle, for "registered" one cycle later (as st'.g when st'.v).
Decision(cfg, st, R) == IF R = {} THEN {} ELSE Pick(cfg, st.g, R)

\* ---- bounded-wait history (kept outside the component state; finite: saturates at count) --------
\* wait[k] = number of consecutive cycles, up to and including the last one, in which input k
\* requested and the decision of that cycle went to somebody else.
Wait0(cfg) == [k \in Inputs(cfg) |-> 0]
WaitNext(cfg, wait, R, D) ==
  [k \in Inputs(cfg) |-> IF k \in R /\ k \notin D
                          THEN (IF wait[k] < cfg.count THEN wait[k] + 1 ELSE wait[k])
                          ELSE 0]
\* "a continuously requesting input is served within count cycles": it is passed over at most
\* count-1 times in a row (the count-th decision is its own).
BoundedWait(cfg, wait) == \A k \in Inputs(cfg) : wait[k] <= cfg.count - 1

\* ---- properties of the model (checked by RoundRobinMC) --------------------------------------------
TypeOK(cfg, st) ==
  /\ st.g \subseteq Inputs(cfg) /\ Cardinality(st.g) = 1       \* pointer stays one-hot / in range
  /\ st.v \in BOOLEAN /\ (cfg.kind = "onehot" => ~st.v)

\* nearest requester strictly after pointer i in cyclic order (independent restatement of RRPick)
CyclicNext(n, i, R) ==
  IF R \ {i} = {} THEN i
  ELSE LET d == CHOOSE d \in 1..(n - 1) : ((i + d) % n) \in R /\ \A e \in 1..(d - 1) : ((i + e) % n) \notin R
       IN (i + d) % n

\* the sentences of C39, on one transition st --R--> st2 with the ports seen while R was applied
StepProp(cfg, st, R, st2) ==
  LET G == GrantOut(cfg, st, R)  V == ValidOut(cfg, st, R) IN
  /\ cfg.kind = "onehot" =>
       /\ R # {} => V /\ Cardinality(G) = 1 /\ G \subseteq R    \* exactly one requester, one-hot
       /\ R = {} => ~V /\ Granted(cfg, st, R) = {}                \* nobody granted, valid low
       /\ st2.g = G                                                 \* pointer = last (raw) grant
  /\ cfg.kind = "registered" =>
       /\ st2.v <=> R # {}                                          \* valid one cycle after a request
       /\ st2.v => Cardinality(st2.g) = 1 /\ st2.g \subseteq R      \* designates a requester of the sampled cycle
       /\ R = {} => st2.g = st.g                                    \* documented: grant holds when idle
  \* rotation order (docstring of RoundRobin; same selection in both classes)
  /\ \A i \in st.g : Pick(cfg, st.g, R) = {CyclicNext(cfg.count, i, R)}
====
