---- MODULE SimGroupsMC ----
\* Model-level check of SimGroups.tla over a list of designs (IOEnv.TRACE_FILE) and every input valuation:
\* the work-list computation of the library (as transcribed in AlgGroups) yields the declaratively defined groups,
\* and the per-cycle rules always admit some outcome.
EXTENDS Naturals, Sequences, FiniteSets, TLC, Json, IOUtils
Designs == JsonDeserialize(IOEnv.TRACE_FILE)
VARIABLES did, inp
vars == <<did, inp>>
D == Designs[did]
L == [inp |-> inp, trun |-> [t \in 1..D.nt |-> 0], mrun |-> [m \in 1..Len(D.mready) |-> 0]]
S == INSTANCE SimGroups
Init == did \in 1..Len(Designs) /\ inp = [i \in 1..Designs[did].nin |-> 0]
Next == \E v \in [1..D.nin -> {0, 1}] : inp' = v /\ UNCHANGED did
Spec == Init /\ [][Next]_vars
AlgorithmMeetsDefinition == S!AlgorithmMeetsDefinition
Satisfiable == S!Unsatisfiable \/ S!Satisfiable
GroupsAreIndepFreeAndConnected == \A g \in S!Groups : S!IndepFree(g) /\ S!Connected(g) /\ Cardinality(g) >= 2
====
