---- MODULE DepManagerMC ----
\* Exhaustive model of DependencyManager: every configuration in Configs, every
\* add/get/get_optional history with at most MaxDeps stored dependencies (the state space
\* is finite because gets and rejected adds do not grow the state).  `last` is the label of
\* the transition, hidden from the fingerprint by VIEW.  Every transition is printed as
\* one EDGE line and replayed into the real class by props/C42.py.
EXTENDS Naturals, Sequences, FiniteSets, TLC, Json
CONSTANTS MaxDeps, Vals, Part, NParts, Small
VARIABLES cfg, st, last
D == INSTANCE DepManager
vars == <<cfg, st, last>>

B == BOOLEAN
KD(kind, lock, cache, ev, def) == [kind |-> kind, lock |-> lock, cache |-> cache, ev |-> ev, def |-> def]
SimpleKDs == {KD("simple", l, c, e, d) : l \in B, c \in B, e \in B, d \in {0, 7}}
OtherKDs == {KD(k, l, c, e, 0) : k \in {"list", "unifier", "sum", "max"}, l \in B, c \in B, e \in B}
\* every key type alone (all flag combinations) ...
Singles == {<<kd>> : kd \in SimpleKDs \cup OtherKDs}
\* ... pairs of keys with different kinds / flags in one manager ...
\* (Small = TRUE, quick tier: the first key of a pair is always a caching one)
P1 == {KD("simple", l, c, TRUE, 7) : l \in B, c \in (IF Small THEN {TRUE} ELSE B)}
P2 == {KD("list", l, c, TRUE, 0) : l \in B, c \in B} \cup {KD("unifier", l, FALSE, FALSE, 0) : l \in B}
        \cup {KD("sum", l, TRUE, TRUE, 0) : l \in B} \cup {KD("simple", l, TRUE, FALSE, 0) : l \in B}
Pairs == {<<a, b>> : a \in P1, b \in P2}
\* ... and one manager with three keys
Triples == {<<KD("simple", TRUE, TRUE, FALSE, 0), KD("list", TRUE, TRUE, TRUE, 0), KD("sum", FALSE, TRUE, TRUE, 0)>>}
AllConfigs == Singles \cup Pairs \cup Triples
\* the configurations are split over NParts independent TLC runs (run in parallel by the driver)
Bit(b) == IF b THEN 1 ELSE 0
KindIdx(k) == CASE k = "simple" -> 0 [] k = "list" -> 1 [] k = "unifier" -> 2 [] k = "sum" -> 3 [] OTHER -> 4
Code(kd) == KindIdx(kd.kind) + 5 * Bit(kd.lock) + 10 * Bit(kd.cache) + 20 * Bit(kd.ev) + 40 * Bit(kd.def # 0)
Configs == {c \in AllConfigs : D!SumSeq([i \in 1..Len(c) |-> Code(c[i]) * i]) % NParts = Part}

Ops == {[op |-> "add", key |-> k, val |-> v] : k \in D!Keys(cfg), v \in Vals}
         \cup {[op |-> o, key |-> k, val |-> 0] : o \in {"get", "getopt"}, k \in D!Keys(cfg)}

\* compact state identity printed on edges: (deps, got, cache present) determines the state
\* (see D!Inv); printing whole states made ToJson the bottleneck
Id(s) == [d |-> s.deps, g |-> s.got, c |-> [k \in D!Keys(cfg) |-> s.cache[k].has]]
Init == /\ cfg \in Configs /\ st = D!CInit(cfg)
        /\ last = [op |-> [op |-> "none", key |-> 0, val |-> 0], res |-> D!NoneRes]
        /\ PrintT("INIT " \o ToJson([cfg |-> cfg, st |-> Id(st)]))
Do(op) ==
  LET r == D!Apply(cfg, st, op)
  IN /\ D!TotalDeps(cfg, r.st) <= MaxDeps
     /\ st' = r.st
     /\ last' = [op |-> op, res |-> r.res]
     /\ UNCHANGED cfg
Next == \E op \in Ops : Do(op)
Spec == Init /\ [][Next]_vars
View == <<cfg, st>>
Inv == D!Inv(cfg, st)
StepOK == [][D!StepProp(cfg, st, last'.op, last'.res, st')]_vars
Emit == PrintT("EDGE " \o ToJson([cfg |-> cfg, from |-> Id(st), lab |-> last', to |-> Id(st')]))
====
