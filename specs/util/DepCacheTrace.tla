---- MODULE DepCacheTrace ----
\* Batch validation of get() histories recorded from real DependentCache objects against DepCache.tla.
\* One trace line = one call  [k, c, kw, res, made]  (made: constructor completions observed during the call).
EXTENDS Naturals, Sequences, FiniteSets, TLC, Json, IOUtils
Traces == JsonDeserialize(IOEnv.TRACE_FILE)
VARIABLES tid, l, st, verdict
vars == <<tid, l, st, verdict>>
D == INSTANCE DepCache
cfg == Traces[tid].cfg
Line == Traces[tid].ops[l]
Model == D!Get(cfg, st, Line.k, Line.c, Line.kw)
\* observed constructor completions, keyword arguments as the set the cache keys on
ObsMade == [i \in 1..Len(Line.made) |-> [c |-> Line.made[i].c, kw |-> D!KwSet(Line.made[i].kw), id |-> Line.made[i].id,
                                         deps |-> Line.made[i].deps, k |-> Line.made[i].k]]
ModelResult == Line.res.kind = Model.res.kind /\ Line.res.id = Model.res.id
ModelMade == Len(ObsMade) = Len(Model.made) /\ \A i \in 1..Len(ObsMade) : ObsMade[i] = Model.made[i]
SameObject == D!SameObject(cfg, st, Line.k, Line.c, Line.kw, Line.res, ObsMade)
ConstructOnce == D!ConstructOnce(cfg, st, Line.k, Line.c, Line.kw, Line.res, ObsMade)
CacheHandedOver == D!CacheHandedOver(cfg, st, Line.k, Line.c, Line.kw, Line.res, ObsMade)
TooManyPositional == D!TooManyPositional(cfg, st, Line.k, Line.c, Line.kw, Line.res, ObsMade)
ClauseNames == {"ModelResult", "ModelMade", "SameObject", "ConstructOnce", "CacheHandedOver", "TooManyPositional"}
Holds(n) == CASE n = "ModelResult" -> ModelResult
              [] n = "ModelMade" -> ModelMade
              [] n = "SameObject" -> SameObject
              [] n = "ConstructOnce" -> ConstructOnce
              [] n = "CacheHandedOver" -> CacheHandedOver
              [] OTHER -> TooManyPositional
Failing == {n \in ClauseNames : ~Holds(n)}
Init == tid \in 1..Len(Traces) /\ l = 1 /\ st = D!CInit(Traces[tid].ncaches) /\ verdict = "go"
Step == /\ verdict = "go" /\ l <= Len(Traces[tid].ops)
        /\ IF Failing = {}
           THEN l' = l + 1 /\ st' = Model.st /\ UNCHANGED verdict
           ELSE /\ verdict' = "reject"
                /\ PrintT("REJECT " \o ToJson([tid |-> tid, line |-> l, clauses |-> Failing,
                                               expected |-> [res |-> Model.res, made |-> Model.made],
                                               state |-> [cache |-> st.cache, n |-> st.n]]))
                /\ UNCHANGED <<l, st>>
        /\ UNCHANGED tid
Fin == /\ verdict = "go" /\ l = Len(Traces[tid].ops) + 1
       /\ verdict' = "accept" /\ PrintT("ACCEPT " \o ToJson([tid |-> tid]))
       /\ UNCHANGED <<tid, l, st>>
Spec == Init /\ [][Step \/ Fin]_vars
====
