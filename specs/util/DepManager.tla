---- MODULE DepManager ----
\* DependencyManager (transactron/utils/dependencies.py) with SimpleKey / ListKey /
\* UnifierKey (transactron/lib/dependencies.py) and user-defined keys (property C42).
\* Functional style: configuration (the keys of one manager) and state are values, one
\* API call = one application of Apply.
\*
\* A key descriptor is a record
\*   [kind, lock, cache, ev, def]
\*     kind  : "simple" | "list" | "unifier" | "sum" | "max"   ("sum"/"max" = DependencyKey
\*             subclasses with a custom `combine`; "max" raises on an empty list)
\*     lock  : lock_on_get          cache : cache          ev : empty_valid
\*     def   : default_value of a simple key, 0 = the class defines no default_value
\* cfg is a sequence of key descriptors; keys are identified by their index.
\* Dependencies are positive integers.
\*
\* A result is a record [kind, sh, v, u]:
\*   kind : "ok" | "none" (get_optional_dependency returned None) | "KeyError" | "Error"
\*          ("Error" = any exception other than the documented KeyError; named deviation:
\*          the code raises RuntimeError for a simple key with several dependencies,
\*          AttributeError for an empty simple key without default_value, ValueError for
\*          max([]) -- the property only says "an error", so the kind is not distinguished)
\*   sh   : shape of the value: "int" | "list" | "uni" (pair method, unifiers) | ""
\*   v    : the value as a sequence of integers (int -> <<x>>, list -> the list,
\*          unifier key -> the methods handed to the unifier / the single method)
\*   u    : number of unifier modules returned by a unifier key (0 or 1)
EXTENDS Naturals, Sequences, FiniteSets

Ok(sh, v, u) == [kind |-> "ok", sh |-> sh, v |-> v, u |-> u]
Err(k) == [kind |-> k, sh |-> "", v |-> <<>>, u |-> 0]
NoneRes == Err("none")
Done == Ok("", <<>>, 0)          \* add_dependency returns nothing

RECURSIVE SumSeq(_)
SumSeq(s) == IF s = <<>> THEN 0 ELSE s[1] + SumSeq(Tail(s))
MaxSeq(s) == CHOOSE x \in {s[i] : i \in 1..Len(s)} : \A j \in 1..Len(s) : s[j] <= x

\* key.combine(list of dependencies)
Combine(kd, d) ==
  CASE kd.kind = "simple" ->
         IF Len(d) = 0 THEN (IF kd.def # 0 THEN Ok("int", <<kd.def>>, 0) ELSE Err("Error"))
         ELSE IF Len(d) = 1 THEN Ok("int", <<d[1]>>, 0) ELSE Err("Error")
    [] kd.kind = "list" -> Ok("list", d, 0)
    [] kd.kind = "unifier" -> IF Len(d) = 1 THEN Ok("uni", d, 0) ELSE Ok("uni", d, 1)
    [] kd.kind = "sum" -> Ok("int", <<SumSeq(d)>>, 0)
    [] OTHER -> IF Len(d) = 0 THEN Err("Error") ELSE Ok("int", <<MaxSeq(d)>>, 0)

Keys(cfg) == 1..Len(cfg)
NoCache == [has |-> FALSE, val |-> NoneRes]

\* state: deps/cache/locked as in the class; hist/got are ghosts used by the property only
\* (hist = dependencies whose add_dependency did not raise, got = a get was attempted)
CInit(cfg) == [deps   |-> [k \in Keys(cfg) |-> <<>>],
               cache  |-> [k \in Keys(cfg) |-> NoCache],
               locked |-> [k \in Keys(cfg) |-> FALSE],
               hist   |-> [k \in Keys(cfg) |-> <<>>],
               got    |-> [k \in Keys(cfg) |-> FALSE]]

\* an operation: [op |-> "add" | "get" | "getopt", key |-> index, val |-> dependency or 0]
\* Apply returns [res |-> result, st |-> next state]; same statement order as the code.
ApplyAdd(cfg, st, k, v) ==
  IF st.locked[k] THEN [res |-> Err("KeyError"), st |-> st]
  ELSE [res |-> Done,
        st |-> [st EXCEPT !.deps[k] = Append(@, v), !.cache[k] = NoCache, !.hist[k] = Append(@, v)]]

ApplyGetOpt(cfg, st, k) ==
  LET kd == cfg[k]
      s1 == [st EXCEPT !.locked[k] = (@ \/ kd.lock), !.got[k] = TRUE]
  IN IF ~kd.ev /\ st.deps[k] = <<>> THEN [res |-> NoneRes, st |-> s1]
     ELSE IF st.cache[k].has THEN [res |-> st.cache[k].val, st |-> s1]
     ELSE LET val == Combine(kd, st.deps[k])
          IN [res |-> val,
              st |-> IF kd.cache /\ val.kind = "ok"
                     THEN [s1 EXCEPT !.cache[k] = [has |-> TRUE, val |-> val]] ELSE s1]

Apply(cfg, st, op) ==
  CASE op.op = "add" -> ApplyAdd(cfg, st, op.key, op.val)
    [] op.op = "getopt" -> ApplyGetOpt(cfg, st, op.key)
    [] OTHER -> LET r == ApplyGetOpt(cfg, st, op.key)
                IN IF r.res.kind = "none" THEN [res |-> Err("KeyError"), st |-> r.st] ELSE r

\* ---------------------------------------------------------------------------------------
\* Invariants of the model
TotalDeps(cfg, st) == SumSeq([k \in Keys(cfg) |-> Len(st.deps[k])])
Inv(cfg, st) ==
  \A k \in Keys(cfg) :
    /\ st.deps[k] = st.hist[k]
    /\ st.locked[k] <=> (cfg[k].lock /\ st.got[k])
    \* a cached value is never stale and exists only for caching keys
    /\ st.cache[k].has => (cfg[k].cache /\ st.cache[k].val = Combine(cfg[k], st.deps[k]))

\* ---------------------------------------------------------------------------------------
\* The sentences of property C42, stated over the ghosts hist/got only (independent of
\* deps / cache / locked).
IsError(res) == res.kind \in {"KeyError", "Error"}
\* what a manager without any cache returns for get_dependency
Fresh(kd, h) == IF ~kd.ev /\ h = <<>> THEN Err("KeyError") ELSE Combine(kd, h)

\* "a list key returns all dependencies in insertion order" (KeyError when empty and the
\* subclass switched empty_valid off -- docstring of DependencyKey)
ListAllInOrder(cfg, st, op, res) ==
  (op.op = "get" /\ cfg[op.key].kind = "list") =>
     IF st.hist[op.key] = <<>> /\ ~cfg[op.key].ev THEN res.kind = "KeyError"
     ELSE res = Ok("list", st.hist[op.key], 0)
\* "a simple key returns its single dependency (its default when allowed, an error otherwise)"
SimpleSingleOrDefault(cfg, st, op, res) ==
  (op.op = "get" /\ cfg[op.key].kind = "simple") =>
     LET h == st.hist[op.key]  kd == cfg[op.key]
     IN IF Len(h) = 1 THEN res = Ok("int", <<h[1]>>, 0)
        ELSE IF Len(h) = 0 /\ kd.ev /\ kd.def # 0 THEN res = Ok("int", <<kd.def>>, 0)
        ELSE /\ IsError(res)
             /\ (Len(h) = 0 /\ ~kd.ev) => res.kind = "KeyError"
\* "adding to a key after it was read raises when the key locks on get" (and only then)
AddRaisesIffLockedRead(cfg, st, op, res, st2) ==
  op.op = "add" =>
     /\ (res.kind = "KeyError") <=> (cfg[op.key].lock /\ st.got[op.key])
     /\ res.kind # "KeyError" => (res = Done /\ st2.hist[op.key] = Append(st.hist[op.key], op.val))
     /\ res.kind = "KeyError" => st2.hist[op.key] = st.hist[op.key]
\* "cached results never go stale": every get equals combine(current list)
NeverStale(cfg, st, op, res) ==
  /\ op.op = "get" => res = Fresh(cfg[op.key], st.hist[op.key])
  /\ op.op = "getopt" =>
       res = (IF ~cfg[op.key].ev /\ st.hist[op.key] = <<>> THEN NoneRes
              ELSE Combine(cfg[op.key], st.hist[op.key]))
\* keys do not influence each other; gets do not change what was added
Frame(cfg, st, op, st2) ==
  /\ \A k \in Keys(cfg) \ {op.key} : st2.hist[k] = st.hist[k] /\ st2.got[k] = st.got[k]
  /\ op.op # "add" => st2.hist = st.hist /\ st2.got[op.key]

StepProp(cfg, st, op, res, st2) ==
  /\ ListAllInOrder(cfg, st, op, res)
  /\ SimpleSingleOrDefault(cfg, st, op, res)
  /\ AddRaisesIffLockedRead(cfg, st, op, res, st2)
  /\ NeverStale(cfg, st, op, res)
  /\ Frame(cfg, st, op, st2)
====
