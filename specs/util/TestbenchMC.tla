---- MODULE TestbenchMC ----
\* Exhaustive model of the testbench call protocol / MethodMock (Testbench.tla): every program
\* pair of a bounded universe (Mode = "call") resp. the two mocks (Mode = "mock"), every input
\* valuation in every cycle.  The cycle stamp is normalised to 0 after every step (results carry
\* it, so the driver compares stamps relative to the position in the walk); an operation that has
\* been waiting for more than MaxAge cycles is not followed further.  Every transition is
\* printed as one EDGE line and replayed into the real helpers by props/C43.py.
EXTENDS Naturals, Sequences, FiniteSets, TLC, Json, SequencesExt
CONSTANTS Mode, MaxAge, MaxQ, Part, NParts, Small
VARIABLES cid, st, last
M == INSTANCE Testbench
vars == <<cid, st, last>>

Op(api, items, gap) == [api |-> api, items |-> items, gap |-> gap]
C(m, a) == <<"call", m, a>>
S(m) == <<"samp", m>>
V == <<"val">>
\* process 1 owns the methods 0 and 1, process 2 owns method 2 and looks at method 0
Ops1 == {Op("call", <<C(0, 5)>>, 0), Op("call", <<C(1, 6)>>, 1), Op("call_try", <<C(0, 7)>>, 0),
         Op("call_try", <<C(1, 3)>>, 1), Op("init_do", <<C(0, 9)>>, 0),
         Op("trig", <<C(0, 1), V, C(1, 2)>>, 0), Op("trig_any", <<C(0, 3), C(1, 4)>>, 0),
         Op("trig_all", <<C(1, 5), C(0, 6)>>, 1)}
         \cup (IF Small THEN {} ELSE {Op("call", <<C(0, 2)>>, 2), Op("trig", <<S(0), C(1, 9)>>, 0),
                                       Op("trig_all", <<C(0, 8)>>, 0), Op("trig_any", <<C(1, 7), S(0)>>, 2)})
Ops2 == {Op("call", <<C(2, 11)>>, 0), Op("call_try", <<C(2, 12)>>, 1), Op("trig", <<S(0), V, C(2, 13)>>, 0),
         Op("trig_any", <<S(0)>>, 0), Op("trig_all", <<S(1), C(2, 14)>>, 0)}
\* Small (quick tier): two-operation programs start with one of three operations, process 2 runs one of three
\* programs.  Thorough: the full operation alphabet (12), four first operations, five programs of process 2.
First1 == {Op("call", <<C(0, 5)>>, 0), Op("call_try", <<C(1, 3)>>, 1), Op("trig_all", <<C(1, 5), C(0, 6)>>, 1)}
          \cup (IF Small THEN {} ELSE {Op("trig_any", <<C(1, 7), S(0)>>, 2)})
Progs1 == {<<a>> : a \in Ops1} \cup {<<a, b>> : a \in First1, b \in Ops1}
Progs2 == {<<>>, <<Op("call", <<C(2, 11)>>, 0)>>, <<Op("trig_all", <<S(1), C(2, 14)>>, 0)>>}
          \cup (IF Small THEN {} ELSE {<<Op("call_try", <<C(2, 12)>>, 1), Op("trig", <<S(0), V, C(2, 13)>>, 0)>>,
                                        <<Op("trig_any", <<S(0)>>, 0), Op("call", <<C(2, 11)>>, 0)>>})
CallConfigs == {[procs |-> <<p1, p2>>, valid |-> 0, nsrv |-> 3, hasmock |-> 0] : p1 \in Progs1, p2 \in Progs2}
MockConfigs == {[procs |-> <<>>, valid |-> v, nsrv |-> 0, hasmock |-> 1] : v \in {0, 3}}
AllConfigs == IF Mode = "call" THEN CallConfigs ELSE MockConfigs
\* split over NParts parallel TLC runs
Code(op) == Len(op.items) + 3 * op.gap + (CASE op.api = "call" -> 1 [] op.api = "call_try" -> 2 [] op.api = "trig" -> 5
                                            [] op.api = "trig_any" -> 7 [] op.api = "trig_all" -> 11 [] OTHER -> 13)
            + (IF M!IsVal(op.items[1]) THEN 0 ELSE op.items[1][2])
RECURSIVE SumCodes(_)
SumCodes(prog) == IF prog = <<>> THEN 0 ELSE Code(prog[1]) * Len(prog) + SumCodes(Tail(prog))
CfgCode(c) == IF Len(c.procs) = 0 THEN c.valid ELSE SumCodes(c.procs[1]) + 17 * SumCodes(c.procs[2])
Configs == {c \in AllConfigs : CfgCode(c) % NParts = Part}
CfgSeq == SetToSeq(Configs)
cfg == CfgSeq[cid]

Bits == {0, 1}
CallInputs == {[rdy |-> <<a, b, c>>, men |-> 0, req |-> <<0, 0>>, arg |-> <<0, 0>>] : a \in Bits, b \in Bits, c \in Bits}
MockInputs == {[rdy |-> <<>>, men |-> e, req |-> <<ra, rb>>, arg |-> <<xa, xb>>] :
                 e \in Bits, ra \in Bits, rb \in Bits, xa \in {2, 3, 9}, xb \in {1, 4}}
Inputs == IF Mode = "call" THEN CallInputs ELSE MockInputs

Norm(s) == [s EXCEPT !.t = 0]
Exp(i) == [run |-> [m \in M!Srv(cfg) |-> IF M!Run(cfg, st, i, m) THEN 1 ELSE 0],
           ends |-> {[p |-> p, op |-> st.pc[p], age |-> st.age[p], res |-> M!OpRes(cfg, st, i, M!CurOp(cfg, st, p))]
                       : p \in M!Ends(cfg, st, i)},
           men |-> <<IF M!EnA(i) THEN 1 ELSE 0, IF M!EnB(st) THEN 1 ELSE 0>>,
           done |-> <<IF M!DoneA(cfg, st, i) THEN 1 ELSE 0, IF M!DoneB(cfg, st, i) THEN 1 ELSE 0>>,
           res |-> <<M!ResA(st, i), IF Len(st.Q) > 0 THEN M!ResB(st, i) ELSE 0>>]
Init == /\ cid \in 1..Len(CfgSeq) /\ st = M!CInit(CfgSeq[cid])
        /\ last = [inp |-> 0, exp |-> 0]
        /\ PrintT("INIT " \o ToJson([cid |-> cid, cfg |-> CfgSeq[cid], st |-> st]))
Do(i) == /\ \A p \in M!Procs(cfg) : st.age[p] <= MaxAge
         /\ Len(M!NextQ(cfg, st, i)) <= MaxQ
         /\ st' = Norm(M!CNext(cfg, st, i))
         /\ last' = [inp |-> i, exp |-> Exp(i)]
         /\ UNCHANGED cid
Next == \E i \in Inputs : Do(i)
Spec == Init /\ [][Next]_vars
View == <<cid, st>>
Inv == M!Inv(cfg, st)
\* the property's sentences hold on every transition of the model
StepOK == [][M!StepProp(cfg, st, last'.inp)]_vars
Emit == PrintT("EDGE " \o ToJson([cid |-> cid, from |-> st, lab |-> last', to |-> st']))
====
