---- MODULE DepCache ----
\* transactron.utils.depcache.DependentCache -- beyond the listed properties (check X01).
\*
\* cfg  : sequence of class descriptors  [argc |-> 1 | 2 | 3, needs |-> Seq([c |-> index, kw |-> kwargs])]
\*          argc  = co_argcount of __init__ (1: only self, 2: self + the cache, 3: one positional too many)
\*          needs = what the constructor fetches from the cache it was handed (argc = 2 only), in order;
\*                  needs refer to classes with a smaller index (no cyclic dependencies)
\* kwargs : sequence of <<name, value>> pairs in call order; value = sequence of naturals (tagged by the
\*          harness: <<0, v>> for the integer v, <<1, x, y, ..>> for the list / tuple [x, y, ..])
\* state  : [cache |-> sequence (one per DependentCache object) of sets of entries [c, kw, id], n |-> objects built]
\*          object identity = serial number in order of construction *completion* (what the harness logs)
EXTENDS Naturals, Sequences, FiniteSets

KwSet(kw) == {kw[i] : i \in 1..Len(kw)}          \* make_hashable(kwargs): frozenset of the items
CInit(ncaches) == [cache |-> [k \in 1..ncaches |-> {}], n |-> 0]
Lookup(st, k, c, kw) == {e \in st.cache[k] : e.c = c /\ e.kw = KwSet(kw)}
Ok(id) == [kind |-> "ok", id |-> id]
KeyErr == [kind |-> "KeyError", id |-> 0]

RECURSIVE Get(_, _, _, _, _), Needs(_, _, _, _, _)
\* DependentCache.get(cls, **kw) on cache object k: [st, res, made]; made = constructor completions in order
Get(cfg, st, k, c, kw) ==
  LET hit == Lookup(st, k, c, kw) IN
  IF hit # {} THEN [st |-> st, res |-> Ok((CHOOSE e \in hit : TRUE).id), made |-> <<>>]
  ELSE IF cfg[c].argc > 2 THEN [st |-> st, res |-> KeyErr, made |-> <<>>]
  ELSE LET r == IF cfg[c].argc = 2 THEN Needs(cfg, st, k, cfg[c].needs, 1)
                ELSE [st |-> st, ok |-> TRUE, made |-> <<>>, ids |-> <<>>]
       IN IF ~r.ok THEN [st |-> r.st, res |-> KeyErr, made |-> r.made]
          ELSE LET id == r.st.n + 1
                   ent == [c |-> c, kw |-> KwSet(kw), id |-> id]
               IN [st |-> [cache |-> [r.st.cache EXCEPT ![k] = @ \cup {ent}], n |-> id],
                   res |-> Ok(id),
                   made |-> Append(r.made, [c |-> c, kw |-> KwSet(kw), id |-> id, deps |-> r.ids,
                                            k |-> IF cfg[c].argc = 2 THEN k ELSE 0])]
Needs(cfg, st, k, ns, i) ==
  IF i > Len(ns) THEN [st |-> st, ok |-> TRUE, made |-> <<>>, ids |-> <<>>]
  ELSE LET g == Get(cfg, st, k, ns[i].c, ns[i].kw) IN
       IF g.res.kind # "ok" THEN [st |-> g.st, ok |-> FALSE, made |-> g.made, ids |-> <<>>]
       ELSE LET rest == Needs(cfg, g.st, k, ns, i + 1) IN
            [st |-> rest.st, ok |-> rest.ok, made |-> g.made \o rest.made, ids |-> <<g.res.id>> \o rest.ids]

AllEntries(st) == UNION {st.cache[k] : k \in DOMAIN st.cache}
\* ---- invariants of the model
Inv(cfg, st) ==
  /\ \A k \in DOMAIN st.cache : \A e1, e2 \in st.cache[k] : (e1.c = e2.c /\ e1.kw = e2.kw) => e1 = e2
  /\ \A k1, k2 \in DOMAIN st.cache : \A e1 \in st.cache[k1], e2 \in st.cache[k2] : e1.id = e2.id => (k1 = k2 /\ e1 = e2)
  /\ Cardinality(AllEntries(st)) = st.n
  /\ \A e \in AllEntries(st) : e.id \in 1..st.n
  \* everything a cached object fetched in its constructor is cached in the same cache
  /\ \A k \in DOMAIN st.cache : \A e \in st.cache[k] :
        cfg[e.c].argc = 2 => \A i \in 1..Len(cfg[e.c].needs) : Lookup(st, k, cfg[e.c].needs[i].c, cfg[e.c].needs[i].kw) # {}

\* ---- the documented behaviour, judged on an observed outcome (res, made) of get(c, kw) on cache k in state st
\* a second get with the same class and keyword arguments (in any order) returns the very same object
\* and constructs nothing
SameObject(cfg, st, k, c, kw, res, made) ==
  Lookup(st, k, c, kw) # {} => (res.kind = "ok" /\ \A e \in Lookup(st, k, c, kw) : res.id = e.id) /\ made = <<>>
\* every constructed object is new, built for a key that was not cached, once per key
ConstructOnce(cfg, st, k, c, kw, res, made) ==
  /\ \A i \in 1..Len(made) : made[i].id > st.n /\ {e \in st.cache[k] : e.c = made[i].c /\ e.kw = made[i].kw} = {}
  /\ \A i, j \in 1..Len(made) : i # j => (made[i].id # made[j].id /\ <<made[i].c, made[i].kw>> # <<made[j].c, made[j].kw>>)
  /\ (res.kind = "ok" /\ Lookup(st, k, c, kw) = {}) =>
        (Len(made) >= 1 /\ made[Len(made)].c = c /\ made[Len(made)].kw = KwSet(kw) /\ made[Len(made)].id = res.id)
\* a constructor with a positional parameter is handed this cache (and no other)
CacheHandedOver(cfg, st, k, c, kw, res, made) ==
  \A i \in 1..Len(made) : made[i].k = (IF cfg[made[i].c].argc = 2 THEN k ELSE 0)
\* more than one positional parameter: KeyError, nothing stored for that class
TooManyPositional(cfg, st, k, c, kw, res, made) ==
  (cfg[c].argc > 2 /\ Lookup(st, k, c, kw) = {}) => (res.kind = "KeyError" /\ made = <<>>)
\* caches are independent: an operation on cache k leaves the others alone (model step property)
StepProp(cfg, st, k, c, kw, r) ==
  /\ \A j \in DOMAIN st.cache : j # k => r.st.cache[j] = st.cache[j]
  /\ st.cache[k] \subseteq r.st.cache[k]
  /\ SameObject(cfg, st, k, c, kw, r.res, r.made)
  /\ ConstructOnce(cfg, st, k, c, kw, r.res, r.made)
  /\ CacheHandedOver(cfg, st, k, c, kw, r.res, r.made)
  /\ TooManyPositional(cfg, st, k, c, kw, r.res, r.made)
  /\ r.st.n = st.n + Len(r.made)
====
