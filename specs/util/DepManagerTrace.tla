---- MODULE DepManagerTrace ----
\* Batch validation of add/get histories recorded from the real DependencyManager against
\* DepManager.tla.  One trace line = one API call with its observed result.  Every trace gets
\* a total verdict (ACCEPT / REJECT with the failing clause names and the model state).
EXTENDS Naturals, Sequences, FiniteSets, TLC, Json, IOUtils
Traces == JsonDeserialize(IOEnv.TRACE_FILE)
VARIABLES tid, l, st, verdict
vars == <<tid, l, st, verdict>>
D == INSTANCE DepManager
cfg == Traces[tid].cfg
Line == Traces[tid].ops[l]
Op == [op |-> Line.op, key |-> Line.key, val |-> Line.val]
Model == D!Apply(cfg, st, Op)
\* model conformance: the observed result / exception kind is the model's
ModelResult == Line.res = Model.res
\* the sentences of the property, judged on the observed result
ListAllInOrder == D!ListAllInOrder(cfg, st, Op, Line.res)
SimpleSingleOrDefault == D!SimpleSingleOrDefault(cfg, st, Op, Line.res)
AddRaisesIffLockedRead == D!AddRaisesIffLockedRead(cfg, st, Op, Line.res, Model.st)
NeverStale == D!NeverStale(cfg, st, Op, Line.res)
ClauseNames == {"ModelResult", "ListAllInOrder", "SimpleSingleOrDefault", "AddRaisesIffLockedRead", "NeverStale"}
Holds(n) == CASE n = "ModelResult" -> ModelResult
              [] n = "ListAllInOrder" -> ListAllInOrder
              [] n = "SimpleSingleOrDefault" -> SimpleSingleOrDefault
              [] n = "AddRaisesIffLockedRead" -> AddRaisesIffLockedRead
              [] OTHER -> NeverStale
Failing == {n \in ClauseNames : ~Holds(n)}
Init == tid \in 1..Len(Traces) /\ l = 1 /\ st = D!CInit(Traces[tid].cfg) /\ verdict = "go"
Step == /\ verdict = "go" /\ l <= Len(Traces[tid].ops)
        /\ IF Failing = {}
           THEN l' = l + 1 /\ st' = Model.st /\ UNCHANGED verdict
           ELSE /\ verdict' = "reject"
                /\ PrintT("REJECT " \o ToJson([tid |-> tid, line |-> l, clauses |-> Failing,
                                               expected |-> Model.res,
                                               state |-> [deps |-> st.deps, got |-> st.got,
                                                          cached |-> [k \in D!Keys(cfg) |-> st.cache[k].has]]]))
                /\ UNCHANGED <<l, st>>
        /\ UNCHANGED tid
Fin == /\ verdict = "go" /\ l = Len(Traces[tid].ops) + 1
       /\ verdict' = "accept" /\ PrintT("ACCEPT " \o ToJson([tid |-> tid]))
       /\ UNCHANGED <<tid, l, st>>
Spec == Init /\ [][Step \/ Fin]_vars
====
