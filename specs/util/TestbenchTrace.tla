---- MODULE TestbenchTrace ----
\* Batch validation of simulations recorded from the real transactron.testing helpers
\* (vlib/tbharness.py) against Testbench.tla.  One trace line = one clock cycle: the inputs of
\* the cycle (from the script), the sampled hardware signals, the python-side mock state after
\* the cycle's effects, and the testbench operations that returned at the end of the cycle.
\* Every trace gets a total verdict naming the failing clauses.
EXTENDS Naturals, Sequences, FiniteSets, TLC, Json, IOUtils
Traces == JsonDeserialize(IOEnv.TRACE_FILE)
VARIABLES tid, l, st, obs, verdict
vars == <<tid, l, st, obs, verdict>>
M == INSTANCE Testbench
cfg == Traces[tid].cfg
Line == Traces[tid].lines[l]
inp == Line.inp
HasMock == cfg.hasmock = 1
B(x) == IF x THEN 1 ELSE 0

\* ---- harness sanity: the hardware ROMs produced the scripted inputs ----
HarnessInputs ==
  /\ \A m \in M!Srv(cfg) : Line.srv[m + 1].rdy = inp.rdy[m + 1]
  /\ HasMock => \A j \in 1..2 : Line.mock[j].req = inp.req[j] /\ Line.mock[j].arg = inp.arg[j]
  /\ Line.cyc = st.t
  /\ M!SingleCaller(cfg, st)

\* ---- model conformance of the call side ----
RunMatches == \A m \in M!Srv(cfg) : Line.srv[m + 1].run = B(M!Run(cfg, st, inp, m))
                                     /\ Line.srv[m + 1].done = Line.srv[m + 1].run
CountExact == \A m \in M!Srv(cfg) : Line.srv[m + 1].cnt = st.cnt[m]
ModelEnds == {<<p, st.pc[p], st.t - st.age[p], M!OpRes(cfg, st, inp, M!CurOp(cfg, st, p))>> : p \in M!Ends(cfg, st, inp)}
ObsEnds == {<<Line.ends[i].p, Line.ends[i].op, Line.ends[i].start, Line.ends[i].res>> : i \in 1..Len(Line.ends)}
EndsMatch == ObsEnds = ModelEnds

\* ---- the property's sentences judged on the OBSERVED signals only ----
EndOp(e) == cfg.procs[e.p][e.op]
EndMeth(e) == EndOp(e).items[1][2]
\* call returns the result the method produced in the cycle in which the call succeeded ...
CallReturnsResultOfSuccessCycle ==
  \A i \in 1..Len(Line.ends) : LET e == Line.ends[i] IN
    EndOp(e).api \in {"call", "init_do"} =>
      /\ Line.srv[EndMeth(e) + 1].run = 1
      /\ e.res[1] = Line.srv[EndMeth(e) + 1].out
      /\ e.res[1][2] = EndOp(e).items[1][3]
\* ... and performs exactly one call (executions of the method while the call was pending)
ExactlyOneExecutionPerCall ==
  \A i \in 1..Len(Line.ends) : LET e == Line.ends[i] IN
    EndOp(e).api \in {"call", "init_do"} => obs[e.p] + Line.srv[EndMeth(e) + 1].run = 1
CallTryNoneIffNotRun ==
  \A i \in 1..Len(Line.ends) : LET e == Line.ends[i] IN
    EndOp(e).api = "call_try" =>
      /\ (e.res[1] = <<>>) = (Line.srv[EndMeth(e) + 1].run = 0)
      /\ (e.res[1] # <<>> => e.res[1] = Line.srv[EndMeth(e) + 1].out)
\* a method is executed only while some operation calls it
NoSpuriousExecution == \A m \in M!Srv(cfg) : Line.srv[m + 1].run = 1 => M!Enabled(cfg, st, m)

\* ---- mocks ----
MockEnable == HasMock => /\ Line.mock[1].en = B(M!EnA(inp))
                         /\ Line.mock[2].en = B(M!EnB(st))
MockDone == HasMock => /\ Line.mock[1].done = B(M!DoneA(cfg, st, inp))
                       /\ Line.mock[2].done = B(M!DoneB(cfg, st, inp))
                       /\ \A j \in 1..2 : Line.mock[j].ran = Line.mock[j].done
MockReturnSameCycle == HasMock =>
  /\ (Line.mock[1].ran = 1 => Line.mock[1].res = M!ResA(st, inp))
  /\ (Line.mock[2].ran = 1 /\ Len(st.Q) > 0 => Line.mock[2].res = M!ResB(st, inp))
MockEffectOncePerExecution == HasMock =>
  /\ Line.effA = Line.mock[1].done /\ Line.effB = Line.mock[2].done
  /\ Line.S = M!NextS(cfg, st, inp)
  /\ Line.Q = M!NextQ(cfg, st, inp)

ClauseNames == {"HarnessInputs", "RunMatches", "CountExact", "EndsMatch", "CallReturnsResultOfSuccessCycle",
                "ExactlyOneExecutionPerCall", "CallTryNoneIffNotRun", "NoSpuriousExecution", "MockEnable",
                "MockDone", "MockReturnSameCycle", "MockEffectOncePerExecution"}
Holds(n) == CASE n = "HarnessInputs" -> HarnessInputs
              [] n = "RunMatches" -> RunMatches
              [] n = "CountExact" -> CountExact
              [] n = "EndsMatch" -> EndsMatch
              [] n = "CallReturnsResultOfSuccessCycle" -> CallReturnsResultOfSuccessCycle
              [] n = "ExactlyOneExecutionPerCall" -> ExactlyOneExecutionPerCall
              [] n = "CallTryNoneIffNotRun" -> CallTryNoneIffNotRun
              [] n = "NoSpuriousExecution" -> NoSpuriousExecution
              [] n = "MockEnable" -> MockEnable
              [] n = "MockDone" -> MockDone
              [] n = "MockReturnSameCycle" -> MockReturnSameCycle
              [] OTHER -> MockEffectOncePerExecution
\* HarnessInputs is evaluated first: if it fails the other clauses are not meaningful
Failing == IF ~HarnessInputs THEN {"HarnessInputs"} ELSE {n \in ClauseNames : ~Holds(n)}

\* observed executions of the (first) called method of the pending op of p since it started
NextObs == LET nst == M!CNext(cfg, st, inp) IN
  [p \in M!Procs(cfg) |->
     IF ~M!Active(cfg, st, p) \/ p \in M!Ends(cfg, st, inp) THEN 0
     ELSE LET op == M!CurOp(cfg, st, p) IN
          IF M!IsCall(op.items[1]) THEN obs[p] + Line.srv[op.items[1][2] + 1].run ELSE obs[p]]

Init == /\ tid \in 1..Len(Traces) /\ l = 1 /\ st = M!CInit(Traces[tid].cfg)
        /\ obs = [p \in M!Procs(Traces[tid].cfg) |-> 0] /\ verdict = "go"
Step == /\ verdict = "go" /\ l <= Len(Traces[tid].lines)
        /\ IF Failing = {}
           THEN l' = l + 1 /\ st' = M!CNext(cfg, st, inp) /\ obs' = NextObs /\ UNCHANGED verdict
           ELSE /\ verdict' = "reject"
                /\ PrintT("REJECT " \o ToJson([tid |-> tid, line |-> l, clauses |-> Failing,
                                               state |-> st, expected_ends |-> ModelEnds,
                                               expected_run |-> [m \in M!Srv(cfg) |-> B(M!Run(cfg, st, inp, m))]]))
                /\ UNCHANGED <<l, st, obs>>
        /\ UNCHANGED tid
Fin == /\ verdict = "go" /\ l = Len(Traces[tid].lines) + 1
       /\ verdict' = "accept" /\ PrintT("ACCEPT " \o ToJson([tid |-> tid]))
       /\ UNCHANGED <<tid, l, st, obs>>
Spec == Init /\ [][Step \/ Fin]_vars
====
