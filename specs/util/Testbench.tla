---- MODULE Testbench ----
\* Model of transactron.testing's call protocol (TestbenchIO.call / call_try / call_init+call_do,
\* CallTrigger with several calls, samples, until_done, until_all_done) and of MethodMock
\* (enable pattern, validate_arguments, effects, same-cycle return value), one step = one clock
\* cycle.  Functional style: a configuration `cfg` (the testbench *programs*), a state `st`, the
\* inputs of the cycle `inp` (readiness of the served methods, the mock's enable script bit, the
\* requests and arguments of the mock's callers) and the operator Cyc(cfg, st, inp) that returns
\* everything observable in the cycle plus the next state.
\*
\* cfg = [procs |-> <<program, ...>>, valid |-> 0 | k, nsrv |-> number of served methods]
\*   program = <<op, ...>>;  op = [api, items, gap]
\*   api   "call" | "init_do" | "trig_any": repeat every cycle until SOME item has a result
\*         "trig_all":                      repeat until ALL items have a result
\*         "call_try" | "trig":             exactly one cycle
\*   items <<"call", m, arg>> : enable method m (0-based) with argument arg and sample its result
\*         <<"samp", m>>      : only sample m's result (None unless somebody's call of m ran)
\*         <<"val">>          : sample a plain signal (the cycle counter); never None
\*   gap   clock ticks the process waits after the operation returned
\* A method is called by at most one pending operation at a time (driver precondition: two
\* testbench processes driving one TestbenchIO is a usage error).
\*
\* The served method m returns <<cycle stamp, echo of its argument, number of earlier executions>>,
\* so a result identifies the cycle it was produced in.  A result is a sequence; None is <<>>.
\*
\* Mock A: enable bit scripted per cycle, optional validate_arguments (refuses arguments divisible
\* by cfg.valid), returns FA(arg, S), effect S := GA(arg, S) and appends arg to Q.
\* Mock B: enabled iff Q is non-empty (its enable() reads state changed by A's effect -- this is
\* what MethodMock's `delay` synchronises), returns Head(Q) + arg, effect pops Q.
EXTENDS Naturals, Sequences, FiniteSets

MOD == 16
CNTMOD == 64
FA(x, s) == (s + 3 * x + 1) % MOD
GA(x, s) == (2 * s + x + 1) % MOD

NProcs(cfg) == Len(cfg.procs)
Procs(cfg) == 1..NProcs(cfg)
Srv(cfg) == 0..(cfg.nsrv - 1)

CInit(cfg) == [t |-> 0,
               pc |-> [p \in Procs(cfg) |-> 1],
               left |-> [p \in Procs(cfg) |-> 0],
               runs |-> [p \in Procs(cfg) |-> 0],      \* executions caused by the pending op so far
               age |-> [p \in Procs(cfg) |-> 0],       \* cycles since the pending op started
               cnt |-> [m \in Srv(cfg) |-> 0],
               S |-> 0, Q |-> <<>>]

Active(cfg, st, p) == st.pc[p] <= Len(cfg.procs[p]) /\ st.left[p] = 0
CurOp(cfg, st, p) == cfg.procs[p][st.pc[p]]
Items(op) == 1..Len(op.items)
IsCall(it) == it[1] = "call"
IsSamp(it) == it[1] = "samp"
IsVal(it) == it[1] = "val"
Repeats(op) == op.api \in {"call", "init_do", "trig_any", "trig_all"}

\* the pending call of method m, if any: <<process, item index>>
Callers(cfg, st, m) ==
  UNION {{<<p, i>> : i \in {j \in Items(CurOp(cfg, st, p)) :
                                IsCall(CurOp(cfg, st, p).items[j]) /\ CurOp(cfg, st, p).items[j][2] = m}}
           : p \in {q \in Procs(cfg) : Active(cfg, st, q)}}
Enabled(cfg, st, m) == Callers(cfg, st, m) # {}
ArgOf(cfg, st, m) == LET pi == CHOOSE x \in Callers(cfg, st, m) : TRUE
                     IN CurOp(cfg, st, pi[1]).items[pi[2]][3]
SingleCaller(cfg, st) == \A m \in Srv(cfg) : Cardinality(Callers(cfg, st, m)) <= 1

\* inp.rdy is a sequence over the served methods (index m+1)
Run(cfg, st, inp, m) == Enabled(cfg, st, m) /\ inp.rdy[m + 1] = 1
Out(cfg, st, m) == <<st.t, ArgOf(cfg, st, m), st.cnt[m]>>
ItemRes(cfg, st, inp, it) ==
  IF IsVal(it) THEN <<st.t>>
  ELSE IF Run(cfg, st, inp, it[2]) THEN Out(cfg, st, it[2]) ELSE <<>>
OpRes(cfg, st, inp, op) == [i \in Items(op) |-> ItemRes(cfg, st, inp, op.items[i])]
Fin(cfg, st, inp, op) ==
  LET r == OpRes(cfg, st, inp, op)
  IN CASE op.api \in {"call_try", "trig"} -> TRUE
       [] op.api = "trig_all" -> \A i \in Items(op) : r[i] # <<>>
       [] OTHER -> \E i \in Items(op) : r[i] # <<>>
\* executions of the methods the op of process p calls, in this cycle
OpRuns(cfg, st, inp, p) ==
  Cardinality({i \in Items(CurOp(cfg, st, p)) :
                 IsCall(CurOp(cfg, st, p).items[i]) /\ Run(cfg, st, inp, CurOp(cfg, st, p).items[i][2])})

\* ---- mocks (inp.men, inp.req = <<reqA, reqB>>, inp.arg = <<argA, argB>>) ----
ValidA(cfg, x) == cfg.valid = 0 \/ x % cfg.valid # 0
EnA(inp) == inp.men = 1
EnB(st) == Len(st.Q) > 0
DoneA(cfg, st, inp) == EnA(inp) /\ inp.req[1] = 1 /\ ValidA(cfg, inp.arg[1])
DoneB(cfg, st, inp) == EnB(st) /\ inp.req[2] = 1
ResA(st, inp) == FA(inp.arg[1], st.S)
ResB(st, inp) == (st.Q[1] + inp.arg[2]) % MOD
NextS(cfg, st, inp) == IF DoneA(cfg, st, inp) THEN GA(inp.arg[1], st.S) ELSE st.S
NextQ(cfg, st, inp) ==
  LET q1 == IF DoneB(cfg, st, inp) THEN Tail(st.Q) ELSE st.Q
  IN IF DoneA(cfg, st, inp) THEN Append(q1, inp.arg[1]) ELSE q1

\* ---- one clock cycle ----
Ends(cfg, st, inp) == {p \in Procs(cfg) : Active(cfg, st, p) /\ Fin(cfg, st, inp, CurOp(cfg, st, p))}
CNext(cfg, st, inp) ==
  LET ends == Ends(cfg, st, inp)
      act == {p \in Procs(cfg) : Active(cfg, st, p)}
  IN
  [t |-> st.t + 1,
   pc |-> [p \in Procs(cfg) |-> IF p \in ends THEN st.pc[p] + 1 ELSE st.pc[p]],
   left |-> [p \in Procs(cfg) |->
               IF p \in ends THEN CurOp(cfg, st, p).gap
               ELSE IF st.left[p] > 0 THEN st.left[p] - 1 ELSE 0],
   runs |-> [p \in Procs(cfg) |->
               IF p \in ends \/ p \notin act THEN 0
               ELSE st.runs[p] + OpRuns(cfg, st, inp, p)],
   age |-> [p \in Procs(cfg) |-> IF p \in act /\ p \notin ends THEN st.age[p] + 1 ELSE 0],
   cnt |-> [m \in Srv(cfg) |-> IF Run(cfg, st, inp, m) THEN (st.cnt[m] + 1) % CNTMOD ELSE st.cnt[m]],
   S |-> NextS(cfg, st, inp), Q |-> NextQ(cfg, st, inp)]

\* ---- the property's sentences on the model (checked by TLC on every transition) ----
\* "call ... performs exactly one call": when a repeating single-call op ends, the method ran in
\* exactly one cycle of the op, namely the last one; "call_try returns None exactly when the method
\* did not run"; a method never runs unless a pending operation calls it.
StepProp(cfg, st, inp) ==
  /\ \A m \in Srv(cfg) : Run(cfg, st, inp, m) => Enabled(cfg, st, m)
  /\ \A p \in Procs(cfg) : Active(cfg, st, p) =>
       LET op == CurOp(cfg, st, p)
           fin == Fin(cfg, st, inp, op)
       IN /\ (op.api \in {"call", "init_do"} /\ fin) =>
                 /\ st.runs[p] = 0 /\ OpRuns(cfg, st, inp, p) = 1
                 /\ OpRes(cfg, st, inp, op)[1] = Out(cfg, st, op.items[1][2])
          /\ (op.api \in {"call", "init_do"} /\ ~fin) => OpRuns(cfg, st, inp, p) = 0
          /\ op.api = "call_try" =>
                 (OpRes(cfg, st, inp, op)[1] = <<>>) = ~Run(cfg, st, inp, op.items[1][2])
  \* a mock's effects are applied once per executed call, its result is that of the current state
  /\ (DoneA(cfg, st, inp) => NextS(cfg, st, inp) = GA(inp.arg[1], st.S))
  /\ (~DoneA(cfg, st, inp) => NextS(cfg, st, inp) = st.S)
  /\ Len(NextQ(cfg, st, inp)) + (IF DoneB(cfg, st, inp) THEN 1 ELSE 0)
       = Len(st.Q) + (IF DoneA(cfg, st, inp) THEN 1 ELSE 0)
Inv(cfg, st) == /\ SingleCaller(cfg, st)
                /\ \A p \in Procs(cfg) : st.pc[p] \in 1..(Len(cfg.procs[p]) + 1)
                /\ st.S \in 0..(MOD - 1)
====
