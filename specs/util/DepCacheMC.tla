---- MODULE DepCacheMC ----
\* Exhaustive model of DependentCache: a fixed family of class sets, NCaches cache objects, every history of
\* get(cls, **kw) with at most MaxObjs constructed objects.  Every transition is printed as an EDGE line and
\* replayed into the real class by props/X01.py.
EXTENDS Naturals, Sequences, FiniteSets, TLC, Json
CONSTANTS MaxObjs, NCaches
VARIABLES cid, st, last
D == INSTANCE DepCache
vars == <<cid, st, last>>

I(v) == <<0, v>>
A1 == <<"a", I(1)>>
A2 == <<"a", I(2)>>
B2 == <<"b", I(2)>>
L12 == <<"l", <<1, 1, 2>>>>
N(c, kw) == [c |-> c, kw |-> kw]
Cls(argc, needs) == [argc |-> argc, needs |-> needs]
\* 1: plain class, 2: class taking the cache, 3: class that fetches 1 and 2(a=1) in its constructor,
\* 4: too many positional parameters, 5: needs the broken class 4 after a good one, 6: needs 3 (two levels)
CfgSeq == <<
  <<Cls(1, <<>>), Cls(2, <<>>), Cls(2, <<N(1, <<>>), N(2, <<A1>>)>>), Cls(3, <<>>), Cls(2, <<N(1, <<A1, B2>>), N(4, <<>>)>>)>>,
  <<Cls(1, <<>>), Cls(2, <<N(1, <<>>)>>), Cls(2, <<N(2, <<>>), N(1, <<>>), N(2, <<>>)>>), Cls(2, <<N(3, <<>>), N(1, <<L12>>)>>)>>
>>
cfg == CfgSeq[cid]
Kws == {<<>>, <<A1>>, <<A1, B2>>, <<B2, A1>>, <<A2>>, <<L12>>}
Ops == {[k |-> k, c |-> c, kw |-> kw] : k \in 1..NCaches, c \in 1..Len(cfg), kw \in Kws}
NoOp == [op |-> [k |-> 0, c |-> 0, kw |-> <<>>], res |-> D!KeyErr, made |-> <<>>]
\* sets are printed as sorted sequences of entries (ids identify states: construction order is part of the state)
Id(s) == [k \in 1..NCaches |-> s.cache[k]]
Init == /\ cid \in 1..Len(CfgSeq) /\ st = D!CInit(NCaches) /\ last = NoOp
        /\ PrintT("INIT " \o ToJson([cid |-> cid, cfg |-> cfg, st |-> Id(st)]))
Do(op) ==
  LET r == D!Get(cfg, st, op.k, op.c, op.kw)
  IN /\ r.st.n <= MaxObjs
     /\ st' = r.st
     /\ last' = [op |-> op, res |-> r.res, made |-> r.made]
     /\ UNCHANGED cid
Next == \E op \in Ops : Do(op)
Spec == Init /\ [][Next]_vars
View == <<cid, st>>
Inv == D!Inv(cfg, st)
StepOK == [][\E op \in Ops : /\ last'.op = op
                            /\ D!StepProp(cfg, st, op.k, op.c, op.kw, D!Get(cfg, st, op.k, op.c, op.kw))
                            /\ st' = D!Get(cfg, st, op.k, op.c, op.kw).st]_vars
Emit == PrintT("EDGE " \o ToJson([cid |-> cid, from |-> Id(st), lab |-> last', to |-> Id(st')]))
====
