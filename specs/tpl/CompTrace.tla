---- MODULE @NAME@Trace ----
\* Batch validation of traces recorded from the implementation against component
\* spec @NAME@.  One trace line = one clock cycle.  Every trace gets a total verdict.
EXTENDS Naturals, Sequences, FiniteSets, TLC, Json, IOUtils
Traces == JsonDeserialize(IOEnv.TRACE_FILE)
VARIABLES tid, l, st, verdict
vars == <<tid, l, st, verdict>>
C == INSTANCE @NAME@
cfg == Traces[tid].cfg
Line == Traces[tid].cycles[l]
Ms == C!Methods(cfg)
Done(m) == Line[m].done = 1
ArgOf(m) == IF C!HasArg(m) THEN Line[m].arg ELSE 0
Calls == [m \in {x \in Ms : Done(x)} |-> ArgOf(m)]
CallableMatches ==
  \A m \in Ms : Line[m].req = 1 => ((Line[m].cal = 1) <=> C!Callable(cfg, st, m, ArgOf(m), Calls))
DoneImpliesReqAndCallable == \A m \in Ms : Done(m) => Line[m].req = 1 /\ Line[m].cal = 1
ReqCallableImpliesDone ==
  \A m \in Ms : (Line[m].req = 1 /\ Line[m].cal = 1 /\ ~Done(m)) => \E n \in Ms : Done(n) /\ C!Conflict(cfg, m, n)
NoConflictingPair == \A m, n \in Ms : (m # n /\ Done(m) /\ Done(n)) => ~C!Conflict(cfg, m, n)
ResultMatches == \A m \in Ms : Done(m) => Line[m].out = C!Result(cfg, st, m, Calls)
AssumeHolds == C!Assume(cfg, st, Calls)
\* a method that has a second (shadow) caller in the harness is never executed for both callers in one cycle
ExclusiveOnce == \A m \in Ms : Line[m].both = 0
@EXTRA@
ClauseNames == {"CallableMatches", "DoneImpliesReqAndCallable", "ReqCallableImpliesDone",
                "NoConflictingPair", "ResultMatches", "AssumeHolds", "ExclusiveOnce"@EXTRANAMES@}
Holds(n) == CASE n = "CallableMatches" -> CallableMatches
              [] n = "DoneImpliesReqAndCallable" -> DoneImpliesReqAndCallable
              [] n = "ReqCallableImpliesDone" -> ReqCallableImpliesDone
              [] n = "NoConflictingPair" -> NoConflictingPair
              [] n = "AssumeHolds" -> AssumeHolds
              [] n = "ExclusiveOnce" -> ExclusiveOnce
              @EXTRACASES@
              [] OTHER -> ResultMatches
Failing == {n \in ClauseNames : ~Holds(n)}
Init == tid \in 1..Len(Traces) /\ l = 1 /\ st = C!CInit(Traces[tid].cfg) /\ verdict = "go"
Step == /\ verdict = "go" /\ l <= Len(Traces[tid].cycles)
        /\ IF Failing = {}
           THEN l' = l + 1 /\ st' = C!CNext(cfg, st, Calls) /\ UNCHANGED verdict
           ELSE /\ verdict' = "reject"
                /\ PrintT("REJECT " \o ToJson([tid |-> tid, line |-> l, clauses |-> Failing, state |-> st]))
                /\ UNCHANGED <<l, st>>
        /\ UNCHANGED tid
Fin == /\ verdict = "go" /\ l = Len(Traces[tid].cycles) + 1
       /\ verdict' = "accept" /\ PrintT("ACCEPT " \o ToJson([tid |-> tid]))
       /\ UNCHANGED <<tid, l, st>>
Spec == Init /\ [][Step \/ Fin]_vars
====
