---- MODULE @NAME@MC ----
\* Exhaustive model of component @NAME@: every configuration in Configs, every set of
\* simultaneous admissible calls in every reachable state.  `last` records the label of
\* the transition and is hidden from the fingerprint by VIEW.
EXTENDS Naturals, Sequences, FiniteSets, TLC, Json
VARIABLES cfg, st, last
C == INSTANCE @NAME@
vars == <<cfg, st, last>>
RECURSIVE ArgsFor(_)
ArgsFor(S) == IF S = {} THEN {<<>>}
              ELSE LET m == CHOOSE x \in S : TRUE
                   IN {(m :> a) @@ f : a \in C!ArgDom(cfg, m), f \in ArgsFor(S \ {m})}
CallSets == UNION {ArgsFor(S) : S \in SUBSET C!Methods(cfg)}
Admissible(calls) ==
  /\ \A m \in DOMAIN calls : C!Callable(cfg, st, m, calls[m], calls)
  /\ \A m1, m2 \in DOMAIN calls : m1 # m2 => ~C!Conflict(cfg, m1, m2)
  /\ C!Assume(cfg, st, calls)
\* methods that cannot be called with any argument next to `calls`
NotCallable(calls) ==
  {m \in C!Methods(cfg) \ DOMAIN calls :
      /\ \A a \in C!ArgDom(cfg, m) : ~C!Callable(cfg, st, m, a, calls)
      /\ \A m2 \in DOMAIN calls : ~C!Conflict(cfg, m, m2)}
Init == /\ cfg \in C!Configs /\ st = C!CInit(cfg) /\ last = [calls |-> <<>>, res |-> <<>>, nc |-> {}]
        /\ PrintT("INIT " \o ToJson([cfg |-> cfg, st |-> st]))
Cycle(calls) ==
  /\ Admissible(calls)
  /\ st' = C!CNext(cfg, st, calls)
  /\ last' = [calls |-> calls,
              res |-> [m \in DOMAIN calls |-> C!Result(cfg, st, m, calls)],
              nc |-> NotCallable(calls)]
  /\ UNCHANGED cfg
Next == \E calls \in CallSets : Cycle(calls)
Spec == Init /\ [][Next]_vars
View == <<cfg, st>>
Inv == C!Inv(cfg, st)
StepOK == [][C!StepProp(cfg, st, last'.calls, last'.res, st')]_vars
Emit == PrintT("EDGE " \o ToJson([cfg |-> cfg, from |-> st, lab |-> last', to |-> st']))
====
