---- MODULE EvLogMC ----
\* Exhaustive small model of the event log (EvLog.tla): a fixed design with 2 emission sites
\* (site 0: `emit(.., when=w)` under `m.If(c0)`, 1-bit unsigned field; site 1: `emit` inside a
\* transaction body, 1-bit SIGNED field, one static), every input valuation (5 bits) in every cycle
\* up to Depth.  `last` is the label (the observed line) of the transition, hidden by VIEW.
EXTENDS Integers, Sequences, FiniteSets, TLC, Json, IOUtils
VARIABLES log, cyc, nact, last
E == INSTANCE EvLog
vars == <<log, cyc, nact, last>>
Depth == IF "EVLOG_DEPTH" \in DOMAIN IOEnv THEN atoi(IOEnv.EVLOG_DEPTH) ELSE 3

Sites ==
  << [ev |-> "bit", whenw |-> 1, ctx |-> << <<"c0", 1>> >>,
      fields |-> << [name |-> "v", width |-> 1, signed |-> FALSE, kind |-> "int", xform |-> "id"] >>,
      decl |-> << <<"v", "dyn", 1>> >>, handler |-> "on_bit"],
     [ev |-> "sbit", whenw |-> 0, ctx |-> << <<"run_t0", 1>> >>,
      fields |-> << [name |-> "s", width |-> 1, signed |-> TRUE, kind |-> "int", xform |-> "id"] >>,
      decl |-> << <<"s", "dyn", 1>>, <<"lane", "static", "int:7">> >>, handler |-> ""] >>
Bit == {0, 1}
Lines == {[cycle |-> cyc, sig |-> [c0 |-> a, run_t0 |-> b],
           sites |-> << [when |-> w, vals |-> <<v1>>], [when |-> 1, vals |-> <<v2>>] >>] :
            a \in Bit, b \in Bit, w \in Bit, v1 \in Bit, v2 \in Bit}
ActiveSet(line) == {k \in 1..Len(Sites) : E!Active(Sites[k], line.sites[k], line)}

Init == log = <<>> /\ cyc = 0 /\ nact = 0 /\ last = [cycle |-> 0]
Cycle(line) ==
  /\ cyc < Depth
  /\ log' = E!CycleStep(log, Sites, line)
  /\ cyc' = cyc + 1
  /\ nact' = nact + Cardinality(ActiveSet(line))
  /\ last' = line
Next == \E line \in Lines : Cycle(line)
Spec == Init /\ [][Next]_vars
View == <<log, cyc>>

\* ---- invariants ---------------------------------------------------------------------------------
File == E!Save("the-schema", log)
Dec == E!Decode(Sites, log)
Inv ==
  /\ E!Sorted(log)                                   \* by cycle, then by site; no duplicates
  /\ Len(log) = nact                                  \* one record per activation
  /\ E!LoadRaw(File) = log /\ E!LoadSchema(File) = "the-schema"     \* save -> load identity
  /\ E!ReadStream(Sites, File) = Dec                 \* streaming reader = decoded log
  /\ E!ConsumerRun(Sites, Dec) = E!Dispatch(Sites, Dec)              \* capture order is cycle order
\* dispatch order of a consumer that is handed the records in ANY order
ConsumerInv ==
  Len(log) <= 4 =>
    \A p \in Permutations(1..Len(log)) :
       LET inp == E!Permuted(Dec, p)
           out == E!ConsumerRun(Sites, inp)
       IN /\ Len(out) = Len(inp)
          /\ \A i \in 1..(Len(out) - 1) : out[i][2] <= out[i + 1][2]          \* cycle order
          /\ {out[i] : i \in 1..Len(out)} = {E!Dispatch(Sites, inp)[i] : i \in 1..Len(inp)}
          \* stable: records of one cycle keep their input order
          /\ \A i, j \in 1..Len(inp) : (i < j /\ inp[i][1] = inp[j][1]) =>
               \E a, b \in 1..Len(out) : a < b /\ out[a] = E!Dispatch(Sites, inp)[i] /\ out[b] = E!Dispatch(Sites, inp)[j]
\* ---- the sentence of C33 about capture, on the transition -----------------------------------
StepOK ==
  [][LET line == last'
         new == SubSeq(log', Len(log) + 1, Len(log'))
     IN /\ SubSeq(log', 1, Len(log)) = log                                   \* append only
        /\ \A k \in 1..Len(Sites) :                                          \* exactly the active sites
             (\E i \in 1..Len(new) : new[i][1] = cyc /\ new[i][2] = k - 1) <=>
               (line.sites[k].when # 0 /\ E!CtxHolds(Sites[k], line))
        /\ \A i \in 1..Len(new) :                                            \* with the sampled values
             LET k == new[i][2] + 1 IN
             new[i][3] = <<E!FieldRaw(Sites[k].fields[1], line.sites[k].vals[1])>>
        /\ Len(new) = Cardinality({new[i][2] : i \in 1..Len(new)})            \* once per site
    ]_vars
Emit == PrintT("EDGE " \o ToJson([cfg |-> [depth |-> Depth], from |-> [log |-> log, cyc |-> cyc],
                                  lab |-> last', to |-> [log |-> log', cyc |-> cyc']]))
====
