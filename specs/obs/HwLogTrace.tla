---- MODULE HwLogTrace ----
\* Batch validation against HwLog.tla of
\*   kind "sim": what the simulation logging process reported, cycle by cycle.  A trace =
\*       [kind, cfg (see HwLog.tla), lines]; a line carries the harness' own view of the cycle (driven inputs,
\*       sampled run signals) plus the observation: `reports` = <<stmt index, level, logger name, message>>
\*       received from Python's logging in that cycle (in order) and `ended` = the simulation raised
\*       its failure in that cycle;
\*   kind "fmt": a table of LogRecordInfo.format results: line = [spec, val, msg].
\* Clauses: ReportedIffTriggered (which statements reported), InOrderOnce, LevelAndLogger, MessageMatches,
\* ErrorEndsSimulation (ended <=> an ERROR-level record is due), NothingAfterFailure (a failed simulation
\* has no further line), CycleCount; FormatMatches for the table.
EXTENDS Integers, Sequences, FiniteSets, TLC, Json, IOUtils
Traces == JsonDeserialize(IOEnv.TRACE_FILE)
VARIABLES tid, l, ended, verdict
vars == <<tid, l, ended, verdict>>
H == INSTANCE HwLog
T == Traces[tid]
Line == T.lines[l]
IsSim == T.kind = "sim"
Cfg == T.cfg
Obs == Line.reports
Exp == H!Reports(Cfg, Line)
ObsSet == {Obs[i][1] + 1 : i \in 1..Len(Obs)}

ReportedIffTriggered == ObsSet = H!ReportedSet(Cfg, Line)
InOrderOnce == \A i, j \in 1..Len(Obs) : i < j => Obs[i][1] < Obs[j][1]
LevelAndLogger ==
  \A i \in 1..Len(Obs) : (Obs[i][1] + 1) \in 1..Len(Cfg.stmts) =>
      /\ Obs[i][2] = Cfg.stmts[Obs[i][1] + 1].level
      /\ Obs[i][3] = H!JoinDots(Cfg.stmts[Obs[i][1] + 1].name)
MessageMatches ==
  \A i \in 1..Len(Obs) : (Obs[i][1] + 1) \in 1..Len(Cfg.stmts) =>
      Obs[i][4] = H!Message(Cfg.stmts[Obs[i][1] + 1], Line.stmts[Obs[i][1] + 1])
ErrorEndsSimulation == Line.ended <=> H!Ends(Cfg, Line)
NothingAfterFailure == ~ended
CycleCount == l > 1 => Line.cycle = T.lines[l - 1].cycle + 1
FormatMatches == Line.msg = H!FormatInt(Line.val, Line.spec)

SimClauses == {"ReportedIffTriggered", "InOrderOnce", "LevelAndLogger", "MessageMatches", "ErrorEndsSimulation",
               "NothingAfterFailure", "CycleCount"}
Holds(n) == CASE n = "ReportedIffTriggered" -> ReportedIffTriggered
              [] n = "InOrderOnce" -> InOrderOnce
              [] n = "LevelAndLogger" -> LevelAndLogger
              [] n = "MessageMatches" -> MessageMatches
              [] n = "ErrorEndsSimulation" -> ErrorEndsSimulation
              [] n = "NothingAfterFailure" -> NothingAfterFailure
              [] n = "CycleCount" -> CycleCount
              [] OTHER -> FormatMatches
Failing == IF IsSim THEN {n \in SimClauses : ~Holds(n)} ELSE {n \in {"FormatMatches"} : ~Holds(n)}

Init == tid \in 1..Len(Traces) /\ l = 1 /\ ended = FALSE /\ verdict = "go"
Step == /\ verdict = "go" /\ l <= Len(T.lines)
        /\ IF Failing = {}
           THEN l' = l + 1 /\ ended' = (IF IsSim THEN Line.ended ELSE FALSE) /\ UNCHANGED verdict
           ELSE /\ verdict' = "reject"
                /\ PrintT("REJECT " \o ToJson([tid |-> tid, line |-> l, clauses |-> Failing,
                                                 expected |-> IF IsSim THEN Exp ELSE <<H!FormatInt(Line.val, Line.spec)>>]))
                /\ UNCHANGED <<l, ended>>
        /\ UNCHANGED tid
Fin == /\ verdict = "go" /\ l = Len(T.lines) + 1
       /\ verdict' = "accept" /\ PrintT("ACCEPT " \o ToJson([tid |-> tid]))
       /\ UNCHANGED <<tid, l, ended>>
Spec == Init /\ [][Step \/ Fin]_vars
====
