---- MODULE EvLog ----
\* The event log of transactron/evlog (property C33) as an abstract object.
\*
\* State of the abstract object: `log`, a sequence of raw records <<cycle, site, values>>
\* (site = 0-based registration index of the emission site, values = raw dynamic field values in
\* schema order) -- exactly the shape of `EventLog.raw`.
\* One clock cycle = CycleStep(log, sites, line): appends one record per emission site that is
\* ACTIVE in the cycle, in registration order, with the field values of that cycle.
\*
\* A design is a value: `sites` is a sequence of site descriptions
\*   [ev      |-> event class tag,
\*    whenw   |-> width of the `when` expression (0 = default `when=1`),
\*    ctx     |-> sequence of <<signal name, value>>: the surrounding module context (m.If / m.Else /
\*                m.Case conditions, `run` of the enclosing transaction / method body); empty for
\*                top_emit, which ignores the context,
\*    fields  |-> sequence of [name, width, signed, kind ("int" | "bool" | "enum:<Cls>"), xform ("id" | "inc")],
\*    decl    |-> sequence of <<name, "dyn", index>> | <<name, "static", typed string>>: the dataclass
\*                fields of the event in declaration order,
\*    handler |-> name of the consumer handler for the event type ("" = unhandled)]
\* and a `line` (one cycle of observation) is
\*   [cycle |-> n, sig |-> [signal name |-> value], sites |-> sequence of [when |-> v, vals |-> <<unsigned bit patterns>>]]
\* built from signals driven / sampled by the harness, independently of the capture process.
EXTENDS Integers, Sequences, FiniteSets, TLC

\* ---- field values ---------------------------------------------------------------------------------
Pow2(n) == 2 ^ n
Signed(v, w) == IF w > 0 /\ v >= Pow2(w - 1) THEN v - Pow2(w) ELSE v
\* raw value the capture must report for field f when the harness input carries bit pattern v
FieldRaw(f, v) ==
  LET x == IF f.xform = "inc" THEN (v + 1) % Pow2(f.width) ELSE v     \* field expression (inp + 1)[:w]
  IN IF f.signed THEN Signed(x, f.width) ELSE x

\* ---- which sites fire ---------------------------------------------------------------------------
\* emit(): trigger = when.any(), assigned in the comb domain of the module context => the record is
\* produced iff `when` is non-zero AND every enclosing condition holds AND the enclosing body runs.
CtxHolds(site, line) == \A i \in 1..Len(site.ctx) : line.sig[site.ctx[i][1]] = site.ctx[i][2]
Active(site, obs, line) == obs.when # 0 /\ CtxHolds(site, line)

RecordOf(sites, line, k) ==
  <<line.cycle, k - 1, [i \in 1..Len(sites[k].fields) |-> FieldRaw(sites[k].fields[i], line.sites[k].vals[i])]>>
RecordsOf(sites, line) ==
  LET all == [k \in 1..Len(sites) |-> RecordOf(sites, line, k)]
  IN SelectSeq(all, LAMBDA r : Active(sites[r[2] + 1], line.sites[r[2] + 1], line))

\* the clock edge
CycleStep(log, sites, line) == log \o RecordsOf(sites, line)

\* ---- decoding -------------------------------------------------------------------------------------
\* Typed values are strings "<type>:<value>" so that values of different Python types stay comparable.
Typed(kind, raw) ==
  IF kind = "bool" THEN (IF raw # 0 THEN "bool:1" ELSE "bool:0")
  ELSE kind \o ":" \o ToString(raw)                 \* "int:-3", "enum:Kind:2"
DecodeRec(sites, rec) ==
  LET s == sites[rec[2] + 1]
  IN <<rec[1], rec[2],
       [i \in 1..Len(s.decl) |->
          IF s.decl[i][2] = "dyn"
          THEN <<s.decl[i][1], Typed(s.fields[s.decl[i][3]].kind, rec[3][s.decl[i][3]])>>
          ELSE <<s.decl[i][1], s.decl[i][3]>>]>>
Decode(sites, log) == [i \in 1..Len(log) |-> DecodeRec(sites, log[i])]

\* ---- JSON-lines file: header line with the schema, then one line per record -------------------
Save(schema, log) == <<<<"schema", schema>>>> \o [i \in 1..Len(log) |-> <<"rec", log[i]>>]
LoadSchema(file) == file[1][2]
LoadRaw(file) == [i \in 1..(Len(file) - 1) |-> file[i + 1][2]]
\* streaming reader = decode of the records in file order
ReadStream(sites, file) == Decode(sites, LoadRaw(file))

\* ---- consumer: dispatch sorted by cycle (stable) -------------------------------------------------
CyclesOf(recs) == {recs[i][1] : i \in 1..Len(recs)}
RECURSIVE ByCycle(_, _)
ByCycle(recs, cs) ==
  IF cs = {} THEN <<>>
  ELSE LET c == CHOOSE x \in cs : \A y \in cs : x <= y
       IN SelectSeq(recs, LAMBDA r : r[1] = c) \o ByCycle(recs, cs \ {c})
StableSortByCycle(recs) == ByCycle(recs, CyclesOf(recs))
Permuted(recs, perm) == [i \in 1..Len(perm) |-> recs[perm[i]]]
HandlerOf(sites, drec) == LET h == sites[drec[2] + 1].handler IN IF h = "" THEN "unhandled" ELSE h
Dispatch(sites, drecs) == [i \in 1..Len(drecs) |-> <<HandlerOf(sites, drecs[i])>> \o drecs[i]]
ConsumerRun(sites, drecs) == Dispatch(sites, StableSortByCycle(drecs))

\* ---- properties of a log ---------------------------------------------------------------------------
\* sorted by cycle, then by site; at most one record per (cycle, site)
Sorted(log) ==
  \A i \in 1..(Len(log) - 1) :
     log[i][1] < log[i + 1][1] \/ (log[i][1] = log[i + 1][1] /\ log[i][2] < log[i + 1][2])
NonDecreasingCycles(recs) == \A i \in 1..(Len(recs) - 1) : recs[i][1] <= recs[i + 1][1]
====
