---- MODULE EvLogTrace ----
\* Batch validation of event-log artefacts produced by the real code against EvLog.tla.
\* A trace = [cfg |-> [sites |-> design (see EvLog.tla)],
\*            lines   |-> one observation per clock cycle (driven / independently sampled signals),
\*            raw     |-> [artefact name |-> sequence of raw records <<cycle, site, values>>]
\*                        (captured log, save->load, GeneratedEvLogSampler packed / per-site, ...),
\*            dec     |-> [artefact name |-> sequence of decoded records <<cycle, site, <<name, typed>>..>>]
\*                        (EventLog.decoded, EventLogReader stream, decoded after load),
\*            consumer|-> [perm |-> order in which the decoded records were handed to
\*                         EventConsumer.run, out |-> <<handler, cycle, site, fields>> in dispatch order],
\*            schema  |-> observed schema per artefact family: sequence of <<event tag, fields
\*                        <<name, width, signed>>.., statics <<name, typed>>..>>]
\* The model log is rebuilt cycle by cycle from `lines`; each artefact must contain, for every
\* line, exactly the model's records of that cycle at the current position (clause = artefact
\* name), nothing after the last line (clause "<name>:extra"), and the final clauses below.
EXTENDS Integers, Sequences, FiniteSets, TLC, Json, IOUtils
Traces == JsonDeserialize(IOEnv.TRACE_FILE)
VARIABLES tid, l, log, verdict
vars == <<tid, l, log, verdict>>
E == INSTANCE EvLog
T == Traces[tid]
Sites == T.cfg.sites
Line == T.lines[l]
RawNames == DOMAIN T.raw
DecNames == DOMAIN T.dec

New == E!RecordsOf(Sites, Line)
Slice(s, from, n) == IF Len(s) >= from + n - 1 THEN SubSeq(s, from, from + n - 1) ELSE <<"short">>
RawOK(a) == Slice(T.raw[a], Len(log) + 1, Len(New)) = New
DecOK(a) == Slice(T.dec[a], Len(log) + 1, Len(New)) = E!Decode(Sites, New)
\* the cycle numbers of the lines count up by one (the capture process stamps records with them)
CycleOK == l > 1 => Line.cycle = T.lines[l - 1].cycle + 1
FailingLine == {a \in RawNames : ~RawOK(a)} \cup {a \in DecNames : ~DecOK(a)}
               \cup (IF CycleOK THEN {} ELSE {"CycleCount"})

\* ---- final clauses --------------------------------------------------------------------------------
Extra == {a \o ":extra" : a \in {x \in RawNames : Len(T.raw[x]) # Len(log)}}
         \cup {a \o ":extra" : a \in {x \in DecNames : Len(T.dec[x]) # Len(log)}}
\* schema: event, dynamic fields (name, width, signedness) and statics of every site, in site order
ExpectedSchema ==
  [k \in 1..Len(Sites) |->
     <<Sites[k].ev,
       [i \in 1..Len(Sites[k].fields) |-> <<Sites[k].fields[i].name, Sites[k].fields[i].width, Sites[k].fields[i].signed>>],
       Sites[k].statics>>]          \* <<name, typed raw value>> in declaration order
SchemaOK(a) == T.schema[a] = ExpectedSchema
HasConsumer == "consumer" \in DOMAIN T /\ Len(T.consumer.perm) = Len(log)
ConsIn == E!Permuted(E!Decode(Sites, log), T.consumer.perm)
ConsOut == T.consumer.out
\* property: dispatched in cycle order, every record once, to the handler of its event type
ConsumerCycleOrder ==
  /\ Len(ConsOut) = Len(ConsIn)
  /\ \A i \in 1..(Len(ConsOut) - 1) : ConsOut[i][2] <= ConsOut[i + 1][2]
  /\ {ConsOut[i] : i \in 1..Len(ConsOut)} = {E!Dispatch(Sites, ConsIn)[i] : i \in 1..Len(ConsIn)}
\* model: Python's sort is stable (records of one cycle keep their input order)
ConsumerStable == ConsOut = E!ConsumerRun(Sites, ConsIn)
FailingFin ==
  Extra \cup {a \o ":schema" : a \in {x \in DOMAIN T.schema : ~SchemaOK(x)}}
  \cup (IF HasConsumer /\ ~ConsumerCycleOrder THEN {"ConsumerCycleOrder"} ELSE {})
  \cup (IF HasConsumer /\ ~ConsumerStable THEN {"ConsumerStable"} ELSE {})
  \cup (IF "consumer" \in DOMAIN T /\ ~HasConsumer THEN {"ConsumerInputLength"} ELSE {})
  \cup (IF E!Sorted(log) THEN {} ELSE {"ModelLogSorted"})

Init == tid \in 1..Len(Traces) /\ l = 1 /\ log = <<>> /\ verdict = "go"
Reject(cl) == /\ verdict' = "reject"
              /\ PrintT("REJECT " \o ToJson([tid |-> tid, line |-> l, clauses |-> cl, nlog |-> Len(log),
                                               expected |-> IF l <= Len(T.lines) THEN New ELSE <<>>]))
Step == /\ verdict = "go" /\ l <= Len(T.lines)
        /\ IF FailingLine = {}
           THEN l' = l + 1 /\ log' = E!CycleStep(log, Sites, Line) /\ UNCHANGED verdict
           ELSE Reject(FailingLine) /\ UNCHANGED <<l, log>>
        /\ UNCHANGED tid
Fin == /\ verdict = "go" /\ l = Len(T.lines) + 1
       /\ IF FailingFin = {} THEN verdict' = "accept" /\ PrintT("ACCEPT " \o ToJson([tid |-> tid, nlog |-> Len(log)]))
          ELSE Reject(FailingFin)
       /\ UNCHANGED <<tid, l, log>>
Spec == Init /\ [][Step \/ Fin]_vars
====
