---- MODULE HwLogMC ----
\* Exhaustive small model of hardware logging (HwLog.tla): 3 statements
\*   s0 info      "c34.g0.s0"  log.info(m, t0, "v={:b}", f0) under m.If(c0)
\*   s1 assertion "c34.g1.s1"  log.assertion(m, a1, "a") inside a transaction body (run_t0)
\*   s2 warning   "c34.g0.s2"  log.top_warning(t2, "w={:02x}", f2)  (registered after the assertion)
\* all 2^7 input valuations per cycle, up to Depth cycles, for several (minlevel, namespace) settings.
EXTENDS Integers, Sequences, FiniteSets, TLC, Json, IOUtils
VARIABLES cfg, cyc, ended, reports, last
H == INSTANCE HwLog
vars == <<cfg, cyc, ended, reports, last>>
Depth == IF "HWLOG_DEPTH" \in DOMAIN IOEnv THEN atoi(IOEnv.HWLOG_DEPTH) ELSE 2
NoSpec(t) == [fill |-> "", align |-> "", sign |-> "", alt |-> FALSE, zero |-> FALSE, width |-> 0, type |-> t]
Stmts ==
  << [level |-> 20, name |-> <<"c34", "g0", "s0">>, kind |-> "log", top |-> FALSE, ctx |-> << <<"c0", 1>> >>,
      fields |-> << [width |-> 1, signed |-> FALSE] >>,
      chunks |-> << [lit |-> "v="], [field |-> 1, spec |-> NoSpec("b")] >>],
     [level |-> 40, name |-> <<"c34", "g1", "s1">>, kind |-> "assert", top |-> FALSE, ctx |-> << <<"run_t0", 1>> >>,
      fields |-> <<>>, chunks |-> << [lit |-> "a"] >>],
     [level |-> 30, name |-> <<"c34", "g0", "s2">>, kind |-> "log", top |-> TRUE, ctx |-> <<>>,
      fields |-> << [width |-> 1, signed |-> TRUE] >>,
      chunks |-> << [lit |-> "w="], [field |-> 1, spec |-> [fill |-> "", align |-> "", sign |-> "", alt |-> FALSE,
                                                            zero |-> TRUE, width |-> 2, type |-> "x"]] >>] >>
Cfgs == {[minlevel |-> ml, filter |-> f, stmts |-> Stmts] : ml \in {0, 30, 50}, f \in {<<>>, <<"c34", "g0">>}}
Bit == {0, 1}
Lines == {[cycle |-> cyc, sig |-> [c0 |-> c, run_t0 |-> r],
           stmts |-> << [trig |-> t0, vals |-> <<f0>>], [trig |-> a1, vals |-> <<>>], [trig |-> t2, vals |-> <<f2>>] >>] :
            c \in Bit, r \in Bit, t0 \in Bit, f0 \in Bit, a1 \in Bit, t2 \in Bit, f2 \in Bit}

Init == cfg \in Cfgs /\ cyc = 0 /\ ended = FALSE /\ reports = <<>> /\ last = [cycle |-> 0]
Cycle(line) ==
  /\ ~ended /\ cyc < Depth                      \* a failed simulation takes no further step
  /\ reports' = reports \o H!Reports(cfg, line)
  /\ ended' = H!Ends(cfg, line)
  /\ cyc' = cyc + 1 /\ last' = line /\ UNCHANGED cfg
Next == \E line \in Lines : Cycle(line)
Spec == Init /\ [][Next]_vars
View == <<cfg.minlevel, cfg.filter, cyc, ended, reports>>
\* the component automaton (the statements have no hardware state): history and cycle number hidden
ViewEdge == <<cfg.minlevel, cfg.filter, ended>>

\* ---- properties ----------------------------------------------------------------------------------------
New == SubSeq(reports', Len(reports) + 1, Len(reports'))
ReportedNow(k) == \E i \in 1..Len(New) : New[i][1] = k - 1
\* a record is reported iff its trigger holds within its context (and the process was asked for it),
\* except behind the ERROR record that ends the simulation in the same cycle
ReportedIffTriggered ==
  [][\A k \in 1..Len(Stmts) :
        LET s == Stmts[k]  obs == last'.stmts[k]
            trig == (IF s.kind = "assert" THEN obs.trig = 0 ELSE obs.trig # 0)
                    /\ (s.top \/ \A i \in 1..Len(s.ctx) : last'.sig[s.ctx[i][1]] = s.ctx[i][2])
            wanted == s.level >= cfg.minlevel /\ H!IsPrefix(cfg.filter, s.name)
            cut == \E j \in 1..(k - 1) : ReportedNow(j) /\ Stmts[j].level >= 40
        IN ReportedNow(k) <=> (trig /\ wanted /\ ~cut)]_vars
\* an ERROR-level record (incl. a failed assertion) ends the simulation, nothing else does
ErrorEndsSimulation ==
  [][ended' <=> \E i \in 1..Len(New) : New[i][2] >= 40]_vars
OncePerCycleInOrder ==
  [][\A i, j \in 1..Len(New) : i < j => New[i][1] < New[j][1]]_vars
Inv == /\ ended => (Len(reports) > 0 /\ reports[Len(reports)][2] >= 40)     \* the failure is the last thing reported
       /\ \A i \in 1..(Len(reports) - 1) : reports[i][2] < 40                  \* nothing is reported after a failure
Emit == PrintT("EDGE " \o ToJson([cfg |-> [minlevel |-> cfg.minlevel, filter |-> cfg.filter, depth |-> Depth],
                                  from |-> [cyc |-> cyc, ended |-> ended, reports |-> reports],
                                  lab |-> [line |-> last', reports |-> New, ended |-> ended'],
                                  to |-> [cyc |-> cyc', ended |-> ended', reports |-> reports']]))
====
