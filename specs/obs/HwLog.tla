---- MODULE HwLog ----
\* Hardware logs and assertions (transactron/utils/logging.py) as observed through the simulation
\* logging process (transactron/testing/logging.py) -- property C34.
\*
\* A design is a value: `stmts` is the sequence of log statements in registration order,
\*   [level  |-> Python logging level (DEBUG 10, INFO 20, WARNING 30, ERROR 40, or any int),
\*    name   |-> logger name as a sequence of path components (<<"c34","g0","s1">> = "c34.g0.s1"),
\*    kind   |-> "log" (trigger expression) | "assert" (asserted value: fires when the value is 0),
\*    top    |-> TRUE for the top_* variants, which ignore the module context,
\*    ctx    |-> sequence of <<signal name, value>>: enclosing m.If / m.Else / m.Case conditions and
\*               `run` of the enclosing transaction / method body,
\*    fields |-> sequence of [width, signed] of the format arguments,
\*    chunks |-> the message: sequence of [lit |-> "text"] | [field |-> i, spec |-> format spec]]
\* A format spec is the parsed Python format specification
\*   [fill, align ("" | "<" | ">" | "="), sign ("" | "+" | "-" | " "), alt (#), zero (0), width, type ("" d x X b o)].
\* `cfg` = [minlevel, filter (name prefix, <<>> = everything), stmts]; `line` = one clock cycle:
\*   [cycle, sig |-> [name |-> value], stmts |-> sequence of [trig |-> value, vals |-> <<bit patterns>>]].
EXTENDS Integers, Sequences, FiniteSets, TLC

ERROR == 40
Pow2(n) == 2 ^ n
Signed(v, w) == IF w > 0 /\ v >= Pow2(w - 1) THEN v - Pow2(w) ELSE v

\* ---- Python's format(int, spec) for the modelled subset -------------------------------------------
HexL == <<"0", "1", "2", "3", "4", "5", "6", "7", "8", "9", "a", "b", "c", "d", "e", "f">>
HexU == <<"0", "1", "2", "3", "4", "5", "6", "7", "8", "9", "A", "B", "C", "D", "E", "F">>
RECURSIVE NatStr(_, _, _)
NatStr(n, base, tbl) ==            \* [s |-> digits of n in `base`, n |-> number of digits]
  IF n < base THEN [s |-> tbl[n + 1], n |-> 1]
  ELSE LET r == NatStr(n \div base, base, tbl) IN [s |-> r.s \o tbl[(n % base) + 1], n |-> r.n + 1]
RECURSIVE Rep(_, _)
Rep(ch, k) == IF k <= 0 THEN "" ELSE ch \o Rep(ch, k - 1)
FormatInt(v, sp) ==
  LET base == IF sp.type \in {"x", "X"} THEN 16 ELSE IF sp.type = "o" THEN 8 ELSE IF sp.type = "b" THEN 2 ELSE 10
      d == NatStr(IF v < 0 THEN 0 - v ELSE v, base, IF sp.type = "X" THEN HexU ELSE HexL)
      prefix == IF sp.alt /\ sp.type \in {"x", "X", "o", "b"} THEN "0" \o sp.type ELSE ""
      plen == IF prefix = "" THEN 0 ELSE 2
      sign == IF v < 0 THEN "-" ELSE IF sp.sign \in {"+", " "} THEN sp.sign ELSE ""
      slen == IF sign = "" THEN 0 ELSE 1
      \* '0' before the width: fill '0' (unless a fill is given) and, without explicit alignment, '='
      fill == IF sp.fill # "" THEN sp.fill ELSE IF sp.zero THEN "0" ELSE " "
      align == IF sp.align # "" THEN sp.align ELSE IF sp.zero THEN "=" ELSE ">"
      pad == sp.width - (slen + plen + d.n)
  IN IF pad <= 0 THEN sign \o prefix \o d.s
     ELSE IF align = "<" THEN sign \o prefix \o d.s \o Rep(fill, pad)
     ELSE IF align = ">" THEN Rep(fill, pad) \o sign \o prefix \o d.s
     ELSE sign \o prefix \o Rep(fill, pad) \o d.s

\* ---- one statement in one cycle ---------------------------------------------------------------------
CtxHolds(s, line) == s.top \/ \A i \in 1..Len(s.ctx) : line.sig[s.ctx[i][1]] = s.ctx[i][2]
\* log(m, trigger, ..): trigger.any() inside the module context; assertion(m, value, ..): ~value.any()
Fires(s, obs, line) == (IF s.kind = "assert" THEN obs.trig = 0 ELSE obs.trig # 0) /\ CtxHolds(s, line)
IsPrefix(p, q) == Len(p) <= Len(q) /\ \A i \in 1..Len(p) : p[i] = q[i]
\* make_logging_process(level, namespace_regexp): records below the level / outside the namespace
\* do not exist for the process (neither reported nor able to end the simulation)
Selected(cfg, s) == s.level >= cfg.minlevel /\ IsPrefix(cfg.filter, s.name)
RECURSIVE JoinDots(_)
JoinDots(p) == IF Len(p) = 1 THEN p[1] ELSE p[1] \o "." \o JoinDots(Tail(p))
RECURSIVE MsgOf(_, _, _, _)
MsgOf(s, obs, chunks, i) ==
  IF i > Len(chunks) THEN ""
  ELSE (IF "lit" \in DOMAIN chunks[i] THEN chunks[i].lit
        ELSE LET f == chunks[i].field
                 raw == obs.vals[f]
             IN FormatInt(IF s.fields[f].signed THEN Signed(raw, s.fields[f].width) ELSE raw, chunks[i].spec))
       \o MsgOf(s, obs, chunks, i + 1)
Message(s, obs) == MsgOf(s, obs, s.chunks, 1)
ReportOf(cfg, line, k) == <<k - 1, cfg.stmts[k].level, JoinDots(cfg.stmts[k].name), Message(cfg.stmts[k], line.stmts[k])>>

\* ---- one clock cycle ------------------------------------------------------------------------------------
Due(cfg, line) == {k \in 1..Len(cfg.stmts) : Selected(cfg, cfg.stmts[k]) /\ Fires(cfg.stmts[k], line.stmts[k], line)}
ErrorsDue(cfg, line) == {k \in Due(cfg, line) : cfg.stmts[k].level >= ERROR}
\* the simulation ends with a failure in this cycle iff an ERROR-level record (or failed assertion) is due
Ends(cfg, line) == ErrorsDue(cfg, line) # {}
\* Named deviation from "reported in exactly the cycles where its trigger holds": the process handles the
\* records in registration order and the failure is raised right after the first ERROR-level record,
\* so records registered after it are not reported in the failing cycle.
FirstError(cfg, line) == CHOOSE k \in ErrorsDue(cfg, line) : \A j \in ErrorsDue(cfg, line) : k <= j
ReportedSet(cfg, line) ==
  IF Ends(cfg, line) THEN {k \in Due(cfg, line) : k <= FirstError(cfg, line)} ELSE Due(cfg, line)
Reports(cfg, line) ==
  LET all == [k \in 1..Len(cfg.stmts) |-> ReportOf(cfg, line, k)]
      rs == ReportedSet(cfg, line)
  IN SelectSeq(all, LAMBDA r : (r[1] + 1) \in rs)
====
