---- MODULE ProfilerTrace ----
\* C35: the Profile produced by transactron.testing.profiler / transactron.profiler for a real
\* simulation is compared, cycle by cycle, with the signals sampled independently by the harness
\* and with the specification's conflict relation (TxnCore!Derive).
\* case = [design, cycles (run, rdy, rnb per body), prof (per cycle: running = seq of <<body, caller|0>>,
\*         locked = seq of <<body, by>>), stats (per transaction <<body, run count, locked count>>)]
EXTENDS Naturals, Sequences, FiniteSets, TLC, Json, IOUtils
Cases == JsonDeserialize(IOEnv.TRACE_FILE)
VARIABLES tid, l, R, status
vars == <<tid, l, R, status>>
C == INSTANCE TxnCore WITH D <- Cases[tid].design, R <- R, X <- <<>>
Dz == Cases[tid].design
NLines == Len(Cases[tid].cycles)
Line == Cases[tid].cycles[l]
P == Cases[tid].prof[l]
SeqSet(s) == {s[i] : i \in 1..Len(s)}
RunningIds(p) == {e[1] : e \in SeqSet(p.running)}
LockedT(p) == {e \in SeqSet(p.locked) : e[1] \in C!Trans}

RunningExact == RunningIds(P) = {b \in C!Bodies : Line.run[b] = 1}
RunningCallerOK ==
  \A e \in SeqSet(P.running) :
     IF e[1] \in C!Trans THEN e[2] = 0
     ELSE e[2] # 0 /\ Line.run[e[2]] = 1 /\ \E s \in C!Sites : Dz.sites[s].caller = e[2] /\ Dz.sites[s].callee = e[1]
LockedOnlyIfConflictRan ==
  \A e \in LockedT(P) :
     /\ Line.rdy[e[1]] = 1 /\ Line.rnb[e[1]] = 1 /\ Line.run[e[1]] = 0
     /\ e[2] \in C!Trans /\ Line.run[e[2]] = 1 /\ <<e[1], e[2]>> \in R.conf
\* model level (stronger than the property): every transaction blocked by a running conflicting one is marked
ModelLockedIf ==
  \A t \in C!Trans : (Line.rdy[t] = 1 /\ Line.rnb[t] = 1 /\ Line.run[t] = 0 /\ \E u \in C!Trans : Line.run[u] = 1 /\ <<t, u>> \in R.conf)
     => \E e \in LockedT(P) : e[1] = t
StatsEqualCounts ==
  \A s \in SeqSet(Cases[tid].stats) :
     /\ s[2] = Cardinality({k \in 1..NLines : s[1] \in RunningIds(Cases[tid].prof[k])})
     /\ s[3] = Cardinality({k \in 1..NLines : \E e \in SeqSet(Cases[tid].prof[k].locked) : e[1] = s[1]})
StatsCoverAllTransactions == {s[1] : s \in SeqSet(Cases[tid].stats)} = C!Trans
SameLength == Len(Cases[tid].prof) = NLines

PropNames == {"RunningExact", "RunningCallerOK", "LockedOnlyIfConflictRan"}
Holds(n) == CASE n = "RunningExact" -> RunningExact [] n = "RunningCallerOK" -> RunningCallerOK
              [] n = "LockedOnlyIfConflictRan" -> LockedOnlyIfConflictRan [] OTHER -> ModelLockedIf
Failing == {n \in PropNames \cup {"ModelLockedIf"} : ~Holds(n)}
Init == tid \in 1..Len(Cases) /\ l = 1 /\ R = <<>> /\ status = "prep"
Prep == /\ status = "prep" /\ R' = C!Derive /\ UNCHANGED <<tid, l>>
        /\ IF SameLength /\ StatsCoverAllTransactions /\ StatsEqualCounts THEN status' = "go"
           ELSE /\ status' = "reject"
                /\ PrintT("REJECT " \o ToJson([tid |-> tid, line |-> 0,
                        clauses |-> (IF ~SameLength THEN {"SameLength"} ELSE {}) \cup
                                    (IF SameLength /\ ~(StatsCoverAllTransactions /\ StatsEqualCounts) THEN {"StatsEqualCounts"} ELSE {})]))
Step == /\ status = "go" /\ l <= NLines
        /\ LET f == Failing IN
           IF f \cap PropNames = {}
           THEN /\ l' = l + 1 /\ UNCHANGED status
                /\ IF f # {} THEN PrintT("DEVIATION " \o ToJson([tid |-> tid, line |-> l, clauses |-> f])) ELSE TRUE
           ELSE /\ status' = "reject" /\ UNCHANGED l
                /\ PrintT("REJECT " \o ToJson([tid |-> tid, line |-> l, clauses |-> f]))
        /\ UNCHANGED <<tid, R>>
Fin == /\ status = "go" /\ l = NLines + 1 /\ status' = "accept"
       /\ PrintT("ACCEPT " \o ToJson([tid |-> tid, lines |-> NLines]))
       /\ UNCHANGED <<tid, l, R>>
Spec == Init /\ [][Prep \/ Step \/ Fin]_vars
====
