---- MODULE Shifters ----
\* Documented meaning of transactron/utils/amaranth_ext/shifter.py (property C37).
\* A w-bit value is a natural < 2^w, bit 0 = least significant.  "Right" moves bit i+off to bit i,
\* "left" moves bit i to bit i+off; vectors are 1-indexed sequences whose entry k plays the role of
\* bit k-1.  Written from the docstrings: "shift ... by offset bits, fill the empty space with the
\* placeholder", "rotate ... by offset bits", results have the width / length of the argument.
\* The docstrings give no bound for offset; the definitions below are the plain reading for
\* 0 <= off <= w (rotations are taken modulo the width, as the property says).
EXTENDS Bits

ShiftRight(x, w, off, ph) ==
  MaskOf({i \in 0..(w - 1) : IF i + off < w THEN Bit(x, i + off) = 1 ELSE ph = 1}, w)
ShiftLeft(x, w, off, ph) ==
  MaskOf({i \in 0..(w - 1) : IF i >= off THEN Bit(x, i - off) = 1 ELSE ph = 1}, w)
RotateRight(x, w, off) == MaskOf({i \in 0..(w - 1) : Bit(x, (i + off) % w) = 1}, w)
RotateLeft(x, w, off) == MaskOf({i \in 0..(w - 1) : Bit(x, (i + w - (off % w)) % w) = 1}, w)
\* "fill the empty space with bits from value2": the 2w-bit word value2:value1 (right) resp.
\* value1:value2 (left) is shifted and the w bits at the position of value1 are returned; this is the
\* only reading under which rotate = generic_shift(value, value) and shift = generic_shift(value,
\* placeholder replicated), as the docstrings say ("used to implement shift_* and rotate_*")
GenericShiftRight(a, b, w, off) ==
  MaskOf({i \in 0..(w - 1) : IF i + off < w THEN Bit(a, i + off) = 1 ELSE Bit(b, i + off - w) = 1}, w)
GenericShiftLeft(a, b, w, off) ==
  MaskOf({i \in 0..(w - 1) : IF i >= off THEN Bit(a, i - off) = 1 ELSE Bit(b, w - off + i) = 1}, w)

\* ---- vectors (sequences of entries; an entry is any value, here the bit pattern of the element) ----
VecShiftRight(s, off, ph) == [i \in 1..Len(s) |-> IF i + off <= Len(s) THEN s[i + off] ELSE ph]
VecShiftLeft(s, off, ph) == [i \in 1..Len(s) |-> IF i > off THEN s[i - off] ELSE ph]
VecRotateRight(s, off) == [i \in 1..Len(s) |-> s[((i - 1 + off) % Len(s)) + 1]]
VecRotateLeft(s, off) == [i \in 1..Len(s) |-> s[((i - 1 + Len(s) - (off % Len(s))) % Len(s)) + 1]]
GenericVecShiftRight(a, b, off) ==
  [i \in 1..Len(a) |-> IF i + off <= Len(a) THEN a[i + off] ELSE b[i + off - Len(a)]]
GenericVecShiftLeft(a, b, off) ==
  [i \in 1..Len(a) |-> IF i > off THEN a[i - off] ELSE b[Len(a) - off + i]]
====
