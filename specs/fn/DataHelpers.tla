---- MODULE DataHelpers ----
\* Documented meaning of the data helpers of property C41:
\*   transactron/utils/amaranth_ext/data.py : layout_keys, transpose_layout(_with_keys), transpose
\*   transactron/utils/data_repr.py         : signed_to_int, int_to_signed, neg, bits_from_int,
\*                                            align_to_power_of_two, align_down_to_power_of_two, make_hashable
\* Written from the docstrings and the property text.
EXTENDS Integers, Sequences, FiniteSets

P2(n) == 2 ^ n

\* ---- two-level layouts ---------------------------------------------------------------------------
\* A well-formed two-level layout is described positionally:
\*   [okind, ikind \in {"A" (ArrayLayout), "S" (StructLayout)}, okeys, ikeys : sequences of keys (array
\*    indices 0..n-1 or field names), leaf : no x ni matrix (sequence of sequences) of leaf shapes]
\* A two-level value is a no x ni matrix v with v[o][i] = the value addressed value[okeys[o]][ikeys[i]].
TrMatrix(v) == [i \in 1..Len(v[1]) |-> [o \in 1..Len(v) |-> v[o][i]]]
\* "the transposition swaps the outer and inner levels, so that a value which was addressed as
\* value[o_key][i_key] is addressed as transposed[i_key][o_key]"
TrLayout(d) == [okind |-> d.ikind, ikind |-> d.okind, okeys |-> d.ikeys, ikeys |-> d.okeys, leaf |-> TrMatrix(d.leaf)]

\* a layout tree: [kind \in {"A","S","U","leaf"}, fields : sequence of [key, sub]] (leaf: no fields)
TreeKeys(t) == [k \in 1..Len(t.fields) |-> t.fields[k].key]
IsAS(t) == t.kind \in {"A", "S"}
\* "Raises ValueError if layout is not an ArrayLayout or StructLayout; if it has no fields; if its fields
\* are not all ArrayLayouts or StructLayouts; if its fields have no keys; or if its fields do not all
\* share the same keys"
TransposeMustRaise(t) ==
  \/ ~IsAS(t)
  \/ Len(t.fields) = 0
  \/ \E k \in 1..Len(t.fields) : ~IsAS(t.fields[k].sub)
  \/ Len(t.fields[1].sub.fields) = 0
  \/ \E k \in 2..Len(t.fields) : TreeKeys(t.fields[k].sub) # TreeKeys(t.fields[1].sub)

\* ---- two's complement ("U2") helpers ---------------------------------------------------------------
\* int_to_signed: the xlen-bit U2 representation (a natural < 2^xlen) of a signed integer
IntToSigned(x, xlen) == IF x < 0 THEN x + P2(xlen) ELSE x
\* signed_to_int: the signed integer represented by the xlen-bit pattern x
SignedToInt(x, xlen) == IF x >= P2(xlen - 1) THEN x - P2(xlen) ELSE x
\* neg: "the negation of a number in the U2 system"
NegU2(x, xlen) == IF x = 0 THEN 0 ELSE P2(xlen) - x
\* bits_from_int: "[lower : lower+length) bits from integer num"
BitsFromInt(num, lower, length) == (num \div P2(lower)) % P2(length)

\* ---- alignment: "rounds up / down a number to the given power of two" ------------------------------
IsMultiple(m, power) == m % P2(power) = 0
AlignUp(num, power) == CHOOSE m \in num..(num + P2(power) - 1) : IsMultiple(m, power)
AlignDown(num, power) == CHOOSE m \in (num - P2(power) + 1)..num : IsMultiple(m, power)

\* ---- make_hashable: equality of nested values ------------------------------------------------------
\* a value is [t |-> "I", v |-> int] | [t |-> "S", v |-> string] | [t |-> "L", v |-> sequence of values]
\*          | [t |-> "D", v |-> sequence of <<key string, value>> pairs with distinct keys (a dict, in
\*            insertion order)]
DictKeys(d) == {d.v[k][1] : k \in 1..Len(d.v)}
DictGet(d, key) == d.v[CHOOSE k \in 1..Len(d.v) : d.v[k][1] = key][2]
RECURSIVE ValEq(_, _)
ValEq(a, b) ==
  /\ a.t = b.t
  /\ CASE a.t \in {"I", "S"} -> a.v = b.v
       [] a.t = "L" -> Len(a.v) = Len(b.v) /\ \A k \in 1..Len(a.v) : ValEq(a.v[k], b.v[k])
       [] a.t = "D" -> DictKeys(a) = DictKeys(b) /\ \A key \in DictKeys(a) : ValEq(DictGet(a, key), DictGet(b, key))
       [] OTHER -> FALSE
====
