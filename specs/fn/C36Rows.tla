---- MODULE C36Rows ----
\* Row oracle for property C36: one row = [input valuation, observed output] of one helper of
\* transactron/utils/amaranth_ext/functions.py in one configuration.  `in` is a sequence of naturals.
EXTENDS Bits

\* ---- domain the documentation defines (the tabulating driver stays inside; a row outside is a
\* ---- machinery error, never a violation) ----
InDomain(fn, cfg, in) ==
  CASE fn \in {"popcount", "count_leading_zeros", "count_trailing_zeros", "extract_lowest_set_bit",
               "clear_lowest_set_bit", "mask_from_first_set_bit", "mask_before_first_set_bit"}
         -> in[1] < Pow2(cfg.w)
    \* the docstrings of mask_after/mask_until speak about "the least significant set bit" and give
    \* no meaning to a value without one: 0 is excluded
    [] fn \in {"mask_after_first_set_bit", "mask_until_first_set_bit"} -> in[1] > 0 /\ in[1] < Pow2(cfg.w)
    \* positions are bit indices of a bits-wide mask
    [] fn = "cyclic_mask" -> in[1] < cfg.bits /\ in[2] < cfg.bits
    \* a modulo-mod counter value (docstring silent; values >= mod excluded)
    [] fn = "mod_incr" -> in[1] < cfg.mod
    \* "for 0 < incr <= max_incr"
    [] fn = "mod_add" -> in[1] < cfg.mod /\ 0 < in[2] /\ in[2] <= cfg.max_incr
    [] fn \in {"sum_value", "or_value", "and_value", "min_value", "max_value"} ->
         Len(in) >= 1 /\ \A i \in 1..Len(in) : in[i] < Pow2(cfg.ws[i])
    [] fn = "mux" -> TRUE
    \* no documentation for a test value that matches no case and no default
    [] fn = "switch_value" -> SwitchHits(cfg.cases, in[1], cfg.tw) # {}
    [] OTHER -> FALSE

Expect(fn, cfg, in) ==
  CASE fn = "popcount" -> Popcount(in[1], cfg.w)
    [] fn = "count_leading_zeros" -> Clz(in[1], cfg.w)
    [] fn = "count_trailing_zeros" -> Ctz(in[1], cfg.w)
    [] fn = "cyclic_mask" -> CyclicMask(cfg.bits, in[1], in[2])
    [] fn = "extract_lowest_set_bit" -> ExtractLowest(in[1], cfg.w)
    [] fn = "clear_lowest_set_bit" -> ClearLowest(in[1], cfg.w)
    [] fn = "mask_from_first_set_bit" -> MaskFromFirst(in[1], cfg.w)
    [] fn = "mask_after_first_set_bit" -> MaskAfterFirst(in[1], cfg.w)
    [] fn = "mask_until_first_set_bit" -> MaskUntilFirst(in[1], cfg.w)
    [] fn = "mask_before_first_set_bit" -> MaskBeforeFirst(in[1], cfg.w)
    [] fn = "mod_incr" -> ModIncr(in[1], cfg.mod)
    [] fn = "mod_add" -> ModAdd(in[1], cfg.mod, in[2])
    [] fn = "sum_value" -> SumSeq(in)
    [] fn = "or_value" -> OrSeq(in, cfg.w)
    [] fn = "and_value" -> AndSeq(in, cfg.w)
    [] fn = "min_value" -> MinSeq(in)
    [] fn = "max_value" -> MaxSeq(in)
    [] fn = "mux" -> MuxVal(in[1], in[2], in[3])
    [] fn = "switch_value" -> SwitchVal(cfg.cases, in[1], cfg.tw, Tail(in))
    [] OTHER -> 0 - 1

RowOK(fn, cfg, in, out) == out = Expect(fn, cfg, in)
====
