---- MODULE Encoders ----
\* Documented meaning of OneHotMux / one_hot_mux, MultiPriorityEncoder, RingMultiPriorityEncoder,
\* StableSelectingNetwork (transactron/utils/amaranth_ext/elaboratables.py, functions.py) and of the
\* encoders / decoders / Gray code of transactron/utils/amaranth_ext/coding.py (property C38).
\* Written from the class docstrings.  Bit i of an input word = "input i".
EXTENDS Bits

\* k-th smallest (k >= 1) element of a finite set of naturals under the order key(_)
KthBy(S, k, key(_)) == CHOOSE e \in S : Cardinality({y \in S : key(y) < key(e)}) = k - 1

\* ---- one-hot multiplexer --------------------------------------------------------------------------
\* sel: n-bit select word, vals: sequence of n values, dflt: default value (ignored unless hasdef).
\* "outputs the value corresponding to the set select signal"; with priority "the lowest entry with
\* set select signal"; "default value to output if no select signal is set".  Without default and
\* without any select bit the OneHotMux class documents: zero when inputs_count > 1, the only value
\* when inputs_count = 1 (one_hot_mux itself leaves that case undefined: excluded by the rows module).
\* Several set bits without priority are undefined (excluded by the rows module).
OneHotSelect(sel, n, vals, hasdef, dflt) ==
  LET S == BitSet(sel, n) IN
  IF S # {} THEN vals[MinOfSet(S) + 1]
  ELSE IF hasdef THEN dflt
  ELSE IF n = 1 THEN vals[1] ELSE 0
\* select signals wider than one bit count as set when non-zero
EffSelect(raw, n, selw) == MaskOf({i \in 0..(n - 1) : (raw \div Pow2(i * selw)) % Pow2(selw) # 0}, n)

\* ---- priority encoders ----------------------------------------------------------------------------
\* MultiPriorityEncoder: "outputs: selected indices, sorted in ascending order; if the number of ready
\* signals is less than outputs_count then valid signals are at the beginning of the list";
\* "valids: one bit for each output signal, indicating whether the output is valid or not".
Ident(i) == i
PrioCount(x, w, cnt) == IF Popcount(x, w) < cnt THEN Popcount(x, w) ELSE cnt
PrioValids(x, w, cnt) == MaskOf(0..(PrioCount(x, w, cnt) - 1), cnt)
\* outputs of invalid positions are not specified; 0 stands for "don't care" here
PrioOutputs(x, w, cnt) ==
  [k \in 1..cnt |-> IF k <= PrioCount(x, w, cnt) THEN KthBy(BitSet(x, w), k, Ident) ELSE 0]

\* RingMultiPriorityEncoder: "first: index of the first bit, inclusive; last: index of the last bit,
\* exclusive; if last < first the encoder will first select bits from [first, input_width) and then
\* from [0, last)".  first = last is the empty range [first, first).
RingLen(w, first, last) == (last + w - first) % w
RingPos(w, first, i) == (i + w - first) % w
RingEligible(x, w, first, last) == {i \in BitSet(x, w) : RingPos(w, first, i) < RingLen(w, first, last)}
RingCount(x, w, first, last, cnt) ==
  LET c == Cardinality(RingEligible(x, w, first, last)) IN IF c < cnt THEN c ELSE cnt
RingValids(x, w, first, last, cnt) == MaskOf(0..(RingCount(x, w, first, last, cnt) - 1), cnt)
RingOutputs(x, w, first, last, cnt) ==
  [k \in 1..cnt |-> IF k <= RingCount(x, w, first, last, cnt)
                    THEN LET pos(i) == RingPos(w, first, i) IN KthBy(RingEligible(x, w, first, last), k, pos)
                    ELSE 0]

\* ---- StableSelectingNetwork: "returns a grouped and consecutive sequence of the provided input
\* ---- signals; the order of valid inputs is preserved" + their count.  Entries after the valid ones
\* ---- are not specified by the property (the docstring's example shows 0 for invalid INPUTS).
RECURSIVE SelectValid(_, _, _)
SelectValid(vals, valids, i) ==
  IF i > Len(vals) THEN <<>>
  ELSE (IF Bit(valids, i - 1) = 1 THEN <<vals[i]>> ELSE <<>>) \o SelectValid(vals, valids, i + 1)
StableSelect(vals, valids) == SelectValid(vals, valids, 1)

\* ---- coding.py ------------------------------------------------------------------------------------
\* Encoder: "if one bit in i is asserted, n is low and o indicates the asserted bit; otherwise n is
\* high and o is 0"
EncoderN(x, w) == IF Popcount(x, w) = 1 THEN 0 ELSE 1
EncoderO(x, w) == IF Popcount(x, w) = 1 THEN Ctz(x, w) ELSE 0
\* PriorityEncoder: "if any bit in i is asserted, n is low and o indicates the least significant
\* asserted bit; otherwise n is high and o is 0"
PrioEncN(x, w) == IF x # 0 THEN 0 ELSE 1
PrioEncO(x, w) == IF x # 0 THEN Ctz(x, w) ELSE 0
\* Decoder / PriorityDecoder: "if n is low, only the i-th bit in o is asserted; if n is high, o is 0"
DecoderO(i, n, w) == IF n = 0 THEN Pow2(i) ELSE 0
\* Gray code = the reflected binary code: G(0) = <<0>>, G(k+1) = G(k) followed by G(k) reversed with
\* bit k set.  GrayEnc(b) is the b-th code word; GrayDec is its inverse.
RECURSIVE GraySeq(_)
GraySeq(k) == IF k = 0 THEN <<0>>
              ELSE LET g == GraySeq(k - 1) h == Pow2(k - 1)
                   IN g \o [i \in 1..h |-> h + g[h + 1 - i]]
GrayEnc(b, w) == GraySeq(w)[b + 1]
GrayDec(g, w) == LET code == GraySeq(w) IN CHOOSE b \in 0..(Pow2(w) - 1) : code[b + 1] = g
====
