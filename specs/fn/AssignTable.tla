---- MODULE AssignTable ----
\* Row-by-row validation of observations of the real `assign` against Assign.tla.
\* A row is [l, r, fs, obs] with obs = [raised |-> BOOLEAN, exc |-> exception class name,
\* pairs |-> sequence of <<left cell path, right cell path>>] (the left cells whose value
\* changed in simulation and the right cell whose value each of them took; a changed cell whose
\* value is no right cell's value is reported with right path <<"?">>).
\* One verdict line per row: ACCEPT {tid} / REJECT {tid, clauses, expected}.
EXTENDS Naturals, Sequences, FiniteSets, TLC, Json, IOUtils
Rows == JsonDeserialize(IOEnv.TRACE_FILE)
VARIABLES tid, verdict
vars == <<tid, verdict>>
A == INSTANCE Assign
Row == Rows[tid]
Exp == A!Asg(Row.l, Row.r, Row.fs, FALSE, FALSE, <<>>, <<>>, TRUE)
ObsPairs == {Row.obs.pairs[i] : i \in 1..Len(Row.obs.pairs)}
\* label for a rejected row: the observation is exactly what the variant "a signed field
\* reached by unwrapping has no explicit shape" predicts (known deviation of the pinned code)
ExpCode == A!Asg(Row.l, Row.r, Row.fs, FALSE, FALSE, <<>>, <<>>, FALSE)
SignedUnwrap == /\ Row.obs.raised = ExpCode.raise
                /\ ~ExpCode.raise => ObsPairs = ExpCode.pairs
\* the generator respected the preconditions
AssumeHolds == A!WellFormed(Row.l, TRUE, FALSE) /\ A!WellFormed(Row.r, FALSE, FALSE)
\* "assign either raises (missing fields, shape mismatch) or produces statements ..."
RaisesIffMustRaise == Row.obs.raised <=> Exp.raise
\* "... after which every selected field of the left side equals the corresponding right-side field"
SelectedAssigned == (~Row.obs.raised /\ ~Exp.raise) => Exp.pairs \subseteq ObsPairs
\* "... and nothing else is assigned"
NothingElseAssigned == (~Row.obs.raised /\ ~Exp.raise) => ObsPairs \subseteq Exp.pairs
ClauseNames == {"AssumeHolds", "RaisesIffMustRaise", "SelectedAssigned", "NothingElseAssigned"}
Holds(n) == CASE n = "AssumeHolds" -> AssumeHolds
              [] n = "RaisesIffMustRaise" -> RaisesIffMustRaise
              [] n = "SelectedAssigned" -> SelectedAssigned
              [] OTHER -> NothingElseAssigned
Failing == {n \in ClauseNames : ~Holds(n)}
Init == tid \in 1..Len(Rows) /\ verdict = "go"
Judge == /\ verdict = "go"
         /\ IF Failing = {}
            THEN verdict' = "accept" /\ PrintT("ACCEPT " \o ToJson([tid |-> tid]))
            ELSE /\ verdict' = "reject"
                 /\ PrintT("REJECT " \o ToJson([tid |-> tid, clauses |-> Failing,
                                                expected |-> [raise |-> Exp.raise, pairs |-> Exp.pairs],
                                                signed_unwrap_unchecked |-> SignedUnwrap]))
         /\ UNCHANGED tid
Spec == Init /\ [][Judge]_vars
====
