---- MODULE C38Laws ----
\* Exhaustive sanity check of the definitions of Encoders.tla: every width w <= W, word x < 2^w,
\* first, last < w, outputs count cnt <= 3 (x doubles as select word, valid mask and code word).
EXTENDS Encoders, TLC
CONSTANT W
VARIABLES w, x, first, last, cnt
vars == <<w, x, first, last, cnt>>
Full(n) == Pow2(n) - 1
BitXor(a, b, n) == MaskOf((BitSet(a, n) \cup BitSet(b, n)) \ (BitSet(a, n) \cap BitSet(b, n)), n)

Init == w \in 1..W /\ x = 0 /\ first = 0 /\ last = 0 /\ cnt = 1
Next == \/ x < Full(w) /\ x' = x + 1 /\ UNCHANGED <<w, first, last, cnt>>
        \/ first < w - 1 /\ first' = first + 1 /\ UNCHANGED <<w, x, last, cnt>>
        \/ last < w - 1 /\ last' = last + 1 /\ UNCHANGED <<w, x, first, cnt>>
        \/ cnt < 3 /\ cnt' = cnt + 1 /\ UNCHANGED <<w, x, first, last>>
Spec == Init /\ [][Next]_vars
TypeOK == w \in 1..W /\ x \in 0..Full(w) /\ first \in 0..(w - 1) /\ last \in 0..(w - 1) /\ cnt \in 1..3

Vals == [i \in 1..w |-> 10 + i]           \* distinguishable data
MuxLaw ==
  /\ \A i \in 0..(w - 1) : OneHotSelect(Pow2(i), w, Vals, TRUE, 7) = Vals[i + 1]
  /\ OneHotSelect(0, w, Vals, TRUE, 7) = 7
  /\ OneHotSelect(x, w, Vals, TRUE, 7) = OneHotSelect(ExtractLowest(x, w), w, Vals, TRUE, 7)   \* priority
  /\ x # 0 => OneHotSelect(x, w, Vals, FALSE, 7) = Vals[Ctz(x, w) + 1]
  /\ EffSelect(x, w, 1) = x
PrioLaw ==
  LET v == PrioValids(x, w, cnt)  o == PrioOutputs(x, w, cnt)  c == PrioCount(x, w, cnt) IN
  /\ c = Popcount(v, cnt) /\ v = Full(c)                              \* valid flags form a prefix
  /\ \A k \in 1..c : Bit(x, o[k]) = 1                                  \* every valid output is a set bit
  /\ \A k \in 1..(c - 1) : o[k] < o[k + 1]                             \* strictly increasing
  /\ \A k \in 1..c : Cardinality({i \in BitSet(x, w) : i < o[k]}) = k - 1   \* ... and the FIRST ones
  /\ x # 0 => o[1] = Ctz(x, w)
  /\ c < cnt => c = Popcount(x, w)
RingLaw ==
  LET v == RingValids(x, w, first, last, cnt)  o == RingOutputs(x, w, first, last, cnt)
      c == RingCount(x, w, first, last, cnt)
      InRange(i) == IF first <= last THEN first <= i /\ i < last ELSE i >= first \/ i < last
  IN
  /\ v = Full(c)
  /\ \A k \in 1..c : Bit(x, o[k]) = 1 /\ InRange(o[k])
  /\ \A k \in 1..(c - 1) : RingPos(w, first, o[k]) < RingPos(w, first, o[k + 1])
  /\ c < cnt => c = Cardinality({i \in BitSet(x, w) : InRange(i)})
  /\ \A i \in BitSet(x, w) : (InRange(i) /\ \A k \in 1..c : o[k] # i) => (c = cnt /\ RingPos(w, first, i) > RingPos(w, first, o[c]))
  \* starting at 0 the ring encoder is the plain encoder on the bits below last
  /\ first = 0 => /\ RingValids(x, w, 0, last, cnt) = PrioValids(x % Pow2(last), w, cnt)
                  /\ \A k \in 1..c : o[k] = PrioOutputs(x % Pow2(last), w, cnt)[k]
SelectLaw ==
  LET s == StableSelect(Vals, x) IN
  /\ Len(s) = Popcount(x, w)
  /\ \A k \in 1..Len(s) : Bit(x, s[k] - 11) = 1                         \* Vals[i] = 10 + i
  /\ \A k \in 1..(Len(s) - 1) : s[k] < s[k + 1]                          \* order preserved
  /\ StableSelect(Vals, Full(w)) = Vals /\ StableSelect(Vals, 0) = <<>>
CodingLaw ==
  /\ (EncoderN(x, w) = 0) <=> (Popcount(x, w) = 1)
  /\ EncoderN(x, w) = 0 => DecoderO(EncoderO(x, w), 0, w) = x
  /\ PrioEncN(x, w) = 0 => DecoderO(PrioEncO(x, w), 0, w) = ExtractLowest(x, w)
  /\ (x # 0) => PrioEncO(x, w) = PrioOutputs(x, w, 1)[1]
  /\ DecoderO(first, 1, w) = 0 /\ Popcount(DecoderO(first, 0, w), w) = 1 /\ EncoderO(DecoderO(first, 0, w), w) = first
GrayLaw ==
  /\ GrayEnc(x, w) = BitXor(x, x \div 2, w)                             \* the usual closed form
  /\ GrayDec(GrayEnc(x, w), w) = x /\ GrayEnc(GrayDec(x, w), w) = x
  /\ Popcount(BitXor(GrayEnc(x, w), GrayEnc((x + 1) % Pow2(w), w), w), w) = 1   \* neighbours (cyclically) differ in one bit
  /\ GrayEnc(0, w) = 0
====
