---- MODULE C41Rows ----
\* Row oracle for property C41.  Layout descriptors (cfg.d) and trees (cfg.tree) are produced by the
\* harness from real amaranth layouts through the public API; keys are strings ("#0", "#1" for array
\* indices, the field name otherwise), leaf shapes are their repr strings.
EXTENDS DataHelpers
B(p) == IF p THEN 1 ELSE 0

InDomain(fn, cfg, in) ==
  CASE fn \in {"transpose_layout", "transpose_layout_with_keys", "transpose_layout.raises", "layout_keys"} -> TRUE
    [] fn \in {"transpose.view", "transpose.const"} ->
         Len(in[1]) = Len(cfg.d.okeys) /\ \A o \in 1..Len(in[1]) : Len(in[1][o]) = Len(cfg.d.ikeys)
    \* "number in U2 system" of width xlen / signed integer representable in xlen bits
    [] fn \in {"signed_to_int", "neg"} -> cfg.xlen >= 1 /\ in[1] >= 0 /\ in[1] < P2(cfg.xlen)
    [] fn = "int_to_signed" -> cfg.xlen >= 1 /\ in[1] >= 0 - P2(cfg.xlen - 1) /\ in[1] < P2(cfg.xlen - 1)
    [] fn = "bits_from_int" -> in[1] >= 0
    [] fn \in {"align_to_power_of_two", "align_down_to_power_of_two"} -> cfg.power >= 0
    [] fn = "make_hashable" -> TRUE
    [] OTHER -> FALSE

Expect(fn, cfg, in) ==
  CASE fn = "transpose_layout" -> <<TrLayout(cfg.d), cfg.d>>                   \* once, twice
    [] fn = "transpose_layout_with_keys" -> <<TrLayout(cfg.d), cfg.d.okeys, cfg.d.ikeys>>
    [] fn = "transpose_layout.raises" -> B(TransposeMustRaise(cfg.tree))
    [] fn = "layout_keys" -> TreeKeys(cfg.tree)
    \* transposed value, its layout, and the value transposed twice
    [] fn \in {"transpose.view", "transpose.const"} -> <<TrMatrix(in[1]), TrLayout(cfg.d), in[1]>>
    \* value, and the round trip through the inverse function
    [] fn = "signed_to_int" -> <<SignedToInt(in[1], cfg.xlen), in[1]>>
    [] fn = "int_to_signed" -> <<IntToSigned(in[1], cfg.xlen), in[1]>>
    [] fn = "neg" -> NegU2(in[1], cfg.xlen)
    [] fn = "bits_from_int" -> BitsFromInt(in[1], cfg.lower, cfg.length)
    [] fn = "align_to_power_of_two" -> AlignUp(in[1], cfg.power)
    [] fn = "align_down_to_power_of_two" -> AlignDown(in[1], cfg.power)
    \* <<make_hashable(a) == make_hashable(b), equal results have equal hashes, a == b, results hashable>>
    [] fn = "make_hashable" -> <<B(ValEq(in[1], in[2])), 1, B(ValEq(in[1], in[2])), 1>>
    [] OTHER -> 0 - 1

RowOK(fn, cfg, in, out) == out = Expect(fn, cfg, in)
====
