---- MODULE AssignMC ----
\* Sanity laws of the definitions in Assign.tla, checked by TLC for EVERY pair of layouts of a
\* bounded universe and every AssignType (one TLC state per (lhs, rhs, mode) triple; there is
\* no behaviour to explore: Init picks lhs, the single step picks rhs and the mode -- two
\* phases only so that TLC's workers share the evaluation -- and the laws are a state invariant).
EXTENDS Naturals, Sequences, FiniteSets, TLC
CONSTANTS Level      \* 0 (quick): depth-1 layouts + depth-2 over 4 sub-layouts; 1: depth-2 over 15 sub-layouts
VARIABLES l, r, m, ph
A == INSTANCE Assign

Leaf(w, s) == [t |-> "leaf", w |-> w, s |-> s]
Leaves == {Leaf(5, FALSE), Leaf(6, FALSE), Leaf(5, TRUE)}
FNames == {"a", "b"}
\* all functions from a subset of the names into S, as struct / union trees
Structs(S) == UNION {{[t |-> "struct", f |-> g] : g \in [D -> S]} : D \in SUBSET FNames}
Unions == UNION {{[t |-> "union", f |-> g] : g \in [D -> {Leaf(5, FALSE), Leaf(6, FALSE)}]} : D \in (SUBSET FNames) \ {{}}}
Arrays(S, N) == {[t |-> "array", e |-> x, n |-> k] : x \in S, k \in N}
L1 == Leaves \cup Structs(Leaves) \cup Arrays(Leaves, {1, 2}) \cup Unions
Small1 == {Leaf(5, FALSE), Leaf(6, FALSE)} \cup Structs({Leaf(5, FALSE), Leaf(6, FALSE)}) \cup Arrays({Leaf(5, FALSE)}, {1, 2})
              \cup {u \in Unions : DOMAIN u.f = {"a"}}
Tiny1 == {Leaf(5, FALSE), [t |-> "struct", f |-> [a |-> Leaf(5, FALSE)]],
          [t |-> "struct", f |-> [a |-> Leaf(5, FALSE), b |-> Leaf(6, FALSE)]],
          [t |-> "array", e |-> Leaf(5, FALSE), n |-> 2]}
Sub == IF Level = 0 THEN Tiny1 ELSE Small1
L2 == L1 \cup Structs(Sub) \cup Arrays(Sub, {1, 2})
Universe == L2

Init == l \in Universe /\ r = l /\ m = "ALL" /\ ph = 0
Next == ph = 0 /\ ph' = 1 /\ r' \in Universe /\ m' \in A!Modes /\ UNCHANGED l
Spec == Init /\ [][Next]_<<l, r, m, ph>>

Res(x, y, mode) == A!Asg(x, y, A!Mode(mode), FALSE, FALSE, <<>>, <<>>, TRUE)
Lefts(res) == {p[1] : p \in res.pairs}
Rights(res) == {p[2] : p \in res.pairs}
BothStructs == l.t = "struct" /\ r.t = "struct"
RECURSIVE At(_, _)
At(x, p) == IF p = <<>> THEN x ELSE At(A!Child(x, p[1]), Tail(p))

\* (R = result for (l, r, m), RA = result for (l, r, ALL), CL / CR = cells of l / r; bound once
\* in Laws because TLC re-evaluates zero-arity definitions over variables at every use)

\* ALL on identical layouts selects every cell, each from the same cell
AllOnIdentical(CL) ==
  LET s == Res(l, l, "ALL") IN ~s.raise /\ s.pairs = {<<c, c>> : c \in CL}
\* only existing cells are connected, no left cell is assigned twice
PairsAreCells(R, CL, CR) ==
  ~R.raise => /\ Lefts(R) \subseteq CL /\ Rights(R) \subseteq CR
              /\ \A p, q \in R.pairs : p[1] = q[1] => p = q
\* COMMON only touches fields present on both sides
CommonWithinBoth(R) ==
  (m = "COMMON" /\ BothStructs /\ ~R.raise) =>
     \A p \in R.pairs : p[1][1] \in DOMAIN l.f \cap DOMAIN r.f /\ p[2][1] = p[1][1]
\* LHS assigns every cell of the left side, RHS uses every cell of the right side
LhsCoversLeft(R, CL) == (m \in {"LHS", "ALL"} /\ BothStructs /\ ~R.raise) => Lefts(R) = CL
RhsCoversRight(R, CR) == (m \in {"RHS", "ALL"} /\ BothStructs /\ ~R.raise) => Rights(R) = CR
\* ALL raises whenever the field sets differ; LHS / RHS raise when a field is missing opposite
AllNeedsSameFields(R) == (m = "ALL" /\ BothStructs /\ DOMAIN l.f # DOMAIN r.f) => R.raise
MissingRaises(R) ==
  /\ (m = "LHS" /\ BothStructs /\ ~(DOMAIN l.f \subseteq DOMAIN r.f)) => R.raise
  /\ (m = "RHS" /\ BothStructs /\ ~(DOMAIN r.f \subseteq DOMAIN l.f)) => R.raise
\* if ALL is possible, every AssignType gives the same assignment
AllImpliesOthers(R, RA) == ~RA.raise => (~R.raise /\ R.pairs = RA.pairs)
\* connected cells have the same shape (no const / int in this universe: every check applies)
SameShapeConnected(R) == ~R.raise => \A p \in R.pairs : A!SameShape(At(l, p[1]), At(r, p[2]))
\* a plain value facing a View that is not a single-field wrapper raises
ViewVsLeafRaises(R) ==
  (l.t = "leaf" /\ r.t = "struct" /\ Cardinality(DOMAIN r.f) # 1) => R.raise

Laws == LET R == Res(l, r, m)  RA == Res(l, r, "ALL")
            CL == A!Cells(l, <<>>)  CR == A!Cells(r, <<>>)
        IN /\ (r = l /\ m = "ALL") => AllOnIdentical(CL)
           /\ PairsAreCells(R, CL, CR) /\ CommonWithinBoth(R)
           /\ LhsCoversLeft(R, CL) /\ RhsCoversRight(R, CR)
           /\ AllNeedsSameFields(R) /\ MissingRaises(R) /\ AllImpliesOthers(R, RA)
           /\ SameShapeConnected(R) /\ ViewVsLeafRaises(R)
           /\ (r = l /\ m = "ALL") => A!WellFormed(l, TRUE, FALSE)
====
