---- MODULE C41Laws ----
\* Exhaustive sanity check of the definitions of DataHelpers.tla over xlen <= W, every bit pattern x,
\* power p <= W, matrix sizes no, ni <= 3.
EXTENDS DataHelpers, TLC
CONSTANT W
VARIABLES xlen, x, p, no, ni
vars == <<xlen, x, p, no, ni>>

Init == xlen \in 1..W /\ x = 0 /\ p = 0 /\ no = 1 /\ ni = 1
Next == \/ x < P2(xlen) - 1 /\ x' = x + 1 /\ UNCHANGED <<xlen, p, no, ni>>
        \/ p < W /\ p' = p + 1 /\ UNCHANGED <<xlen, x, no, ni>>
        \/ no < 3 /\ no' = no + 1 /\ UNCHANGED <<xlen, x, p, ni>>
        \/ ni < 3 /\ ni' = ni + 1 /\ UNCHANGED <<xlen, x, p, no>>
Spec == Init /\ [][Next]_vars
TypeOK == xlen \in 1..W /\ x \in 0..(P2(xlen) - 1) /\ p \in 0..W /\ no \in 1..3 /\ ni \in 1..3

s == SignedToInt(x, xlen)
SignedLaw ==
  /\ s >= 0 - P2(xlen - 1) /\ s < P2(xlen - 1)
  /\ IntToSigned(s, xlen) = x                                  \* inverse on width-bounded values
  /\ SignedToInt(IntToSigned(s, xlen), xlen) = s
  /\ (s - x) % P2(xlen) = 0                                    \* same residue
  /\ (s < 0) <=> (BitsFromInt(x, xlen - 1, 1) = 1)             \* sign bit
NegLaw ==
  /\ NegU2(NegU2(x, xlen), xlen) = x
  /\ (NegU2(x, xlen) + x) % P2(xlen) = 0
  /\ s # 0 - P2(xlen - 1) => SignedToInt(NegU2(x, xlen), xlen) = 0 - s
BitsLaw ==
  /\ BitsFromInt(x, 0, xlen) = x
  /\ \A k \in 0..xlen : BitsFromInt(x, 0, k) + P2(k) * BitsFromInt(x, k, xlen - k) = x
AlignLaw ==
  \A num \in {x, 0 - x, s} :
    LET u == AlignUp(num, p)  d == AlignDown(num, p) IN
    /\ IsMultiple(u, p) /\ IsMultiple(d, p)
    /\ d <= num /\ num <= u /\ u - num < P2(p) /\ num - d < P2(p)
    /\ u - d \in {0, P2(p)} /\ ((u = d) <=> IsMultiple(num, p))
    /\ AlignUp(u, p) = u /\ AlignDown(d, p) = d
    /\ AlignUp(num, 0) = num /\ AlignDown(num, 0) = num

Mat == [o \in 1..no |-> [i \in 1..ni |-> 10 * o + i + x]]
Desc == [okind |-> "A", ikind |-> "S", okeys |-> [o \in 1..no |-> o - 1],
         ikeys |-> [i \in 1..ni |-> <<"a", "b", "c">>[i]], leaf |-> Mat]
TransposeLaw ==
  /\ TrMatrix(TrMatrix(Mat)) = Mat                              \* transposing twice restores
  /\ \A o \in 1..no, i \in 1..ni : TrMatrix(Mat)[i][o] = Mat[o][i]
  /\ Len(TrMatrix(Mat)) = ni /\ \A i \in 1..ni : Len(TrMatrix(Mat)[i]) = no
  /\ TrLayout(TrLayout(Desc)) = Desc
  /\ TrLayout(Desc).okind = "S" /\ TrLayout(Desc).okeys = Desc.ikeys

I(n) == [t |-> "I", v |-> n]
L(q) == [t |-> "L", v |-> q]
D(q) == [t |-> "D", v |-> q]
Universe == {I(x), I(x + 1), L(<<>>), D(<<>>), L(<<I(x)>>), L(<<I(x), I(p)>>), L(<<I(p), I(x)>>),
             D(<<<<"k", I(x)>>, <<"m", I(p)>>>>), D(<<<<"m", I(p)>>, <<"k", I(x)>>>>), D(<<<<"k", I(p)>>>>),
             L(<<D(<<<<"k", I(x)>>>>)>>), D(<<<<"k", L(<<I(x)>>)>>>>)}
EqLaw ==
  /\ \A a \in Universe : ValEq(a, a)
  /\ \A a, b \in Universe : ValEq(a, b) = ValEq(b, a)
  /\ \A a, b, c \in Universe : (ValEq(a, b) /\ ValEq(b, c)) => ValEq(a, c)
  /\ ValEq(D(<<<<"k", I(x)>>, <<"m", I(p)>>>>), D(<<<<"m", I(p)>>, <<"k", I(x)>>>>))     \* dicts ignore order
  /\ ~ValEq(L(<<>>), D(<<>>)) /\ ~ValEq(I(x), L(<<I(x)>>))
  /\ (x # p) => ~ValEq(L(<<I(x), I(p)>>), L(<<I(p), I(x)>>))                              \* lists do not
====
