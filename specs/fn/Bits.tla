---- MODULE Bits ----
\* Documented meaning of the combinational bit helpers of
\* transactron/utils/amaranth_ext/functions.py (property C36), over naturals.
\* A "w-bit value" is a natural x < 2^w; bit 0 is the least significant bit.
\* Written from the docstrings / the function names, not from the implementation.
\* Where a docstring is silent the case is excluded by InDomain in C36Rows (named there).
EXTENDS Naturals, Sequences, FiniteSets

Pow2(n) == 2 ^ n
Bit(x, i) == (x \div Pow2(i)) % 2
BitSet(x, w) == {i \in 0..(w - 1) : Bit(x, i) = 1}

\* the number whose set bits are exactly S (S a finite set of naturals)
RECURSIVE NatOfBits(_, _)
NatOfBits(b, n) == IF n = 0 THEN 0 ELSE b[n - 1] * Pow2(n - 1) + NatOfBits(b, n - 1)
\* w-bit value whose i-th bit is 1 iff i \in S
MaskOf(S, w) == NatOfBits([i \in 0..(w - 1) |-> IF i \in S THEN 1 ELSE 0], w)

MinOfSet(S) == CHOOSE m \in S : \A y \in S : m <= y
MaxOfSet(S) == CHOOSE m \in S : \A y \in S : m >= y

\* ---- counting ----
Popcount(x, w) == Cardinality(BitSet(x, w))
\* number of zero bits below the lowest set bit; all w bits are zero for x = 0
Ctz(x, w) == IF BitSet(x, w) = {} THEN w ELSE MinOfSet(BitSet(x, w))
\* number of zero bits above the highest set bit
Clz(x, w) == IF BitSet(x, w) = {} THEN w ELSE w - 1 - MaxOfSet(BitSet(x, w))

\* ---- cyclic_mask: ones from start to end inclusive; wraps when end < start ----
CyclicMask(bits, start, end) ==
  MaskOf({i \in 0..(bits - 1) : IF start <= end THEN start <= i /\ i <= end
                                                 ELSE i >= start \/ i <= end}, bits)

\* ---- lowest-set-bit family (docstrings of functions.py:388-439) ----
ExtractLowest(x, w) == IF x = 0 THEN 0 ELSE Pow2(Ctz(x, w))
ClearLowest(x, w) == x - ExtractLowest(x, w)
\* from the lowest set bit (inclusive) up to the length; "(-1 << ctz)[:len]"
MaskFromFirst(x, w) == MaskOf({i \in 0..(w - 1) : i >= Ctz(x, w)}, w)
\* from the lowest set bit (exclusive) up to the length
MaskAfterFirst(x, w) == MaskOf({i \in 0..(w - 1) : i > Ctz(x, w)}, w)
\* from bit 0 up to the lowest set bit (inclusive)
MaskUntilFirst(x, w) == MaskOf({i \in 0..(w - 1) : i <= Ctz(x, w)}, w)
\* from bit 0 up to the lowest set bit (exclusive); "extract_lowest_set_bit(value) - 1" (mod 2^w)
MaskBeforeFirst(x, w) == MaskOf({i \in 0..(w - 1) : i < Ctz(x, w)}, w)

\* ---- modular arithmetic ----
ModIncr(x, mod) == (x + 1) % mod
ModAdd(x, mod, incr) == (x + incr) % mod

\* ---- reductions over a sequence of naturals ----
RECURSIVE SumSeq(_)
SumSeq(s) == IF s = <<>> THEN 0 ELSE s[1] + SumSeq(Tail(s))
BitOr(a, b, w) == MaskOf(BitSet(a, w) \cup BitSet(b, w), w)
BitAnd(a, b, w) == MaskOf(BitSet(a, w) \cap BitSet(b, w), w)
RECURSIVE OrSeq(_, _)
OrSeq(s, w) == IF s = <<>> THEN 0 ELSE BitOr(s[1], OrSeq(Tail(s), w), w)
RECURSIVE AndSeq(_, _)
AndSeq(s, w) == IF Len(s) = 1 THEN s[1] ELSE BitAnd(s[1], AndSeq(Tail(s), w), w)
SeqVals(s) == {s[i] : i \in 1..Len(s)}
MinSeq(s) == MinOfSet(SeqVals(s))
MaxSeq(s) == MaxOfSet(SeqVals(s))

\* ---- selection ----
MuxVal(sel, v1, v0) == IF sel # 0 THEN v1 ELSE v0
\* a switch key is [k |-> "int", v |-> n] or [k |-> "pat", v |-> <<"1","-","0">>] (MSB first,
\* "-" = don't care, as in Amaranth's Case patterns); a case is [keys |-> seq of keys or <<>> for
\* the default (None), val |-> index of the value]
KeyMatches(key, test, tw) ==
  IF key.k = "int" THEN key.v = test
  ELSE \A i \in 1..Len(key.v) :
         key.v[i] = "-" \/ Bit(test, Len(key.v) - i) = (IF key.v[i] = "1" THEN 1 ELSE 0)
CaseMatches(c, test, tw) == c.dflt = 1 \/ \E j \in 1..Len(c.keys) : KeyMatches(c.keys[j], test, tw)
\* value of the first matching case; defined only when some case matches
SwitchHits(cases, test, tw) == {i \in 1..Len(cases) : CaseMatches(cases[i], test, tw)}
SwitchVal(cases, test, tw, vals) == vals[cases[MinOfSet(SwitchHits(cases, test, tw))].val]
====
