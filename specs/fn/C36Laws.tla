---- MODULE C36Laws ----
\* Exhaustive sanity check of the TLA+ definitions of Bits.tla (property C36): TLC walks over every
\* (width w <= W, x < 2^w, y < 2^w) and checks algebraic laws that any correct definition of the
\* documented functions must satisfy, plus the examples given in the docstrings.
EXTENDS Bits, TLC
CONSTANT W
VARIABLES w, x, y
vars == <<w, x, y>>

Full(n) == Pow2(n) - 1
Not(a, n) == Full(n) - a
Rev(a, n) == MaskOf({n - 1 - i : i \in BitSet(a, n)}, n)

Init == w \in 1..W /\ x = 0 /\ y = 0
Next == \/ x < Full(w) /\ x' = x + 1 /\ UNCHANGED <<w, y>>
        \/ y < Full(w) /\ y' = y + 1 /\ UNCHANGED <<w, x>>
Spec == Init /\ [][Next]_vars

TypeOK == w \in 1..W /\ x \in 0..Full(w) /\ y \in 0..Full(w)

RoundTrip == MaskOf(BitSet(x, w), w) = x
PopcountLaw == /\ Popcount(x, w) + Popcount(Not(x, w), w) = w
               /\ (Popcount(x, w) = 0) <=> (x = 0)
               /\ Popcount(BitOr(x, y, w), w) + Popcount(BitAnd(x, y, w), w) = Popcount(x, w) + Popcount(y, w)
CountZerosLaw ==
  /\ Ctz(x, w) \in 0..w /\ Clz(x, w) \in 0..w
  /\ x = 0 => Ctz(x, w) = w /\ Clz(x, w) = w
  /\ x # 0 => /\ Bit(x, Ctz(x, w)) = 1 /\ x % Pow2(Ctz(x, w)) = 0
              /\ Bit(x, w - 1 - Clz(x, w)) = 1 /\ x < Pow2(w - Clz(x, w))
              /\ Ctz(x, w) + Clz(x, w) <= w - 1
  /\ Clz(x, w) = Ctz(Rev(x, w), w)
LowestBitLaw ==
  /\ ExtractLowest(x, w) = BitAnd(x, (Pow2(w) - x) % Pow2(w), w)          \* x & -x
  /\ ExtractLowest(x, w) + ClearLowest(x, w) = x
  /\ x # 0 => Popcount(ClearLowest(x, w), w) = Popcount(x, w) - 1 /\ Popcount(ExtractLowest(x, w), w) = 1
  /\ x = 0 => ClearLowest(x, w) = 0 /\ ExtractLowest(x, w) = 0
MaskLaw ==
  /\ MaskBeforeFirst(x, w) = Not(MaskFromFirst(x, w), w)
  /\ MaskBeforeFirst(x, w) = (ExtractLowest(x, w) + Pow2(w) - 1) % Pow2(w)   \* "extract_lowest_set_bit - 1"
  /\ x # 0 => /\ MaskFromFirst(x, w) = MaskAfterFirst(x, w) + ExtractLowest(x, w)
              /\ MaskUntilFirst(x, w) = Not(MaskAfterFirst(x, w), w)
              /\ MaskUntilFirst(x, w) = MaskBeforeFirst(x, w) + ExtractLowest(x, w)
              /\ BitAnd(x, MaskBeforeFirst(x, w), w) = 0
              /\ BitAnd(x, MaskUntilFirst(x, w), w) = ExtractLowest(x, w)
CyclicMaskLaw ==
  (x < w /\ y < w) =>
     LET cm == CyclicMask(w, x, y) IN
     /\ Popcount(cm, w) = ((y + w - x) % w) + 1
     /\ Bit(cm, x) = 1 /\ Bit(cm, y) = 1
     /\ (y + 1) % w # x => /\ BitAnd(cm, CyclicMask(w, (y + 1) % w, (x + w - 1) % w), w) = 0
                           /\ BitOr(cm, CyclicMask(w, (y + 1) % w, (x + w - 1) % w), w) = Full(w)
ModLaw ==
  \A mod \in 1..9 :
     (x < mod) =>
       /\ ModIncr(x, mod) = ModAdd(x, mod, 1) /\ ModIncr(x, mod) < mod
       /\ ModAdd(x, mod, mod) = x
       /\ ModAdd(ModAdd(x, mod, y), mod, w) = ModAdd(x, mod, y + w)
       /\ (ModIncr(x, mod) = 0) <=> (x = mod - 1)
ReduceLaw ==
  /\ SumSeq(<<x, y, w>>) = x + y + w
  /\ OrSeq(<<x, y>>, w) = BitOr(x, y, w) /\ AndSeq(<<x, y>>, w) = BitAnd(x, y, w)
  /\ Not(BitOr(x, y, w), w) = BitAnd(Not(x, w), Not(y, w), w)
  /\ MinSeq(<<x, y>>) <= MaxSeq(<<x, y>>) /\ MinSeq(<<x, y>>) \in {x, y} /\ MaxSeq(<<x, y>>) \in {x, y}
  /\ AndSeq(<<x, y>>, w) <= MinSeq(<<x, y>>) /\ OrSeq(<<x, y>>, w) >= MaxSeq(<<x, y>>)
  /\ OrSeq(<<x>>, w) = x /\ AndSeq(<<x>>, w) = x /\ MinSeq(<<x>>) = x /\ SumSeq(<<x>>) = x
SelectLaw ==
  LET two == <<[keys |-> <<[k |-> "int", v |-> 0]>>, dflt |-> 0, val |-> 1], [keys |-> <<>>, dflt |-> 1, val |-> 2]>>
  IN /\ MuxVal(x, y, w) = IF x = 0 THEN w ELSE y
     /\ SwitchVal(two, x, w, <<w, y>>) = MuxVal(x, y, w)      \* mux = switch_value(sel, [(0, v0), (None, v1)])

\* the examples written in the docstrings of functions.py
DocExamples ==
  /\ ExtractLowest(20, 6) = 4        \* 0b010100 -> 0b000100
  /\ ClearLowest(52, 6) = 48         \* 0b110100 -> 0b110000
  /\ MaskFromFirst(20, 6) = 60       \* 0b010100 -> 0b111100
  /\ MaskAfterFirst(20, 6) = 56      \* 0b010100 -> 0b111000
  /\ MaskUntilFirst(20, 6) = 7       \* 0b010100 -> 0b000111
  /\ MaskBeforeFirst(20, 6) = 3      \* 0b010100 -> 0b000011
ASSUME DocExamples
====
