---- MODULE C37Laws ----
\* Exhaustive sanity check of the definitions of Shifters.tla: every width w <= W, values x, y < 2^w,
\* offset 0..w.
EXTENDS Shifters, TLC
CONSTANT W
VARIABLES w, x, y, off
vars == <<w, x, y, off>>
Full(n) == Pow2(n) - 1
Not(a, n) == Full(n) - a
Rev(a, n) == MaskOf({n - 1 - i : i \in BitSet(a, n)}, n)
BitSeq(a, n) == [i \in 1..n |-> Bit(a, i - 1)]
FromSeq(s) == NatOfBits([i \in 0..(Len(s) - 1) |-> s[i + 1]], Len(s))
Rep(b, n) == IF b = 1 THEN Full(n) ELSE 0

Init == w \in 1..W /\ x = 0 /\ y = 0 /\ off = 0
Next == \/ x < Full(w) /\ x' = x + 1 /\ UNCHANGED <<w, y, off>>
        \/ y < Full(w) /\ y' = y + 1 /\ UNCHANGED <<w, x, off>>
        \/ off < w /\ off' = off + 1 /\ UNCHANGED <<w, x, y>>
Spec == Init /\ [][Next]_vars
TypeOK == w \in 1..W /\ x \in 0..Full(w) /\ y \in 0..Full(w) /\ off \in 0..w

IdentityLaw ==
  /\ ShiftRight(x, w, 0, 1) = x /\ ShiftLeft(x, w, 0, 1) = x
  /\ RotateRight(x, w, 0) = x /\ RotateLeft(x, w, 0) = x /\ RotateRight(x, w, w) = x /\ RotateLeft(x, w, w) = x
  /\ \A ph \in {0, 1} : ShiftRight(x, w, w, ph) = Rep(ph, w) /\ ShiftLeft(x, w, w, ph) = Rep(ph, w)
ArithLaw ==   \* with placeholder 0 the shifts are the arithmetic ones, truncated to the width
  /\ ShiftRight(x, w, off, 0) = x \div Pow2(off)
  /\ ShiftLeft(x, w, off, 0) = (x * Pow2(off)) % Pow2(w)
  /\ ShiftRight(x, w, off, 1) = Not(ShiftRight(Not(x, w), w, off, 0), w)
  /\ ShiftLeft(x, w, off, 1) = Not(ShiftLeft(Not(x, w), w, off, 0), w)
RotateLaw ==
  /\ RotateLeft(RotateRight(x, w, off), w, off) = x /\ RotateRight(RotateLeft(x, w, off), w, off) = x
  /\ RotateRight(x, w, off) = RotateLeft(x, w, w - off)
  /\ Popcount(RotateRight(x, w, off), w) = Popcount(x, w)
  /\ RotateRight(x, w, off) = BitOr(ShiftRight(x, w, off, 0), ShiftLeft(x, w, w - off, 0), w)
  /\ RotateRight(RotateRight(x, w, off), w, 1) = RotateRight(x, w, (off + 1) % w)
GenericLaw ==
  /\ RotateRight(x, w, off) = GenericShiftRight(x, x, w, off) /\ RotateLeft(x, w, off) = GenericShiftLeft(x, x, w, off)
  /\ \A ph \in {0, 1} : /\ ShiftRight(x, w, off, ph) = GenericShiftRight(x, Rep(ph, w), w, off)
                        /\ ShiftLeft(x, w, off, ph) = GenericShiftLeft(x, Rep(ph, w), w, off)
  /\ GenericShiftRight(x, y, w, w) = y /\ GenericShiftLeft(x, y, w, w) = y
  /\ GenericShiftRight(x, y, w, 0) = x /\ GenericShiftLeft(x, y, w, 0) = x
MirrorLaw ==
  /\ ShiftLeft(x, w, off, 1) = Rev(ShiftRight(Rev(x, w), w, off, 1), w)
  /\ RotateLeft(x, w, off) = Rev(RotateRight(Rev(x, w), w, off), w)
  /\ GenericShiftLeft(x, y, w, off) = Rev(GenericShiftRight(Rev(x, w), Rev(y, w), w, off), w)
VecLaw ==   \* the vector variants applied to the bit sequence of x are the bit variants
  /\ \A ph \in {0, 1} : /\ FromSeq(VecShiftRight(BitSeq(x, w), off, ph)) = ShiftRight(x, w, off, ph)
                        /\ FromSeq(VecShiftLeft(BitSeq(x, w), off, ph)) = ShiftLeft(x, w, off, ph)
  /\ FromSeq(VecRotateRight(BitSeq(x, w), off)) = RotateRight(x, w, off)
  /\ FromSeq(VecRotateLeft(BitSeq(x, w), off)) = RotateLeft(x, w, off)
  /\ FromSeq(GenericVecShiftRight(BitSeq(x, w), BitSeq(y, w), off)) = GenericShiftRight(x, y, w, off)
  /\ FromSeq(GenericVecShiftLeft(BitSeq(x, w), BitSeq(y, w), off)) = GenericShiftLeft(x, y, w, off)
  /\ VecRotateLeft(VecRotateRight(BitSeq(x, w), off), off) = BitSeq(x, w)
====
