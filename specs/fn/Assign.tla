---- MODULE Assign ----
\* Structured assignment `assign(lhs, rhs, fields=...)` of transactron/utils/assign.py
\* (property C40), written from the docstrings of `assign` and `AssignType`.
\*
\* Arguments are trees:
\*   [t |-> "leaf",  w |-> width, s |-> signed]     a Signal / a field of a View
\*   [t |-> "struct", f |-> [name |-> tree]]         View with StructLayout
\*   [t |-> "array",  e |-> tree, n |-> length]      View with ArrayLayout (fields "0".."n-1")
\*   [t |-> "union",  f |-> [name |-> leaf]]         View with UnionLayout (members are leaves in
\*                                                   the modelled universe: one observable cell)
\*   [t |-> "dict",   f |-> [name |-> tree]]         Python dict of arguments
\*   [t |-> "list",   e |-> <<tree, ...>>]           Python list of arguments (fields "0"..)
\*   [t |-> "const",  w |-> width]                   amaranth Const (no explicitly defined shape)
\*   [t |-> "int"]                                   Python int
\* Field selections:
\*   [k |-> "mode", m |-> "COMMON" | "LHS" | "RHS" | "ALL"]      an AssignType
\*   [k |-> "iter", n |-> <<names>>]                             iterable of field names
\*   [k |-> "map",  m |-> [name |-> selection]]                  mapping name -> selection
\* Paths are sequences of field names (array / list indices as decimal strings).  A *cell* is
\* a leaf (or const / int) or a whole union.
\*
\* Asg(...) = [raise |-> BOOLEAN, pairs |-> set of <<left cell path, right cell path>>]:
\* either the call must raise, or exactly these cells of the left side are assigned, each
\* from the given cell of the right side.
\*
\* Named deviations from the docstring that the model takes from the code:
\*  * single-field structs / length-1 arrays facing a non-structure are unwrapped to their only
\*    field before the single assignment is generated ("If a single-value structure, assign
\*    its only field");
\*  * the check compares whole shapes (width and signedness / union layout), not only widths;
\*  * a union facing a dict with exactly one key assigns that member; other unions are plain
\*    values;
\*  * the exception class is not modelled (ValueError / KeyError / TypeError all count as
\*    "raises").
\* NOT taken from the code: a field of a View has an explicitly defined shape whatever its
\* signedness (docstring: "e.g. are a Signal, a field of a View"); see Explicit.
EXTENDS Naturals, Sequences, FiniteSets, TLC

Mode(m) == [k |-> "mode", m |-> m]
Modes == {"COMMON", "LHS", "RHS", "ALL"}
IdxNames(n) == {ToString(i) : i \in 0..(n - 1)}
IdxOf(name) == CHOOSE i \in 0..9 : ToString(i) = name

IsView(x) == x.t \in {"struct", "array", "union"}
HasFields(x) == x.t \in {"struct", "array", "dict", "list"}
ValueLike(x) == x.t \notin {"dict", "list"}
Fields(x) == CASE x.t \in {"struct", "dict", "union"} -> DOMAIN x.f
               [] x.t = "array" -> IdxNames(x.n)
               [] x.t = "list" -> IdxNames(Len(x.e))
               [] OTHER -> {}
Child(x, name) == CASE x.t \in {"struct", "dict", "union"} -> x.f[name]
                    [] x.t = "array" -> x.e
                    [] OTHER -> x.e[IdxOf(name) + 1]
\* has an explicitly defined shape (docstring: "e.g. are a Signal, a field of a View"; Views
\* themselves).  doc = TRUE is the documented meaning used by the property.  doc = FALSE
\* describes what the pinned code does instead (used ONLY to label a rejected row as the known
\* deviation, never to accept one): a *signed* field reached by unwrapping a single-field View
\* is an `as_signed()` operator, which the code does not count as explicitly shaped.
Explicit(x, unwrapped, doc) ==
  IF x.t = "leaf" THEN (doc \/ ~unwrapped \/ ~x.s) ELSE x.t \in {"struct", "array", "union"}

RECURSIVE SameShape(_, _)
SameShape(a, b) ==
  IF a.t # b.t THEN FALSE
  ELSE CASE a.t = "leaf" -> a.w = b.w /\ a.s = b.s
         [] a.t \in {"struct", "union"} ->
              DOMAIN a.f = DOMAIN b.f /\ \A n \in DOMAIN a.f : SameShape(a.f[n], b.f[n])
         [] a.t = "array" -> a.n = b.n /\ SameShape(a.e, b.e)
         [] OTHER -> FALSE

\* all cells below x (paths relative to p)
RECURSIVE Cells(_, _)
Cells(x, p) ==
  IF x.t \in {"leaf", "const", "int", "union"} THEN {p}
  ELSE UNION {Cells(Child(x, n), Append(p, n)) : n \in Fields(x)}

\* "If a single-value structure, assign its only field"
RECURSIVE Unwrap(_, _)
Unwrap(x, p) ==
  IF x.t \in {"struct", "array"} /\ Cardinality(Fields(x)) = 1
  THEN LET nm == CHOOSE n \in Fields(x) : TRUE IN Unwrap(Child(x, nm), Append(p, nm))
  ELSE [x |-> x, p |-> p]

SeqRange(s) == {s[i] : i \in 1..Len(s)}
Names(fs, LF, RF) ==
  CASE fs.k = "iter" -> SeqRange(fs.n)
    [] fs.k = "map" -> DOMAIN fs.m
    [] fs.m = "COMMON" -> LF \cap RF
    [] fs.m = "LHS" -> LF
    [] fs.m = "RHS" -> RF
    [] OTHER -> LF \cup RF
\* selection for a subfield: mapping -> its entry, iterable -> ALL, AssignType -> the same
SubSel(fs, name) == IF fs.k = "map" THEN fs.m[name] ELSE IF fs.k = "iter" THEN Mode("ALL") ELSE fs

Raise == [raise |-> TRUE, pairs |-> {}]

RECURSIVE Asg(_, _, _, _, _, _, _, _)
Asg(l, r, fs, ls, rs, lp, rp, doc) ==
  IF HasFields(l) /\ HasFields(r) THEN
    \* both field-containing: field-wise according to `fields`
    LET LF == Fields(l)  RF == Fields(r)  names == Names(fs, LF, RF)
    IN IF names = {} /\ (LF # {} \/ RF # {}) THEN Raise          \* nothing in common
       ELSE IF \E n \in names : n \notin LF \/ n \notin RF THEN Raise   \* missing field
       ELSE LET sub == [n \in names |->
                          Asg(Child(l, n), Child(r, n), SubSel(fs, n), ValueLike(l), ValueLike(r),
                              Append(lp, n), Append(rp, n), doc)]
            IN IF \E n \in names : sub[n].raise THEN Raise
               ELSE [raise |-> FALSE, pairs |-> UNION {sub[n].pairs : n \in names}]
  ELSE IF (l.t = "union" /\ r.t = "dict") \/ (l.t = "dict" /\ r.t = "union") THEN
    \* union <-> singleton mapping: the named member (the union stays one cell: its path is
    \* not extended)
    LET mp == IF l.t = "dict" THEN l ELSE r
        un == IF l.t = "dict" THEN r ELSE l
    IN IF Cardinality(DOMAIN mp.f) # 1 THEN Raise
       ELSE LET nm == CHOOSE n \in DOMAIN mp.f : TRUE
            IN IF nm \notin DOMAIN un.f THEN Raise
               ELSE IF fs.k = "map" /\ nm \notin DOMAIN fs.m THEN Raise
               ELSE Asg(Child(l, nm), Child(r, nm), SubSel(fs, nm), ValueLike(l), ValueLike(r),
                        IF l.t = "dict" THEN Append(lp, nm) ELSE lp,
                        IF r.t = "dict" THEN Append(rp, nm) ELSE rp, doc)
  ELSE
    \* at least one side is not field-containing: one assignment, same shape required when
    \* a View is involved or both sides have an explicitly defined shape
    IF fs.k # "mode" THEN Raise
    ELSE IF ~ValueLike(l) \/ ~ValueLike(r) THEN Raise
    ELSE LET ul == Unwrap(l, lp)  ur == Unwrap(r, rp)
             check == \/ IsView(ul.x) \/ IsView(ur.x)
                      \/ ((ls \/ Explicit(ul.x, ul.p # lp, doc)) /\ (rs \/ Explicit(ur.x, ur.p # rp, doc)))
         IN IF check /\ ~SameShape(ul.x, ur.x) THEN Raise
            ELSE [raise |-> FALSE, pairs |-> {<<ul.p, ur.p>>}]

MustRaise(l, r, fs) == Asg(l, r, fs, FALSE, FALSE, <<>>, <<>>, TRUE).raise
Selected(l, r, fs) == Asg(l, r, fs, FALSE, FALSE, <<>>, <<>>, TRUE).pairs

\* preconditions (enforced by the generator): the left side is assignable (no const / int),
\* const / int are not members of layouts, union members are leaves, dict / list are not
\* nested inside layouts
RECURSIVE WellFormed(_, _, _)
WellFormed(x, left, inLayout) ==
  CASE x.t = "leaf" -> TRUE
    [] x.t \in {"const", "int"} -> ~left /\ ~inLayout
    [] x.t = "union" -> \A n \in DOMAIN x.f : x.f[n].t = "leaf"
    [] x.t = "struct" -> \A n \in DOMAIN x.f : WellFormed(x.f[n], left, TRUE)
    [] x.t = "array" -> x.n >= 1 /\ WellFormed(x.e, left, TRUE)
    [] x.t = "dict" -> ~inLayout /\ \A n \in DOMAIN x.f : WellFormed(x.f[n], left, FALSE)
    [] OTHER -> ~inLayout /\ \A i \in 1..Len(x.e) : WellFormed(x.e[i], left, FALSE)
====
