---- MODULE C38Rows ----
\* Row oracle for property C38.  999999 (<<999999>> for list outputs) as an output means "constructing /
\* elaborating the circuit raised an exception".
EXTENDS Encoders
Raised == 999999

\* one_hot_mux family rows: in = <<raw select, default, v1..vn>>
MuxVals(cfg, in) == SubSeq(in, 3, cfg.n + 2)
MuxSel(cfg, in) == EffSelect(in[1], cfg.n, cfg.selw)
HasDef(cfg) == cfg.dflt # "none"

InDomain(fn, cfg, in) ==
  CASE fn \in {"one_hot_mux", "OneHotMux", "OneHotMux.create"} ->
         LET s == MuxSel(cfg, in) IN
         /\ Len(in) = cfg.n + 2
         \* priority=False: "the output is undefined if multiple select signals are set"
         /\ (cfg.priority = 0 => Popcount(s, cfg.n) <= 1)
         \* one_hot_mux: "if [default] not provided, when no select signal is set, the output is
         \* undefined"; OneHotMux.create documents 0 there, the class documents "the only value" for a
         \* single input: the single-input case of create is left out (the two docstrings disagree)
         /\ (s = 0 /\ ~HasDef(cfg)) => (fn = "OneHotMux" \/ (fn = "OneHotMux.create" /\ cfg.n > 1))
    [] fn = "MultiPriorityEncoder" -> in[1] < Pow2(cfg.w)
    \* first / last are indices of input bits
    [] fn = "RingMultiPriorityEncoder" -> in[1] < Pow2(cfg.w) /\ in[2] < cfg.w /\ in[3] < cfg.w
    [] fn = "StableSelectingNetwork" -> Len(in) = cfg.n + 1 /\ in[1] < Pow2(cfg.n)
    [] fn \in {"Encoder", "PriorityEncoder", "GrayEncoder", "GrayDecoder"} -> in[1] < Pow2(cfg.w)
    \* i selects one of the width output bits
    [] fn \in {"Decoder", "PriorityDecoder"} -> in[1] < cfg.w /\ in[2] \in {0, 1}
    [] OTHER -> FALSE

Expect(fn, cfg, in) ==
  CASE fn \in {"one_hot_mux", "OneHotMux", "OneHotMux.create"} ->
         OneHotSelect(MuxSel(cfg, in), cfg.n, MuxVals(cfg, in), HasDef(cfg), in[2])
    [] fn = "MultiPriorityEncoder" -> <<PrioValids(in[1], cfg.w, cfg.cnt)>> \o PrioOutputs(in[1], cfg.w, cfg.cnt)
    [] fn = "RingMultiPriorityEncoder" ->
         <<RingValids(in[1], cfg.w, in[2], in[3], cfg.cnt)>> \o RingOutputs(in[1], cfg.w, in[2], in[3], cfg.cnt)
    [] fn = "StableSelectingNetwork" ->
         <<Popcount(in[1], cfg.n)>> \o StableSelect(Tail(in), in[1])
    [] fn = "Encoder" -> <<EncoderN(in[1], cfg.w), EncoderO(in[1], cfg.w)>>
    [] fn = "PriorityEncoder" -> <<PrioEncN(in[1], cfg.w), PrioEncO(in[1], cfg.w)>>
    [] fn \in {"Decoder", "PriorityDecoder"} -> DecoderO(in[1], in[2], cfg.w)
    [] fn = "GrayEncoder" -> GrayEnc(in[1], cfg.w)
    [] fn = "GrayDecoder" -> GrayDec(in[1], cfg.w)
    [] OTHER -> 0 - 1

\* outputs of invalid encoder positions and entries behind the selected ones are don't-cares
RowOK(fn, cfg, in, out) ==
  LET e == Expect(fn, cfg, in) IN
  CASE fn \in {"MultiPriorityEncoder", "RingMultiPriorityEncoder"} ->
         /\ Len(out) = cfg.cnt + 1 /\ out[1] = e[1]
         /\ \A k \in 1..cfg.cnt : Bit(e[1], k - 1) = 1 => out[k + 1] = e[k + 1]
    [] fn = "StableSelectingNetwork" ->
         /\ Len(out) = cfg.n + 1 /\ out[1] = e[1]
         /\ \A k \in 1..e[1] : out[k + 1] = e[k + 1]
    [] OTHER -> out = e
====
