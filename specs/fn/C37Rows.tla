---- MODULE C37Rows ----
\* Row oracle for property C37 (shifter.py).  Bit functions: in = <<value(s)..., offset[, placeholder]>>,
\* out = value.  Vector functions: in = <<offset, placeholder, e1..en>> (generic: <<offset, a1..an, b1..bn>>),
\* out = <<e1'..en'>>; an element is the bit pattern of the (flat or structured) entry.
EXTENDS Shifters

IsVec(fn) == fn \in {"shift_vec_right", "shift_vec_left", "rotate_vec_right", "rotate_vec_left",
                     "generic_shift_vec_right", "generic_shift_vec_left"}
\* offsets 0..width (0..length): what the docstrings' wording covers and the repository relies on;
\* larger offsets are not given a meaning by the documentation and are not asserted
InDomain(fn, cfg, in) ==
  CASE fn \in {"shift_right", "shift_left"} -> in[1] < Pow2(cfg.w) /\ in[2] <= cfg.w /\ in[3] \in {0, 1}
    [] fn \in {"rotate_right", "rotate_left"} -> in[1] < Pow2(cfg.w) /\ in[2] <= cfg.w
    [] fn \in {"generic_shift_right", "generic_shift_left"} ->
         in[1] < Pow2(cfg.w) /\ in[2] < Pow2(cfg.w) /\ in[3] <= cfg.w
    [] fn \in {"shift_vec_right", "shift_vec_left", "rotate_vec_right", "rotate_vec_left"} ->
         Len(in) = cfg.n + 2 /\ in[1] <= cfg.n
    [] fn \in {"generic_shift_vec_right", "generic_shift_vec_left"} -> Len(in) = 2 * cfg.n + 1 /\ in[1] <= cfg.n
    [] OTHER -> FALSE

Elems(cfg, in) == SubSeq(in, 3, cfg.n + 2)
ElemsA(cfg, in) == SubSeq(in, 2, cfg.n + 1)
ElemsB(cfg, in) == SubSeq(in, cfg.n + 2, 2 * cfg.n + 1)

Expect(fn, cfg, in) ==
  CASE fn = "shift_right" -> ShiftRight(in[1], cfg.w, in[2], in[3])
    [] fn = "shift_left" -> ShiftLeft(in[1], cfg.w, in[2], in[3])
    [] fn = "rotate_right" -> RotateRight(in[1], cfg.w, in[2])
    [] fn = "rotate_left" -> RotateLeft(in[1], cfg.w, in[2])
    [] fn = "generic_shift_right" -> GenericShiftRight(in[1], in[2], cfg.w, in[3])
    [] fn = "generic_shift_left" -> GenericShiftLeft(in[1], in[2], cfg.w, in[3])
    [] fn = "shift_vec_right" -> VecShiftRight(Elems(cfg, in), in[1], in[2])
    [] fn = "shift_vec_left" -> VecShiftLeft(Elems(cfg, in), in[1], in[2])
    [] fn = "rotate_vec_right" -> VecRotateRight(Elems(cfg, in), in[1])
    [] fn = "rotate_vec_left" -> VecRotateLeft(Elems(cfg, in), in[1])
    [] fn = "generic_shift_vec_right" -> GenericVecShiftRight(ElemsA(cfg, in), ElemsB(cfg, in), in[1])
    [] fn = "generic_shift_vec_left" -> GenericVecShiftLeft(ElemsA(cfg, in), ElemsB(cfg, in), in[1])
    [] OTHER -> 0 - 1

RowOK(fn, cfg, in, out) == out = Expect(fn, cfg, in)
====
