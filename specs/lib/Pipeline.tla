---- MODULE Pipeline ----
\* Common definitions for transactron.lib.pipeline.PipelineBuilder (property C28).
\* A pipeline shape is a VALUE:
\*   [nodes |-> << [kind, req, gen, fn, nodep, conn, depth] ... >>, ...]
\*   kind   "ext"  the pipeline provides a method; an outside caller passes the `gen` fields as
\*                 arguments and gets the `req` fields back
\*          "call" the pipeline calls a method (owned by the harness): arguments `req`, results `gen`
\*          "fn"   a stage function: parameters `req`, returned fields `gen`
\*   fn     one record [op, x, y, c] per generated field (call / fn nodes); the same small
\*          arithmetic exists in the harness (props/C28.py eval_fn)
\*   nodep  no_dependency node (needs req = <<>>): its generated fields are supplied ahead of time
\*          through a one-entry buffer and merged with the next item
\*   conn, depth  connector in front of the node: "pipe" (one entry, can be refilled in the cycle it
\*          is read) or "fifo" of `depth` entries; "none" for the first node
\* Items carry the fields "id", "a", "b", "c" (4 bit each; absent = 0).
EXTENDS Integers, Sequences, FiniteSets

MOD == 16
Fields == {"id", "a", "b", "c"}
ZeroItem == [f \in Fields |-> 0]

\* stage functions
Eval(fn, it, ctr) ==
  CASE fn.op = "inc" -> (it[fn.x] + 1) % MOD
    [] fn.op = "dbl" -> (it[fn.x] * 2) % MOD
    [] fn.op = "add" -> (it[fn.x] + it[fn.y]) % MOD
    [] fn.op = "copy" -> it[fn.x]
    [] fn.op = "const" -> fn.c
    [] OTHER -> ctr                      \* "ctr": the harness's item counter (source nodes)

IndexOf(names, f) == CHOOSE k \in 1..Len(names) : names[k] = f
Has(names, f) == \E k \in 1..Len(names) : names[k] = f
\* item with the fields `names` replaced by `vals`
Upd(it, names, vals) == [f \in Fields |-> IF Has(names, f) THEN vals[IndexOf(names, f)] ELSE it[f]]
\* the required fields of an item, in the order of `names`
Proj(it, names) == [k \in 1..Len(names) |-> it[names[k]]]

\* values a node generates for item `it`: outside callers (ext) and counter sources are inputs
\* (taken from `given`), everything else is computed
GenVals(nd, it, given, ctr) ==
  [k \in 1..Len(nd.gen) |->
     IF nd.kind = "ext" THEN given[k] ELSE Eval(nd.fn[k], it, ctr)]
UsesCtr(nd) == nd.kind # "ext" /\ \E k \in 1..Len(nd.fn) : nd.fn[k].op = "ctr"

Cap(nd) == IF nd.conn = "fifo" THEN nd.depth ELSE 1
====
