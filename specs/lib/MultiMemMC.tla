---- MODULE MultiMemMC ----
\* Exhaustive model of the ideal synchronous memory MultiMem (C23): every port input vector
\* that satisfies the driver precondition, in every reachable state.
\*   EdgeMode = 0 : all Configs, nothing printed (pure model check)
\*   EdgeMode = 1 : ConfigsEdge, write port j carries data j (or 0 with granularity None);
\*                  every transition printed
\*   EdgeMode = 2 : ConfigsEdge, full input domain; every transition printed
EXTENDS Naturals, Sequences, FiniteSets, TLC, Json
CONSTANT EdgeMode
VARIABLES cfg, st, last
C == INSTANCE MultiMem
vars == <<cfg, st, last>>
Emitting == EdgeMode # 0
Inputs == {i \in C!Inputs(cfg) :
             /\ EdgeMode = 1 => \A j \in DOMAIN i.w : i.w[j].data = j \/ (i.w[j].data = 0 /\ i.w[j].en # 0)
             /\ \A j \in DOMAIN i.w : i.w[j].en = 0 => i.w[j].data = j}
Init == /\ cfg \in (IF Emitting THEN C!ConfigsEdge ELSE C!Configs)
        /\ st = C!CInit(cfg)
        /\ last = [r |-> <<>>, w |-> <<>>]
        /\ (Emitting => PrintT("INIT " \o ToJson([cfg |-> cfg, st |-> st])))
Cycle(inp) ==
  /\ C!Assume(cfg, inp)
  /\ st' = C!CNext(cfg, st, inp)
  /\ last' = inp
  /\ UNCHANGED cfg
Next == \E inp \in Inputs : Cycle(inp)
Spec == Init /\ [][Next]_vars
View == <<cfg, st>>
Inv == C!Inv(cfg, st)
StepOK == [][C!StepProp(cfg, st, last', st')]_vars
Emit == Emitting => PrintT("EDGE " \o ToJson([cfg |-> cfg, from |-> st, lab |-> last', to |-> st']))
====
