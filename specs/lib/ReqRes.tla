---- MODULE ReqRes ----
\* transactron.lib.reqres: Serializer and ArgumentsToResultsZipper (property C19) as
\* input-driven components (interface: specs/lib/IOCompMC.tpl).  One action = one clock cycle.
\*
\* kind "ser": Serializer(port_count = cfg.ports, depth = cfg.depth).  Methods in1..inN
\*   (serialize_in[i-1], argument = request), out1..outN (serialize_out[i-1]), clear.  The
\*   server side is the environment: two harness target methods whose readiness (qrdy, prdy)
\*   and response value (pval) are the per-cycle inputs; observation = which target executed
\*   (qran with argument qarg, pran).
\*   State: q = pending-request FIFO; each entry carries the client id (what the code stores)
\*   and, as environment ghost, the request payload `tag` the in-order server still owes.
\*   Assume (precondition of the property: "in-order server responses"): when a response is
\*   taken, the server returns the response to the oldest outstanding request - here an echo
\*   server, response = request payload; and the environment flushes the server together
\*   with `clear` (otherwise stale responses would be matched with later requests by design).
\* kind "zip": ArgumentsToResultsZipper: 2-entry argument FIFO + result Forwarder, no inputs.
EXTENDS Naturals, Integers, Sequences, FiniteSets

Ran(calls, m) == m \in DOMAIN calls
B(x) == IF x THEN 1 ELSE 0
Ports(cfg) == 1..cfg.ports
InM(i) == <<"in1", "in2", "in3", "in4">>[i]
OutM(i) == <<"out1", "out2", "out3", "out4">>[i]
Methods(cfg) ==
  IF cfg.kind = "ser" THEN {InM(i) : i \in Ports(cfg)} \cup {OutM(i) : i \in Ports(cfg)} \cup {"clear"}
  ELSE {"write_args", "write_results", "read", "peek_arg"}
HasArg(m) == m \in {InM(i) : i \in 1..4} \cup {"write_args", "write_results"}
Configs == {[kind |-> "ser", ports |-> 2, depth |-> d] : d \in {1, 2}} \cup {[kind |-> "zip", ports |-> 0, depth |-> 2]}
\* requests carry the client in the value so that mis-delivery is visible: client i sends 2i-1, 2i
ArgDom(cfg, m) ==
  IF cfg.kind = "ser"
  THEN (CASE m = "in1" -> {1, 2} [] m = "in2" -> {3, 4} [] m = "in3" -> {5, 6} [] m = "in4" -> {7, 8} [] OTHER -> {0})
  ELSE IF m = "write_args" THEN {1, 2} ELSE IF m = "write_results" THEN {3, 4} ELSE {0}
InDom(cfg, st) ==
  IF cfg.kind = "ser"
  THEN {[qrdy |-> a, prdy |-> b, pval |-> IF Len(st.q) > 0 THEN st.q[1].tag ELSE 0] : a \in {0, 1}, b \in {0, 1}}
  ELSE {[none |-> 0]}

\* q: pending requests (ser) / argument FIFO (zip, entries = plain values); full, val: result Forwarder (zip)
CInit(cfg) == [q |-> <<>>, full |-> FALSE, val |-> 0]
Unspec(cfg, st, m) == FALSE
ResAny(cfg, st, m) == FALSE

InCalls(cfg, calls) == {i \in Ports(cfg) : Ran(calls, InM(i))}
OutCalls(cfg, calls) == {i \in Ports(cfg) : Ran(calls, OutM(i))}

Callable(cfg, st, m, arg, calls, inp) ==
  IF cfg.kind = "ser" THEN
    IF m = "clear" THEN TRUE
    ELSE IF \E i \in Ports(cfg) : m = InM(i) THEN Len(st.q) < cfg.depth /\ inp.qrdy = 1
    ELSE LET i == CHOOSE i \in Ports(cfg) : m = OutM(i) IN
         Len(st.q) > 0 /\ st.q[1].id = i /\ inp.prdy = 1
  ELSE CASE m = "write_args" -> Len(st.q) < 2
         [] m = "write_results" -> ~st.full
         [] m = "read" -> Len(st.q) > 0 /\ (st.full \/ Ran(calls, "write_results"))
         [] OTHER -> Len(st.q) > 0
Result(cfg, st, m, calls, inp, obs) ==
  IF cfg.kind = "ser" THEN (IF \E i \in Ports(cfg) : m = OutM(i) THEN inp.pval ELSE 0)
  ELSE CASE m = "read" -> [args |-> st.q[1], results |-> IF st.full THEN st.val ELSE calls["write_results"]]
         [] m = "peek_arg" -> st.q[1]
         [] OTHER -> 0
ObsSet(cfg, st, calls, inp) ==
  IF cfg.kind = "ser"
  THEN LET ins == InCalls(cfg, calls) IN
       {[qran |-> B(ins # {}), qarg |-> IF ins # {} THEN calls[InM(CHOOSE i \in ins : TRUE)] ELSE 0,
         pran |-> B(OutCalls(cfg, calls) # {})]}
  ELSE {[none |-> 0]}
CNext(cfg, st, calls, inp, obs) ==
  IF cfg.kind = "ser" THEN
    LET ins == InCalls(cfg, calls)
        q1 == IF OutCalls(cfg, calls) # {} THEN Tail(st.q) ELSE st.q
        q2 == IF ins # {} THEN LET i == CHOOSE i \in ins : TRUE IN Append(q1, [id |-> i, tag |-> calls[InM(i)]]) ELSE q1
    IN [st EXCEPT !.q = IF Ran(calls, "clear") THEN <<>> ELSE q2]   \* clear wins over a same-cycle request
  ELSE
    LET r == Ran(calls, "read")  wr == Ran(calls, "write_results")
        q1 == IF r THEN Tail(st.q) ELSE st.q
        q2 == IF Ran(calls, "write_args") THEN Append(q1, calls["write_args"]) ELSE q1
        fw == IF st.full THEN (IF r THEN [full |-> FALSE, val |-> 0] ELSE [full |-> TRUE, val |-> st.val])
              ELSE (IF wr /\ ~r THEN [full |-> TRUE, val |-> calls["write_results"]] ELSE [full |-> FALSE, val |-> 0])
    IN [q |-> q2, full |-> fw.full, val |-> fw.val]
\* two requests (they share the id FIFO's write port and the server's request method) and two
\* responses exclude each other; which of several requesting clients wins is left open
Conflict(cfg, m1, m2) ==
  /\ cfg.kind = "ser" /\ m1 # m2
  /\ \/ \E i, j \in Ports(cfg) : m1 = InM(i) /\ m2 = InM(j)
     \/ \E i, j \in Ports(cfg) : m1 = OutM(i) /\ m2 = OutM(j)
Assume(cfg, st, calls, inp) ==
  (cfg.kind = "ser" /\ OutCalls(cfg, calls) # {}) => inp.pval = st.q[1].tag
Inv(cfg, st) == Len(st.q) <= cfg.depth

\* ---- property C19 on ghost histories
\* ser: req[i] / resp[i] = requests accepted from / responses delivered to client i (requests
\*      dropped by clear are removed from req);  zip: req[1] = written args, req[2] = written
\*      results, resp[1] = pairs returned by read
GInit(cfg) == [req |-> [i \in 1..(IF cfg.kind = "ser" THEN cfg.ports ELSE 2) |-> <<>>],
               resp |-> [i \in 1..(IF cfg.kind = "ser" THEN cfg.ports ELSE 1) |-> <<>>]]
GNext(cfg, g, st, calls, inp, res, obs) ==
  IF cfg.kind = "ser" THEN
    LET resp2 == [i \in Ports(cfg) |-> IF Ran(calls, OutM(i)) THEN Append(g.resp[i], res[OutM(i)]) ELSE g.resp[i]]
        req2 == [i \in Ports(cfg) |-> IF Ran(calls, InM(i)) THEN Append(g.req[i], calls[InM(i)]) ELSE g.req[i]]
    IN [req |-> IF Ran(calls, "clear") THEN [i \in Ports(cfg) |-> SubSeq(req2[i], 1, Len(resp2[i]))] ELSE req2,
        resp |-> resp2]
  ELSE [req |-> <<IF Ran(calls, "write_args") THEN Append(g.req[1], calls["write_args"]) ELSE g.req[1],
                  IF Ran(calls, "write_results") THEN Append(g.req[2], calls["write_results"]) ELSE g.req[2]>>,
        resp |-> <<IF Ran(calls, "read") THEN Append(g.resp[1], res["read"]) ELSE g.resp[1]>>]
IsPre(s, t) == Len(s) <= Len(t) /\ \A k \in 1..Len(s) : s[k] = t[k]
\* tags of the pending requests of client i, oldest first
RECURSIVE PendingOf(_, _)
PendingOf(q, i) == IF q = <<>> THEN <<>>
                   ELSE (IF q[1].id = i THEN <<q[1].tag>> ELSE <<>>) \o PendingOf(Tail(q), i)
GInv(cfg, st, g) ==
  IF cfg.kind = "ser" THEN
    \* every client has received exactly the responses to its own requests, in order (echo
    \* server: response = request), nothing lost or duplicated: delivered ++ still pending = requested
    \A i \in Ports(cfg) : /\ IsPre(g.resp[i], g.req[i])
                          /\ g.resp[i] \o PendingOf(st.q, i) = g.req[i]
  ELSE
    \* the k-th pair read is (k-th written argument, k-th written result)
    /\ Len(g.resp[1]) <= Len(g.req[1]) /\ Len(g.resp[1]) <= Len(g.req[2])
    /\ \A k \in 1..Len(g.resp[1]) : g.resp[1][k] = [args |-> g.req[1][k], results |-> g.req[2][k]]
GLen(g) == LET S(f) == IF DOMAIN f = {} THEN 0 ELSE
                        IF Len(f) = 1 THEN Len(f[1]) ELSE IF Len(f) = 2 THEN Len(f[1]) + Len(f[2])
                        ELSE Len(f[1]) + Len(f[2]) + Len(f[3])
           IN S(g.req)
GBound(cfg, g) == GLen(g) <= (IF cfg.kind = "ser" THEN 4 ELSE 5)

StepProp(cfg, st, g, req, calls, inp, res, obs, st2) ==
  IF cfg.kind = "ser" THEN
    \* one request per cycle is forwarded to the server unchanged, one response per cycle is taken
    /\ Cardinality(InCalls(cfg, calls)) <= 1 /\ Cardinality(OutCalls(cfg, calls)) <= 1
    /\ obs.qran = B(InCalls(cfg, calls) # {})
    /\ \A i \in InCalls(cfg, calls) : obs.qarg = calls[InM(i)]
    /\ obs.pran = B(OutCalls(cfg, calls) # {})
    /\ \A i \in OutCalls(cfg, calls) : res[OutM(i)] = inp.pval
  ELSE TRUE
====
