---- MODULE PipelineTrace ----
\* Batch validation of recorded PipelineBuilder runs (property C28), hand written because the
\* observation is not "one adapter per method": per cycle and node the harness logs
\*   f  the node fired (ext: the outside call executed; call: the called method ran; fn: the
\*      stage function's body ran)         r  the values of the node's required fields it saw
\*   g  the values it generated (ext: arguments of the caller; others: witness of the result)
\*   s  no_dependency nodes only: a value set was supplied (call executed / method ran)
\* plus `clear` (the pipeline's clear executed) and, on the last line, the end of a drain phase.
\*
\* The model is TIMING FREE (the property says nothing about when stages fire): one unbounded FIFO
\* of items in front of every node; a node that fires takes the oldest item waiting for it, must see
\* that item's fields, and hands the updated item to the next node.  Nodes are processed in pipeline
\* order inside a cycle, so an implementation passing an item through two stages in one cycle would
\* also be accepted.  The merge of a no_dependency node is not observable; it is performed lazily
\* when the following node needs an item (Pull).  Connector capacities are not part of this model
\* (they are in PipelineMC).
EXTENDS Integers, Sequences, FiniteSets, TLC, Json, IOUtils
Traces == JsonDeserialize(IOEnv.TRACE_FILE)
VARIABLES tid, l, st, verdict
vars == <<tid, l, st, verdict>>
P == INSTANCE Pipeline

Shape == Traces[tid].cfg
Nodes == Shape.nodes
N == Len(Nodes)
Line == Traces[tid].cycles[l]

\* Q[j]: items waiting for node j (Q[1] unused); V[j]: value sets supplied to no_dependency node j
SInit(n) == [Q |-> [j \in 1..n |-> <<>>], V |-> [j \in 1..n |-> <<>>], dropped |-> {}, exited |-> 0, fail |-> {}]

TraceGen(nd, it, given) ==
  [k \in 1..Len(nd.gen) |-> IF nd.kind = "ext" THEN given[k] ELSE P!Eval(nd.fn[k], it, given[k])]

RECURSIVE Pull(_, _)
\* make S.Q[j] non-empty, if possible, by the hidden merge of the no_dependency node j-1
Pull(S, j) ==
  IF j <= 1 \/ S.Q[j] # <<>> THEN S
  ELSE LET nd == Nodes[j - 1] IN
       IF ~nd.nodep THEN S
       ELSE LET Pp == IF j - 1 > 1 THEN Pull(S, j - 1) ELSE S
                hasIn == (j - 1 = 1) \/ Pp.Q[j - 1] # <<>>
            IN IF hasIn /\ Pp.V[j - 1] # <<>>
               THEN LET it == IF j - 1 = 1 THEN P!ZeroItem ELSE Head(Pp.Q[j - 1])
                        it2 == P!Upd(it, nd.gen, Head(Pp.V[j - 1]))
                        A == [Pp EXCEPT !.V[j - 1] = Tail(@)]
                        B == IF j - 1 = 1 THEN A ELSE [A EXCEPT !.Q[j - 1] = Tail(@)]
                    IN [B EXCEPT !.Q[j] = <<it2>>]
               ELSE Pp

StepNode(S, j) ==
  LET nd == Nodes[j]
      ev == Line.n[j]
  IN IF nd.nodep THEN (IF ev.s = 1 THEN [S EXCEPT !.V[j] = Append(@, ev.g)] ELSE S)
     ELSE IF ev.f = 0 THEN S
     ELSE LET Pp == IF j = 1 THEN S ELSE Pull(S, j) IN
          IF j > 1 /\ Pp.Q[j] = <<>>
          THEN [Pp EXCEPT !.fail = @ \cup {"EachStageOnceInOrder"}]       \* fired without an item waiting
          ELSE LET it == IF j = 1 THEN P!ZeroItem ELSE Head(Pp.Q[j])
                   bad == {nd.req[k] : k \in {x \in 1..Len(nd.req) : ev.r[x] # it[nd.req[x]]}}
                   gv == TraceGen(nd, it, ev.g)
                   it2 == P!Upd(it, nd.gen, gv)
                   S1 == IF j = 1 THEN Pp ELSE [Pp EXCEPT !.Q[j] = Tail(@)]
                   S2 == IF j < N THEN [S1 EXCEPT !.Q[j + 1] = Append(@, it2)] ELSE [S1 EXCEPT !.exited = @ + 1]
                   sawId == IF P!Has(nd.req, "id") THEN {ev.r[P!IndexOf(nd.req, "id")]} ELSE {}
                   cl == (IF "id" \in bad THEN (IF j = N THEN {"ExitOrder"} ELSE {"EachStageOnceInOrder"}) ELSE {})
                         \cup (IF bad \ {"id"} # {} THEN {"FieldsComputed"} ELSE {})
                         \cup (IF bad # {} /\ sawId \cap Pp.dropped # {} THEN {"ClearDropsInflight"} ELSE {})
                         \* harness sanity: the called method / function computed what the spec computes
                         \cup (IF nd.kind # "ext" /\ gv # ev.g THEN {"StageComputes"} ELSE {})
               IN [S2 EXCEPT !.fail = @ \cup cl]

RECURSIVE Sweep(_, _)
Sweep(S, j) == IF j > N THEN S ELSE Sweep(StepNode(S, j), j + 1)

InFlightIds(S) == UNION {{S.Q[j][i]["id"] : i \in 1..Len(S.Q[j])} : j \in 1..N}
AfterLine(S) ==
  LET A == Sweep([S EXCEPT !.fail = {}], 1)
  IN IF Line.clear = 1
     THEN [A EXCEPT !.Q = [j \in 1..N |-> <<>>], !.V = [j \in 1..N |-> <<>>], !.dropped = InFlightIds(A)]
     ELSE A
\* NoLoss: at the end of the drain phase (last line) nothing that entered is still inside
Drained(S) == \A j \in 1..N : S.Q[j] = <<>>
Failing ==
  LET A == AfterLine(st)
  IN A.fail \cup (IF l = Len(Traces[tid].cycles) /\ Line.drain = 1 /\ ~Drained(A) THEN {"NoLoss"} ELSE {})

Init == tid \in 1..Len(Traces) /\ l = 1 /\ st = SInit(Len(Traces[tid].cfg.nodes)) /\ verdict = "go"
Step == /\ verdict = "go" /\ l <= Len(Traces[tid].cycles)
        /\ IF Failing = {}
           THEN l' = l + 1 /\ st' = AfterLine(st) /\ UNCHANGED verdict
           ELSE /\ verdict' = "reject"
                /\ PrintT("REJECT " \o ToJson([tid |-> tid, line |-> l, clauses |-> Failing,
                                                state |-> [Q |-> st.Q, V |-> st.V]]))
                /\ UNCHANGED <<l, st>>
        /\ UNCHANGED tid
Fin == /\ verdict = "go" /\ l = Len(Traces[tid].cycles) + 1
       /\ verdict' = "accept" /\ PrintT("ACCEPT " \o ToJson([tid |-> tid]))
       /\ UNCHANGED <<tid, l, st>>
Spec == Init /\ [][Step \/ Fin]_vars
====
