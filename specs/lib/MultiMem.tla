---- MODULE MultiMem ----
\* Ideal Amaranth synchronous memory observed at port level (property C23), and the word /
\* granule arithmetic shared by MemBank (C21) and AsyncMem (C22).
\*
\* One action = one clock cycle.  Inputs of a cycle: per read port [en, addr], per write
\* port [en (granule mask), addr, data].  Output of a cycle: per read port the registered
\* read data `rd` (what the port shows DURING the cycle, i.e. the result of the read
\* performed at the previous clock edge).
\*
\*   cfg = [depth, width, granularity (0 = None), read_ports, write_ports,
\*          init   (sequence of row values, shorter than depth = padded with 0),
\*          transp (per read port the SEQUENCE of write-port indices, 1-based, it is
\*                  transparent for)]           (other fields are ignored)
\*   st  = [mem : 0..depth-1 -> word, rd : 1..read_ports -> word]
EXTENDS Naturals, Sequences, FiniteSets

\* ---------- word / granule arithmetic ------------------------------------------------
Pow2(n) == 2 ^ n
BitOf(x, b) == (x \div Pow2(b)) % 2
GranW(cfg) == IF cfg.granularity = 0 THEN cfg.width ELSE cfg.granularity
NGran(cfg) == cfg.width \div GranW(cfg)
Gran(x, g, G) == (x \div Pow2(G * g)) % Pow2(G)
RECURSIVE MergeFrom(_, _, _, _, _, _)
MergeFrom(old, new, mask, G, g, N) ==
  IF g = N THEN 0
  ELSE (IF BitOf(mask, g) = 1 THEN Gran(new, g, G) ELSE Gran(old, g, G)) * Pow2(G * g)
       + MergeFrom(old, new, mask, G, g + 1, N)
\* row value after writing `new` under granule mask `mask` over `old`
Merge(cfg, old, new, mask) == MergeFrom(old, new, mask, GranW(cfg), 0, NGran(cfg))

\* ws: sequence of write-port inputs [en, addr, data]; J: set of write-port indices taken
\* into account.  Ports are applied in index order (with the driver precondition at most
\* one port touches a row).
RECURSIVE Overlay(_, _, _, _, _, _)
Overlay(cfg, row, ws, a, J, j) ==
  IF j > Len(ws) THEN row
  ELSE Overlay(cfg,
               IF j \in J /\ ws[j].en # 0 /\ ws[j].addr = a
               THEN Merge(cfg, row, ws[j].data, ws[j].en) ELSE row,
               ws, a, J, j + 1)
AllW(ws) == 1..Len(ws)
\* contents of row a after the clock edge
RowAfter(cfg, mem, ws, a) == Overlay(cfg, mem[a], ws, a, AllW(ws), 1)
MemAfter(cfg, mem, ws) == [a \in DOMAIN mem |-> RowAfter(cfg, mem, ws, a)]
\* what a read of row a sees at the clock edge when it is transparent for the ports in J
View(cfg, mem, ws, a, J) == Overlay(cfg, mem[a], ws, a, J, 1)
\* driver precondition of C21/C22/C23: no two writing ports address the same row;
\* addresses are inside the memory
DistinctRows(ws) ==
  \A i, j \in AllW(ws) : (i # j /\ ws[i].en # 0 /\ ws[j].en # 0) => ws[i].addr # ws[j].addr
InitMem(cfg) == [a \in 0..(cfg.depth - 1) |-> IF a + 1 <= Len(cfg.init) THEN cfg.init[a + 1] ELSE 0]
SeqToSet(s) == {s[k] : k \in DOMAIN s}

\* ---------- the memory as a port-level object ------------------------------------------
CInit(cfg) == [mem |-> InitMem(cfg), rd |-> [p \in 1..cfg.read_ports |-> 0]]
Out(cfg, st) == st.rd
CNext(cfg, st, inp) ==
  [mem |-> MemAfter(cfg, st.mem, inp.w),
   rd  |-> [p \in 1..cfg.read_ports |->
              IF inp.r[p].en = 1
              THEN View(cfg, st.mem, inp.w, inp.r[p].addr, SeqToSet(cfg.transp[p]))
              ELSE st.rd[p]]]          \* read-enable hold
Assume(cfg, inp) ==
  /\ DistinctRows(inp.w)
  /\ \A j \in AllW(inp.w) : inp.w[j].addr < cfg.depth /\ inp.w[j].en < Pow2(NGran(cfg))
                            /\ inp.w[j].data < Pow2(cfg.width)
  /\ \A p \in DOMAIN inp.r : inp.r[p].addr < cfg.depth

\* ---------- exhaustive model -----------------------------------------------------------
TranspChoices(w) == IF w = 1 THEN {<<>>, <<1>>} ELSE {<<>>, <<1, 2>>, <<2>>}
Configs ==
  UNION {{[depth |-> 2, width |-> 2, granularity |-> g, read_ports |-> 1, write_ports |-> w,
           init |-> i, transp |-> <<t>>] :
             g \in {0, 1}, i \in {<<>>, <<1, 2>>}, t \in TranspChoices(w)} : w \in {1, 2}}
\* configurations whose every transition is printed and replayed into the real memories
ConfigsEdge == {c \in Configs : c.transp[1] # <<2>>}
\* whole-row writes include 0 so that the model graph stays strongly connected (few resets
\* in the edge-cover replay); with granularity 1 the values 01 / 10 clear every granule anyway
DataDom(cfg) == IF cfg.granularity = 0 THEN {0, 1, 2} ELSE {1, 2}
RIn(cfg) == [en : {0, 1}, addr : 0..(cfg.depth - 1)]
WIn(cfg) == [en : 0..(Pow2(NGran(cfg)) - 1), addr : 0..(cfg.depth - 1), data : DataDom(cfg)]
Inputs(cfg) == [r : [1..cfg.read_ports -> RIn(cfg)], w : [1..cfg.write_ports -> WIn(cfg)]]

\* ---------- properties (C23), stated per bit, independently of Merge/Overlay ------------
Inv(cfg, st) ==
  /\ DOMAIN st.mem = 0..(cfg.depth - 1)
  /\ \A a \in DOMAIN st.mem : st.mem[a] < Pow2(cfg.width)
  /\ \A p \in DOMAIN st.rd : st.rd[p] < Pow2(cfg.width)
\* does write port j write bit b of row a in this cycle
Writes(cfg, ws, j, a, b) ==
  ws[j].en # 0 /\ ws[j].addr = a /\ BitOf(ws[j].en, b \div GranW(cfg)) = 1
StepProp(cfg, st, inp, st2) ==
  /\ \A a \in 0..(cfg.depth - 1), b \in 0..(cfg.width - 1) :
        BitOf(st2.mem[a], b) =
          IF \E j \in AllW(inp.w) : Writes(cfg, inp.w, j, a, b)
          THEN BitOf(inp.w[CHOOSE j \in AllW(inp.w) : Writes(cfg, inp.w, j, a, b)].data, b)
          ELSE BitOf(st.mem[a], b)
  /\ \A p \in 1..cfg.read_ports :
        IF inp.r[p].en = 0 THEN st2.rd[p] = st.rd[p]
        ELSE \A b \in 0..(cfg.width - 1) :
               LET a == inp.r[p].addr
                   T == {j \in SeqToSet(cfg.transp[p]) : Writes(cfg, inp.w, j, a, b)}
               IN BitOf(st2.rd[p], b) =
                    IF T # {} THEN BitOf(inp.w[CHOOSE j \in T : TRUE].data, b) ELSE BitOf(st.mem[a], b)
====
