---- MODULE Stream ----
\* transactron.lib.stream: StreamSource, StreamSink, StreamModuleWrapper (property C29) as
\* input-driven components (interface: specs/lib/IOCompMC.tpl).  One action = one clock cycle.
\*
\*  kind "source": method write -> stream port o (valid/payload registers); the consumer's
\*                 `ready` is the per-cycle input; observation = o.valid, o.payload.
\*  kind "sink"  : stream port i -> methods read / peek (peek2 = second caller of the
\*                 nonexclusive peek); the producer's valid/payload are the per-cycle inputs;
\*                 observation = i.ready.
\*  kind "wrap"  : StreamModuleWrapper around a harness stage (plain Amaranth, props/C29.py)
\*                 that exists identically here: stage "reg" = one registered slot computing
\*                 +1 (i.ready = ~o.valid | o.ready), "comb" = combinational +1 pass-through
\*                 (o.valid = i.valid, i.ready = o.ready), "fifo2" = two-entry registered FIFO
\*                 computing +1 (i.ready = not full, o.valid = not empty).  No inputs; the
\*                 observation is the six handshake signals at the stage's two ports.
\* Payload is a don't-care while valid = 0 (stream protocol): the harness normalises the
\* observed payload to 0 in such cycles, and so does ObsSet.
EXTENDS Naturals, Integers, Sequences, FiniteSets

B(x) == IF x THEN 1 ELSE 0
Ran(calls, m) == m \in DOMAIN calls
Methods(cfg) == CASE cfg.kind = "source" -> {"write"}
                  [] cfg.kind = "sink" -> {"read", "peek", "peek2"}
                  [] OTHER -> {"write", "read"}
HasArg(m) == m = "write"
Configs == {[kind |-> "source", stage |-> "-", w |-> 2], [kind |-> "sink", stage |-> "-", w |-> 2]}
           \cup {[kind |-> "wrap", stage |-> s, w |-> 2] : s \in {"reg", "comb", "fifo2"}}
ArgDom(cfg, m) == IF m = "write" THEN {1, 2} ELSE {0}
InDom(cfg, st) == CASE cfg.kind = "source" -> [ready : {0, 1}]
                    [] cfg.kind = "sink" -> {[valid |-> 0, payload |-> 0]} \cup [valid : {1}, payload : {1, 2}]
                    [] OTHER -> {[none |-> 0]}
F(cfg, x) == (x + 1) % (2 ^ cfg.w)

\* valid/payload: the source's registers; q: contents of the stage (already transformed)
CInit(cfg) == [valid |-> FALSE, payload |-> 0, q |-> <<>>]
Unspec(cfg, st, m) == FALSE
ResAny(cfg, st, m) == FALSE

\* ---- handshake signals of the cycle
Cap(cfg) == CASE cfg.stage = "reg" -> 1 [] cfg.stage = "fifo2" -> 2 [] OTHER -> 0
\* stage output port
OV(cfg, st) == IF cfg.stage = "comb" THEN st.valid ELSE Len(st.q) > 0
OP(cfg, st) == IF cfg.stage = "comb" THEN F(cfg, st.payload) ELSE st.q[1]
\* sink side: ready = read executes
ORdy(calls) == Ran(calls, "read")
\* stage input ready (what the source sees on o.ready)
IR(cfg, st, calls, inp) ==
  CASE cfg.kind = "source" -> inp.ready = 1
    [] cfg.stage = "reg" -> Len(st.q) = 0 \/ ORdy(calls)
    [] cfg.stage = "comb" -> ORdy(calls)
    [] OTHER -> Len(st.q) < 2

Callable(cfg, st, m, arg, calls, inp) ==
  CASE m = "write" -> ~st.valid \/ IR(cfg, st, calls, inp)
    [] cfg.kind = "sink" -> inp.valid = 1
    [] OTHER -> OV(cfg, st)                       \* read of the wrapper
Result(cfg, st, m, calls, inp, obs) ==
  CASE m = "write" -> 0
    [] cfg.kind = "sink" -> inp.payload
    [] OTHER -> OP(cfg, st)
ObsSet(cfg, st, calls, inp) ==
  CASE cfg.kind = "source" -> {[valid |-> B(st.valid), payload |-> IF st.valid THEN st.payload ELSE 0]}
    [] cfg.kind = "sink" -> {[ready |-> B(Ran(calls, "read"))]}
    [] OTHER -> {[iv |-> B(st.valid), ip |-> IF st.valid THEN st.payload ELSE 0,
                  ir |-> B(IR(cfg, st, calls, inp)),
                  ov |-> B(OV(cfg, st)), op |-> IF OV(cfg, st) THEN OP(cfg, st) ELSE 0,
                  ordy |-> B(ORdy(calls))]}
\* source registers: a write (re)fills; otherwise an accepted item leaves (the code clears
\* valid whenever o.ready /\ ~write.run)
SrcNext(cfg, st, calls, inp) ==
  IF Ran(calls, "write") THEN [valid |-> TRUE, payload |-> calls["write"]]
  ELSE IF IR(cfg, st, calls, inp) THEN [valid |-> FALSE, payload |-> st.payload]
  ELSE [valid |-> st.valid, payload |-> st.payload]
CNext(cfg, st, calls, inp, obs) ==
  IF cfg.kind = "sink" THEN st
  ELSE LET xi == st.valid /\ IR(cfg, st, calls, inp)          \* transfer source -> stage
           xo == cfg.kind = "wrap" /\ OV(cfg, st) /\ ORdy(calls)  \* transfer stage -> sink
           q1 == IF xo /\ cfg.stage # "comb" THEN Tail(st.q) ELSE st.q
           q2 == IF xi /\ cfg.kind = "wrap" /\ cfg.stage # "comb" THEN Append(q1, F(cfg, st.payload)) ELSE q1
           s == SrcNext(cfg, st, calls, inp)
       IN [valid |-> s.valid, payload |-> IF s.valid THEN s.payload ELSE 0, q |-> q2]
Conflict(cfg, m1, m2) == FALSE
Assume(cfg, st, calls, inp) == TRUE
Inv(cfg, st) == Len(st.q) <= Cap(cfg) /\ (~st.valid => st.payload = 0)

\* ---- property C29 over observed signals and ghost histories
\* w: written items; e: items transferred on the observed stream port (source: o; sink: i;
\* wrap: stage.i); r: items returned by read; pv/pp/pr: valid, payload, ready of the previous
\* cycle on that port (source: o, sink: -, wrap: stage.i); qv/qp/qr: same for stage.o (wrap)
GInit(cfg) == [w |-> <<>>, e |-> <<>>, r |-> <<>>, pv |-> 0, pp |-> 0, pr |-> 0, qv |-> 0, qp |-> 0, qr |-> 0]
GNext(cfg, g, st, calls, inp, res, obs) ==
  LET w2 == IF Ran(calls, "write") THEN Append(g.w, calls["write"]) ELSE g.w
      r2 == IF Ran(calls, "read") THEN Append(g.r, res["read"]) ELSE g.r
  IN CASE cfg.kind = "source" ->
            [g EXCEPT !.w = w2, !.e = IF obs.valid = 1 /\ inp.ready = 1 THEN Append(g.e, obs.payload) ELSE g.e,
                      !.pv = obs.valid, !.pp = obs.payload, !.pr = inp.ready]
       [] cfg.kind = "sink" ->
            [g EXCEPT !.r = r2, !.e = IF inp.valid = 1 /\ obs.ready = 1 THEN Append(g.e, inp.payload) ELSE g.e]
       [] OTHER ->
            [g EXCEPT !.w = w2, !.r = r2,
                      !.e = IF obs.iv = 1 /\ obs.ir = 1 THEN Append(g.e, obs.ip) ELSE g.e,
                      !.pv = obs.iv, !.pp = obs.ip, !.pr = obs.ir,
                      !.qv = obs.ov, !.qp = obs.op, !.qr = obs.ordy]
IsPre(s, t) == Len(s) <= Len(t) /\ \A i \in 1..Len(s) : s[i] = t[i]
MapF(cfg, s) == [i \in 1..Len(s) |-> F(cfg, s[i])]
\* pending items in the order they will leave
Pending(cfg, st) == CASE cfg.kind = "source" -> IF st.valid THEN <<st.payload>> ELSE <<>>
                      [] cfg.kind = "sink" -> <<>>
                      [] OTHER -> st.q \o (IF st.valid THEN <<F(cfg, st.payload)>> ELSE <<>>)
GInv(cfg, st, g) ==
  CASE cfg.kind = "source" ->
         \* EmittedExactlyOnceInOrder: emitted ++ buffered = written
         g.e \o Pending(cfg, st) = g.w
    [] cfg.kind = "sink" ->
         \* SinkConsumesExactlyTransferredPayload
         g.r = g.e
    [] OTHER ->
         \* the wrapper preserves the stage's stream semantics: what was read, followed by what
         \* is still in flight, is the image of what was written; transfers into the stage are
         \* a prefix of the written items
         /\ g.r \o Pending(cfg, st) = MapF(cfg, g.w)
         /\ IsPre(g.e, g.w)
GBound(cfg, g) == Len(g.w) <= 3 /\ Len(g.e) <= 3 /\ Len(g.r) <= 3

StepProp(cfg, st, g, req, calls, inp, res, obs, st2) ==
  CASE cfg.kind = "source" ->
         \* ValidHeldUntilAccepted, PayloadStableWhileStalled
         /\ (g.pv = 1 /\ g.pr = 0) => (obs.valid = 1 /\ obs.payload = g.pp)
         \* write is accepted only into an empty buffer or one being emptied, and is not refused then
         /\ \A m \in DOMAIN req : (m \in DOMAIN calls) <=> (obs.valid = 0 \/ inp.ready = 1)
    [] cfg.kind = "sink" ->
         \* ReadCallableIffValid (same for peek)
         /\ \A m \in DOMAIN req : (m \in DOMAIN calls) <=> inp.valid = 1
         /\ \A m \in DOMAIN calls : res[m] = inp.payload
         \* PeekNeverConsumes: only read asserts ready
         /\ obs.ready = B(Ran(calls, "read"))
    [] OTHER ->
         /\ (g.pv = 1 /\ g.pr = 0) => (obs.iv = 1 /\ obs.ip = g.pp)
         /\ Ran(calls, "write") => (obs.iv = 0 \/ obs.ir = 1)
         /\ ("write" \in DOMAIN req /\ ~Ran(calls, "write")) => (obs.iv = 1 /\ obs.ir = 0)
         /\ \A m \in DOMAIN req \ {"write"} : (m \in DOMAIN calls) <=> obs.ov = 1
         /\ Ran(calls, "read") => res["read"] = obs.op
         /\ obs.ordy = B(Ran(calls, "read"))
====
