---- MODULE @NAME@MC ----
\* Exhaustive model of an input-driven component module @NAME@ (template of vlib/connharness.py;
\* properties C18, C19, C29, C30).  Differences to specs/tpl/CompMC.tla:
\*   * per cycle the environment supplies inputs `inp \in InDom` (target readiness, target
\*     return values, plain ports) and the component produces an observation `obs \in ObsSet`
\*     (which targets executed with which argument, plain outputs); several allowed
\*     observations = scheduler choices the property leaves open;
\*   * the label carries the *requested* methods `req` and the granted subset `calls`: a grant is
\*     valid iff every granted method is callable, and every requested-but-not-granted method
\*     is not callable or conflicts with a granted one (no wasted cycle); per admissible call
\*     set the model enumerates req = calls and req = calls + every blocked method (the
\*     history pass only req = calls);
\*   * `Unspec(cfg, st, m)`: the property does not define the readiness of m in this state
\*     (either outcome is a model step);
\*   * ghost history g (GInit/GNext/GInv), hidden by VIEW in the edge pass, part of the
\*     fingerprint (ViewG, bounded by GBound) in the history pass.
EXTENDS Naturals, Integers, Sequences, FiniteSets, TLC, Json
VARIABLES cfg, st, g, last
C == INSTANCE @NAME@
vars == <<cfg, st, g, last>>
\* Partial choice functions: for a set Ms of methods and argument sets D[m] (integers), all
\* functions from a subset of Ms (lo = 0) / from all of Ms (lo = 1) to an argument of D[m].
\* Enumerated through index functions instead of filtering a product of values.
MaxArgs == 3
Nth(S, k) == CHOOSE x \in S : Cardinality({y \in S : y < x}) = k - 1
Choices(Ms, D, lo) ==
  {[m \in {x \in Ms : p[x] > 0} |-> Nth(D[m], p[m])] :
      p \in {p \in [Ms -> lo..MaxArgs] : \A m \in Ms : p[m] <= Cardinality(D[m])}}
CallSets == Choices(C!Methods(cfg), [m \in C!Methods(cfg) |-> C!ArgDom(cfg, m)], 0)
\* a set of simultaneous calls the component can execute
Admissible(calls, inp) ==
  /\ \A m \in DOMAIN calls : C!Unspec(cfg, st, m) \/ C!Callable(cfg, st, m, calls[m], calls, inp)
  /\ \A m1, m2 \in DOMAIN calls : m1 # m2 => ~C!Conflict(cfg, m1, m2)
  /\ C!Assume(cfg, st, calls, inp)
\* arguments with which a method outside `calls` may be requested without being granted:
\* not callable next to `calls`, or conflicting with a granted method (no wasted cycle otherwise)
Blocked(m, calls, inp) ==
  {a \in C!ArgDom(cfg, m) : \/ C!Unspec(cfg, st, m)
                            \/ ~C!Callable(cfg, st, m, a, calls, inp)
                            \/ \E n \in DOMAIN calls : C!Conflict(cfg, m, n)}
\* requested-but-not-granted methods enumerated by the model: none, or every method that has
\* a blocked argument (all combinations of their blocked arguments)
Extras(calls, inp) ==
  LET Rest == C!Methods(cfg) \ DOMAIN calls
      BA == [m \in Rest |-> Blocked(m, calls, inp)]
      Mb == {m \in Rest : BA[m] # {}}
  IN {<<>>} \cup Choices(Mb, BA, 1)
CalBits(req, calls, inp) ==
  [m \in DOMAIN req |-> IF C!Unspec(cfg, st, m) THEN -1
                        ELSE IF C!Callable(cfg, st, m, req[m], calls, inp) THEN 1 ELSE 0]
Init == /\ cfg \in C!Configs /\ st = C!CInit(cfg) /\ g = C!GInit(cfg)
        /\ last = [req |-> <<>>, calls |-> <<>>, inp |-> <<>>, res |-> <<>>, cal |-> <<>>, obs |-> <<>>]
        /\ PrintT("INIT " \o ToJson([cfg |-> cfg, st |-> st]))
Cycle(calls, inp) ==
  /\ Admissible(calls, inp)
  /\ \E extra \in @EXTRAS@ : \E obs \in C!ObsSet(cfg, st, calls, inp) :
       LET req == calls @@ extra
           res == [m \in DOMAIN calls |-> IF C!ResAny(cfg, st, m) THEN -1 ELSE C!Result(cfg, st, m, calls, inp, obs)] IN
       /\ st' = C!CNext(cfg, st, calls, inp, obs)
       /\ g' = C!GNext(cfg, g, st, calls, inp, res, obs)
       /\ last' = [req |-> req, calls |-> calls, inp |-> inp, res |-> res,
                   cal |-> CalBits(req, calls, inp), obs |-> obs]
  /\ UNCHANGED cfg
Next == \E calls \in CallSets : \E inp \in C!InDom(cfg, st) : Cycle(calls, inp)
Spec == Init /\ [][Next]_vars
View == <<cfg, st>>
ViewG == <<cfg, st, g>>
Inv == C!Inv(cfg, st)
GInvOK == C!GInv(cfg, st, g)
GBoundOK == C!GBound(cfg, g)
StepOK == [][C!StepProp(cfg, st, g, last'.req, last'.calls, last'.inp, last'.res, last'.obs, st')]_vars
Emit == PrintT("EDGE " \o ToJson([cfg |-> cfg, from |-> st, lab |-> last', to |-> st']))
====
