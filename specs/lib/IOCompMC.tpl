---- MODULE @NAME@MC ----
\* Exhaustive model of an input-driven component module @NAME@ (template of vlib/connharness.py;
\* properties C18, C19, C29, C30).  Differences to specs/tpl/CompMC.tla:
\*   * per cycle the environment supplies inputs `inp \in InDom` (target readiness, target
\*     return values, plain ports) and the component produces an observation `obs \in ObsSet`
\*     (which targets executed with which argument, plain outputs); several allowed
\*     observations = scheduler choices the property leaves open;
\*   * the label carries the *requested* methods `req` and the granted subset `calls`: a grant is
\*     valid iff every granted method is callable, and every requested-but-not-granted method
\*     is not callable or conflicts with a granted one (no wasted cycle);
\*   * `Unspec(cfg, st, m)`: the property does not define the readiness of m in this state
\*     (either outcome is a model step);
\*   * ghost history g (GInit/GNext/GInv), hidden by VIEW in the edge pass, part of the
\*     fingerprint (ViewG, bounded by GBound) in the history pass.
EXTENDS Naturals, Integers, Sequences, FiniteSets, TLC, Json
VARIABLES cfg, st, g, last
C == INSTANCE @NAME@
vars == <<cfg, st, g, last>>
ArgsFor(S) == {f \in [S -> UNION {C!ArgDom(cfg, m) : m \in S}] : \A m \in S : f[m] \in C!ArgDom(cfg, m)}
ReqSets == UNION {ArgsFor(S) : S \in SUBSET C!Methods(cfg)}
Restrict(f, S) == [m \in S |-> f[m]]
Grant(req, calls, inp) ==
  /\ \A m \in DOMAIN calls : C!Unspec(cfg, st, m) \/ C!Callable(cfg, st, m, calls[m], calls, inp)
  /\ \A m \in DOMAIN req \ DOMAIN calls :
        \/ C!Unspec(cfg, st, m)
        \/ ~C!Callable(cfg, st, m, req[m], calls, inp)
        \/ \E n \in DOMAIN calls : C!Conflict(cfg, m, n)
  /\ \A m1, m2 \in DOMAIN calls : m1 # m2 => ~C!Conflict(cfg, m1, m2)
  /\ C!Assume(cfg, st, calls, inp)
CalBits(req, calls, inp) ==
  [m \in DOMAIN req |-> IF C!Unspec(cfg, st, m) THEN -1
                        ELSE IF C!Callable(cfg, st, m, req[m], calls, inp) THEN 1 ELSE 0]
Init == /\ cfg \in C!Configs /\ st = C!CInit(cfg) /\ g = C!GInit(cfg)
        /\ last = [req |-> <<>>, calls |-> <<>>, inp |-> <<>>, res |-> <<>>, cal |-> <<>>, obs |-> <<>>]
        /\ PrintT("INIT " \o ToJson([cfg |-> cfg, st |-> st]))
Cycle(req, S, inp) ==
  LET calls == Restrict(req, S) IN
  /\ Grant(req, calls, inp)
  /\ \E obs \in C!ObsSet(cfg, st, calls, inp) :
       LET res == [m \in S |-> C!Result(cfg, st, m, calls, inp)] IN
       /\ st' = C!CNext(cfg, st, calls, inp, obs)
       /\ g' = C!GNext(cfg, g, st, calls, inp, res, obs)
       /\ last' = [req |-> req, calls |-> calls, inp |-> inp, res |-> res,
                   cal |-> CalBits(req, calls, inp), obs |-> obs]
  /\ UNCHANGED cfg
Next == \E inp \in C!InDom(cfg, st) : \E req \in ReqSets : \E S \in SUBSET DOMAIN req : Cycle(req, S, inp)
Spec == Init /\ [][Next]_vars
View == <<cfg, st>>
ViewG == <<cfg, st, g>>
Inv == C!Inv(cfg, st)
GInvOK == C!GInv(cfg, st, g)
GBoundOK == C!GBound(cfg, g)
StepOK == [][C!StepProp(cfg, st, g, last'.req, last'.calls, last'.inp, last'.res, last'.obs, st')]_vars
Emit == PrintT("EDGE " \o ToJson([cfg |-> cfg, from |-> st, lab |-> last', to |-> st']))
====
