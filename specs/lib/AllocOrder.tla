---- MODULE AllocOrder ----
\* transactron.lib.allocators.PreservedOrderAllocator (property C26).
\* Functional style: state and configuration are values; one clock cycle = CNext.
\*
\* cfg = [entries]
\* st  = [order |-> the code's `order` array as a sequence (position p of the code = order[p+1]),
\*        used  |-> the code's `used` counter,
\*        hist  |-> ABSTRACT history: the currently allocated identifiers, oldest first; it is
\*                  maintained from the calls alone (append on alloc, delete on free) and never
\*                  read by Callable/Result; Inv ties it to order/used]
EXTENDS Naturals, Sequences, FiniteSets, IOUtils

Methods(cfg) == {"alloc", "free", "free_idx", "order", "clear"}
HasArg(m) == m \in {"free", "free_idx"}
MCSet == IF "VERIF_MC_SET" \in DOMAIN IOEnv THEN IOEnv.VERIF_MC_SET ELSE "quick"
Configs == {[entries |-> n] : n \in 1..(IF MCSet = "thorough" THEN 5 ELSE 4)}
Ids(cfg) == 0..(cfg.entries - 1)
ArgDom(cfg, m) == IF HasArg(m) THEN Ids(cfg) ELSE {0}

Ident(cfg) == [i \in 1..cfg.entries |-> i - 1]
CInit(cfg) == [order |-> Ident(cfg), used |-> 0, hist |-> <<>>]
Ran(calls, m) == m \in DOMAIN calls
SeqRange(s) == {s[i] : i \in 1..Len(s)}
Without(s, x) == SelectSeq(s, LAMBDA y : y # x)

Callable(cfg, st, m, arg, calls) == IF m = "alloc" THEN st.used < cfg.entries ELSE TRUE
Result(cfg, st, m, calls) ==
  CASE m = "alloc" -> st.order[st.used + 1]       \* only evaluated when used < entries
    [] m = "order" -> [used |-> st.used, order |-> st.order]
    [] OTHER -> 0

\* 0-based position freed in this cycle (free looks the identifier up: last matching position)
Freeing(calls) == Ran(calls, "free") \/ Ran(calls, "free_idx")
FreePos(cfg, st, calls) ==
  IF Ran(calls, "free_idx") THEN calls["free_idx"]
  ELSE LET hits == {p \in Ids(cfg) : st.order[p + 1] = calls["free"]}
       IN IF hits = {} THEN 0 ELSE CHOOSE p \in hits : \A q \in hits : q <= p

\* free_idx body: positions >= idx take their right neighbour, the last position takes order[idx]
Shift(cfg, o, idx) ==
  [p \in 1..cfg.entries |-> IF p = cfg.entries THEN o[idx + 1]
                            ELSE IF p - 1 >= idx THEN o[p + 1] ELSE o[p]]

CNext(cfg, st, calls) ==
  LET a == Ran(calls, "alloc")
      f == Freeing(calls)
      idx == FreePos(cfg, st, calls)
      \* abstract history, from the calls only
      gone == IF Ran(calls, "free") THEN calls["free"]
              ELSE IF idx + 1 <= Len(st.hist) THEN st.hist[idx + 1] ELSE cfg.entries
      h1 == IF f THEN Without(st.hist, gone) ELSE st.hist
      h2 == IF a THEN Append(h1, Result(cfg, st, "alloc", calls)) ELSE h1
  IN IF Ran(calls, "clear") THEN CInit(cfg)      \* clear is the last writer of order and used
     ELSE [order |-> IF f THEN Shift(cfg, st.order, idx) ELSE st.order,
           used  |-> st.used + (IF a THEN 1 ELSE 0) - (IF f THEN 1 ELSE 0),
           hist  |-> h2]

\* free is implemented by calling free_idx: the scheduler never grants both
Conflict(cfg, m1, m2) == {m1, m2} = {"free", "free_idx"}

\* precondition of the property: only allocated identifiers / indices below the used count
Assume(cfg, st, calls) ==
  /\ Ran(calls, "free") => calls["free"] \in SeqRange(st.hist)
  /\ Ran(calls, "free_idx") => calls["free_idx"] < st.used

\* ---- properties (C26) ----
IsPerm(cfg, o) == Len(o) = cfg.entries /\ SeqRange(o) = Ids(cfg)
\* order is always a permutation whose first `used` entries are the allocated identifiers
\* from oldest to newest
Inv(cfg, st) ==
  /\ IsPerm(cfg, st.order)
  /\ st.used = Len(st.hist) /\ st.used <= cfg.entries
  /\ SubSeq(st.order, 1, st.used) = st.hist

\* the same written on one transition, without the history variable: `res` are the values
\* returned by the implementation / model in this cycle
StepProp(cfg, st, calls, res, st2) ==
  LET before == SubSeq(st.order, 1, st.used)
      after == SubSeq(st2.order, 1, st2.used)
      a == Ran(calls, "alloc")
      desig == IF Ran(calls, "free") THEN calls["free"] ELSE before[calls["free_idx"] + 1]
      kept == IF Freeing(calls) THEN Without(before, desig) ELSE before
  IN /\ IsPerm(cfg, st2.order)
     \* alloc returns a free identifier and runs only if one exists
     /\ a => /\ st.used < cfg.entries
             /\ res["alloc"] \in Ids(cfg) \ SeqRange(before)
     \* order reports the permutation and the used count
     /\ Ran(calls, "order") => res["order"] = [used |-> st.used, order |-> st.order]
     \* free / free_idx remove exactly the designated identifier, the others keep their relative
     \* age, a newly allocated identifier is the newest
     /\ ~Ran(calls, "clear") =>
          /\ Freeing(calls) => Len(kept) = Len(before) - 1
          /\ after = (IF a THEN Append(kept, res["alloc"]) ELSE kept)
     \* clear restores the initial state
     /\ Ran(calls, "clear") => st2.used = 0 /\ st2.order = Ident(cfg)
====
