---- MODULE Transformers ----
\* Method transformers and connectors (property C18) as input-driven components (interface:
\* specs/lib/IOCompMC.tpl): transactron/lib/transformers.py MethodMap, MethodFilter,
\* MethodProduct, MethodTryProduct, NonexclusiveWrapper, Collector and
\* transactron/lib/connectors.py ConnectTrans, CrossbarConnectTrans.
\*
\* The *targets* (methods called by the transformer) belong to the harness: per cycle their
\* readiness and returned values are inputs (`inp`), and which of them executed with which
\* argument is the observation (`obs`; the argument is normalised to 0 when not executed).
\* All kinds but "collector" are combinational (a single state).  One action = one cycle.
\*
\* cfg = [kind, n, n2, mode, d, w]:
\*  "connect"    ConnectTrans(method1, method2)
\*  "crossbar"   CrossbarConnectTrans with n methods1 and n2 methods2
\*  "map"        MethodMap; mode "fun": i_transform x -> x+1, o_transform y -> 2y+1 (mod 2^w);
\*               mode "meth": both transforms are (harness) methods
\*  "filter"     MethodFilter, condition "argument is odd", default value d (0 = none given);
\*               mode "if" (use_condition=False), "cond" (use_condition=True),
\*               "meth" (use_condition=False, condition is a harness method)
\*  "product"    MethodProduct of n targets; mode "first" (default combiner) / "sum"
\*  "tryproduct" MethodTryProduct of n targets; mode "none" (default combiner, empty result) /
\*               "sd" (combiner returns s = success bits, d = sum of the successful results)
\*  "nonexcl"    NonexclusiveWrapper called from n call sites c1..cn; mode "arg" (target has an
\*               argument: the documented assumption "at most one call per cycle" is an Assume)
\*               / "noarg" (result only: several callers in one cycle)
\*  "collector"  Collector over n targets, method get; state = its Forwarder
EXTENDS Naturals, Integers, Sequences, FiniteSets

B(x) == IF x THEN 1 ELSE 0
Ran(calls, m) == m \in DOMAIN calls
Mod(cfg, x) == x % (2 ^ cfg.w)
Callers == <<"c1", "c2", "c3">>
Sum3(f, n) == (IF n >= 1 THEN f[1] ELSE 0) + (IF n >= 2 THEN f[2] ELSE 0) + (IF n >= 3 THEN f[3] ELSE 0)
Zeros(n) == [i \in 1..n |-> 0]

Methods(cfg) ==
  CASE cfg.kind \in {"connect", "crossbar"} -> {}
    [] cfg.kind = "nonexcl" -> {Callers[i] : i \in 1..cfg.n}
    [] cfg.kind = "collector" -> {"get"}
    [] OTHER -> {"call"}
HasArg(m) == m \in {"call", "c1", "c2", "c3"}
\* cw: form of the filter condition function: 0 = bit 0 of the argument, 1 = the argument with bit 0 cleared (a
\* multi-bit value; "non-zero return value is interpreted as true")
Cfg(k, n, n2, mode, d) == [kind |-> k, n |-> n, n2 |-> n2, mode |-> mode, d |-> d, w |-> 2, cw |-> 0]
CfgW(k, mode, d) == [kind |-> k, n |-> 1, n2 |-> 0, mode |-> mode, d |-> d, w |-> 2, cw |-> 1]
Configs ==
  {Cfg("connect", 1, 1, "-", 0), Cfg("connect", 1, 1, "val", 0), Cfg("crossbar", 1, 2, "-", 0), Cfg("crossbar", 2, 1, "-", 0), Cfg("crossbar", 2, 2, "-", 0),
   Cfg("map", 1, 0, "fun", 0), Cfg("map", 1, 0, "meth", 0),
   Cfg("filter", 1, 0, "if", 0), Cfg("filter", 1, 0, "if", 3), Cfg("filter", 1, 0, "cond", 0), Cfg("filter", 1, 0, "cond", 3),
   Cfg("filter", 1, 0, "meth", 3), CfgW("filter", "if", 3), CfgW("filter", "cond", 3),
   Cfg("product", 1, 0, "first", 0), Cfg("product", 2, 0, "first", 0), Cfg("product", 2, 0, "sum", 0), Cfg("product", 3, 0, "sum", 0),
   Cfg("tryproduct", 1, 0, "sd", 0), Cfg("tryproduct", 2, 0, "sd", 0), Cfg("tryproduct", 2, 0, "none", 0), Cfg("tryproduct", 3, 0, "sd", 0),
   Cfg("tryproduct", 1, 0, "sdx", 0), Cfg("tryproduct", 2, 0, "sdx", 0),
   Cfg("nonexcl", 2, 0, "arg", 0), Cfg("nonexcl", 3, 0, "noarg", 0),
   Cfg("collector", 1, 0, "-", 0), Cfg("collector", 2, 0, "-", 0)}
NoArg(cfg) == cfg.kind = "collector" \/ (cfg.kind = "nonexcl" /\ cfg.mode = "noarg")
ArgDom(cfg, m) == IF NoArg(cfg) THEN {0} ELSE {1, 2}
Bits(n) == [1..n -> {0, 1}]
InDom(cfg, st) ==
  CASE cfg.kind = "connect" /\ cfg.mode = "val" -> [r1 : {0, 1}, r2 : {0, 1}, v1 : {0, 1, 2}, v2 : {0, 2, 3}]
    [] cfg.kind = "connect" -> [r1 : {0, 1}, r2 : {0, 1}, v1 : {1, 2}, v2 : {2, 3}]
    [] cfg.kind = "crossbar" -> [rdy1 : Bits(cfg.n), val1 : [1..cfg.n -> {1, 2}], rdy2 : Bits(cfg.n2), val2 : [1..cfg.n2 -> {2, 3}]]
    [] cfg.kind = "map" /\ cfg.mode = "meth" ->
         [trdy : {0, 1}, tval : {1, 2}, irdy : {0, 1}, ival : {2, 3}, ordy : {0, 1}, oval : {1, 3}]
    [] cfg.kind = "filter" /\ cfg.mode = "meth" -> [trdy : {0, 1}, tval : {1, 2}, crdy : {0, 1}, cval : {0, 1}]
    [] cfg.kind \in {"map", "filter", "nonexcl"} /\ cfg.mode # "meth" -> [trdy : {0, 1}, tval : {1, 2}]
    \* mode "sdx": a third-party transaction of the harness (request xreq, argument xarg) calls target 1 directly
    [] cfg.kind = "tryproduct" /\ cfg.mode = "sdx" ->
         [rdy : Bits(cfg.n), val : [1..cfg.n -> {1, 2}], xreq : {0, 1}, xarg : {3}]
    [] OTHER -> [rdy : Bits(cfg.n), val : [1..cfg.n -> {1, 2}]]

\* only the Collector has state: its Forwarder
CInit(cfg) == [full |-> FALSE, val |-> 0]
Unspec(cfg, st, m) == FALSE
ResAny(cfg, st, m) == FALSE

\* the harness's small arithmetic maps (identical in props/C18.py)
Fi(cfg, x) == Mod(cfg, x + 1)
Fo(cfg, y) == Mod(cfg, 2 * y + 1)
Odd(x) == x % 2 = 1
AllRdy(cfg, inp) == \A i \in 1..cfg.n : inp.rdy[i] = 1
AnyCaller(cfg, calls) == \E i \in 1..cfg.n : Ran(calls, Callers[i])
TheArg(cfg, calls) == IF AnyCaller(cfg, calls) THEN calls[Callers[CHOOSE i \in 1..cfg.n : Ran(calls, Callers[i])]] ELSE 0
\* condition of the filter for an argument
FCond(cfg, arg, inp) == IF cfg.mode = "meth" THEN inp.cval # 0 ELSE IF cfg.cw = 1 THEN arg >= 2 ELSE Odd(arg)

Callable(cfg, st, m, arg, calls, inp) ==
  CASE cfg.kind = "map" -> inp.trdy = 1 /\ (cfg.mode = "meth" => inp.irdy = 1 /\ inp.ordy = 1)
    \* MethodFilter: with m.If the target stays in the call tree (blocks even when not called);
    \* with use_condition the method does not block on an unready target when the condition is false
    [] cfg.kind = "filter" -> CASE cfg.mode = "if" -> inp.trdy = 1
                                [] cfg.mode = "cond" -> ~FCond(cfg, arg, inp) \/ inp.trdy = 1
                                [] OTHER -> inp.trdy = 1 /\ inp.crdy = 1
    [] cfg.kind = "product" -> AllRdy(cfg, inp)
    [] cfg.kind = "tryproduct" -> TRUE
    [] cfg.kind = "nonexcl" -> inp.trdy = 1
    [] cfg.kind = "collector" -> st.full \/ \E i \in 1..cfg.n : inp.rdy[i] = 1
    [] OTHER -> FALSE
\* index of the target the Collector's crossbar transferred from (0: none)
\* MethodTryProduct: the call to target i succeeded iff the target is ready and, in mode "sdx", target 1 was not
\* taken by the third-party caller in this cycle (obs.xran: the third party's transaction ran)
TrySucc(cfg, inp, obs, i) == IF inp.rdy[i] = 1 /\ ~(cfg.mode = "sdx" /\ i = 1 /\ obs.xran = 1) THEN 1 ELSE 0
Chosen(cfg, obs) == IF \E i \in 1..cfg.n : obs.ran[i] = 1 THEN CHOOSE i \in 1..cfg.n : obs.ran[i] = 1 ELSE 0
Result(cfg, st, m, calls, inp, obs) ==
  CASE cfg.kind = "map" -> IF cfg.mode = "meth" THEN inp.oval ELSE Fo(cfg, inp.tval)
    [] cfg.kind = "filter" -> IF FCond(cfg, calls[m], inp) THEN inp.tval ELSE cfg.d
    [] cfg.kind = "product" -> IF cfg.mode = "first" THEN inp.val[1] ELSE Mod(cfg, Sum3(inp.val, cfg.n))
    [] cfg.kind = "tryproduct" ->
         IF cfg.mode = "none" THEN 0
         ELSE [s |-> Sum3([i \in 1..cfg.n |-> TrySucc(cfg, inp, obs, i) * (2 ^ (i - 1))], cfg.n),
               d |-> Mod(cfg, Sum3([i \in 1..cfg.n |-> TrySucc(cfg, inp, obs, i) * inp.val[i]], cfg.n))]
    [] cfg.kind = "nonexcl" -> inp.tval
    [] cfg.kind = "collector" -> IF st.full THEN st.val
                                 ELSE IF Chosen(cfg, obs) # 0 THEN inp.val[Chosen(cfg, obs)] ELSE 0
    [] OTHER -> 0

\* ---- crossbar: one transaction per pair (i, j); the scheduler picks a maximal set of
\* non-overlapping ready pairs - which one is left open
Pairs(cfg, inp) == {p \in (1..cfg.n) \X (1..cfg.n2) : inp.rdy1[p[1]] = 1 /\ inp.rdy2[p[2]] = 1}
IsMatching(M) == \A p, q \in M : p # q => (p[1] # q[1] /\ p[2] # q[2])
Matchings(cfg, inp) ==
  {M \in SUBSET Pairs(cfg, inp) : IsMatching(M) /\ \A p \in Pairs(cfg, inp) \ M : ~IsMatching(M \cup {p})}
XObs(cfg, inp, M) ==
  [ran1 |-> [i \in 1..cfg.n |-> B(\E p \in M : p[1] = i)],
   arg1 |-> [i \in 1..cfg.n |-> IF \E p \in M : p[1] = i THEN inp.val2[(CHOOSE p \in M : p[1] = i)[2]] ELSE 0],
   ran2 |-> [j \in 1..cfg.n2 |-> B(\E p \in M : p[2] = j)],
   arg2 |-> [j \in 1..cfg.n2 |-> IF \E p \in M : p[2] = j THEN inp.val1[(CHOOSE p \in M : p[2] = j)[1]] ELSE 0]]

\* mode "val": both connected methods are defined with validate_arguments and refuse the all-zero argument;
\* method1 receives v2, method2 receives v1
ConnAccept(cfg, inp) == cfg.mode # "val" \/ (inp.v1 # 0 /\ inp.v2 # 0)
ObsSet(cfg, st, calls, inp) ==
  LET c == Ran(calls, "call")
      a == IF c THEN calls["call"] ELSE 0 IN
  CASE cfg.kind = "connect" ->
         LET both == inp.r1 = 1 /\ inp.r2 = 1 /\ ConnAccept(cfg, inp) IN
         {[ran1 |-> B(both), arg1 |-> IF both THEN inp.v2 ELSE 0, ran2 |-> B(both), arg2 |-> IF both THEN inp.v1 ELSE 0]}
    [] cfg.kind = "crossbar" -> {XObs(cfg, inp, M) : M \in Matchings(cfg, inp)}
    [] cfg.kind = "map" /\ cfg.mode = "fun" -> {[tran |-> B(c), targ |-> IF c THEN Fi(cfg, a) ELSE 0]}
    [] cfg.kind = "map" /\ cfg.mode = "meth" ->
         {[tran |-> B(c), targ |-> IF c THEN inp.ival ELSE 0, iran |-> B(c), iarg |-> a,
           oran |-> B(c), oarg |-> IF c THEN inp.tval ELSE 0]}
    [] cfg.kind = "filter" ->
         LET t == c /\ FCond(cfg, a, inp) IN
         IF cfg.mode = "meth" THEN {[tran |-> B(t), targ |-> IF t THEN a ELSE 0, cran |-> B(c), carg |-> a]}
         ELSE {[tran |-> B(t), targ |-> IF t THEN a ELSE 0]}
    [] cfg.kind = "product" -> {[ran |-> [i \in 1..cfg.n |-> B(c)], arg |-> [i \in 1..cfg.n |-> a]]}
    [] cfg.kind = "tryproduct" /\ cfg.mode = "sdx" ->
         \* target 1 is an exclusive method with two potential callers: when both want it the scheduler's choice is
         \* left open (x = 1: the third party got it)
         LET X == IF inp.xreq = 1 /\ inp.rdy[1] = 1 THEN (IF c THEN {0, 1} ELSE {1}) ELSE {0} IN
         {[ran |-> [i \in 1..cfg.n |-> B((c \/ (i = 1 /\ x = 1)) /\ inp.rdy[i] = 1)],
           arg |-> [i \in 1..cfg.n |-> IF i = 1 /\ x = 1 THEN inp.xarg ELSE IF c /\ inp.rdy[i] = 1 THEN a ELSE 0],
           xran |-> x] : x \in X}
    [] cfg.kind = "tryproduct" ->
         {[ran |-> [i \in 1..cfg.n |-> B(c /\ inp.rdy[i] = 1)], arg |-> [i \in 1..cfg.n |-> IF c /\ inp.rdy[i] = 1 THEN a ELSE 0]]}
    [] cfg.kind = "nonexcl" -> {[tran |-> B(AnyCaller(cfg, calls)), targ |-> TheArg(cfg, calls)]}
    [] OTHER ->   \* collector: into an empty Forwarder exactly one of the ready targets is transferred
         LET R == {i \in 1..cfg.n : inp.rdy[i] = 1} IN
         IF st.full \/ R = {} THEN {[ran |-> Zeros(cfg.n)]}
         ELSE {[ran |-> [i \in 1..cfg.n |-> B(i = k)]] : k \in R}
CNext(cfg, st, calls, inp, obs) ==
  IF cfg.kind # "collector" THEN st
  ELSE LET k == Chosen(cfg, obs)  r == Ran(calls, "get") IN
       IF st.full THEN (IF r THEN [full |-> FALSE, val |-> 0] ELSE st)
       ELSE IF k # 0 /\ ~r THEN [full |-> TRUE, val |-> inp.val[k]] ELSE [full |-> FALSE, val |-> 0]
Conflict(cfg, m1, m2) == FALSE
\* NonexclusiveWrapper with an argument: "you can assume that the method will never be called
\* more than once in a given clock cycle" (docstring) - the driver obeys
Assume(cfg, st, calls, inp) ==
  (cfg.kind = "nonexcl" /\ cfg.mode = "arg") => Cardinality(DOMAIN calls) <= 1
Inv(cfg, st) == cfg.kind # "collector" => st = CInit(cfg)

\* ---- ghost histories (Collector): got = results taken from targets, del = results delivered
GInit(cfg) == [got |-> <<>>, del |-> <<>>]
GNext(cfg, g, st, calls, inp, res, obs) ==
  IF cfg.kind # "collector" THEN g
  ELSE [got |-> IF Chosen(cfg, obs) # 0 THEN Append(g.got, inp.val[Chosen(cfg, obs)]) ELSE g.got,
        del |-> IF Ran(calls, "get") THEN Append(g.del, res["get"]) ELSE g.del]
\* Collector delivers every target result exactly once: delivered ++ buffered = collected
GInv(cfg, st, g) == cfg.kind = "collector" => g.del \o (IF st.full THEN <<st.val>> ELSE <<>>) = g.got
GBound(cfg, g) == Len(g.got) <= 3

\* ---- property C18, per transformer, on requests / calls / inputs / results / observation
Card1(f, n) == Cardinality({i \in 1..n : f[i] = 1})
StepProp(cfg, st, g, req, calls, inp, res, obs, st2) ==
  LET c == Ran(calls, "call")
      rq == "call" \in DOMAIN req
      a == IF c THEN calls["call"] ELSE 0 IN
  CASE cfg.kind = "connect" ->
         \* data is transferred between the two methods exactly when both can run
         \* ("can run" includes that each method accepts the value the other one hands over)
         /\ obs.ran1 = B(inp.r1 = 1 /\ inp.r2 = 1 /\ ConnAccept(cfg, inp)) /\ obs.ran2 = obs.ran1
         /\ obs.ran1 = 1 => (obs.arg1 = inp.v2 /\ obs.arg2 = inp.v1)
    [] cfg.kind = "crossbar" ->
         LET R1 == {i \in 1..cfg.n : obs.ran1[i] = 1}  R2 == {j \in 1..cfg.n2 : obs.ran2[j] = 1} IN
         \* only ready methods run; no pair of ready methods stays idle; the running methods
         \* are paired one to one and each pair exchanges its data
         /\ \A i \in R1 : inp.rdy1[i] = 1
         /\ \A j \in R2 : inp.rdy2[j] = 1
         /\ \A i \in 1..cfg.n, j \in 1..cfg.n2 : (inp.rdy1[i] = 1 /\ inp.rdy2[j] = 1) => (i \in R1 \/ j \in R2)
         /\ \E f \in [R1 -> R2] : /\ \A x, y \in R1 : x # y => f[x] # f[y]
                                  /\ \A j \in R2 : \E x \in R1 : f[x] = j
                                  /\ \A i \in R1 : obs.arg1[i] = inp.val2[f[i]] /\ obs.arg2[f[i]] = inp.val1[i]
    [] cfg.kind = "map" ->
         \* the target is called with the mapped argument, the result is the mapped target result
         /\ obs.tran = B(c)
         /\ cfg.mode = "fun" => /\ rq => (c <=> inp.trdy = 1)
                                /\ c => (obs.targ = Fi(cfg, a) /\ res["call"] = Fo(cfg, inp.tval))
         /\ cfg.mode = "meth" => /\ rq => (c <=> (inp.trdy = 1 /\ inp.irdy = 1 /\ inp.ordy = 1))
                                 /\ obs.iran = B(c) /\ obs.oran = B(c)
                                 /\ c => (obs.iarg = a /\ obs.targ = inp.ival /\ obs.oarg = inp.tval /\ res["call"] = inp.oval)
    [] cfg.kind = "filter" ->
         LET cond == FCond(cfg, a, inp) IN
         \* the target is called only when the condition holds; otherwise the default is returned
         /\ obs.tran = B(c /\ cond)
         /\ obs.tran = 1 => obs.targ = a
         /\ c => res["call"] = (IF cond THEN inp.tval ELSE cfg.d)
         \* blocking: use_condition=False waits for the target even when it is not called;
         \* use_condition=True does not block on an unready target when the condition is false
         /\ (rq /\ cfg.mode = "if") => (c <=> inp.trdy = 1)
         /\ (rq /\ cfg.mode = "cond") => (c <=> (~FCond(cfg, req["call"], inp) \/ inp.trdy = 1))
         /\ (rq /\ cfg.mode = "meth") => (c <=> (inp.trdy = 1 /\ inp.crdy = 1))
         /\ cfg.mode = "meth" => (obs.cran = B(c) /\ (c => obs.carg = a))
    [] cfg.kind = "product" ->
         \* ready iff all targets are ready; all targets are called with the argument
         /\ rq => (c <=> AllRdy(cfg, inp))
         /\ \A i \in 1..cfg.n : obs.ran[i] = B(c) /\ (c => obs.arg[i] = a)
         /\ c => res["call"] = (IF cfg.mode = "first" THEN inp.val[1] ELSE Mod(cfg, Sum3(inp.val, cfg.n)))
    [] cfg.kind = "tryproduct" ->
         \* never blocks; calls exactly the ready targets and reports which succeeded
         /\ rq => c
         /\ cfg.mode # "sdx" => \A i \in 1..cfg.n : obs.ran[i] = B(c /\ inp.rdy[i] = 1) /\ (obs.ran[i] = 1 => obs.arg[i] = a)
         /\ (c /\ cfg.mode = "sd") =>
               /\ \A i \in 1..cfg.n : (res["call"].s \div (2 ^ (i - 1))) % 2 = inp.rdy[i]
               /\ res["call"].d = Mod(cfg, Sum3([i \in 1..cfg.n |-> inp.rdy[i] * inp.val[i]], cfg.n))
         \* with a third-party caller: a success bit is reported exactly for the targets that executed THIS call
         \* (a target executes at most one call per cycle; it ran for this call iff it ran and was not taken)
         /\ (c /\ cfg.mode = "sdx") =>
               \A i \in 1..cfg.n :
                  ((res["call"].s \div (2 ^ (i - 1))) % 2 = 1) <=> (obs.ran[i] = 1 /\ ~(i = 1 /\ obs.xran = 1))
    [] cfg.kind = "nonexcl" ->
         \* every call site is served (also several in one cycle) iff the target is ready; the
         \* target runs once and every caller gets its result
         /\ \A m \in DOMAIN req : (m \in DOMAIN calls) <=> inp.trdy = 1
         /\ obs.tran = B(DOMAIN calls # {})
         /\ \A m \in DOMAIN calls : res[m] = inp.tval /\ (cfg.mode = "arg" => obs.targ = calls[m])
    [] OTHER ->
         \* collector: at most one target result is taken per cycle, only from a ready target
         /\ Card1(obs.ran, cfg.n) <= 1
         /\ \A i \in 1..cfg.n : obs.ran[i] = 1 => inp.rdy[i] = 1
====
