---- MODULE PipelineMC ----
\* Exhaustive bounded-buffer model of small PipelineBuilder shapes (property C28), with the exact
\* readiness coupling of the shipped connectors:
\*   Pipe      one entry; writable when empty or when it is read in the same cycle
\*   BasicFifo `depth` entries; writable when not full (no same-cycle coupling)
\*   no_dependency node: one-entry Pipe for the supplied values; the merge with the next item is
\*             an internal transaction that runs whenever it can
\*   clear     every connector (and no_dependency buffer) is empty afterwards; reads of the same
\*             cycle still deliver, writes of the same cycle are dropped
\* Per cycle the environment chooses which nodes it OFFERS (outside caller requests / called method
\* ready / stage `ready` input), the arguments of outside callers and whether clear is called.
\* At most K items enter.  History variables (exited, dropped) carry the property.
EXTENDS Integers, Sequences, FiniteSets, TLC, Json
P == INSTANCE Pipeline
VARIABLES shape, S, last
vars == <<shape, S, last>>

K == 3
ArgVals == {1, 2}                       \* values outside callers pass for non-id fields

F(op, x, y, c) == [op |-> op, x |-> x, y |-> y, c |-> c]
Node(kind, req, gen, fn, nodep, conn, depth) ==
  [kind |-> kind, req |-> req, gen |-> gen, fn |-> fn, nodep |-> nodep, conn |-> conn, depth |-> depth]
Sh(name, nodes) == [name |-> name, nodes |-> nodes, allow_unused |-> FALSE, allow_empty |-> FALSE]
MCShapes == {
  Sh("ext-fn-ext", <<Node("ext", <<>>, <<"id", "a">>, <<>>, FALSE, "none", 0),
                     Node("fn", <<"a">>, <<"a">>, <<F("inc", "a", "", 0)>>, FALSE, "pipe", 1),
                     Node("ext", <<"a", "id">>, <<>>, <<>>, FALSE, "pipe", 1)>>),
  Sh("ext-call-ext fifo2", <<Node("ext", <<>>, <<"id", "a">>, <<>>, FALSE, "none", 0),
                     Node("call", <<"a", "id">>, <<"b">>, <<F("add", "a", "id", 0)>>, FALSE, "fifo", 2),
                     Node("ext", <<"b", "id">>, <<>>, <<>>, FALSE, "pipe", 1)>>),
  Sh("ext-ext-fn-ext", <<Node("ext", <<>>, <<"id", "a">>, <<>>, FALSE, "none", 0),
                     Node("ext", <<"a">>, <<>>, <<>>, FALSE, "pipe", 1),
                     Node("fn", <<"id">>, <<"b">>, <<F("dbl", "id", "", 0)>>, FALSE, "fifo", 1),
                     Node("ext", <<"b", "id">>, <<>>, <<>>, FALSE, "pipe", 1)>>),
  Sh("ext-nodep-ext", <<Node("ext", <<>>, <<"id">>, <<>>, FALSE, "none", 0),
                     Node("ext", <<>>, <<"a">>, <<>>, TRUE, "pipe", 1),
                     Node("ext", <<"a", "id">>, <<>>, <<>>, FALSE, "pipe", 1)>>),
  Sh("src-fn-nodepcall-sink", <<Node("call", <<>>, <<"id">>, <<F("ctr", "", "", 0)>>, FALSE, "none", 0),
                     Node("fn", <<"id">>, <<"a">>, <<F("inc", "id", "", 0)>>, FALSE, "pipe", 1),
                     Node("call", <<>>, <<"b">>, <<F("const", "", "", 9)>>, TRUE, "fifo", 2),
                     Node("call", <<"a", "b", "id">>, <<>>, <<>>, FALSE, "pipe", 1)>>)
}

Nodes == shape.nodes
N == Len(Nodes)
IsPipe(j) == Nodes[j].conn = "pipe"

\* an item: token number (model only), fields, number of nodes passed, supplied inputs per node
SInit(n) == [conn |-> [j \in 1..n |-> <<>>], np |-> [j \in 1..n |-> <<>>], entered |-> 0, ctr |-> 0,
             exited |-> <<>>, dropped |-> {}]

\* ---- exact firing rule (X: a state value) ---------------------------------------------
RECURSIVE StageFires(_, _, _)
\* the node's stage runs (for a no_dependency node: the hidden merge)
StageFires(X, T, j) ==
  LET nd == Nodes[j]
      hasIn == j = 1 \/ X.conn[j] # <<>>
      room == j = N \/ Len(X.conn[j + 1]) < P!Cap(Nodes[j + 1]) \/ (IsPipe(j + 1) /\ StageFires(X, T, j + 1))
  IN IF nd.nodep THEN X.np[j] # <<>> /\ hasIn /\ room
     ELSE j \in T /\ hasIn /\ room
\* a value set is supplied to the no_dependency node j
Supplies(X, T, j) == Nodes[j].nodep /\ j \in T /\ (X.np[j] = <<>> \/ StageFires(X, T, j))

\* ---- one cycle ---------------------------------------------------------------------------
\* args[j]: generated values of an outside caller (ext nodes), in the order of nd.gen
InItem(X, j) == IF j = 1 THEN [tok |-> X.entered + 1, f |-> P!ZeroItem, passed |-> 0, ins |-> <<>>]
                ELSE Head(X.conn[j])
GenOf(X, args, j) == IF Nodes[j].nodep THEN Head(X.np[j]) ELSE P!GenVals(Nodes[j], InItem(X, j).f, args[j], X.ctr)
OutItem(X, args, j) ==
  LET it == InItem(X, j)
      gv == GenOf(X, args, j)
  IN [tok |-> it.tok, f |-> P!Upd(it.f, Nodes[j].gen, gv), passed |-> it.passed + 1,
      ins |-> Append(it.ins, IF Nodes[j].kind = "ext" \/ Nodes[j].nodep \/ P!UsesCtr(Nodes[j]) THEN gv ELSE <<>>)]
SuppliedVals(X, args, j) == IF Nodes[j].kind = "ext" THEN args[j] ELSE P!GenVals(Nodes[j], P!ZeroItem, <<>>, X.ctr)

CtrBumps(X, T) ==
  \E j \in 1..N : P!UsesCtr(Nodes[j]) /\ (IF Nodes[j].nodep THEN Supplies(X, T, j) ELSE StageFires(X, T, j))
NextS(X, T, args, clr) ==
  LET fires == {j \in 1..N : StageFires(X, T, j)}
      sup == {j \in 1..N : Supplies(X, T, j)}
      conn2 == [j \in 1..N |->
                  LET rest == IF j \in fires /\ j > 1 THEN Tail(X.conn[j]) ELSE X.conn[j]
                  IN IF j > 1 /\ (j - 1) \in fires THEN Append(rest, OutItem(X, args, j - 1)) ELSE rest]
      np2 == [j \in 1..N |->
                  LET rest == IF Nodes[j].nodep /\ j \in fires THEN <<>> ELSE X.np[j]
                  IN IF j \in sup THEN Append(rest, SuppliedVals(X, args, j)) ELSE rest]
      out == IF N \in fires THEN <<OutItem(X, args, N)>> ELSE <<>>
      inflight == UNION {{conn2[j][i].tok : i \in 1..Len(conn2[j])} : j \in 1..N}
  IN [conn |-> IF clr THEN [j \in 1..N |-> <<>>] ELSE conn2,
      np |-> IF clr THEN [j \in 1..N |-> <<>>] ELSE np2,
      entered |-> IF 1 \in fires THEN X.entered + 1 ELSE X.entered,
      ctr |-> IF CtrBumps(X, T) THEN (X.ctr + 1) % P!MOD ELSE X.ctr,
      exited |-> X.exited \o out,
      dropped |-> IF clr THEN X.dropped \cup inflight ELSE X.dropped]

ExtNodes == {j \in 1..N : Nodes[j].kind = "ext"}
\* arguments of outside callers: id = number of the entering item, other fields from ArgVals
IdArg == (S.entered + 1) % P!MOD
ArgVecs(j) ==
  {v \in [1..Len(Nodes[j].gen) -> ArgVals \cup {IdArg}] :
     \A k \in 1..Len(Nodes[j].gen) : IF Nodes[j].gen[k] = "id" THEN v[k] = IdArg ELSE v[k] \in ArgVals}
ArgChoices == {a \in [ExtNodes -> UNION {ArgVecs(j) : j \in ExtNodes}] : \A j \in ExtNodes : a[j] \in ArgVecs(j)}
ArgsFor(a) == [j \in 1..N |-> IF j \in ExtNodes THEN a[j] ELSE <<>>]

Label(T, args, clr) ==
  LET fires == {j \in 1..N : ~Nodes[j].nodep /\ StageFires(S, T, j)}
  IN [trig |-> T, args |-> args, clear |-> clr, fires |-> fires,
      sup |-> {j \in 1..N : Supplies(S, T, j)},
      r |-> [j \in 1..N |-> IF j \in fires THEN P!Proj(InItem(S, j).f, Nodes[j].req) ELSE <<>>],
      g |-> [j \in 1..N |-> IF j \in fires THEN GenOf(S, args, j)
                            ELSE IF Supplies(S, T, j) THEN SuppliedVals(S, args, j) ELSE <<>>]]

Init == /\ shape \in MCShapes /\ S = SInit(Len(shape.nodes))
        /\ last = [trig |-> {}, args |-> <<>>, clear |-> FALSE, fires |-> {}, sup |-> {}, r |-> <<>>, g |-> <<>>]
        /\ PrintT("INIT " \o ToJson([cfg |-> shape, st |-> S]))
Cycle(T, a, clr) ==
  /\ (1 \in T => S.entered < K)                       \* at most K items are offered to the source
  /\ S' = NextS(S, T, ArgsFor(a), clr)
  /\ last' = Label(T, ArgsFor(a), clr)
  /\ UNCHANGED shape
Next == \E T \in SUBSET (1..N), clr \in BOOLEAN : \E a \in ArgChoices : Cycle(T, a, clr)
Spec == Init /\ [][Next]_vars
View == <<shape, S>>
Emit == PrintT("EDGE " \o ToJson([cfg |-> shape, from |-> S, lab |-> last', to |-> S']))

\* ---- properties (C28) on the model ---------------------------------------------------------
Toks(s) == {s[i].tok : i \in 1..Len(s)}
InFlight == UNION {Toks(S.conn[j]) : j \in 1..N}
Increasing(s) == \A i, k \in 1..Len(s) : i < k => s[i].tok < s[k].tok
RECURSIVE Recompute(_, _, _)
\* fields of an item after nodes 1..j, recomputed from the inputs supplied along its way
Recompute(ins, j, ctrs) ==
  IF j = 0 THEN P!ZeroItem
  ELSE LET prev == Recompute(ins, j - 1, ctrs)
           nd == Nodes[j]
           gv == IF nd.kind = "ext" \/ nd.nodep \/ P!UsesCtr(nd) THEN ins[j]
                 ELSE P!GenVals(nd, prev, <<>>, 0)
       IN P!Upd(prev, nd.gen, gv)
Inv ==
  \* capacities
  /\ \A j \in 2..N : Len(S.conn[j]) <= P!Cap(Nodes[j])
  /\ \A j \in 1..N : Len(S.np[j]) <= 1
  \* NoLoss / no duplication: every entered item is in exactly one place
  /\ \A t \in 1..S.entered :
        Cardinality({j \in 1..N : t \in Toks(S.conn[j])}) + (IF t \in Toks(S.exited) THEN 1 ELSE 0)
          + (IF t \in S.dropped THEN 1 ELSE 0) = 1
  /\ \A j \in 1..N : Increasing(S.conn[j])
  /\ Cardinality(Toks(S.exited)) = Len(S.exited)
  \* EachStageOnceInOrder: an item waiting for node j has passed exactly nodes 1..j-1; earlier items are further on
  /\ \A j \in 2..N : \A i \in 1..Len(S.conn[j]) : S.conn[j][i].passed = j - 1
  /\ \A j, k \in 2..N : j < k => \A x \in Toks(S.conn[j]), y \in Toks(S.conn[k]) : y < x
  \* ExitOrder: items leave in entry order; what has not left before a later item was dropped by clear
  /\ Increasing(S.exited)
  /\ \A i \in 1..Len(S.exited) : \A t \in 1..(S.exited[i].tok - 1) : t \in Toks(S.exited) \/ t \in S.dropped
  /\ \A i \in 1..Len(S.exited) : /\ S.exited[i].passed = N
                                 \* FieldsComputed: the composition of the stage functions
                                 /\ S.exited[i].f = Recompute(S.exited[i].ins, N, 0)
  \* ClearDropsInflight: nothing dropped ever leaves
  /\ Toks(S.exited) \cap S.dropped = {}

\* NoLoss as bounded drain: offering every node but the source, without clear, empties the pipeline
RECURSIVE Drain(_, _)
Drain(X, d) ==
  IF d = 0 THEN X
  ELSE Drain(NextS(X, 2..N, [j \in 1..N |-> IF Nodes[j].kind = "ext" THEN [k \in 1..Len(Nodes[j].gen) |-> 1] ELSE <<>>],
                   FALSE), d - 1)
DrainBound == 12
DrainOK == LET Y == Drain(S, DrainBound) IN \A j \in 1..N : Y.conn[j] = <<>>
\* ClearDropsInflight: after a cycle with clear no connector holds anything
ClearProp == [][last'.clear => \A j \in 1..N : S'.conn[j] = <<>> /\ S'.np[j] = <<>>]_vars
====
