---- MODULE AsyncMem ----
\* transactron.lib.storage.AsyncMemoryBank (property C22): an ideal memory with combinational
\* read ports.  A read returns the row as it is at the beginning of the cycle; writes of the
\* same cycle become visible in the next cycle.
\*
\*   cfg = [depth, width, granularity (0 = None), read_ports, write_ports]   (others ignored)
\*   st  = [mem : 0..depth-1 -> word]
\*   methods: "read<i>" (arg = addr, result = data), "write<j>" (arg = [addr, data, mask];
\*            mask = 1 when granularity is None)
EXTENDS Naturals, Sequences, FiniteSets, TLC
MM == INSTANCE MultiMem

RPorts(cfg) == 0..(cfg.read_ports - 1)
WPorts(cfg) == 0..(cfg.write_ports - 1)
\* method names (constant-level tables: evaluated once by TLC)
RdN == [i \in 0..7 |-> "read" \o ToString(i)]
WrN == [i \in 0..7 |-> "write" \o ToString(i)]
RdSet == {RdN[i] : i \in 0..7}
Rd(i) == RdN[i]
Wr(j) == WrN[j]
Methods(cfg) == {Rd(i) : i \in RPorts(cfg)} \cup {Wr(j) : j \in WPorts(cfg)}
HasArg(m) == TRUE
Ran(calls, m) == m \in DOMAIN calls
IsRd(m) == m \in RdSet
WS(cfg, calls) ==
  [k \in 1..cfg.write_ports |->
     IF Ran(calls, Wr(k - 1))
     THEN [en |-> calls[Wr(k - 1)].mask, addr |-> calls[Wr(k - 1)].addr, data |-> calls[Wr(k - 1)].data]
     ELSE [en |-> 0, addr |-> 0, data |-> 0]]

CInit(cfg) == [mem |-> [a \in 0..(cfg.depth - 1) |-> 0]]
Callable(cfg, st, m, arg, calls) == TRUE
Result(cfg, st, m, calls) == IF IsRd(m) THEN st.mem[calls[m]] ELSE 0
CNext(cfg, st, calls) == [mem |-> MM!MemAfter(cfg, st.mem, WS(cfg, calls))]
Conflict(cfg, m1, m2) == FALSE
\* quantifier of C22: no same-row simultaneous writes (taken strictly: two executed write
\* calls never carry the same address); arguments inside their domains
Assume(cfg, st, calls) ==
  /\ \A j1, j2 \in WPorts(cfg) :
       (j1 # j2 /\ Ran(calls, Wr(j1)) /\ Ran(calls, Wr(j2))) => calls[Wr(j1)].addr # calls[Wr(j2)].addr
  /\ \A j \in WPorts(cfg) : Ran(calls, Wr(j)) =>
       /\ calls[Wr(j)].addr < cfg.depth /\ calls[Wr(j)].data < MM!Pow2(cfg.width)
       /\ calls[Wr(j)].mask < MM!Pow2(MM!NGran(cfg))
       /\ (cfg.granularity = 0 => calls[Wr(j)].mask = 1)
  /\ \A i \in RPorts(cfg) : Ran(calls, Rd(i)) => calls[Rd(i)] < cfg.depth

\* ---------- exhaustive model -----------------------------------------------------------
Configs ==
  {[depth |-> 2, width |-> 2, granularity |-> g, read_ports |-> r, write_ports |-> w] :
     g \in {0, 1, 2}, r \in {1, 2}, w \in {1, 2}}
ConfigsEdge == Configs
ArgDom(cfg, m) ==
  IF IsRd(m) THEN 0..(cfg.depth - 1)
  ELSE [addr : 0..(cfg.depth - 1), data : {1, 2},
        mask : IF cfg.granularity = 0 THEN {1} ELSE 0..(MM!Pow2(MM!NGran(cfg)) - 1)]

\* ---------- properties (C22) -----------------------------------------------------------
Inv(cfg, st) == \A a \in DOMAIN st.mem : st.mem[a] < MM!Pow2(cfg.width)
StepProp(cfg, st, calls, res, st2) ==
  LET ws == WS(cfg, calls) IN
  \* a read returns what the completed writes left (nothing of this cycle's writes)
  /\ \A i \in RPorts(cfg) : Ran(calls, Rd(i)) => res[Rd(i)] = st.mem[calls[Rd(i)]]
  \* every written bit becomes visible in the next cycle, every other bit is kept
  /\ \A a \in 0..(cfg.depth - 1), b \in 0..(cfg.width - 1) :
       MM!BitOf(st2.mem[a], b) =
         IF \E j \in 1..cfg.write_ports : MM!Writes(cfg, ws, j, a, b)
         THEN MM!BitOf(ws[CHOOSE j \in 1..cfg.write_ports : MM!Writes(cfg, ws, j, a, b)].data, b)
         ELSE MM!BitOf(st.mem[a], b)
====
