---- MODULE WideQueue ----
\* transactron.lib.fifo.WideFifo as a bounded queue with batched read / write (property C15).
\*
\* The state is shaped like the implementation: `mem[row+1][col+1]` = word `row` of the column
\* memory `col` (col_count = max(read_width, write_width) memories of depth/col_count rows),
\* row/column pointers `ridx`, `widx` (read_idx, write_idx) and `lvl` (level).  Elements are
\* addressed the way the hardware does it: column (idx.col + j) mod col_count, in row idx.row if
\* that column is >= idx.col and in the next row (mod row_count) otherwise.  The abstract queue
\* Abs(cfg, st) flattens the ring; StepProp / Inv state C15 on the abstraction, so TLC checks that
\* the row/column arithmetic (unequal widths, non-power-of-two shapes, row_count = 1) refines it.
\*
\* Named deviations from the code:
\*   * words are zeroed (cfg.zero) when read and by clear; the hardware keeps stale words.
\*     Unobservable through the property: only the first `count` returned elements are defined.
\*     The harness masks returned elements at positions >= count with zero (props/C15.py) and
\*     Result does the same.
\*   * the head is read combinationally here; the hardware registers it (synchronous read ports
\*     addressed with next_read_idx, transparent for the write ports).  Equivalent.
\* cfg = [depth, rw, ww, wmc, zero]; a write argument is [count, data (Seq of ww elements)] plus
\* max_count when cfg.wmc; a read argument is the requested count.
EXTENDS Naturals, Sequences, FiniteSets

Methods(cfg) == {"read", "peek", "write", "clear"}
HasArg(m) == m \in {"read", "write"}

Cols(cfg) == IF cfg.rw > cfg.ww THEN cfg.rw ELSE cfg.ww
Rows(cfg) == cfg.depth \div Cols(cfg)
MinOf(a, b) == IF a < b THEN a ELSE b

MCShapes == {<<4, 2, 2>>, <<4, 1, 2>>, <<6, 3, 2>>, <<3, 3, 1>>}
Configs == {[depth |-> s[1], rw |-> s[2], ww |-> s[3], wmc |-> b, zero |-> 0] : s \in MCShapes, b \in BOOLEAN}
\* data vectors of the exhaustive model: neighbouring elements differ (order inside one write is
\* visible) and two vectors exist (the writes of different cycles are distinguishable); never 0
DataVecs(cfg) == {[j \in 1..cfg.ww |-> ((j + k) % 2) + 1] : k \in 0..1}
WriteArgs(cfg) ==
  IF cfg.wmc
  THEN {[count |-> c, data |-> d, max_count |-> x] : c \in 0..cfg.ww, d \in DataVecs(cfg), x \in 0..cfg.ww}
  ELSE {[count |-> c, data |-> d] : c \in 0..cfg.ww, d \in DataVecs(cfg)}
\* (the sets of different methods have different types: the exhaustive model WideQueueMC never
\* mixes them in one set)
ArgDom(cfg, m) ==
  CASE m = "write" -> {a \in WriteArgs(cfg) : cfg.wmc => a.count <= a.max_count}
    [] m = "read" -> 0..cfg.rw
    [] OTHER -> {0}

Ran(calls, m) == m \in DOMAIN calls

ZeroIdx == [row |-> 0, col |-> 0]
CInit(cfg) == [mem |-> [r \in 1..Rows(cfg) |-> [c \in 1..Cols(cfg) |-> cfg.zero]],
               ridx |-> ZeroIdx, widx |-> ZeroIdx, lvl |-> 0]

\* mod_incr(row, row_count)
IncrRow(cfg, row) == IF row + 1 = Rows(cfg) THEN 0 ELSE row + 1
\* incr_row_col(idx, incr_row, count), count <= col_count
IncrRowCol(cfg, idx, count) ==
  IF idx.col + count >= Cols(cfg)
  THEN [row |-> IncrRow(cfg, idx.row), col |-> (idx.col + count) - Cols(cfg)]
  ELSE [row |-> idx.row, col |-> idx.col + count]
\* position (row, col) of the j-th element (j = 0..col_count-1) counted from pointer idx:
\* port.addr = Mux(col >= idx.col, idx.row, incr_row) and the rotation by idx.col
Pos(cfg, idx, j) ==
  LET c == (idx.col + j) % Cols(cfg)
  IN [row |-> IF c >= idx.col THEN idx.row ELSE IncrRow(cfg, idx.row), col |-> c]
At(mem, p) == mem[p.row + 1][p.col + 1]

Remaining(cfg, st) == cfg.depth - st.lvl
ReadAvail(cfg, st) == MinOf(st.lvl, cfg.rw)
ReadCount(cfg, st, want) == MinOf(want, ReadAvail(cfg, st))
FitCount(cfg, a) == IF cfg.wmc THEN a.max_count ELSE a.count

\* write: ready = remaining != 0, validate_arguments = (max_)count <= remaining;
\* read / peek: ready = level != 0
Callable(cfg, st, m, arg, calls) ==
  CASE m = "write" -> Remaining(cfg, st) # 0 /\ FitCount(cfg, arg) <= Remaining(cfg, st)
    [] m \in {"read", "peek"} -> st.lvl # 0
    [] OTHER -> TRUE

HeadData(cfg, st, n) ==
  [j \in 1..cfg.rw |-> IF j <= n THEN At(st.mem, Pos(cfg, st.ridx, j - 1)) ELSE cfg.zero]
Result(cfg, st, m, calls) ==
  CASE m = "read" -> LET n == ReadCount(cfg, st, calls["read"])
                     IN [count |-> n, data |-> HeadData(cfg, st, n)]
    [] m = "peek" -> [count |-> ReadAvail(cfg, st), data |-> HeadData(cfg, st, ReadAvail(cfg, st))]
    [] OTHER -> 0

CNext(cfg, st, calls) ==
  LET w == Ran(calls, "write")  r == Ran(calls, "read")  c == Ran(calls, "clear")
      wc == IF w THEN calls["write"].count ELSE 0
      rc == IF r THEN ReadCount(cfg, st, calls["read"]) ELSE 0
      \* positions written / read in this cycle
      WPos == {Pos(cfg, st.widx, j) : j \in 0..(wc - 1)}
      RPos == {Pos(cfg, st.ridx, j) : j \in 0..(rc - 1)}
      WVal(p) == LET j == CHOOSE k \in 0..(wc - 1) : Pos(cfg, st.widx, k) = p IN calls["write"].data[j + 1]
      mem2 == [rr \in 1..Rows(cfg) |-> [cc \in 1..Cols(cfg) |->
                 LET p == [row |-> rr - 1, col |-> cc - 1]
                 IN IF p \in WPos THEN WVal(p) ELSE IF p \in RPos THEN cfg.zero ELSE st.mem[rr][cc]]]
      nx == [mem |-> mem2,
             ridx |-> IncrRowCol(cfg, st.ridx, rc),
             widx |-> IncrRowCol(cfg, st.widx, wc),
             lvl |-> (st.lvl + wc) - rc]
  IN \* clear is defined last: its sync assignments win over read and write
     IF c THEN CInit(cfg) ELSE nx

Conflict(cfg, m1, m2) == FALSE
\* precondition of the max_count interface (checked in the code by a simulation assertion only)
Assume(cfg, st, calls) == (cfg.wmc /\ Ran(calls, "write")) => calls["write"].count <= calls["write"].max_count

\* ---- abstraction: the queue contents, oldest first ----
Flat(cfg, idx) == idx.row * Cols(cfg) + idx.col
Unflat(cfg, f) == [row |-> f \div Cols(cfg), col |-> f % Cols(cfg)]
Abs(cfg, st) == [i \in 1..st.lvl |-> At(st.mem, Unflat(cfg, (Flat(cfg, st.ridx) + i - 1) % cfg.depth))]
Take(s, n) == SubSeq(s, 1, n)
Drop(s, n) == SubSeq(s, n + 1, Len(s))

\* ---- properties checked by TLC on the model (C15) ----
Inv(cfg, st) ==
  LET q == Abs(cfg, st) IN
  /\ st.lvl \in 0..cfg.depth
  /\ st.ridx.row \in 0..(Rows(cfg) - 1) /\ st.ridx.col \in 0..(Cols(cfg) - 1)
  /\ st.widx.row \in 0..(Rows(cfg) - 1) /\ st.widx.col \in 0..(Cols(cfg) - 1)
  /\ Flat(cfg, st.widx) = (Flat(cfg, st.ridx) + st.lvl) % cfg.depth
  /\ \A i \in 1..Len(q) : q[i] # cfg.zero
  \* write is ready only when space remains and accepts a call only if it fits
  /\ \A a \in ArgDom(cfg, "write") :
       Callable(cfg, st, "write", a, <<>>) <=>
          (Len(q) < cfg.depth /\ (IF cfg.wmc THEN a.max_count ELSE a.count) <= cfg.depth - Len(q))
  /\ \A a \in ArgDom(cfg, "read") : Callable(cfg, st, "read", a, <<>>) <=> Len(q) > 0
  /\ Callable(cfg, st, "peek", 0, <<>>) <=> Len(q) > 0

StepProp(cfg, st, calls, res, st2) ==
  LET w == Ran(calls, "write")  r == Ran(calls, "read")  c == Ran(calls, "clear")  p == Ran(calls, "peek")
      q == Abs(cfg, st)   q2 == Abs(cfg, st2)   L == Len(q)
      n == IF r THEN MinOf(calls["read"], MinOf(L, cfg.rw)) ELSE 0
      wr == IF w THEN Take(calls["write"].data, calls["write"].count) ELSE <<>>
  IN \* read(count) returns the min(count, level, read_width) oldest elements ...
     /\ r => /\ L > 0
             /\ res["read"].count = n
             /\ Take(res["read"].data, n) = Take(q, n)
     \* ... peek the same elements as a full-width read, without removing them
     /\ p => /\ L > 0
             /\ res["peek"].count = MinOf(L, cfg.rw)
             /\ Take(res["peek"].data, MinOf(L, cfg.rw)) = Take(q, MinOf(L, cfg.rw))
     \* write is accepted only when space remains and the call fits
     /\ w => /\ L < cfg.depth
             /\ (IF cfg.wmc THEN calls["write"].max_count ELSE calls["write"].count) <= cfg.depth - L
     \* read removes exactly what it returned, write appends the first `count` data elements
     /\ ~c => q2 = Drop(q, n) \o wr
     /\ c => q2 = <<>>
====
