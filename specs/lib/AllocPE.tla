---- MODULE AllocPE ----
\* transactron.lib.allocators.PriorityEncoderAllocator (property C25).
\* Functional style: state and configuration are values; one clock cycle = CNext.
\*
\* cfg = [entries, aw (alloc ways), fw (free ways), init (bit mask of identifiers free on reset)]
\* st  = [free |-> set of free identifiers]      (the code's `not_used` mask as a set)
\* Method arrays become "alloc0".."alloc2", "free0".."free1"; peek / replace / clear.
EXTENDS Naturals, Sequences, FiniteSets, IOUtils

AllocNames == <<"alloc0", "alloc1", "alloc2", "alloc3">>
FreeNames  == <<"free0", "free1", "free2", "free3">>
AllocMs(cfg) == {AllocNames[i] : i \in 1..cfg.aw}
FreeMs(cfg)  == {FreeNames[i] : i \in 1..cfg.fw}
AllAlloc == {AllocNames[i] : i \in 1..Len(AllocNames)}
AllFree  == {FreeNames[i] : i \in 1..Len(FreeNames)}
\* 0-based index of a way
WayOf(m) == IF m \in AllAlloc THEN (CHOOSE i \in 1..Len(AllocNames) : AllocNames[i] = m) - 1
            ELSE (CHOOSE i \in 1..Len(FreeNames) : FreeNames[i] = m) - 1

Methods(cfg) == AllocMs(cfg) \cup FreeMs(cfg) \cup {"peek", "replace", "clear"}
HasArg(m) == m \in AllFree \/ m = "replace"

Ids(cfg) == 0..(cfg.entries - 1)
Bit(mask, i) == (mask \div (2 ^ i)) % 2
BitSet(cfg, mask) == {i \in Ids(cfg) : Bit(mask, i) = 1}
RECURSIVE MaskOf(_)
MaskOf(S) == IF S = {} THEN 0 ELSE LET x == CHOOSE x \in S : TRUE IN (2 ^ x) + MaskOf(S \ {x})
FullMask(cfg) == (2 ^ cfg.entries) - 1

\* Configurations of the exhaustive model (the traces cover many more).
SmallConfigs ==
  { [entries |-> 1, aw |-> 1, fw |-> 1, init |-> 1],
    [entries |-> 1, aw |-> 3, fw |-> 2, init |-> 0],
    [entries |-> 2, aw |-> 3, fw |-> 1, init |-> 3],
    [entries |-> 2, aw |-> 2, fw |-> 2, init |-> 1],
    [entries |-> 3, aw |-> 2, fw |-> 2, init |-> 7],
    [entries |-> 3, aw |-> 3, fw |-> 1, init |-> 5],
    [entries |-> 4, aw |-> 3, fw |-> 1, init |-> 6],
    [entries |-> 4, aw |-> 2, fw |-> 2, init |-> 15] }
BigConfigs ==
  SmallConfigs \cup
  { [entries |-> 4, aw |-> 3, fw |-> 2, init |-> 9],
    [entries |-> 5, aw |-> 3, fw |-> 1, init |-> 31],
    [entries |-> 5, aw |-> 2, fw |-> 2, init |-> 10],
    [entries |-> 6, aw |-> 3, fw |-> 1, init |-> 45],
    [entries |-> 6, aw |-> 1, fw |-> 2, init |-> 63] }
\* the exhaustive run selects the set through the environment (vlib/c24_27.py); default: small
MCSet == IF "VERIF_MC_SET" \in DOMAIN IOEnv THEN IOEnv.VERIF_MC_SET ELSE "quick"
Configs == IF MCSet = "thorough" THEN BigConfigs ELSE SmallConfigs

\* replace masks enumerated by the exhaustive model: everything for entries <= 3, else a sample
ReplaceDom(cfg) ==
  IF cfg.entries <= 3 THEN 0..FullMask(cfg)
  ELSE {0, FullMask(cfg), 1, 2 ^ (cfg.entries - 1), 5, FullMask(cfg) - 2, 10 % (FullMask(cfg) + 1)}
ArgDom(cfg, m) == IF m \in AllFree THEN Ids(cfg) ELSE IF m = "replace" THEN ReplaceDom(cfg) ELSE {0}

CInit(cfg) == [free |-> BitSet(cfg, cfg.init)]
Ran(calls, m) == m \in DOMAIN calls

\* k-th (0-based) lowest element of S; 0 if there is none (the encoder's invalid outputs are 0)
NthLowest(S, k) == IF Cardinality(S) > k THEN CHOOSE x \in S : Cardinality({y \in S : y < x}) = k ELSE 0

\* The multi priority encoder looks at the free mask only: way i is valid iff there are at
\* least i+1 free identifiers and then carries the (i+1)-th lowest free identifier, no
\* matter which other ways are called in the cycle (named deviation from a "compacting"
\* allocator: calling only alloc1 yields the SECOND lowest free identifier).
Callable(cfg, st, m, arg, calls) ==
  IF m \in AllAlloc THEN Cardinality(st.free) >= WayOf(m) + 1 ELSE TRUE
Result(cfg, st, m, calls) ==
  CASE m \in AllAlloc -> NthLowest(st.free, WayOf(m))
    [] m = "peek" -> MaskOf(st.free)
    [] OTHER -> 0

Allocd(cfg, st, calls) == {Result(cfg, st, m, calls) : m \in DOMAIN calls \cap AllAlloc}
Freed(calls) == {calls[m] : m \in DOMAIN calls \cap AllFree}

\* code order of the sync assignments: alloc ways, free ways, replace (clear = replace(init));
\* the later assignment wins, so replace/clear override allocs and frees of the same cycle
CNext(cfg, st, calls) ==
  [free |-> IF Ran(calls, "clear") THEN BitSet(cfg, cfg.init)
            ELSE IF Ran(calls, "replace") THEN BitSet(cfg, calls["replace"])
            ELSE (st.free \ Allocd(cfg, st, calls)) \cup Freed(calls)]

\* clear is implemented by calling replace, so the scheduler never grants both
Conflict(cfg, m1, m2) == {m1, m2} = {"replace", "clear"}

\* precondition of the property: only allocated identifiers are freed (and each at most once per cycle)
Assume(cfg, st, calls) ==
  /\ \A m \in DOMAIN calls \cap AllFree : calls[m] \in Ids(cfg) \ st.free
  /\ \A m1, m2 \in DOMAIN calls \cap AllFree : m1 # m2 => calls[m1] # calls[m2]
  /\ Ran(calls, "replace") => calls["replace"] \in 0..FullMask(cfg)

\* ---- properties (C25), written from the statement, not from CNext ----
Inv(cfg, st) == st.free \subseteq Ids(cfg)
StepProp(cfg, st, calls, res, st2) ==
  LET allocated == Ids(cfg) \ st.free
      am == DOMAIN calls \cap AllAlloc
      got == {res[m] : m \in am}
  IN \* never returns an identifier that is currently allocated
     /\ \A m \in am : res[m] \in Ids(cfg) /\ res[m] \notin allocated
     \* identifiers returned in one cycle are distinct
     /\ \A m1, m2 \in am : m1 # m2 => res[m1] # res[m2]
     \* the i-th way runs only if at least i+1 identifiers are free
     /\ \A m \in am : Cardinality(st.free) >= WayOf(m) + 1
     \* peek reports the free mask
     /\ Ran(calls, "peek") => res["peek"] = MaskOf(st.free)
     \* replace / clear set it
     /\ Ran(calls, "replace") => st2.free = BitSet(cfg, calls["replace"])
     /\ Ran(calls, "clear") => st2.free = BitSet(cfg, cfg.init)
     \* otherwise exactly the returned identifiers become allocated and the freed ones free
     /\ (~Ran(calls, "replace") /\ ~Ran(calls, "clear")) =>
          Ids(cfg) \ st2.free = (allocated \cup got) \ Freed(calls)
====
