---- MODULE WideQueueMC ----
\* Exhaustive model of WideQueue (C15).  Hand-written variant of specs/tpl/CompMC.tla: the
\* template builds one set containing the arguments of all methods, which TLC cannot do when the
\* arguments have different types (read: a number, write: a record).  Same conventions and the
\* same INIT / EDGE output; the call set is enumerated per method instead.
\* The configurations explored are selected by the environment variable WQ_SHAPES
\* ("quick" = QuickShapes, anything else = all of WideQueue!Configs).
EXTENDS Naturals, Sequences, FiniteSets, TLC, Json, IOUtils
VARIABLES cfg, st, last
C == INSTANCE WideQueue
vars == <<cfg, st, last>>

Quick == "WQ_SHAPES" \in DOMAIN IOEnv /\ IOEnv.WQ_SHAPES = "quick"
QuickShapes == {<<4, 2, 2, FALSE>>, <<4, 1, 2, TRUE>>, <<3, 3, 1, FALSE>>, <<3, 3, 1, TRUE>>}
MCConfigs == IF Quick THEN {c \in C!Configs : <<c.depth, c.rw, c.ww, c.wmc>> \in QuickShapes} ELSE C!Configs

\* argument sets per method; a method that is not called contributes one dummy choice (ignored
\* by MkCalls), so that no call set is enumerated twice
ArgsIf(S, m) == IF m \in S THEN C!ArgDom(cfg, m) ELSE {0}
MkCalls(S, r, w) == [m \in S |-> CASE m = "read" -> r [] m = "write" -> w [] OTHER -> 0]
Admissible(calls) ==
  /\ \A m \in DOMAIN calls : C!Callable(cfg, st, m, calls[m], calls)
  /\ \A m1, m2 \in DOMAIN calls : m1 # m2 => ~C!Conflict(cfg, m1, m2)
  /\ C!Assume(cfg, st, calls)
NotCallable(calls) ==
  {m \in C!Methods(cfg) \ DOMAIN calls :
      /\ \A a \in C!ArgDom(cfg, m) : ~C!Callable(cfg, st, m, a, calls)
      /\ \A m2 \in DOMAIN calls : ~C!Conflict(cfg, m, m2)}
Init == /\ cfg \in MCConfigs /\ st = C!CInit(cfg) /\ last = [calls |-> <<>>, res |-> <<>>, nc |-> {}]
        /\ PrintT("INIT " \o ToJson([cfg |-> cfg, st |-> st]))
Cycle(calls) ==
  /\ Admissible(calls)
  /\ st' = C!CNext(cfg, st, calls)
  /\ last' = [calls |-> calls,
              res |-> [m \in DOMAIN calls |-> C!Result(cfg, st, m, calls)],
              nc |-> NotCallable(calls)]
  /\ UNCHANGED cfg
Next == \E S \in SUBSET C!Methods(cfg) :
          \E r \in ArgsIf(S, "read"), w \in ArgsIf(S, "write") : Cycle(MkCalls(S, r, w))
Spec == Init /\ [][Next]_vars
View == <<cfg, st>>
Inv == C!Inv(cfg, st)
StepOK == [][C!StepProp(cfg, st, last'.calls, last'.res, st')]_vars
Emit == PrintT("EDGE " \o ToJson([cfg |-> cfg, from |-> st, lab |-> last', to |-> st']))
====
