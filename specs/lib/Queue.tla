---- MODULE Queue ----
\* transactron.lib.fifo.BasicFifo (on CircularAllocator + transparent synchronous memory) and
\* transactron.lib.connectors.FIFO (on amaranth SyncFIFO) as bounded queues (property C14).
\*
\* The state is shaped like the implementation: a ring buffer `mem` (slots 1..depth hold the
\* hardware slots 0..depth-1), start pointer `s` (CircularAllocator.start_idx / SyncFIFO.consume),
\* end pointer `e` (end_idx / produce) and `lvl` (allocated / level).  The abstract queue is
\* Abs(cfg, st); StepProp states C14 on the abstraction, so TLC checks that the ring refines
\* the bounded queue for every pointer position (wrap-around included).
\*
\* Named deviations from the code:
\*   * a slot is zeroed (cfg.zero) when it is read and all slots are zeroed by clear; the hardware
\*     keeps the stale word.  Unobservable: a slot outside the live window is never returned.
\*   * BasicFifo registers the head (synchronous read port addressed with the *next* start index,
\*     transparent for the write port); the model reads mem[s] combinationally.  Equivalent.
\* cfg = [kind, depth, zero]; zero is the all-zero element of the data layout (0 for one field,
\* a record of zeros for several fields) so that no comparison mixes types.
EXTENDS Naturals, Sequences, FiniteSets

Methods(cfg) == IF cfg.kind = "BasicFifo" THEN {"read", "peek", "write", "clear"} ELSE {"read", "write"}
HasArg(m) == m = "write"
Configs == {[kind |-> k, depth |-> d, zero |-> 0] : k \in {"BasicFifo", "FIFO"}, d \in 1..3}
ArgDom(cfg, m) == IF m = "write" THEN {1, 2} ELSE {0}

Ran(calls, m) == m \in DOMAIN calls
IncMod(i, d) == IF i + 1 = d THEN 0 ELSE i + 1      \* mod_add(idx, entries, 1, 1) / SyncFIFO._incr

CInit(cfg) == [mem |-> [i \in 1..cfg.depth |-> cfg.zero], s |-> 0, e |-> 0, lvl |-> 0]

\* alloc.ready = allocated != entries, free.ready = allocated != 0 (peek uses free.ready);
\* SyncFIFO: w_rdy = level != depth, r_rdy = level != 0.  No coupling between same-cycle calls.
Callable(cfg, st, m, arg, calls) ==
  CASE m = "write" -> st.lvl # cfg.depth
    [] m \in {"read", "peek"} -> st.lvl # 0
    [] OTHER -> TRUE

Result(cfg, st, m, calls) == IF m \in {"read", "peek"} THEN st.mem[st.s + 1] ELSE 0

CNext(cfg, st, calls) ==
  LET w == Ran(calls, "write")  r == Ran(calls, "read")  c == Ran(calls, "clear")
      memW == IF w THEN [st.mem EXCEPT ![st.e + 1] = calls["write"]] ELSE st.mem
      memR == IF r THEN [memW EXCEPT ![st.s + 1] = cfg.zero] ELSE memW
      nx == [mem |-> memR,
             s |-> IF r THEN IncMod(st.s, cfg.depth) ELSE st.s,
             e |-> IF w THEN IncMod(st.e, cfg.depth) ELSE st.e,
             lvl |-> (st.lvl + (IF w THEN 1 ELSE 0)) - (IF r THEN 1 ELSE 0)]
  IN \* CircularAllocator.clear is defined after alloc/free: its sync assignments win
     IF c THEN CInit(cfg) ELSE nx

Conflict(cfg, m1, m2) == FALSE
Assume(cfg, st, calls) == TRUE

\* ---- abstraction: the queue contents, oldest first ----
Abs(cfg, st) == [i \in 1..st.lvl |-> st.mem[((st.s + i - 1) % cfg.depth) + 1]]

\* ---- properties checked by TLC on the model (C14) ----
Inv(cfg, st) ==
  /\ st.s \in 0..(cfg.depth - 1) /\ st.e \in 0..(cfg.depth - 1) /\ st.lvl \in 0..cfg.depth
  /\ st.e = (st.s + st.lvl) % cfg.depth
  /\ Len(Abs(cfg, st)) <= cfg.depth
  /\ \A i \in 1..st.lvl : Abs(cfg, st)[i] # cfg.zero
  \* "read and peek are ready iff the queue is non-empty and write iff it is not full"
  /\ \A m \in Methods(cfg) \cap {"read", "peek"} :
        Callable(cfg, st, m, 0, <<>>) <=> Len(Abs(cfg, st)) > 0
  /\ \A a \in ArgDom(cfg, "write") : Callable(cfg, st, "write", a, <<>>) <=> Len(Abs(cfg, st)) < cfg.depth

StepProp(cfg, st, calls, res, st2) ==
  LET w == Ran(calls, "write")  r == Ran(calls, "read")  c == Ran(calls, "clear")  p == Ran(calls, "peek")
      q == Abs(cfg, st)   q2 == Abs(cfg, st2)
  IN /\ (r \/ p) => Len(q) > 0
     /\ w => Len(q) < cfg.depth
     \* read / peek return the oldest element that was written and not yet read
     /\ r => res["read"] = q[1]
     /\ p => res["peek"] = q[1]
     \* no loss, no duplication, write order: old content minus the read element plus the written one
     /\ ~c => q2 = (IF r THEN Tail(q) ELSE q) \o (IF w THEN <<calls["write"]>> ELSE <<>>)
     \* after clear the queue is empty in the next cycle, even if write ran in the same cycle
     /\ c => q2 = <<>>
====
