---- MODULE BasicIO ----
\* transactron.lib.basicio.InputSampler / OutputBuffer (property C30) as an input-driven
\* component (interface: specs/lib/IOCompMC.tpl).  One action = one clock cycle.
\*
\* Shape of the implementation (BasicIOBase._trigger): an optional one-register synchroniser
\* (`synchronize`: plain register, depth 1 - measured from the code, not an FFSynchronizer
\* chain), polarity inversion, and for `edge` a register holding the previous active level.
\*
\* Named deviation / what the property leaves open: the reset values of the synchroniser and
\* of the previous-level register are not fixed by the property ("relative to the previous
\* cycle" is undefined when there is no previous cycle).  With d = 1 if synchronize else 0
\* the readiness of get/put is *unspecified* (Unspec) in cycles n <= d (level) resp.
\* n <= d + 1 (edge), n counted from 1 after reset, because the effective trigger T(n - d)
\* resp. its predecessor T(n - d - 1) would be a sample from before the reset.  In those
\* cycles either outcome is a model step; from then on the state is a function of the inputs.
\* Likewise the data returned by a synchronised get in cycle 1 and the value on `data` of
\* an OutputBuffer before the first put are unspecified (-1 = any).
EXTENDS Naturals, Integers, Sequences, FiniteSets

B(x) == IF x THEN 1 ELSE 0
Methods(cfg) == IF cfg.kind = "in" THEN {"get"} ELSE {"put"}
HasArg(m) == m = "put"
Configs == {[kind |-> k, edge |-> e, pol |-> p, sync |-> s, w |-> 2] :
              k \in {"in", "out"}, e \in BOOLEAN, p \in BOOLEAN, s \in BOOLEAN}
ArgDom(cfg, m) == IF m = "put" THEN {1, 2} ELSE {0}
InDom(cfg, st) == IF cfg.kind = "in" THEN [trig : {0, 1}, data : {1, 2}] ELSE [trig : {0, 1}]

\* age: cycles since reset (saturating at 2); treg: synchroniser register; old: previous
\* active level (edge register, reset value = inactive-before-reset as in the code: a raw 0);
\* dreg: synchronised data; out: output register (-1 = never written)
CInit(cfg) == [age |-> 0, treg |-> 0, old |-> ~cfg.pol, dreg |-> 0, out |-> -1]

Delay(cfg) == B(cfg.sync)
\* number of initial cycles in which the property does not define readiness
Blind(cfg) == Delay(cfg) + B(cfg.edge)
Unspec(cfg, st, m) == st.age < Blind(cfg)
\* the data returned by a synchronised get in the first cycle predates the reset
ResAny(cfg, st, m) == m = "get" /\ cfg.sync /\ st.age = 0

Raw(cfg, st, inp) == IF cfg.sync THEN st.treg ELSE inp.trig
Level(cfg, st, inp) == (Raw(cfg, st, inp) = B(cfg.pol))
Active(cfg, st, inp) == IF cfg.edge THEN Level(cfg, st, inp) /\ ~st.old ELSE Level(cfg, st, inp)

Callable(cfg, st, m, arg, calls, inp) == Active(cfg, st, inp)
Result(cfg, st, m, calls, inp, obs) ==
  IF m = "get" THEN (IF cfg.sync THEN st.dreg ELSE inp.data) ELSE 0
ObsSet(cfg, st, calls, inp) ==
  IF cfg.kind = "in" THEN {[none |-> 0]}
  ELSE IF st.out = -1 THEN {[data |-> d] : d \in 0..(2^cfg.w - 1)} ELSE {[data |-> st.out]}
CNext(cfg, st, calls, inp, obs) ==
  [age |-> IF st.age < 2 THEN st.age + 1 ELSE 2,
   treg |-> inp.trig,
   old |-> Level(cfg, st, inp),
   dreg |-> IF cfg.kind = "in" THEN inp.data ELSE 0,
   out |-> IF "put" \in DOMAIN calls THEN calls["put"] ELSE st.out]
Conflict(cfg, m1, m2) == FALSE
Assume(cfg, st, calls, inp) == TRUE
Inv(cfg, st) == st.age \in 0..2 /\ st.treg \in {0, 1} /\ st.old \in BOOLEAN

\* ---- property C30, restated over the input history only (ghost g; no model state used)
\* n: past cycles (saturating at 3); t1, t2: trigger one / two cycles ago; d1: data one cycle
\* ago; p1: argument of the most recent put executed in an earlier cycle (-1: none yet)
GInit(cfg) == [n |-> 0, t1 |-> 0, t2 |-> 0, d1 |-> 0, p1 |-> -1]
GNext(cfg, g, st, calls, inp, res, obs) ==
  [n |-> IF g.n < 3 THEN g.n + 1 ELSE 3, t1 |-> inp.trig, t2 |-> g.t1,
   d1 |-> IF cfg.kind = "in" THEN inp.data ELSE 0,
   p1 |-> IF "put" \in DOMAIN calls THEN calls["put"] ELSE g.p1]
GInv(cfg, st, g) == TRUE
GBound(cfg, g) == TRUE

TrigAgo(g, inp, k) == IF k = 0 THEN inp.trig ELSE IF k = 1 THEN g.t1 ELSE g.t2
StepProp(cfg, st, g, req, calls, inp, res, obs, st2) ==
  LET d == Delay(cfg)
      eff == TrigAgo(g, inp, d)          \* the (optionally synchronised) trigger of this cycle
      prev == TrigAgo(g, inp, d + 1)     \* ... of the previous cycle
      pv == B(cfg.pol)
      active == IF cfg.edge THEN eff = pv /\ prev # pv ELSE eff = pv
      defined == g.n >= d + B(cfg.edge)  \* all samples used above were taken after reset
  IN \* ready exactly in the cycles where the trigger is active / has the configured edge
     /\ defined => \A m \in DOMAIN req : (m \in DOMAIN calls) <=> active
     \* get returns the correspondingly synchronised data
     /\ "get" \in DOMAIN calls =>
          IF cfg.sync THEN (g.n >= 1 => res["get"] = g.d1) ELSE res["get"] = inp.data
     \* put drives its argument on data from the next cycle (and data keeps it until the next put)
     /\ (cfg.kind = "out" /\ g.p1 # -1) => obs.data = g.p1
====
