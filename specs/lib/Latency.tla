---- MODULE Latency ----
\* transactron.lib.metrics: FIFOLatencyMeasurer, WideFIFOLatencyMeasurer, TaggedLatencyMeasurer
\* (property C32).  cfg is a record
\*   [kind, ways, slots, maxlat, msc, mstop, rw, en]
\*   kind    "fifo" | "wide" | "tagged"
\*   ways    users; methods "start<k>", "stop<k>", k = 0..ways-1 (each way has its own FIFO;
\*           the tagged measurer shares one slot table between the ways)
\*   slots   slots_number as configured      maxlat  max_latency
\*   msc / mstop   max_start_count / max_stop_count (wide only; 1 otherwise)
\*   rw      width of the histogram count/sum/bucket registers in the model.  The implementation
\*           has 32-bit registers; traces are far too short to wrap them, the trace runs use rw = 30
\*           (TLC integers are 32 bit).  The exhaustive model uses rw 0..1 to stay finite and the
\*           edge replay compares the implementation registers modulo 2^rw.
\* Shape of the implementation: an epoch counter of bits_for(maxlat) bits increments every cycle;
\* start stores the epoch (FIFO per way / slot memory), stop subtracts modulo 2^bits and adds the
\* difference to an exponential histogram (bucket_count = bits + 1, sample width = bits).
\* Every in-flight event additionally carries its true age (history variable, not in the code):
\* the property is stated on ages, the model computes with epochs, Inv ties the two.
EXTENDS Integers, Sequences, FiniteSets, TLC
M == INSTANCE Metrics

Pow2(n) == 2 ^ n
EW(cfg) == M!BitLen(cfg.maxlat)                 \* bits_for(max_latency): epoch and sample width
NB(cfg) == EW(cfg) + 1                          \* bucket count
MaxCnt(cfg) == IF cfg.msc > cfg.mstop THEN cfg.msc ELSE cfg.mstop
\* slots_number is rounded up to a multiple of max(start count, stop count) (WideFifo needs it)
SlotsEff(cfg) == ((cfg.slots + MaxCnt(cfg) - 1) \div MaxCnt(cfg)) * MaxCnt(cfg)

StartName(k) == "start" \o ToString(k)
StopName(k) == "stop" \o ToString(k)
WaySet(cfg) == 0..(cfg.ways - 1)
Methods(cfg) == {StartName(k) : k \in WaySet(cfg)} \cup {StopName(k) : k \in WaySet(cfg)}
HasArg(m) == TRUE                               \* fifo kind: empty argument, logged as 0
Ran(calls, m) == m \in DOMAIN calls
IsStart(cfg, m) == \E k \in WaySet(cfg) : m = StartName(k)
WayOf(cfg, m) == CHOOSE k \in WaySet(cfg) : m = StartName(k) \/ m = StopName(k)

Free == [e |-> 0, age |-> -1]
CInit(cfg) ==
  [epoch |-> 0,
   q     |-> IF cfg.kind = "tagged" THEN <<>> ELSE [k \in 1..cfg.ways |-> <<>>],
   sl    |-> IF cfg.kind = "tagged" THEN [s \in 1..cfg.slots |-> Free] ELSE <<>>,
   hist  |-> M!HInit(EW(cfg), NB(cfg))]

\* number of events a call registers: fifo kind always 1, wide kind the count argument
CountOf(cfg, arg) == IF cfg.kind = "wide" THEN arg ELSE 1
Level(st, k) == Len(st.q[k + 1])

Callable(cfg, st, m, arg, calls) ==
  IF ~cfg.en \/ cfg.kind = "tagged" THEN TRUE
  ELSE LET k == WayOf(cfg, m)
           remaining == SlotsEff(cfg) - Level(st, k)
       IN IF IsStart(cfg, m)
          THEN remaining # 0 /\ CountOf(cfg, arg) <= remaining   \* WideFifo.write: room for the whole call
          ELSE Level(st, k) # 0                                    \* WideFifo.read: something in flight
Result(cfg, st, m, calls) == 0
Conflict(cfg, m1, m2) == FALSE

MinOf2(a, b) == IF a < b THEN a ELSE b
\* events finished by stop<k> in this cycle: the oldest min(count, level, mstop) of the way
Popped(cfg, st, calls, k) ==
  IF Ran(calls, StopName(k))
  THEN MinOf2(MinOf2(CountOf(cfg, calls[StopName(k)]), Level(st, k)), cfg.mstop) ELSE 0
Diff(cfg, st, e) == (st.epoch - e + Pow2(EW(cfg))) % Pow2(EW(cfg))
Aged(s) == [i \in 1..Len(s) |-> [s[i] EXCEPT !.age = @ + 1]]
Fresh(st, n) == [i \in 1..n |-> [e |-> st.epoch, age |-> 1]]

\* samples the implementation hands to its histogram in this cycle (epoch arithmetic)
RECURSIVE FifoSamples(_, _, _, _)
FifoSamples(cfg, st, calls, k) ==
  IF k >= cfg.ways THEN <<>>
  ELSE [i \in 1..Popped(cfg, st, calls, k) |-> Diff(cfg, st, st.q[k + 1][i].e)] \o FifoSamples(cfg, st, calls, k + 1)
RECURSIVE TagSamples(_, _, _, _)
TagSamples(cfg, st, calls, k) ==
  IF k >= cfg.ways THEN <<>>
  ELSE (IF Ran(calls, StopName(k)) THEN <<Diff(cfg, st, st.sl[calls[StopName(k)] + 1].e)>> ELSE <<>>)
       \o TagSamples(cfg, st, calls, k + 1)

CNext(cfg, st, calls) ==
  IF ~cfg.en THEN st
  ELSE
  LET ep == (st.epoch + 1) % Pow2(EW(cfg)) IN
  IF cfg.kind = "tagged"
  THEN LET stopped == {calls[StopName(k)] : k \in {x \in WaySet(cfg) : Ran(calls, StopName(x))}}
           started == {calls[StartName(k)] : k \in {x \in WaySet(cfg) : Ran(calls, StartName(x))}}
       IN [epoch |-> ep, q |-> <<>>,
           sl |-> [s \in 1..cfg.slots |->
                     IF (s - 1) \in started THEN [e |-> st.epoch, age |-> 1]      \* memory write wins
                     ELSE IF (s - 1) \in stopped THEN Free
                     ELSE IF st.sl[s].age >= 0 THEN [st.sl[s] EXCEPT !.age = @ + 1] ELSE st.sl[s]],
           hist |-> M!HApply(st.hist, TagSamples(cfg, st, calls, 0), cfg.rw)]
  ELSE [epoch |-> ep, sl |-> <<>>,
        q |-> [k1 \in 1..cfg.ways |->
                 LET k == k1 - 1
                     n == Popped(cfg, st, calls, k)
                     rest == SubSeq(st.q[k1], n + 1, Len(st.q[k1]))
                     add == IF Ran(calls, StartName(k)) THEN CountOf(cfg, calls[StartName(k)]) ELSE 0
                 IN Aged(rest) \o Fresh(st, add)],
        hist |-> M!HApply(st.hist, FifoSamples(cfg, st, calls, 0), cfg.rw)]

\* ---- preconditions of the property's quantifier (the driver obeys them) ----
\* "for latencies within max_latency": an event whose age has reached maxlat is stopped now;
\* tagged: slot tags are unique among in-flight events, only taken slots are stopped, a slot is
\* not started and stopped in one cycle.
InFlight(cfg, st) ==
  IF cfg.kind = "tagged" THEN {st.sl[s] : s \in {x \in 1..cfg.slots : st.sl[x].age >= 0}}
  ELSE UNION {{st.q[k][i] : i \in 1..Len(st.q[k])} : k \in 1..cfg.ways}
Assume(cfg, st, calls) ==
  ~cfg.en \/
  IF cfg.kind = "tagged"
  THEN LET stopK == {k \in WaySet(cfg) : Ran(calls, StopName(k))}
           startK == {k \in WaySet(cfg) : Ran(calls, StartName(k))}
           stopped == {calls[StopName(k)] : k \in stopK}
           started == {calls[StartName(k)] : k \in startK}
       IN /\ Cardinality(stopped) = Cardinality(stopK) /\ Cardinality(started) = Cardinality(startK)
          /\ \A s \in stopped : st.sl[s + 1].age >= 0
          /\ \A s \in started : st.sl[s + 1].age < 0
          /\ \A s \in 1..cfg.slots : st.sl[s].age >= cfg.maxlat => (s - 1) \in stopped
  ELSE \A k \in WaySet(cfg) : \A i \in 1..Level(st, k) :
          st.q[k + 1][i].age >= cfg.maxlat => i <= Popped(cfg, st, calls, k)

\* ---- properties (C32) ----
Inv(cfg, st) ==
  /\ \A ev \in InFlight(cfg, st) :
        /\ ev.age \in 1..cfg.maxlat
        /\ Diff(cfg, st, ev.e) = ev.age            \* epoch arithmetic measures the true age
  /\ cfg.kind # "tagged" => \A k \in 1..cfg.ways : Len(st.q[k]) <= SlotsEff(cfg)
  /\ M!SumSeq(st.hist.b) % Pow2(cfg.rw) = st.hist.count

\* true latencies (ages) of the events finished in this cycle, restated without epochs
RECURSIVE FinishedAges(_, _, _, _)
FinishedAges(cfg, st, calls, k) ==
  IF k >= cfg.ways THEN <<>>
  ELSE (IF ~Ran(calls, StopName(k)) THEN <<>>
        ELSE IF cfg.kind = "tagged" THEN <<st.sl[calls[StopName(k)] + 1].age>>
        ELSE [i \in 1..Popped(cfg, st, calls, k) |-> st.q[k + 1][i].age])
       \o FinishedAges(cfg, st, calls, k + 1)
NInFlight(cfg, st) ==
  IF cfg.kind = "tagged" THEN Cardinality({s \in 1..cfg.slots : st.sl[s].age >= 0})
  ELSE M!SumSeq([k \in 1..cfg.ways |-> Len(st.q[k])])
NStarted(cfg, calls) ==
  M!SumSeq([k1 \in 1..cfg.ways |->
              IF Ran(calls, StartName(k1 - 1)) THEN CountOf(cfg, calls[StartName(k1 - 1)]) ELSE 0])
StepProp(cfg, st, calls, res, st2) ==
  IF ~cfg.en THEN st2 = st
  ELSE LET fin == FinishedAges(cfg, st, calls, 0)
       IN \* exactly one sample per finished event, equal to the cycles between its start and stop
          /\ st2.hist = M!HApply(st.hist, fin, cfg.rw)
          /\ \A i \in 1..Len(fin) : fin[i] \in 1..cfg.maxlat
          \* no event is lost or invented
          /\ NInFlight(cfg, st2) = NInFlight(cfg, st) + NStarted(cfg, calls) - Len(fin)
          \* FIFO order: what stays in flight are the youngest events of each way, in order
          /\ cfg.kind # "tagged" =>
               \A k \in 1..cfg.ways :
                  LET n == Popped(cfg, st, calls, k - 1)
                  IN \A i \in 1..(Len(st.q[k]) - n) : st2.q[k][i].age = st.q[k][n + i].age + 1

Pub(cfg, st) == M!HPub(st.hist)

\* ---- configurations of the exhaustive model ----
Base == [kind |-> "fifo", ways |-> 1, slots |-> 2, maxlat |-> 2, msc |-> 1, mstop |-> 1, rw |-> 1, en |-> TRUE]
Configs ==
  {[Base EXCEPT !.slots = s, !.maxlat = l] : s \in 1..2, l \in 2..3}
  \cup {[Base EXCEPT !.maxlat = 4, !.rw = 0]}
  \cup {[Base EXCEPT !.ways = 2, !.slots = 1, !.rw = 0]}
  \cup {[Base EXCEPT !.en = FALSE]}
  \cup {[Base EXCEPT !.kind = "wide", !.msc = a, !.mstop = b, !.slots = 2, !.rw = 0] : a \in 1..2, b \in 1..2}
  \cup {[Base EXCEPT !.kind = "wide", !.msc = 2, !.mstop = 2, !.slots = 3, !.maxlat = 3, !.rw = 0]}
  \cup {[Base EXCEPT !.kind = "tagged", !.ways = w, !.slots = 2, !.rw = 2 - w] : w \in 1..2}
  \cup {[Base EXCEPT !.kind = "tagged", !.slots = 3, !.maxlat = 3, !.rw = 0]}

ArgDom(cfg, m) ==
  CASE cfg.kind = "fifo" -> {0}
    [] cfg.kind = "wide" -> IF IsStart(cfg, m) THEN 0..cfg.msc ELSE 0..cfg.mstop
    [] OTHER -> 0..(cfg.slots - 1)
====
