---- MODULE @NAME@Trace ----
\* Batch validation of traces recorded from the implementation against the input-driven
\* component spec @NAME@ (template of vlib/connharness.py).  One line = one clock cycle:
\*   Line[m] = [req, cal, done, arg, out] per method, Line.in = inputs driven by the harness,
\*   Line.pub = what the component did to its environment (targets executed, plain outputs).
\* Clauses are evaluated in three stages so that later operators are only applied to call
\* sets the earlier clauses found admissible.
EXTENDS Naturals, Integers, Sequences, FiniteSets, TLC, Json, IOUtils
Traces == JsonDeserialize(IOEnv.TRACE_FILE)
VARIABLES tid, l, st, g, verdict
vars == <<tid, l, st, g, verdict>>
C == INSTANCE @NAME@
cfg == Traces[tid].cfg
Line == Traces[tid].cycles[l]
Ms == C!Methods(cfg)
In == Line.in
Done(m) == Line[m].done = 1
ArgOf(m) == IF C!HasArg(m) THEN Line[m].arg ELSE 0
Calls == [m \in {x \in Ms : Done(x)} |-> ArgOf(m)]
Req == [m \in {x \in Ms : Line[x].req = 1} |-> ArgOf(m)]
ObsRes == [m \in DOMAIN Calls |-> Line[m].out]
Defined(m) == ~C!Unspec(cfg, st, m)
\* ---- stage A: which calls went through
CallableMatches ==
  \A m \in DOMAIN Req : Defined(m) => ((Line[m].cal = 1) <=> C!Callable(cfg, st, m, ArgOf(m), Calls, In))
DoneImpliesReqAndCallable == \A m \in Ms : Done(m) => Line[m].req = 1 /\ Line[m].cal = 1
ReqCallableImpliesDone ==
  \A m \in DOMAIN Req : (Line[m].cal = 1 /\ ~Done(m)) => \E n \in Ms : Done(n) /\ C!Conflict(cfg, m, n)
NoConflictingPair == \A m, n \in Ms : (m # n /\ Done(m) /\ Done(n)) => ~C!Conflict(cfg, m, n)
AssumeHolds == C!Assume(cfg, st, Calls, In)
\* a method that has a second (shadow) caller in the harness is never executed for both callers in one cycle
ExclusiveOnce == \A m \in Ms : Line[m].both = 0
\* ---- stage B: data
ResultMatches ==
  \A m \in DOMAIN Calls : C!ResAny(cfg, st, m) \/ Line[m].out = C!Result(cfg, st, m, Calls, In, Line.pub)
ObsMatches == Line.pub \in C!ObsSet(cfg, st, Calls, In)
\* ---- stage C: the property's sentences on the observed step, and the history property
Nx == C!CNext(cfg, st, Calls, In, Line.pub)
Gx == C!GNext(cfg, g, st, Calls, In, ObsRes, Line.pub)
PropertyHolds == C!StepProp(cfg, st, g, Req, Calls, In, ObsRes, Line.pub, Nx)
HistoryHolds == C!GInv(cfg, Nx, Gx) /\ C!Inv(cfg, Nx)
StageA == {"CallableMatches", "DoneImpliesReqAndCallable", "ReqCallableImpliesDone", "NoConflictingPair", "AssumeHolds",
           "ExclusiveOnce"}
StageB == {"ResultMatches", "ObsMatches"}
StageC == {"PropertyHolds", "HistoryHolds"}
Holds(n) == CASE n = "CallableMatches" -> CallableMatches
              [] n = "DoneImpliesReqAndCallable" -> DoneImpliesReqAndCallable
              [] n = "ReqCallableImpliesDone" -> ReqCallableImpliesDone
              [] n = "NoConflictingPair" -> NoConflictingPair
              [] n = "AssumeHolds" -> AssumeHolds
              [] n = "ExclusiveOnce" -> ExclusiveOnce
              [] n = "ResultMatches" -> ResultMatches
              [] n = "ObsMatches" -> ObsMatches
              [] n = "PropertyHolds" -> PropertyHolds
              [] OTHER -> HistoryHolds
FailA == {n \in StageA : ~Holds(n)}
FailB == {n \in StageB : ~Holds(n)}
FailC == {n \in StageC : ~Holds(n)}
Failing == IF FailA # {} THEN FailA ELSE IF FailB # {} THEN FailB ELSE FailC
Init == /\ tid \in 1..Len(Traces) /\ l = 1 /\ st = C!CInit(Traces[tid].cfg) /\ g = C!GInit(Traces[tid].cfg)
        /\ verdict = "go"
Step == /\ verdict = "go" /\ l <= Len(Traces[tid].cycles)
        /\ IF Failing = {}
           THEN l' = l + 1 /\ st' = Nx /\ g' = Gx /\ UNCHANGED verdict
           ELSE /\ verdict' = "reject"
                /\ PrintT("REJECT " \o ToJson([tid |-> tid, line |-> l, clauses |-> Failing, state |-> st, g |-> g]))
                /\ UNCHANGED <<l, st, g>>
        /\ UNCHANGED tid
Fin == /\ verdict = "go" /\ l = Len(Traces[tid].cycles) + 1
       /\ verdict' = "accept" /\ PrintT("ACCEPT " \o ToJson([tid |-> tid]))
       /\ UNCHANGED <<tid, l, st, g>>
Spec == Init /\ [][Step \/ Fin]_vars
====
