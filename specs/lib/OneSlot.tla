---- MODULE OneSlot ----
\* Forwarder and Pipe (transactron/lib/connectors.py) as one-slot buffers (property C17).
\* Functional style: state and configuration are values; one clock cycle = CNext.
EXTENDS Naturals, Sequences, FiniteSets

Methods(cfg) == {"read", "peek", "write", "clear"}
HasArg(m) == m = "write"
Configs == {[kind |-> "Forwarder"], [kind |-> "Pipe"]}
ArgDom(cfg, m) == IF m = "write" THEN {1, 2} ELSE {0}

CInit(cfg) == [full |-> FALSE, val |-> 0]

\* calls: function from the set of methods executed in this cycle to their arguments
Ran(calls, m) == m \in DOMAIN calls

\* Readiness may depend on what else runs in the same cycle (named deviation from a
\* plain buffer: the Forwarder bypasses a same-cycle write to read; the Pipe lets a
\* same-cycle read free the slot for write).
Callable(cfg, st, m, arg, calls) ==
  CASE m = "write" -> IF cfg.kind = "Forwarder" THEN ~st.full ELSE ~st.full \/ Ran(calls, "read")
    [] m \in {"read", "peek"} -> IF cfg.kind = "Forwarder" THEN st.full \/ Ran(calls, "write") ELSE st.full
    [] OTHER -> TRUE

\* value visible to read/peek in this cycle
Front(cfg, st, calls) ==
  IF st.full THEN st.val
  ELSE IF cfg.kind = "Forwarder" /\ Ran(calls, "write") THEN calls["write"] ELSE 0
Result(cfg, st, m, calls) == IF m \in {"read", "peek"} THEN Front(cfg, st, calls) ELSE 0

\* next state
CNext(cfg, st, calls) ==
  LET w == Ran(calls, "write")  r == Ran(calls, "read")  c == Ran(calls, "clear")
      \* Forwarder: a written value is kept only if it is not read in the same cycle
      fwd == IF st.full THEN (IF r THEN [full |-> FALSE, val |-> 0] ELSE st)
             ELSE (IF w /\ ~r THEN [full |-> TRUE, val |-> calls["write"]] ELSE [full |-> FALSE, val |-> 0])
      \* Pipe: read empties, write (re)fills
      pip == IF w THEN [full |-> TRUE, val |-> calls["write"]]
             ELSE IF r THEN [full |-> FALSE, val |-> 0] ELSE st
      nx == IF cfg.kind = "Forwarder" THEN fwd ELSE pip
  IN IF c THEN [full |-> FALSE, val |-> 0] ELSE nx

Conflict(cfg, m1, m2) == FALSE
Assume(cfg, st, calls) == TRUE

\* ---- properties checked by TLC on the model (C17) ----
TypeOK(cfg, st) == st.full \in BOOLEAN /\ st.val \in 0..2 /\ (~st.full => st.val = 0)
Inv(cfg, st) == TypeOK(cfg, st)
\* abstract content of the buffer as a sequence
Abs(st) == IF st.full THEN <<st.val>> ELSE <<>>
\* one cycle seen from the property: what was delivered (read) and accepted (write)
StepProp(cfg, st, calls, res, st2) ==
  LET w == Ran(calls, "write")  r == Ran(calls, "read")  c == Ran(calls, "clear")
      inq == Abs(st) \o (IF w THEN <<calls["write"]>> ELSE <<>>)
  IN /\ Len(inq) <= (IF cfg.kind = "Forwarder" THEN 2 ELSE 2)
     \* a read delivers the oldest undelivered value; peek sees the same and removes nothing
     /\ r => res["read"] = inq[1]
     /\ Ran(calls, "peek") => res["peek"] = inq[1]
     \* exactly once, in order: the new content is the old content plus the write minus the read
     /\ ~c => Abs(st2) = (IF r THEN Tail(inq) ELSE inq)
     /\ ~c => Len(Abs(st2)) <= 1
     \* clear empties the buffer and wins over a simultaneous write
     /\ c => Abs(st2) = <<>>
     \* readiness clauses of the statement
     /\ (cfg.kind = "Forwarder") =>
          /\ w => ~st.full
          /\ (r \/ Ran(calls, "peek")) => (st.full \/ w)
     /\ (cfg.kind = "Pipe") =>
          /\ (r \/ Ran(calls, "peek")) => st.full
          /\ w => (~st.full \/ r)
====
