---- MODULE AllocRing ----
\* transactron.lib.allocators.CircularAllocator (property C27).
\* Functional style: state and configuration are values; one clock cycle = CNext.
\*
\* cfg = [entries, ma (max_alloc), mf (max_free), val (with_validate_arguments, 0/1)]
\* st  = [s |-> start_idx, e |-> end_idx, n |-> allocated          (the code's three registers)
\*        hist |-> ABSTRACT: allocated identifiers oldest first,   (maintained from the calls and
\*        last |-> ABSTRACT: the newest identifier ever handed out  results only; tied by Inv)
\*                 since reset/clear (entries-1 initially, so that "right after" it is 0)]
\* alloc / free results are records [idents, new_end_idx] / [idents, new_start_idx]; entries of
\* `idents` at positions >= count are left open by the property and are forced to 0 by the
\* harness adapter (vlib/c24_27.py MaskedCall), hence 0 here.
EXTENDS Naturals, Sequences, FiniteSets, IOUtils

Methods(cfg) == {"alloc", "free", "clear"}
HasArg(m) == m \in {"alloc", "free"}
MCSet == IF "VERIF_MC_SET" \in DOMAIN IOEnv THEN IOEnv.VERIF_MC_SET ELSE "quick"
QuickConfigs ==
  {c \in [entries : {1, 2, 3, 5}, ma : 1..3, mf : 1..3, val : {0, 1}] :
     \/ c.ma = c.mf /\ c.val = 1
     \/ c.ma = 3 /\ c.mf = 2
     \/ c.ma = 2 /\ c.mf = 3 /\ c.val = 1
     \/ c.ma = 1 /\ c.mf = 3 /\ c.val = 0}
AllConfigs == [entries : 1..7, ma : 1..3, mf : 1..3, val : {0, 1}]
Configs == IF MCSet = "thorough" THEN AllConfigs ELSE QuickConfigs
MaxCnt(cfg, m) == IF m = "alloc" THEN cfg.ma ELSE cfg.mf
ArgDom(cfg, m) == IF HasArg(m) THEN 0..MaxCnt(cfg, m) ELSE {0}

CInit(cfg) == [s |-> 0, e |-> 0, n |-> 0, hist |-> <<>>, last |-> cfg.entries - 1]
Ran(calls, m) == m \in DOMAIN calls
Validates(cfg, m) == cfg.val = 1 /\ MaxCnt(cfg, m) > 1     \* the code installs a validator only then

\* readiness looks at the registered count only; validation (where installed) at count too
Callable(cfg, st, m, arg, calls) ==
  CASE m = "alloc" -> st.n # cfg.entries /\ (Validates(cfg, m) => st.n + arg <= cfg.entries)
    [] m = "free" -> st.n # 0 /\ (Validates(cfg, m) => arg <= st.n)
    [] OTHER -> TRUE

Idents(cfg, from, cnt, len) == [i \in 1..len |-> IF i <= cnt THEN (from + i - 1) % cfg.entries ELSE 0]
Result(cfg, st, m, calls) ==
  CASE m = "alloc" -> [idents |-> Idents(cfg, st.e, calls[m], cfg.ma),
                       new_end_idx |-> (st.e + calls[m]) % cfg.entries]
    [] m = "free" -> [idents |-> Idents(cfg, st.s, calls[m], cfg.mf),
                      new_start_idx |-> (st.s + calls[m]) % cfg.entries]
    [] OTHER -> 0

Drop(s, k) == SubSeq(s, k + 1, Len(s))
Take(s, k) == SubSeq(s, 1, k)
CNext(cfg, st, calls) ==
  LET ac == IF Ran(calls, "alloc") THEN calls["alloc"] ELSE 0
      fc == IF Ran(calls, "free") THEN calls["free"] ELSE 0
      new == IF ac > 0 THEN Take(Result(cfg, st, "alloc", calls).idents, ac) ELSE <<>>
  IN IF Ran(calls, "clear") THEN CInit(cfg)        \* clear is the last writer of all three registers
     ELSE [s |-> (st.s + fc) % cfg.entries,
           e |-> (st.e + ac) % cfg.entries,
           n |-> st.n + ac - fc,
           hist |-> Drop(st.hist, fc) \o new,
           last |-> IF ac > 0 THEN new[ac] ELSE st.last]

Conflict(cfg, m1, m2) == FALSE

\* Without validation the caller is responsible for the counts (docstring: "count must be less
\* or equal to the number of available free / allocated identifiers"); with validation every
\* count in range is allowed and Callable decides.
Assume(cfg, st, calls) ==
  /\ Ran(calls, "alloc") => calls["alloc"] <= cfg.ma /\ (~Validates(cfg, "alloc") => st.n + calls["alloc"] <= cfg.entries)
  /\ Ran(calls, "free") => calls["free"] <= cfg.mf /\ (~Validates(cfg, "free") => calls["free"] <= st.n)

\* ---- properties (C27) ----
SeqRange(s) == {s[i] : i \in 1..Len(s)}
Inv(cfg, st) ==
  \* the allocated count is tracked exactly, the ring pointers delimit the allocated run
  /\ st.n = Len(st.hist) /\ st.n <= cfg.entries
  /\ st.s < cfg.entries /\ st.e < cfg.entries
  /\ st.e = (st.last + 1) % cfg.entries
  /\ (st.s + st.n) % cfg.entries = st.e
  \* allocated identifiers are consecutive modulo entries starting at start_idx, hence distinct
  /\ \A i \in 1..Len(st.hist) : st.hist[i] = (st.s + i - 1) % cfg.entries
  /\ Cardinality(SeqRange(st.hist)) = Len(st.hist)

StepProp(cfg, st, calls, res, st2) ==
  LET a == Ran(calls, "alloc")  f == Ran(calls, "free")
      ac == IF a THEN calls["alloc"] ELSE 0
      fc == IF f THEN calls["free"] ELSE 0
  IN \* alloc(count) returns count consecutive identifiers (modulo entries) starting right
     \* after the newest allocated one
     /\ a => /\ \A i \in 1..ac : res["alloc"].idents[i] = (st.last + i) % cfg.entries
             /\ res["alloc"].new_end_idx = (st.last + 1 + ac) % cfg.entries
             /\ st.n < cfg.entries
     \* free(count) returns the count oldest allocated identifiers
     /\ f => /\ \A i \in 1..fc : res["free"].idents[i] = st.hist[i]
             /\ res["free"].new_start_idx = (st.s + fc) % cfg.entries
             /\ st.n > 0
     \* the allocated count is tracked exactly
     /\ ~Ran(calls, "clear") => st2.n = st.n + ac - fc /\ Len(st2.hist) = st2.n
     /\ Ran(calls, "clear") => st2.n = 0 /\ st2.s = 0 /\ st2.e = 0
     \* with argument validation, overflowing / underflowing calls are never accepted
     /\ (a /\ cfg.val = 1) => st.n + ac <= cfg.entries
     /\ (f /\ cfg.val = 1) => fc <= st.n
     \* identifiers handed out were not allocated
     /\ a => \A i \in 1..ac : res["alloc"].idents[i] \notin SeqRange(st.hist)
====
