---- MODULE MultiMemTrace ----
\* Batch validation of port-level traces recorded from the real memories against the ideal
\* synchronous memory MultiMem (C23).  One line = one clock cycle:
\*   [r |-> <<[en, addr, data]...>>, w |-> <<[en, addr, data]...>>]
\* `data` of a read port is what the port shows during the cycle.  Every trace gets a verdict.
EXTENDS Naturals, Sequences, FiniteSets, TLC, Json, IOUtils
Traces == JsonDeserialize(IOEnv.TRACE_FILE)
VARIABLES tid, l, st, verdict
vars == <<tid, l, st, verdict>>
C == INSTANCE MultiMem
cfg == Traces[tid].cfg
Line == Traces[tid].cycles[l]
Inp == [r |-> Line.r, w |-> Line.w]
\* the property: every read port shows, in every cycle, what the ideal memory shows
ReadData == \A p \in 1..cfg.read_ports : Line.r[p].data = C!Out(cfg, st)[p]
AssumeHolds == C!Assume(cfg, Inp)
ClauseNames == {"ReadData", "AssumeHolds"}
Holds(n) == CASE n = "ReadData" -> ReadData [] OTHER -> AssumeHolds
Failing == {n \in ClauseNames : ~Holds(n)}
BadPorts == {p \in 1..cfg.read_ports : Line.r[p].data # C!Out(cfg, st)[p]}
Init == tid \in 1..Len(Traces) /\ l = 1 /\ st = C!CInit(Traces[tid].cfg) /\ verdict = "go"
Step == /\ verdict = "go" /\ l <= Len(Traces[tid].cycles)
        /\ IF Failing = {}
           THEN l' = l + 1 /\ st' = C!CNext(cfg, st, Inp) /\ UNCHANGED verdict
           ELSE /\ verdict' = "reject"
                /\ PrintT("REJECT " \o ToJson([tid |-> tid, line |-> l, clauses |-> Failing,
                                               ports |-> BadPorts, expected |-> C!Out(cfg, st)]))
                /\ UNCHANGED <<l, st>>
        /\ UNCHANGED tid
Fin == /\ verdict = "go" /\ l = Len(Traces[tid].cycles) + 1
       /\ verdict' = "accept" /\ PrintT("ACCEPT " \o ToJson([tid |-> tid]))
       /\ UNCHANGED <<tid, l, st>>
Spec == Init /\ [][Step \/ Fin]_vars
====
