---- MODULE MemBank ----
\* transactron.lib.storage.MemoryBank (property C21): an ideal memory plus, per read port, a
\* response pipeline holding at most two pending responses.
\*
\*   cfg = [depth, width, granularity (0 = None), transparent, read_on_resp,
\*          read_ports, write_ports]                    (other fields, e.g. memory_type, ignored)
\*   st  = [mem : 0..depth-1 -> word,
\*          q   : 0..read_ports-1 -> sequence (oldest first, length <= 2) of [addr, val]]
\*   methods: "read_req<i>" (arg = addr), "read_resp<i>" (result = data),
\*            "write<j>" (arg = [addr, data, mask]; mask = 1 when granularity is None)
\*
\* Shaped like the implementation: the first pending response lives in the memory's read
\* register, a second request pushes it into the one-entry overflow buffer - together a
\* two-entry FIFO (named deviation from an "obvious" memory with unbounded outstanding reads).
\* With read_on_resp the entry only remembers the address (val is kept 0) and the value is
\* looked up when the response is taken.
EXTENDS Naturals, Sequences, FiniteSets, TLC
MM == INSTANCE MultiMem

RPorts(cfg) == 0..(cfg.read_ports - 1)
WPorts(cfg) == 0..(cfg.write_ports - 1)
\* method names (constant-level tables: evaluated once by TLC)
ReqN == [i \in 0..7 |-> "read_req" \o ToString(i)]
RespN == [i \in 0..7 |-> "read_resp" \o ToString(i)]
WrN == [i \in 0..7 |-> "write" \o ToString(i)]
ReqSet == {ReqN[i] : i \in 0..7}
RespSet == {RespN[i] : i \in 0..7}
WrSet == {WrN[i] : i \in 0..7}
PortIdx == [m \in ReqSet \cup RespSet \cup WrSet |-> CHOOSE i \in 0..7 : m \in {ReqN[i], RespN[i], WrN[i]}]
Req(i) == ReqN[i]
Resp(i) == RespN[i]
Wr(j) == WrN[j]
Methods(cfg) == {Req(i) : i \in RPorts(cfg)} \cup {Resp(i) : i \in RPorts(cfg)} \cup {Wr(j) : j \in WPorts(cfg)}
HasArg(m) == m \notin RespSet
Ran(calls, m) == m \in DOMAIN calls

\* the executed write calls as write-port inputs of the ideal memory (port j+1 = write<j>)
WS(cfg, calls) ==
  [k \in 1..cfg.write_ports |->
     IF Ran(calls, Wr(k - 1))
     THEN [en |-> calls[Wr(k - 1)].mask, addr |-> calls[Wr(k - 1)].addr, data |-> calls[Wr(k - 1)].data]
     ELSE [en |-> 0, addr |-> 0, data |-> 0]]
\* write ports whose same-cycle writes a read observes
Seen(cfg) == IF cfg.transparent THEN 1..cfg.write_ports ELSE {}
\* contents of row a as a read taking place in this cycle sees them
Now(cfg, st, calls, a) == MM!View(cfg, st.mem, WS(cfg, calls), a, Seen(cfg))

CInit(cfg) == [mem |-> [a \in 0..(cfg.depth - 1) |-> 0], q |-> [i \in RPorts(cfg) |-> <<>>]]

PortOf(cfg, m) == PortIdx[m]
IsReq(m) == m \in ReqSet
IsResp(m) == m \in RespSet

Callable(cfg, st, m, arg, calls) ==
  IF IsReq(m) THEN Len(st.q[PortOf(cfg, m)]) < 2
  ELSE IF IsResp(m) THEN Len(st.q[PortOf(cfg, m)]) >= 1
  ELSE TRUE
Result(cfg, st, m, calls) ==
  IF IsResp(m)
  THEN LET e == st.q[PortOf(cfg, m)][1]
       IN IF cfg.read_on_resp THEN Now(cfg, st, calls, e.addr) ELSE e.val
  ELSE 0
CNext(cfg, st, calls) ==
  [mem |-> MM!MemAfter(cfg, st.mem, WS(cfg, calls)),
   q |-> [i \in RPorts(cfg) |->
            LET rest == IF Ran(calls, Resp(i)) THEN Tail(st.q[i]) ELSE st.q[i]
            IN IF Ran(calls, Req(i))
               THEN Append(rest, [addr |-> calls[Req(i)],
                                  val |-> IF cfg.read_on_resp THEN 0 ELSE Now(cfg, st, calls, calls[Req(i)])])
               ELSE rest]]
Conflict(cfg, m1, m2) == FALSE
\* quantifier of C21: no two write ports address the same row in one cycle (taken strictly:
\* two executed write calls never carry the same address, whatever their masks); arguments
\* are inside their domains
Assume(cfg, st, calls) ==
  /\ \A j1, j2 \in WPorts(cfg) :
       (j1 # j2 /\ Ran(calls, Wr(j1)) /\ Ran(calls, Wr(j2))) => calls[Wr(j1)].addr # calls[Wr(j2)].addr
  /\ \A j \in WPorts(cfg) : Ran(calls, Wr(j)) =>
       /\ calls[Wr(j)].addr < cfg.depth /\ calls[Wr(j)].data < MM!Pow2(cfg.width)
       /\ calls[Wr(j)].mask < MM!Pow2(MM!NGran(cfg))
       /\ (cfg.granularity = 0 => calls[Wr(j)].mask = 1)
  /\ \A i \in RPorts(cfg) : Ran(calls, Req(i)) => calls[Req(i)] < cfg.depth

\* ---------- exhaustive model -----------------------------------------------------------
Configs ==
  {[depth |-> 2, width |-> 2, granularity |-> g, transparent |-> t, read_on_resp |-> r,
    read_ports |-> 1, write_ports |-> w] : g \in {0, 1}, t \in BOOLEAN, r \in BOOLEAN, w \in {1, 2}}
  \cup
  {[depth |-> 2, width |-> 1, granularity |-> 0, transparent |-> t, read_on_resp |-> r,
    read_ports |-> 2, write_ports |-> 1] : t \in BOOLEAN, r \in BOOLEAN}
\* quick tier: without the largest graphs (they are part of the thorough tier)
ConfigsQuick == {c \in Configs : /\ ~(c.granularity = 1 /\ c.write_ports = 2 /\ ~c.read_on_resp)
                                  /\ (c.read_ports = 2 => c.read_on_resp)}
\* configurations whose every transition is replayed into the real MemoryBank (quick / thorough);
\* the others have large graphs (request-time values sit in the queue entries)
ConfigsEdge == {c \in Configs : c.read_ports = 1 /\ c.write_ports = 1 /\ (c.read_on_resp \/ c.granularity = 0)}
ConfigsEdgeBig == {c \in Configs : c.read_ports = 1 /\ (c.write_ports = 1 \/ c.read_on_resp)}
ArgDom(cfg, m) ==
  IF IsReq(m) THEN 0..(cfg.depth - 1)
  ELSE IF IsResp(m) THEN {0}
  ELSE [addr : 0..(cfg.depth - 1),
        \* whole-row writes include 0 so that the model graph stays strongly connected (few
        \* resets in the edge-cover replay); with granules {01, 10} clears every granule anyway
        data : IF cfg.width = 1 THEN {0, 1} ELSE IF cfg.granularity = 0 THEN {0, 3} ELSE {1, 2},
        mask : IF cfg.granularity = 0 THEN {1} ELSE 1..(MM!Pow2(MM!NGran(cfg)) - 1)]

\* ---------- properties (C21) -----------------------------------------------------------
Inv(cfg, st) ==
  /\ \A a \in DOMAIN st.mem : st.mem[a] < MM!Pow2(cfg.width)
  /\ \A i \in RPorts(cfg) :
       /\ Len(st.q[i]) <= 2                       \* never more than two pending responses
       /\ \A k \in 1..Len(st.q[i]) : st.q[i][k].addr < cfg.depth /\ st.q[i][k].val < MM!Pow2(cfg.width)

\* bit b of row a as an ideal memory shows it to a read in this cycle: same-cycle writes
\* count exactly when the bank is transparent (stated per bit, independently of MM!View)
IdealBit(cfg, st, calls, a, b) ==
  LET ws == WS(cfg, calls)
      T == {j \in 1..cfg.write_ports : cfg.transparent /\ MM!Writes(cfg, ws, j, a, b)}
  IN IF T # {} THEN MM!BitOf(ws[CHOOSE j \in T : TRUE].data, b) ELSE MM!BitOf(st.mem[a], b)
StepProp(cfg, st, calls, res, st2) ==
  LET ws == WS(cfg, calls) IN
  \* the memory itself is an ideal memory
  /\ \A a \in 0..(cfg.depth - 1), b \in 0..(cfg.width - 1) :
       MM!BitOf(st2.mem[a], b) =
         IF \E j \in 1..cfg.write_ports : MM!Writes(cfg, ws, j, a, b)
         THEN MM!BitOf(ws[CHOOSE j \in 1..cfg.write_ports : MM!Writes(cfg, ws, j, a, b)].data, b)
         ELSE MM!BitOf(st.mem[a], b)
  /\ \A i \in RPorts(cfg) :
       LET n == Len(st.q[i])
           rq == Ran(calls, Req(i))
           rs == Ran(calls, Resp(i))
       IN \* read_req goes through only with fewer than two pending, read_resp only with one
          /\ rq => n < 2
          /\ rs => n >= 1
          \* responses in request order: the oldest entry leaves, the new one joins at the end
          /\ Len(st2.q[i]) = n + (IF rq THEN 1 ELSE 0) - (IF rs THEN 1 ELSE 0)
          /\ \A k \in 1..(n - (IF rs THEN 1 ELSE 0)) : st2.q[i][k] = st.q[i][k + (IF rs THEN 1 ELSE 0)]
          /\ rq => st2.q[i][Len(st2.q[i])].addr = calls[Req(i)]
          \* value at request time ...
          /\ (rq /\ ~cfg.read_on_resp) =>
               \A b \in 0..(cfg.width - 1) :
                 MM!BitOf(st2.q[i][Len(st2.q[i])].val, b) = IdealBit(cfg, st, calls, calls[Req(i)], b)
          /\ (rs /\ ~cfg.read_on_resp) => res[Resp(i)] = st.q[i][1].val
          \* ... or at response time
          /\ (rs /\ cfg.read_on_resp) =>
               \A b \in 0..(cfg.width - 1) :
                 MM!BitOf(res[Resp(i)], b) = IdealBit(cfg, st, calls, st.q[i][1].addr, b)
====
