---- MODULE Cam ----
\* transactron.lib.storage.ContentAddressableMemory (property C24).
\* Functional style: state and configuration are values; one clock cycle = CNext.
\*
\* cfg = [entries, zk, zd (zero key / zero data value of the layouts in use),
\*        and for the exhaustive model: nk (keys 0..nk-1), pd / wd (data values pushed / written)]
\* st  = [slots |-> sequence of [v (valid 0/1), k, d]]   -- the code's valids / address_array / data_array
\* Keys and data are opaque values (ints, or records for multi-field layouts), only compared.
\*
\* Named deviations from the code:
\*  * an invalid slot is normalised to [v=0, k=zk, d=zd]; the code keeps the stale address/data.
\*    Stale content is unobservable: every match is masked with `valids`, and the data word
\*    returned by a read that reports not_found (the code returns slot 0's stale word) is left
\*    open by the property and forced to zd by the harness adapter (vlib/c24_27.py MaskedCall).
\* Same-cycle visibility (from the code): read, write, remove and push all look at the content
\* registered at the start of the cycle; nothing is forwarded.  push uses the lowest invalid slot
\* of the OLD valid mask and is not callable when the memory is full even if a remove runs in
\* the same cycle.
EXTENDS Naturals, Sequences, FiniteSets, IOUtils

Methods(cfg) == {"push", "write", "read", "remove"}
HasArg(m) == TRUE
MCSet == IF "VERIF_MC_SET" \in DOMAIN IOEnv THEN IOEnv.VERIF_MC_SET ELSE "quick"
Cfg(n, nk, pd, wd) == [entries |-> n, nk |-> nk, zk |-> 0, zd |-> 0, pd |-> pd, wd |-> wd]
Configs ==
  CASE MCSet = "quick"        -> {Cfg(1, 2, {1}, {2}), Cfg(2, 3, {1}, {2})}
    [] MCSet = "quick-big"    -> {Cfg(3, 4, {1}, {2})}
    [] MCSet = "thorough"     -> {Cfg(1, 2, {1, 2}, {3}), Cfg(2, 3, {1, 2}, {3}), Cfg(3, 3, {1}, {2})}
    [] MCSet = "thorough-big" -> {Cfg(3, 4, {1, 2}, {3}), Cfg(4, 5, {1}, {2})}
    [] OTHER -> {Cfg(1, 2, {1}, {2})}
KeyDom(cfg) == 0..(cfg.nk - 1)
ArgDom(cfg, m) ==
  CASE m = "push" -> {[addr |-> k, data |-> d] : k \in KeyDom(cfg), d \in cfg.pd}
    [] m = "write" -> {[addr |-> k, data |-> d] : k \in KeyDom(cfg), d \in cfg.wd}
    [] OTHER -> KeyDom(cfg)

Slots(cfg) == 1..cfg.entries
Empty(cfg) == [v |-> 0, k |-> cfg.zk, d |-> cfg.zd]
CInit(cfg) == [slots |-> [i \in Slots(cfg) |-> Empty(cfg)]]
Ran(calls, m) == m \in DOMAIN calls

\* lowest slot in a set (the one-output priority encoder); 0 if none
Lowest(S) == IF S = {} THEN 0 ELSE CHOOSE i \in S : \A j \in S : i <= j
Hits(cfg, st, key) == {i \in Slots(cfg) : st.slots[i].v = 1 /\ st.slots[i].k = key}
FreeSlots(cfg, st) == {i \in Slots(cfg) : st.slots[i].v = 0}

Callable(cfg, st, m, arg, calls) == IF m = "push" THEN FreeSlots(cfg, st) # {} ELSE TRUE
Result(cfg, st, m, calls) ==
  CASE m = "read" -> LET h == Hits(cfg, st, calls[m])
                     IN IF h = {} THEN [data |-> cfg.zd, not_found |-> 1]
                        ELSE [data |-> st.slots[Lowest(h)].d, not_found |-> 0]
    [] m = "write" -> IF Hits(cfg, st, calls[m].addr) = {} THEN 1 ELSE 0
    [] OTHER -> 0

CNext(cfg, st, calls) ==
  LET p == Ran(calls, "push")  w == Ran(calls, "write")  r == Ran(calls, "remove")
      pid == Lowest(FreeSlots(cfg, st))
      wid == IF w THEN Lowest(Hits(cfg, st, calls["write"].addr)) ELSE 0
      rid == IF r THEN Lowest(Hits(cfg, st, calls["remove"])) ELSE 0
      Slot(i) ==
        LET old == st.slots[i]
            \* code order: push (addr, data, valid), write (data), remove (valid); later wins
            s1 == IF p /\ i = pid THEN [v |-> 1, k |-> calls["push"].addr, d |-> calls["push"].data] ELSE old
            s2 == IF w /\ i = wid THEN [s1 EXCEPT !.d = calls["write"].data] ELSE s1
            s3 == IF r /\ i = rid THEN [s2 EXCEPT !.v = 0] ELSE s2
        IN IF s3.v = 0 THEN Empty(cfg) ELSE s3
  IN [slots |-> [i \in Slots(cfg) |-> Slot(i)]]

Conflict(cfg, m1, m2) == FALSE

\* precondition of the property: a key already present is never pushed
Assume(cfg, st, calls) == Ran(calls, "push") => Hits(cfg, st, calls["push"].addr) = {}

\* ---- properties (C24): the memory seen as a dictionary ----
Pairs(cfg, st) == {[k |-> st.slots[i].k, d |-> st.slots[i].d] : i \in {j \in Slots(cfg) : st.slots[j].v = 1}}
KeysOf(P) == {x.k : x \in P}
Inv(cfg, st) ==
  LET valid == {j \in Slots(cfg) : st.slots[j].v = 1}
  IN \* one slot per key: the dictionary is a function
     \A i, j \in valid : i # j => st.slots[i].k # st.slots[j].k

StepProp(cfg, st, calls, res, st2) ==
  LET D == Pairs(cfg, st)
      Has(key) == key \in KeysOf(D)
      Val(key) == (CHOOSE x \in D : x.k = key).d
      p == Ran(calls, "push")  w == Ran(calls, "write")  r == Ran(calls, "remove")
      \* every operation refers to the dictionary at the start of the cycle
      d1 == IF w /\ Has(calls["write"].addr)
            THEN {x \in D : x.k # calls["write"].addr} \cup {[k |-> calls["write"].addr, d |-> calls["write"].data]}
            ELSE D
      d2 == IF r THEN {x \in d1 : x.k # calls["remove"]} ELSE d1
      d3 == IF p THEN d2 \cup {[k |-> calls["push"].addr, d |-> calls["push"].data]} ELSE d2
  IN \* read returns the data stored under the key, or not_found
     /\ Ran(calls, "read") =>
          IF Has(calls["read"]) THEN res["read"].not_found = 0 /\ res["read"].data = Val(calls["read"])
          ELSE res["read"].not_found = 1
     \* write reports not_found iff the key is absent
     /\ w => res["write"] = (IF Has(calls["write"].addr) THEN 0 ELSE 1)
     \* push runs only if a slot is free
     /\ p => Cardinality(D) < cfg.entries
     \* write updates an existing key, remove deletes the key, push inserts the pair
     /\ Pairs(cfg, st2) = d3
     /\ Cardinality(KeysOf(d3)) = Cardinality(d3) /\ Cardinality(d3) <= cfg.entries
====
