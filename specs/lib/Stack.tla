---- MODULE Stack ----
\* transactron.lib.stack.Stack as a bounded LIFO (property C16).
EXTENDS Naturals, Sequences, FiniteSets

Methods(cfg) == {"read", "peek", "write", "clear"}
HasArg(m) == m = "write"
Configs == {[depth |-> d] : d \in 1..3}
ArgDom(cfg, m) == IF m = "write" THEN {1, 2} ELSE {0}

CInit(cfg) == [s |-> <<>>]          \* bottom ... top
Ran(calls, m) == m \in DOMAIN calls
Top(s) == s[Len(s)]
Pop(s) == SubSeq(s, 1, Len(s) - 1)

Callable(cfg, st, m, arg, calls) ==
  CASE m = "write" -> Len(st.s) < cfg.depth
    [] m \in {"read", "peek"} -> Len(st.s) > 0
    [] OTHER -> TRUE
Result(cfg, st, m, calls) == IF m \in {"read", "peek"} THEN Top(st.s) ELSE 0

\* read and write in one cycle act as a read followed by a push; clear wins over both
CNext(cfg, st, calls) ==
  LET w == Ran(calls, "write")  r == Ran(calls, "read")
      afterR == IF r THEN Pop(st.s) ELSE st.s
      afterW == IF w THEN Append(afterR, calls["write"]) ELSE afterR
  IN [s |-> IF Ran(calls, "clear") THEN <<>> ELSE afterW]

Conflict(cfg, m1, m2) == FALSE
Assume(cfg, st, calls) == TRUE

\* ---- properties (C16) ----
Inv(cfg, st) == Len(st.s) <= cfg.depth /\ \A i \in 1..Len(st.s) : st.s[i] \in 1..2
StepProp(cfg, st, calls, res, st2) ==
  LET w == Ran(calls, "write")  r == Ran(calls, "read")  c == Ran(calls, "clear")
      n == Len(st.s)
  IN /\ (r \/ Ran(calls, "peek")) => n > 0
     /\ w => n < cfg.depth
     /\ r => res["read"] = st.s[n]
     /\ Ran(calls, "peek") => res["peek"] = st.s[n]
     /\ c => st2.s = <<>>
     /\ ~c =>
          /\ Len(st2.s) = n + (IF w THEN 1 ELSE 0) - (IF r THEN 1 ELSE 0)
          \* everything below the touched position is preserved
          /\ \A i \in 1..(IF r THEN n - 1 ELSE n) : st2.s[i] = st.s[i]
          /\ w => st2.s[Len(st2.s)] = calls["write"]
====
