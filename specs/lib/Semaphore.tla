---- MODULE Semaphore ----
\* transactron.lib.fifo.Semaphore (property C20).
\*
\* State shaped like the implementation: `count` (the register; count_next is CNext's value).
\* For the history sentence of C20 ("count = acquisitions - releases since the last clear") the
\* state additionally carries the two history counters `acq` / `rel` (executed acquire / release
\* calls since the last executed clear).  They are bounded by cfg.hist so that the exhaustive
\* model stays finite: once `acq` would exceed cfg.hist the history is marked saturated (`sat`)
\* and the history clause is no longer asserted (the per-step clause still is).  Traces use a
\* bound larger than their length, so on recorded runs the history clause is never switched off.
\* cfg = [max, hist].
EXTENDS Naturals, Sequences, FiniteSets

Methods(cfg) == {"acquire", "release", "clear"}
HasArg(m) == FALSE
Configs == {[max |-> n, hist |-> 7] : n \in 1..5}
ArgDom(cfg, m) == {0}

Ran(calls, m) == m \in DOMAIN calls
B(x) == IF x THEN 1 ELSE 0

CInit(cfg) == [count |-> 0, acq |-> 0, rel |-> 0, sat |-> FALSE]

\* acquire_ready = count < max_count, release_ready = count > 0, clear always
Callable(cfg, st, m, arg, calls) ==
  CASE m = "acquire" -> st.count < cfg.max
    [] m = "release" -> st.count > 0
    [] OTHER -> TRUE
Result(cfg, st, m, calls) == 0

\* count_next = 0 if clear.run else count + acquire.run - release.run
CNext(cfg, st, calls) ==
  LET a == Ran(calls, "acquire")  r == Ran(calls, "release")  c == Ran(calls, "clear")
      over == st.acq + B(a) > cfg.hist
  IN IF c THEN CInit(cfg)
     ELSE [count |-> (st.count + B(a)) - B(r),
           acq |-> IF st.sat \/ over THEN 0 ELSE st.acq + B(a),
           rel |-> IF st.sat \/ over THEN 0 ELSE st.rel + B(r),
           sat |-> st.sat \/ over]

Conflict(cfg, m1, m2) == FALSE
Assume(cfg, st, calls) == TRUE

\* ---- properties checked by TLC (C20) ----
Inv(cfg, st) ==
  /\ st.count \in 0..cfg.max
  \* the count equals acquisitions minus releases since the last clear
  /\ ~st.sat => (st.rel <= st.acq /\ st.count = st.acq - st.rel)
  \* acquire is ready iff the count is below the maximum, release iff it is positive
  /\ Callable(cfg, st, "acquire", 0, <<>>) <=> st.count < cfg.max
  /\ Callable(cfg, st, "release", 0, <<>>) <=> st.count > 0
  /\ Callable(cfg, st, "clear", 0, <<>>)

StepProp(cfg, st, calls, res, st2) ==
  LET a == Ran(calls, "acquire")  r == Ran(calls, "release")  c == Ran(calls, "clear")
  IN /\ a => st.count < cfg.max
     /\ r => st.count > 0
     /\ c => st2.count = 0
     /\ ~c => st2.count + B(r) = st.count + B(a)
====
