---- MODULE Metrics ----
\* transactron.lib.metrics: HwCounter, TaggedCounter, HwExpHistogram (property C31).
\* One module for the three metric kinds; cfg.kind selects.  cfg is a record
\*   [kind, ways, width, tags, buckets, sw, en, form]
\*   kind    "counter" | "tagged" | "hist"
\*   ways    number of incr / add methods ("incr0".., "add0"..), all may run in one cycle
\*   width   width of the value registers (count, per-tag counters, hist count/sum/buckets)
\*   tags    sequence of tag values (tagged only; any integers, also negative); the spec does
\*           not know how the implementation encodes them (one-hot or binary) - `form`
\*           (range / list / enum ...) is only interpreted by the harness
\*   buckets, sw   histogram: number of buckets, width of a sample (min/max registers)
\*   en      metrics enabled (HwMetricsEnabledKey); disabled: calls are accepted, nothing counts
\* The histogram operators (HInit / HApply / HPub) are reused by Latency.tla (C32).
EXTENDS Integers, Sequences, FiniteSets, TLC

Pow2(n) == 2 ^ n
WayName(cfg, i) == (IF cfg.kind = "hist" THEN "add" ELSE "incr") \o ToString(i)
Ways(cfg) == 0..(cfg.ways - 1)
Methods(cfg) == {WayName(cfg, i) : i \in Ways(cfg)}
\* counter incr methods have an empty argument, logged as 0
HasArg(m) == TRUE
Ran(calls, m) == m \in DOMAIN calls
SeqRange(s) == {s[i] : i \in 1..Len(s)}

\* ---------------------------------------------------------------------------------
\* exponential histogram (pure operators over a histogram value h)
RECURSIVE BitLen(_)
BitLen(x) == IF x = 0 THEN 0 ELSE 1 + BitLen(x \div 2)
\* bucket index (1-based) of a sample: [0,1) [1,2) [2,4) [4,8) ... last bucket open ended.
\* With nb buckets the last one is number nb and takes everything from 2^(nb-2) upwards
\* (from 0 upwards when it is the only bucket: its documented range is then "[0, inf)").
BucketOf(nb, x) == LET bl == BitLen(x) IN IF bl > nb - 1 THEN nb ELSE bl + 1
HInit(sw, nb) == [count |-> 0, sum |-> 0, min |-> Pow2(sw) - 1, max |-> 0, b |-> [i \in 1..nb |-> 0]]
HAdd(h, x, rw) ==
  [count |-> (h.count + 1) % Pow2(rw),
   sum   |-> (h.sum + x) % Pow2(rw),
   min   |-> IF x < h.min THEN x ELSE h.min,
   max   |-> IF x > h.max THEN x ELSE h.max,
   b     |-> [h.b EXCEPT ![BucketOf(Len(h.b), x)] = (@ + 1) % Pow2(rw)]]
RECURSIVE HApply(_, _, _)
\* samples: a sequence (the order is irrelevant: HAdd commutes)
HApply(h, samples, rw) ==
  IF samples = <<>> THEN h ELSE HApply(HAdd(h, samples[1], rw), Tail(samples), rw)
HNames(nb) == {"count", "sum", "min", "max"} \cup {"b" \o ToString(i) : i \in 1..nb}
HPub(h) == [n \in HNames(Len(h.b)) |->
              CASE n = "count" -> h.count [] n = "sum" -> h.sum [] n = "min" -> h.min [] n = "max" -> h.max
                [] OTHER -> h.b[CHOOSE i \in 1..Len(h.b) : n = "b" \o ToString(i)]]

\* ---------------------------------------------------------------------------------
Base == [kind |-> "counter", ways |-> 1, width |-> 2, tags |-> <<>>, buckets |-> 0, sw |-> 0,
         en |-> TRUE, form |-> "-"]
Configs ==
  {[Base EXCEPT !.ways = w] : w \in 1..3}
  \cup {[Base EXCEPT !.ways = 2, !.en = FALSE]}
  \cup {[Base EXCEPT !.kind = "tagged", !.ways = w, !.tags = t[1], !.form = t[2]] :
          w \in 1..2, t \in {<< <<1, 2>>, "list">>, << <<0, 1, 2>>, "range">>, << <<-1, 2>>, "list">>,
                             << <<0, 3>>, "enum">>, << <<1, 2, 4>>, "enum">>, << <<1, 4>>, "list">>}}
  \cup {[Base EXCEPT !.kind = "tagged", !.ways = 2, !.tags = <<1, 2>>, !.form = "list", !.en = FALSE]}
  \cup {[Base EXCEPT !.kind = "hist", !.ways = 1, !.buckets = nb, !.sw = 2] : nb \in 2..3}
  \cup {[Base EXCEPT !.kind = "hist", !.ways = 2, !.buckets = 2, !.sw = 1]}
  \cup {[Base EXCEPT !.kind = "hist", !.ways = 2, !.buckets = 3, !.sw = 2, !.width = 1]}
  \cup {[Base EXCEPT !.kind = "hist", !.ways = 1, !.buckets = 2, !.sw = 2, !.en = FALSE]}

ArgDom(cfg, m) ==
  CASE cfg.kind = "counter" -> {0}
    [] cfg.kind = "tagged" -> SeqRange(cfg.tags)
    [] OTHER -> 0..(Pow2(cfg.sw) - 1)

CInit(cfg) ==
  CASE cfg.kind = "counter" -> [count |-> 0]
    [] cfg.kind = "tagged" -> [c |-> [i \in 1..Len(cfg.tags) |-> 0]]
    [] OTHER -> HInit(cfg.sw, cfg.buckets)

\* metric methods are always ready; nothing is returned
Callable(cfg, st, m, arg, calls) == TRUE
Result(cfg, st, m, calls) == 0
Conflict(cfg, m1, m2) == FALSE

\* arguments of the executed ways, in way order
RECURSIVE ArgSeq(_, _, _)
ArgSeq(cfg, calls, i) ==
  IF i >= cfg.ways THEN <<>>
  ELSE (IF Ran(calls, WayName(cfg, i)) THEN <<calls[WayName(cfg, i)]>> ELSE <<>>) \o ArgSeq(cfg, calls, i + 1)

\* the code: count <= count + popcount(run bits); per tag popcount of the ways presenting that
\* tag; the histogram registers from the samples of the running ways.
CNext(cfg, st, calls) ==
  IF ~cfg.en THEN st
  ELSE CASE cfg.kind = "counter" -> [count |-> (st.count + Cardinality(DOMAIN calls)) % Pow2(cfg.width)]
         [] cfg.kind = "tagged" ->
              [c |-> [i \in 1..Len(cfg.tags) |->
                        (st.c[i] + Cardinality({m \in DOMAIN calls : calls[m] = cfg.tags[i]})) % Pow2(cfg.width)]]
         [] OTHER -> HApply(st, ArgSeq(cfg, calls, 0), cfg.width)

\* the documented tag set is the domain of the quantifier: the driver presents only those
Assume(cfg, st, calls) ==
  cfg.kind = "tagged" => \A m \in DOMAIN calls : calls[m] \in SeqRange(cfg.tags)

\* public projection compared with the value registers of the implementation every cycle
Pub(cfg, st) ==
  CASE cfg.kind = "counter" -> [n \in {"count"} |-> st.count]
    [] cfg.kind = "tagged" -> [n \in {"c" \o ToString(i) : i \in 1..Len(cfg.tags)} |->
                                 st.c[CHOOSE i \in 1..Len(cfg.tags) : n = "c" \o ToString(i)]]
    [] OTHER -> HPub(st)

\* ---- properties (C31) ----
RECURSIVE SumSeq(_)
SumSeq(s) == IF s = <<>> THEN 0 ELSE s[1] + SumSeq(Tail(s))
Inv(cfg, st) ==
  CASE cfg.kind = "counter" -> st.count \in 0..(Pow2(cfg.width) - 1)
    [] cfg.kind = "tagged" -> \A i \in 1..Len(cfg.tags) : st.c[i] \in 0..(Pow2(cfg.width) - 1)
    [] OTHER -> /\ st.count \in 0..(Pow2(cfg.width) - 1) /\ st.sum \in 0..(Pow2(cfg.width) - 1)
                /\ st.min \in 0..(Pow2(cfg.sw) - 1) /\ st.max \in 0..(Pow2(cfg.sw) - 1)
                \* every sample lands in exactly one bucket
                /\ SumSeq(st.b) % Pow2(cfg.width) = st.count
                /\ (st.min <= st.max \/ (st.min = Pow2(cfg.sw) - 1 /\ st.max = 0))
                /\ ~cfg.en => st = HInit(cfg.sw, cfg.buckets)

\* bucket ranges as documented: [0,1) [1,2) [2,4) ... [2^(nb-2), inf); a single bucket is [0, inf)
BLo(nb, i) == IF i = 1 THEN 0 ELSE Pow2(i - 2)
InBucket(nb, i, x) == x >= BLo(nb, i) /\ (i = nb \/ x < Pow2(i - 1))
MinOfSet(S) == CHOOSE x \in S : \A y \in S : x <= y
MaxOfSet(S) == CHOOSE x \in S : \A y \in S : x >= y
StepProp(cfg, st, calls, res, st2) ==
  LET M == Pow2(cfg.width)
      ran == DOMAIN calls
  IN IF ~cfg.en THEN st2 = st
     ELSE CASE cfg.kind = "counter" -> st2.count = (st.count + Cardinality(ran)) % M
            [] cfg.kind = "tagged" ->
                 \A i \in 1..Len(cfg.tags) :
                    st2.c[i] = (st.c[i] + Cardinality({m \in ran : calls[m] = cfg.tags[i]})) % M
            [] OTHER ->
                 LET vals == {calls[m] : m \in ran}
                     total == SumSeq(ArgSeq(cfg, calls, 0))
                 IN /\ st2.count = (st.count + Cardinality(ran)) % M
                    /\ st2.sum = (st.sum + total) % M
                    /\ st2.min = MinOfSet(vals \cup {st.min})
                    /\ st2.max = MaxOfSet(vals \cup {st.max})
                    /\ \A i \in 1..cfg.buckets :
                         st2.b[i] = (st.b[i] + Cardinality({m \in ran : InBucket(cfg.buckets, i, calls[m])})) % M
====
