#!/bin/sh
# Offline setup: nothing to build; verify the tools the checks need and parse every spec.
set -e
cd "$(dirname "$0")"
/venv/bin/python -c "import amaranth, transactron; print('amaranth', amaranth.__version__)"
java -version 2>&1 | head -1
/venv/bin/python tools/sany_all.py
mkdir -p evidence
