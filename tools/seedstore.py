#!/venv/bin/python
"""tools/seedstore.py <seedout dir> <seedres dir>
Copies the confirmed seeded changes into /verif/seeded/<id><letter>/ (patch.diff, demo.py, meta.json) and writes
seeded/README.md.  Inputs: the sub-agents' deliverables (<seedout>/<Cxx>/{A,B}.diff, demo{A,B}.py), the results of
tools/seedcheck.py (<seedres>/<Cxx><L>.json) and of tools/seedsuite.py (<seedres>/suite_*.json)."""
import glob, json, os, re, shutil, sys
HERE = os.path.dirname(os.path.dirname(os.path.abspath(__file__)))
sys.path.insert(0, os.path.join(HERE, "tools"))
from seed_needs import NEEDS  # noqa: E402

# baseline-flaky tests (BASELINE.json) + hypothesis DeadlineExceeded of the bit-function tests under `-n 14`
# (they pass when run alone, also with the patches that touch functions.py: C27A, C36A, C36B -- checked)
# (every patch that touches functions.py -- C27A, C36A, C36B, C14D, C27C, C36C, C36D -- passes test_utils.py and
# test_functions.py when those files are run alone)
FLAKY = ("test_stack.py::TestStack::test_randomized", "TestContentAddressableMemory::test_random",
         "test_utils.py::TestBitManipulationFunctions::")


def process(seedout, seedres, lmap):
    suites = []
    for f in sorted(glob.glob(os.path.join(seedres, "suite_*.json"))):
        suites.append((os.path.basename(f), json.load(open(f))))
    dst_root = os.path.join(HERE, "seeded")
    os.makedirs(dst_root, exist_ok=True)
    rows = []
    for f in sorted(glob.glob(os.path.join(seedres, "C[0-9][0-9][AB].json"))):
        key0 = os.path.basename(f)[:-5]
        pid, L = key0[:3], key0[3]
        key = pid + lmap.get(L, L)
        r = json.load(open(f))
        change, needs = NEEDS.get(key, ("", ""))
        confirmed = r["demo_clean_rc"] == 0 and r["demo_changed_rc"] not in (0, None) and r["apply_rc"] == 0
        suite = None
        for name, s in suites:
            if f"{seedout}/{pid}:{L}" in s["applied"]:
                other = [t for t in s.get("failed", []) if not any(x in t for x in FLAKY)]
                suite = {"run": name, "patches_applied_together": len(s["applied"]), "summary": s.get("summary"),
                         "failed": s.get("failed"), "failed_other_than_known_flaky": other}
        caught = {c: v for c, v in r["checks"].items()}
        det = []
        for c, v in caught.items():
            cl = ""
            if v["detail"]:
                m = re.search(r'"clauses": \[([^\]]*)\]', v["detail"][0])
                cl = m.group(1).replace('"', "") if m else ""
            det.append((c, v["rc"], v["violations"], cl))
        keep = confirmed and key != "C02B"
        if keep:
            d = os.path.join(dst_root, key)
            os.makedirs(d, exist_ok=True)
            shutil.copy(os.path.join(seedout, pid, L + ".diff"), os.path.join(d, "patch.diff"))
            shutil.copy(os.path.join(seedout, pid, f"demo{L}.py"), os.path.join(d, "demo.py"))
            meta = {"property": pid, "change": change, "needs_to_manifest": needs,
                    "produced_by": "independent sub-agent given only the property text and a scratch worktree",
                    "confirmed": {"demo_exit_clean_tree": r["demo_clean_rc"], "demo_exit_changed_tree": r["demo_changed_rc"],
                                  "demo_output_changed_tree": r.get("demo_changed_tail"),
                                  "test_suite_with_change": suite},
                    "ran": ["tools/seedcheck.py <dir> %s %s  (scratch worktree; demo before/after; VERIF_REPO=<worktree> ./check ... --tier quick)" % (L, " ".join(caught)),
                            "tools/seedsuite.py (complete repository suite on the worktree with the patches applied)"],
                    "checks": {c: {"exit": rc, "violation_lines": n, "first_failing_clauses": cl} for c, rc, n, cl in det}}
            json.dump(meta, open(os.path.join(d, "meta.json"), "w"), indent=1)
        rows.append((key, pid, change, needs, confirmed, keep, suite, det))
    return rows


def main():
    dst_root = os.path.join(HERE, "seeded")
    rows = []
    args = sys.argv[1:]
    # arguments: <seedout> <seedres> [<seedout2> <seedres2> [<seedout3> <seedres3>]]  (the second pair is stored under
    # the letters C, D, the third under E, F)
    rows += process(args[0], args[1], {})
    if len(args) >= 4:
        rows += process(args[2], args[3], {"A": "C", "B": "D"})
    if len(args) >= 6:
        rows += process(args[4], args[5], {"A": "E", "B": "F"})
    rows.sort()
    with open(os.path.join(dst_root, "README.md"), "w") as fh:
        fh.write("# Seeded changes\n\nOne directory per kept change: `patch.diff` (apply with `git -C /repo apply`, undo with "
                 "`git -C /repo checkout -- .`), `demo.py` (exit 0 on the clean tree, non-zero with the change), `meta.json`.\n"
                 "All changes pass the repository's test-suite (apart from the baseline-flaky tests); see `meta.json` for the run.\n"
                 "Letters A, B: first round of sub-agents; C, D: second, independent round (some repeat an idea of round 1); "
                 "E, F: a small third round (8 properties) run against the final machinery.\n\n"
                 "| id | change | needs in order to manifest | detected by (exit, first failing clauses) |\n|---|---|---|---|\n")
        for key, pid, change, needs, confirmed, keep, suite, det in rows:
            dets = "; ".join(f"{c}: exit {rc}" + (f" [{cl}]" if cl else "") for c, rc, n, cl in det)
            note = "" if keep else " (not kept)"
            fh.write(f"| {key}{note} | {change} | {needs} | {dets} |\n")
    missed = [k for k, _, _, _, c, keep, _, det in rows if keep and not any(rc == 1 for _, rc, _, _ in det)]
    print("kept", sum(1 for r in rows if r[5]), "of", len(rows), "missed by every listed check:", missed)
    bad_suite = [k for k, _, _, _, _, keep, s, _ in rows if keep and (s is None or s["failed_other_than_known_flaky"])]
    print("without a clean suite confirmation:", bad_suite)


main()
