#!/venv/bin/python
"""Parse every TLA+ module under specs/ (templates instantiated with a dummy name are skipped)."""
import os, subprocess, sys, tempfile, shutil
HERE = os.path.dirname(os.path.dirname(os.path.abspath(__file__)))
sys.path.insert(0, HERE)
from vlib import tlc
tmp = tempfile.mkdtemp(prefix="vsany_")
bad = 0
try:
    files = [f for f in tlc.all_spec_files() if os.sep + "tpl" + os.sep not in f]
    for f in files:
        shutil.copy(f, tmp)
    for f in files:
        r = subprocess.run(["java", "-cp", tlc.JAR, "tla2sany.SANY", os.path.basename(f)], cwd=tmp, capture_output=True, text=True)
        if r.returncode != 0 or "*** Errors" in r.stdout or "Fatal" in r.stdout:
            # modules that read IOEnv at parse time are fine; report real parse errors only
            print("SANY FAILED:", f, "\n", r.stdout[-800:])
            bad += 1
finally:
    shutil.rmtree(tmp, ignore_errors=True)
print("sany: %d modules parsed, %d failed" % (len(files), bad))
sys.exit(1 if bad else 0)
