#!/venv/bin/python
"""Developer probe: run the core pipeline on N seeds and print failing clause counts.
usage: [VERIF_REPO=dir] tools/core_probe.py N [key=value ...generator options]"""
import os, sys, collections, warnings
warnings.simplefilter("ignore")
HERE = os.path.dirname(os.path.dirname(os.path.abspath(__file__)))
sys.path.insert(0, HERE)
if os.environ.get("VERIF_REPO"):
    sys.path.insert(0, os.environ["VERIF_REPO"])
from vlib import core
n = int(sys.argv[1])
opt = {}
for kv in sys.argv[2:]:
    k, v = kv.split("=")
    opt[k] = v if k == "sched" else (float(v) if "." in v else (v == "True" if v in ("True", "False") else int(v)))
sticky = opt.pop("_sticky", 0.0)
cases = core.gen_cases(list(range(7000, 7000 + n)), opt, 96, sticky)
res, acc, rej, dev = core.validate(cases)
print("cases", len(cases), "built", sum(1 for c in cases if not c["raised"]), "rejected", len(rej), "deviations", len(dev))
cnt = collections.Counter()
for r in rej:
    for c in r["clauses"]:
        cnt[c] += 1
print(dict(cnt))
dc = collections.Counter()
for r in dev:
    for c in r["clauses"]:
        dc[c] += 1
print("deviations:", dict(dc))
