HOOK_COMMITS = []
NOT_APPLICABLE = {}
NOTES = ("Technique: explicit TLA+ specifications + TLC, bound to the code by spec->code replay and code->spec trace validation. "
         "Known genuine defects are listed in known_findings.json. See DESIGN.md.")
comp("C17", "specs/lib/OneSlot.tla", "Forwarder and Pipe as one-slot buffers")
comp("C16", "specs/lib/Stack.tla", "Stack as a bounded LIFO")
