HOOK_COMMITS = []
NOT_APPLICABLE = {}
NOTES = ("Technique: explicit TLA+ specifications + TLC, bound to the code by spec->code replay and code->spec trace validation. "
         "Known genuine defects are listed in known_findings.json. See DESIGN.md.")
comp("C17", "specs/lib/OneSlot.tla", "Forwarder and Pipe as one-slot buffers")
comp("C16", "specs/lib/Stack.tla", "Stack as a bounded LIFO")
CORE_NOTE = ("Designs come from a bounded grammar (<=4 transactions, <=4 methods -- <=6 in the Methods-vector family of C03-C05 --, nesting <=2); the conflict relation and "
             "priority orders are the specification's and are inferred, never read from the manager; Amaranth's Python "
             "simulator is trusted.")
def core(pid, what):
    CHECKS[pid] = (MC,
        "TLA+ spec TxnCore (design-as-data) : TLC checks the scheduling model exhaustively over generated designs x all "
        "valuations x all admissible orders (TxnCoreMC); real circuits built from the same designs are simulated and every "
        "cycle is judged by TLC (TxnCoreTrace, hidden priority order / arbiter state inferred)",
        what + ": model checked by TLC over a bounded universe of designs; the implementation is bound to the model by "
        "validating every simulated cycle of hundreds of generated designs (all input valuations) against the same spec.",
        CORE_NOTE, "4.1, 5")
core("C01", "at most one active call per exclusive method and no joint run of conflicting transactions")
core("C02", "add_conflict-related bodies never run together")
core("C03", "a transaction runs only when fully enabled")
core("C04", "methods run exactly when an active call site exists; nested bodies only with their parent")
core("C05", "argument and result routing incl. nonexclusive combiner and provide() aliases")
core("C06", "comb/sync/av_comb/top_comb effect semantics through witness signals")
core("C07", "eager scheduler wastes no cycle")
core("C08", "conflict priorities respected")
core("C09", "round-robin scheduler: one grant per component, progress, bounded wait")
core("C11", "ill-formed designs rejected, well-formed ones accepted (VerdictD)")
CHECKS["C12"] = (MC, "TLA+ spec Condition: model checked exhaustively (ConditionMC: every observation the model allows, all valuations); real condition() circuits simulated on all valuations and judged per cycle by ConditionTrace",
    "the five sentences of C12 are TLC-checked on the model and on every simulated cycle of generated condition() designs", CORE_NOTE, "5 (C12)")
CHECKS["C13"] = (MC, "TLA+ spec Simultaneous: model checked (SimultaneousMC); real Connect / simultaneous() circuits simulated on all valuations and judged per cycle by SimultaneousTrace",
    "SameCycles and DataBothWays TLC-checked on the model and on every simulated cycle of generated designs", CORE_NOTE, "5 (C13)")
CHECKS["C10"] = (MC, "TLA+ spec CombDeps (signal-level dependency graph of the scheduling model): TLC checks acyclicity for every admissible priority order of every generated rule-following design; the same designs are elaborated with the real library and their netlist checked for combinational cycles",
    "rule-following designs (readiness reads run() only of bodies declared earlier) have an acyclic model dependency graph (TLC) and an acyclic real netlist (Amaranth bit-level check); negative controls show the detector fires", CORE_NOTE, "5 (C10)")
CHECKS["C35"] = (MC, "profile cycles recorded from real simulations validated by TLC (ProfilerTrace over TxnCore) against independently sampled signals and the specification's conflict relation",
    "every profile cycle and the run/locked statistics are judged by TLC; the conflict relation comes from TxnCore!Derive", CORE_NOTE, "5 (C35)")
comp("C14", "specs/lib/Queue.tla", "FIFO and BasicFifo as bounded queues")
comp("C15", "specs/lib/WideQueue.tla (+ WideQueueMC.tla)", "WideFifo as a bounded queue with batched reads/writes")
comp("C18", "specs/lib/Transformers.tla", "method transformers and connectors compute their documented function")
comp("C19", "specs/lib/ReqRes.tla", "Serializer and ArgumentsToResultsZipper keep requests and responses matched")
comp("C20", "specs/lib/Semaphore.tla", "Semaphore counts acquisitions")
MEM_NOTE = ("Bounded constants (depth <= 16, width <= 4 bits, <= 3 ports); simultaneous writes to one row are excluded by the driver as the "
            "property states; Amaranth's Python simulator is trusted; known findings (ILVT memories with granularity and >= 2 write ports) "
            "are listed in known_findings.json.")
comp("C21", "specs/lib/MemBank.tla (ideal-memory operators of MultiMem.tla)", "MemoryBank against an ideal memory over memory_type x transparent x read_on_resp x granularity x ports", MEM_NOTE)
comp("C22", "specs/lib/AsyncMem.tla", "AsyncMemoryBank reads current contents")
comp("C23", "specs/lib/MultiMem.tla (MultiMemMC.tla, MultiMemTrace.tla)", "multiport memories against an ideal synchronous memory", MEM_NOTE)
comp("C24", "specs/lib/Cam.tla", "ContentAddressableMemory as a dictionary")
comp("C25", "specs/lib/AllocPE.tla", "PriorityEncoderAllocator never double-allocates")
comp("C26", "specs/lib/AllocOrder.tla", "PreservedOrderAllocator tracks allocation order")
comp("C27", "specs/lib/AllocRing.tla", "CircularAllocator hands out identifiers in ring order")
comp("C28", "specs/lib/Pipeline.tla (PipelineMC.tla, PipelineTrace.tla)", "PipelineBuilder pipelines are ordered, lossless and compute the composed stages")
comp("C29", "specs/lib/Stream.tla", "stream adapters obey the ready/valid protocol")
comp("C30", "specs/lib/BasicIO.tla", "InputSampler and OutputBuffer follow their trigger")
comp("C31", "specs/lib/Metrics.tla", "HwCounter / TaggedCounter / HwExpHistogram registers against exact counting")
comp("C32", "specs/lib/Latency.tla", "latency measurers record true latencies")
comp("C33", "specs/obs/EvLog.tla (EvLogMC.tla, EvLogTrace.tla)", "event log capture, save/load, streaming reader, generated-design sampler and consumer order",
     "Bounded constants; the generated design is exercised through VerilogDebugWrapper + GeneratedEvLogSampler with handles resolved in pysim (Yosys is absent, emitted Verilog is not checked); two known findings in known_findings.json.")
comp("C34", "specs/obs/HwLog.tla (HwLogMC.tla, HwLogTrace.tla)", "hardware logs and assertions fire exactly when triggered")
comp("C39", "specs/core/RoundRobin.tla (RoundRobinMC.tla, RoundRobinTrace.tla)", "RoundRobin arbiters grant a requester, one at a time, with bounded wait")
comp("C42", "specs/util/DepManager.tla (DepManagerMC.tla)", "DependencyManager keys: single/list keys, caching, locking, defaults")
comp("C43", "specs/util/Testbench.tla (TestbenchMC.tla, TestbenchTrace.tla)", "TestbenchIO.call / call_try / CallTrigger call protocol and MethodMock effects and same-cycle results",
     "Bounded universe of testbench programs (<= 2 operations per process in the exhaustive model, <= 12 in recorded runs); a TestbenchIO is driven by one process at a time; "
     "cycle-exact stimulus comes from hardware ROMs; Amaranth's Python simulator is trusted.")
EXPL = "exploration"
def fn(pid, spec, what, ref="4.3, 5"):
    CHECKS[pid] = (EXPL,
        f"TLA+ definitions {spec}: laws of the definitions model-checked by TLC over the bounded input space; every function of the property is "
        f"wrapped in a combinational module (or called), tabulated over its whole bounded input domain with the real code, and every row is judged by TLC against the definitions",
        f"{what}: exhaustive tabulation of the implementation over the stated bounded domains with TLC as the oracle (exploration, exhaustive within bounds); no interleavings exist for pure functions.",
        "Pure functions: widths <= 10 bits; domain restrictions where the docstrings are silent are named in notes/" + pid + ".md and not asserted.", ref)
fn("C36", "specs/fn/Bits.tla (C36Rows.tla, C36Laws.tla)", "bit-manipulation helpers equal their documented functions")
fn("C37", "specs/fn/Shifters.tla (C37Rows.tla, C37Laws.tla)", "shifters and rotators for offsets 0..width")
fn("C38", "specs/fn/Encoders.tla (C38Rows.tla, C38Laws.tla)", "encoders, one-hot multiplexers and selecting networks")
fn("C40", "specs/fn/Assign.tla (AssignMC.tla)", "assign raises exactly when it must and otherwise copies exactly the selected fields")
fn("C41", "specs/fn/DataHelpers.tla (C41Rows.tla, C41Laws.tla)", "data helpers")
