HOOK_COMMITS = []
NOT_APPLICABLE = {}
NOTES = ("Technique: explicit TLA+ specifications + TLC, bound to the code by spec->code replay and code->spec trace validation. "
         "Known genuine defects are listed in known_findings.json. See DESIGN.md.")
comp("C17", "specs/lib/OneSlot.tla", "Forwarder and Pipe as one-slot buffers")
comp("C16", "specs/lib/Stack.tla", "Stack as a bounded LIFO")
CORE_NOTE = ("Designs come from a bounded grammar (<=4 transactions, <=4 methods, nesting <=2); the conflict relation and "
             "priority orders are the specification's and are inferred, never read from the manager; Amaranth's Python "
             "simulator is trusted.")
def core(pid, what):
    CHECKS[pid] = (MC,
        "TLA+ spec TxnCore (design-as-data) : TLC checks the scheduling model exhaustively over generated designs x all "
        "valuations x all admissible orders (TxnCoreMC); real circuits built from the same designs are simulated and every "
        "cycle is judged by TLC (TxnCoreTrace, hidden priority order / arbiter state inferred)",
        what + ": model checked by TLC over a bounded universe of designs; the implementation is bound to the model by "
        "validating every simulated cycle of hundreds of generated designs (all input valuations) against the same spec.",
        CORE_NOTE, "4.1, 5")
core("C01", "at most one active call per exclusive method and no joint run of conflicting transactions")
core("C02", "add_conflict-related bodies never run together")
core("C03", "a transaction runs only when fully enabled")
core("C04", "methods run exactly when an active call site exists; nested bodies only with their parent")
core("C05", "argument and result routing incl. nonexclusive combiner and provide() aliases")
core("C06", "comb/sync/av_comb/top_comb effect semantics through witness signals")
core("C07", "eager scheduler wastes no cycle")
core("C08", "conflict priorities respected")
core("C09", "round-robin scheduler: one grant per component, progress, bounded wait")
core("C11", "ill-formed designs rejected, well-formed ones accepted (VerdictD)")
CHECKS["C12"] = (MC, "TLA+ spec Condition: model checked exhaustively (ConditionMC: every observation the model allows, all valuations); real condition() circuits simulated on all valuations and judged per cycle by ConditionTrace",
    "the five sentences of C12 are TLC-checked on the model and on every simulated cycle of generated condition() designs", CORE_NOTE, "5 (C12)")
CHECKS["C13"] = (MC, "TLA+ spec Simultaneous: model checked (SimultaneousMC); real Connect / simultaneous() circuits simulated on all valuations and judged per cycle by SimultaneousTrace",
    "SameCycles and DataBothWays TLC-checked on the model and on every simulated cycle of generated designs", CORE_NOTE, "5 (C13)")
CHECKS["C10"] = (MC, "TLA+ spec CombDeps (signal-level dependency graph of the scheduling model): TLC checks acyclicity for every admissible priority order of every generated rule-following design; the same designs are elaborated with the real library and their netlist checked for combinational cycles",
    "rule-following designs (readiness reads run() only of bodies declared earlier) have an acyclic model dependency graph (TLC) and an acyclic real netlist (Amaranth bit-level check); negative controls show the detector fires", CORE_NOTE, "5 (C10)")
CHECKS["C35"] = (MC, "profile cycles recorded from real simulations validated by TLC (ProfilerTrace over TxnCore) against independently sampled signals and the specification's conflict relation",
    "every profile cycle and the run/locked statistics are judged by TLC; the conflict relation comes from TxnCore!Derive", CORE_NOTE, "5 (C35)")
