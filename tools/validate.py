#!/opt/veriftools/pyvenv/bin/python
import json, jsonschema, glob, sys
man = json.load(open('/verif/MANIFEST.json'))
jsonschema.validate(man, json.load(open('/root/.vp/MANIFEST.schema.json')))
es = json.load(open('/root/.vp/EVIDENCE.schema.json'))
bad = 0
for c in man['checks']:
    try:
        ev = json.load(open(c['evidence_file']))
        jsonschema.validate(ev, es)
        assert ev['level'] == c['level_claimed']['category'], "level mismatch"
    except Exception as ex:
        bad += 1
        print("BAD", c['property_id'], str(ex)[:200])
print("manifest valid; evidence files bad:", bad)
sys.exit(1 if bad else 0)
