#!/bin/bash
# Regenerates every evidence file with the quick tier (VERIF_SEED=1), one check at a time; prints one line per check.
cd "$(dirname "$0")/.."
ids=$(python3 -c "import json; print(' '.join(c['property_id'] for c in json.load(open('MANIFEST.json'))['checks']))")
rc_all=0
for id in ${@:-$ids}; do
  s=$(date +%s)
  out=$(VERIF_SEED=1 VERIF_TIER=quick ./check $id --tier quick 2>&1); rc=$?
  echo "$id rc=$rc $(( $(date +%s) - s ))s $(echo "$out" | grep -E '^(OK|VIOLATION|KNOWN-FINDING|MACHINERY)' | cut -c1-90 | tr '\n' '|')"
  [ $rc -ne 0 ] && rc_all=1
done
exit $rc_all
