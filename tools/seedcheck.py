#!/venv/bin/python
"""tools/seedcheck.py <seed dir> <A|B|...> <Cxx> [more check ids]  [--tier quick|thorough] [--tests test/...]

Confirms a seeded change and runs checks against it, in a scratch worktree of /repo:
  1. demo on the clean tree must exit 0;  2. patch applies;  3. demo on the changed tree must exit != 0;
  4. (optional) the given repository test files pass with the change;
  5. each listed check is run with VERIF_REPO=<worktree>; reports exit code and VIOLATION lines.
Prints one JSON summary line.  Removes the worktree."""
import json, os, subprocess, sys, tempfile, time, shutil

def sh(cmd, cwd=None, env=None, timeout=3600):
    p = subprocess.run(cmd, cwd=cwd, env=env, capture_output=True, text=True, timeout=timeout)
    return p.returncode, p.stdout + p.stderr

def main():
    args = sys.argv[1:]
    tier = "quick"
    tests = []
    if "--tier" in args:
        i = args.index("--tier"); tier = args[i + 1]; del args[i:i + 2]
    if "--tests" in args:
        i = args.index("--tests"); tests = args[i + 1:]; del args[i:]
    sdir, letter, checks = args[0], args[1], args[2:]
    diff = os.path.join(sdir, letter + ".diff") if os.path.exists(os.path.join(sdir, letter + ".diff")) else os.path.join(sdir, "patch.diff")
    demo = os.path.join(sdir, f"demo{letter}.py")
    if not os.path.exists(demo):
        demo = [os.path.join(sdir, f) for f in os.listdir(sdir) if f.startswith("demo")][0]
    wt = tempfile.mkdtemp(prefix="seedwt_", dir="/tmp")
    os.rmdir(wt)
    out = {"seed": sdir, "letter": letter}
    try:
        rc, o = sh(["git", "-C", "/repo", "worktree", "add", "--detach", wt])
        assert rc == 0, o
        env = dict(os.environ, PYTHONPATH=wt, PYTHONHASHSEED="0")
        rc, o = sh(["/venv/bin/python", demo], cwd=wt, env=env)
        out["demo_clean_rc"] = rc
        rc, o = sh(["git", "-C", wt, "apply", diff])
        out["apply_rc"] = rc
        if rc:
            out["apply_out"] = o[-500:]
        rc, o = sh(["/venv/bin/python", demo], cwd=wt, env=env)
        out["demo_changed_rc"] = rc
        out["demo_changed_tail"] = o.strip().splitlines()[-3:]
        if tests:
            t0 = time.time()
            rc, o = sh(["/venv/bin/python", "-m", "pytest", "-q", "-p", "no:cacheprovider", "-x", "-n", "8"] + tests, cwd=wt, env=env)
            out["tests_rc"] = rc
            out["tests_tail"] = o.strip().splitlines()[-3:]
            out["tests_s"] = round(time.time() - t0)
        out["checks"] = {}
        for c in checks:
            t0 = time.time()
            e = dict(os.environ, VERIF_REPO=wt)
            rc, o = sh(["/verif/check", c, "--tier", tier], cwd="/verif", env=e, timeout=7200)
            lines = o.splitlines()
            vio = [l for l in lines if l.startswith("VIOLATION")]
            det = [l for l in lines if l.strip().startswith("detail:")]
            out["checks"][c] = {"rc": rc, "violations": len(vio), "detail": [d[:300] for d in det[:2]], "s": round(time.time() - t0),
                                "err": [l for l in lines if "MACHINERY" in l][:2]}
    finally:
        sh(["git", "-C", "/repo", "worktree", "remove", "--force", wt])
        shutil.rmtree(wt, ignore_errors=True)
    print(json.dumps(out))

main()
