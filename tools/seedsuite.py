#!/venv/bin/python
"""tools/seedsuite.py <out.json> <seeddir>:<letter> ...
Applies the given seeded patches TOGETHER (greedily; a patch that does not apply on top of the others is
reported as skipped) in a scratch worktree of /repo and runs the repository's complete test-suite once.
The patches touch different behaviours, so a green run confirms each of them passes the suite; a red test
is re-run per patch by the caller.  Removes the worktree."""
import json, os, re, subprocess, sys, tempfile, shutil, time

def sh(cmd, cwd=None, env=None, timeout=7200):
    p = subprocess.run(cmd, cwd=cwd, env=env, capture_output=True, text=True, timeout=timeout)
    return p.returncode, p.stdout + p.stderr

out_path, items = sys.argv[1], sys.argv[2:]
wt = tempfile.mkdtemp(prefix="seedsuite_", dir="/tmp"); os.rmdir(wt)
res = {"applied": [], "skipped": []}
try:
    rc, o = sh(["git", "-C", "/repo", "worktree", "add", "--detach", wt]); assert rc == 0, o
    for it in items:
        d, l = it.split(":")
        diff = os.path.join(d, l + ".diff")
        rc, o = sh(["git", "-C", wt, "apply", diff])
        (res["applied"] if rc == 0 else res["skipped"]).append(it)
    env = dict(os.environ, PYTHONPATH=wt)
    t0 = time.time()
    rc, o = sh(["/venv/bin/python", "-m", "pytest", "-q", "-p", "no:cacheprovider", "--timeout=900", "-n", os.environ.get("SUITE_N", "14"), "test"], cwd=wt, env=env)
    res["rc"] = rc
    res["wall_s"] = round(time.time() - t0)
    res["summary"] = [l for l in o.splitlines() if re.search(r"\d+ passed|\d+ failed", l)][-1:]
    res["failed"] = sorted(set(re.findall(r"^FAILED (\S+)", o, re.M)))
    res["errors"] = sorted(set(re.findall(r"^ERROR (\S+)", o, re.M)))
finally:
    sh(["git", "-C", "/repo", "worktree", "remove", "--force", wt]); shutil.rmtree(wt, ignore_errors=True)
json.dump(res, open(out_path, "w"), indent=1)
print(json.dumps(res))
