#!/usr/bin/env python3
"""Generates /verif/MANIFEST.json from the table below (single source of truth)."""
import json, os
HERE = os.path.dirname(os.path.dirname(os.path.abspath(__file__)))
PROPS = [json.loads(l) for l in open(os.path.join(HERE, "properties.jsonl"))]
IDS = [p["id"] for p in PROPS]

# id -> (level, technique, level text, level note, design ref)
MC = "model_checking"
CHECKS = {}

def comp(pid, spec, what, note="", ref="5"):
    CHECKS[pid] = (MC,
        f"TLA+ spec {spec} model-checked by TLC (invariant + step property), every model transition replayed into the real "
        f"circuit (edge cover), implementation traces validated by TLC against the same spec",
        f"{what}: exhaustive TLC exploration of the bounded model, 100% transition coverage of that model replayed into the "
        f"implementation, and seeded random implementation histories in larger configurations judged cycle by cycle by the trace spec.",
        note or "Bounded constants; Amaranth's Python simulator is trusted to be faithful to the netlist; only public signals observed.",
        ref)

exec(open(os.path.join(HERE, "tools", "manifest_table.py")).read())

checks = []
for pid in IDS:
    if pid not in CHECKS:
        continue
    level, tech, text, note, ref = CHECKS[pid]
    checks.append({
        "property_id": pid,
        "quick_cmd": f"./check {pid} --tier quick",
        "thorough_cmd": f"./check {pid} --tier thorough",
        "evidence_file": f"/verif/evidence/{pid}.json",
        "replay_cmd_template": f"./check {pid} --replay {{path}}",
        "engine": "tlc+pysim",
        "level_claimed": {"category": level, "text": text, "design_ref": "DESIGN.md section " + ref},
        "level_note": note,
        "technique": tech,
    })
na = [{"property_id": pid, "reason": NOT_APPLICABLE.get(pid, "check not built yet in this session (planned in DESIGN.md section 5); not claimed until its check exists and is quiet on the unchanged tree")}
      for pid in IDS if pid not in CHECKS]
man = {
    "version": 1,
    "setup_cmd": "./setup.sh",
    "hooks": {
        "guard": "KUZNIA_RDZENI_TRANSACTRON_VERIF",
        "enable": "no source hooks are needed: checks import /repo's working tree (editable install in /venv) and observe public signals in the Amaranth simulator",
        "baseline_off_cmd": "cd /repo && /venv/bin/python -m pytest -ra -q -p no:cacheprovider --timeout=900 --continue-on-collection-errors",
        "source_commits": HOOK_COMMITS,
        "add_only": True,
    },
    "engines": [
        {"name": "tlc+pysim", "path": "/verif/check", "serves_properties": [c["property_id"] for c in checks],
         "kind_free_text": "TLA+ specifications under /verif/specs checked by TLC 1.8 (exhaustive model checking, edge dump for spec->code replay, batch trace validation for code->spec) bound to the implementation elaborated from /repo and simulated with Amaranth's Python simulator"},
    ],
    "checks": checks,
    "notes": NOTES,
    "not_applicable": na,
}
json.dump(man, open(os.path.join(HERE, "MANIFEST.json"), "w"), indent=1)
print("checks:", len(checks), "not claimed:", len(na))
