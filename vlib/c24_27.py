"""Helper shared by props/C24.py .. C27.py (allocators, CAM).

Wraps vlib.comp without changing it:

* `model_check_fast`: same as comp.model_check, but the MC module is instantiated from
  specs/tpl/CompMC.tla with the `ArgsFor` line replaced by a recursive product over the
  per-method argument domains.  The template's `[S -> UNION ArgDom]` filter enumerates
  |union|^|S| functions per state, which takes minutes for components with 8 methods and a
  16-value argument; the product enumerates exactly the admissible candidates.  Semantics
  are identical (same set of call functions).  If the template line is not found (template
  changed), the template is used unchanged.
* `check`: MC (+ optional second, larger MC pass without edge dump selected through the
  environment variable VERIF_MC_SET read by the spec with IOEnv) + edge replay + trace
  recording/validation + corrupt self-test, i.e. comp.standard_check with the fast MC.
* `MaskedCall`: a harness-side adapter that looks like a Method to vlib.drive.Harness and
  forces don't-care parts of a method's result to zero in hardware (e.g. CAM read data when
  not_found), so that neither the edge replay nor the trace validation constrains values
  the property leaves open.
"""
from __future__ import annotations

import os
import random
import time

from . import tlc
from . import comp as _comp

_OLD = ("ArgsFor(S) == {f \\in [S -> UNION {C!ArgDom(cfg, m) : m \\in S}] : "
        "\\A m \\in S : f[m] \\in C!ArgDom(cfg, m)}")
_NEW = ("RECURSIVE ArgsFor(_)\n"
        "ArgsFor(S) == IF S = {} THEN {<<>>}\n"
        "              ELSE LET m == CHOOSE x \\in S : TRUE\n"
        "                   IN {(m :> a) @@ f : a \\in C!ArgDom(cfg, m), f \\in ArgsFor(S \\ {m})}")


def mc_text(spec: str) -> str:
    text = tlc.instantiate("CompMC.tla", {"NAME": spec})
    if _OLD in text:
        text = text.replace(_OLD, _NEW)
    return text


def model_check_fast(comp, rep, emit=True, workers=1, timeout=3000, env=None, label=""):
    res = tlc.run(comp.spec + "MC", _comp.MC_CFG if emit else _comp.MC_CFG_NOEMIT,
                  extra_modules={comp.spec + "MC": mc_text(comp.spec)}, workers=workers, timeout=timeout,
                  env=env or {})
    if res.invariant_violated:
        rep.violation({"component": comp.name, "what": f"model violates {res.invariant_violated}",
                       "clauses": ["MC:" + res.invariant_violated], "tlc_tail": res.out.splitlines()[-60:]})
        return res, [], []
    tlc.require_ok(res, comp.spec + "MC")
    rep.add("states", res.distinct)
    rep.add("transitions", res.generated)
    edges = tlc.tagged(res, "EDGE") if emit else []
    inits = tlc.tagged(res, "INIT") if emit else []
    rep.coverage.setdefault("mc", []).append(
        {"module": comp.spec + "MC", "pass": label, "distinct_states": res.distinct,
         "states_generated": res.generated, "depth": res.depth, "edges": len(edges),
         "configs": len(tlc.tagged(res, "INIT")), "wall_s": round(res.wall_s, 2)})
    return res, edges, inits


def check(comp, rep, *, trace_cfgs, seeds_per_cfg, cycles, mc_set="quick", big_set=None, big_workers=None,
          max_walk=40):
    """MC on Configs selected by VERIF_MC_SET=<mc_set> with edge dump + replay of every edge;
    optional second MC pass on VERIF_MC_SET=<big_set> without edge dump (model only);
    then record / validate traces and run the corrupt-a-field self-test."""
    t = {}
    if big_workers is None:
        big_workers = max(1, min(8, int(os.environ.get("VERIF_PROCS", "16"))))
    t0 = time.time()
    res, edges, inits = model_check_fast(comp, rep, emit=True, env={"VERIF_MC_SET": mc_set}, label=mc_set)
    t["mc"] = time.time() - t0
    if big_set:
        t0 = time.time()
        model_check_fast(comp, rep, emit=False, workers=big_workers, env={"VERIF_MC_SET": big_set}, label=big_set)
        t["mc_big"] = time.time() - t0
    t0 = time.time()
    if edges:
        _comp.replay_edges(comp, edges, inits, rep, rep.pid, max_len=max_walk)
    t["replay"] = time.time() - t0
    t0 = time.time()
    traces = _comp.record_traces(comp, trace_cfgs, seeds_per_cfg, cycles, rep.seed, rep)
    t["record"] = time.time() - t0
    for k, v in _comp.trace_stats(comp, traces).items():
        rep.add("impl_" + k, v)
    t0 = time.time()
    _comp.validate_traces(comp, traces, rep, rep.pid)
    t["validate"] = time.time() - t0
    _comp.corrupt_self_test(comp, traces, rep, random.Random(rep.seed))
    if traces:
        tr = traces[0]
        rep.sample({"kind": "impl-trace", "cfg": tr["cfg"], "first_cycles": tr["cycles"][:3]})
    rep.coverage["stage_wall_s"] = {k: round(v, 1) for k, v in t.items()}
    return traces


STEP_EXTRA = ("StepPropHolds == C!StepProp(cfg, st, Calls, [m \\in DOMAIN Calls |-> Line[m].out], "
              "C!CNext(cfg, st, Calls))\nInvHolds == C!Inv(cfg, st)")
STEP_EXTRA_NAMES = ["StepPropHolds", "InvHolds"]


class MaskedCall:
    """Quacks like a Method for vlib.drive.Harness (layout_in, layout_out, __call__(m, arg)).
    `mask(m, arg, out, masked)` adds the statements that copy `out` to `masked`, zeroing the
    parts the property leaves open."""

    def __init__(self, method, mask):
        self.method = method
        self.layout_in = method.layout_in
        self.layout_out = method.layout_out
        self._mask = mask

    def __call__(self, m, arg):
        from amaranth import Signal
        out = self.method(m, arg)
        masked = Signal(self.layout_out)
        self._mask(m, arg, out, masked)
        return masked
