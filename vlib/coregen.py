"""Generator of transactron *designs* (programs): one description is (a) built into a real
circuit with the public API and (b) emitted as the JSON value `D` that specs/core/TxnCore.tla
interprets.  All ids in the JSON are 1-based; 0 means "none"/"constant 1".

Tree node kinds (dicts):
  if     {t, sid, alts:[{cond: input|0 (0 = Else), ch:[...]}]}
  switch {t, sid, test:[i_lo, i_hi], cases:[{pat: int|-1 (-1 = Default), ch:[...]}]}
  fsm    {t, sid, states:[{ch:[...], nxt:[[input, target_state]]}]}
  body   {t, b}                       (definition of body b; its children are bodies[b].ch)
  call   {t, s}
  wit    {t, w}
"""
from __future__ import annotations

import random
import warnings
from functools import reduce

warnings.simplefilter("ignore")

NARGBITS = 2


# ---------------------------------------------------------------------------------------
# random generation

class Gen:
    def __init__(self, rng: random.Random, **opt):
        self.r = rng
        self.opt = dict(
            max_t=4, max_m=4, p_nonexcl=0.25, p_nested=0.15, p_struct=0.45, p_alias=0.2,
            p_rel=0.5, p_two_mods=0.2, p_fsm=0.12, p_wit=0.5, p_validate=0.2, p_enable=0.3,
            p_defect=0.0, sched="eager", p_body_in_struct=0.15, rdep_rel=True, nested=True,
            p_rdyrun=0.0, p_badrun=0.0, p_chain=0.0, p_relalias=0.0, p_xmod=0.0, p_constenable=0.0, p_always=0.0, wit_rounds=1, p_fwdarg=0.0, fwd_safe=True, p_xcall=0.0, p_dblrel=0.0, p_widecond=0.0, p_rdepconf=0.0, p_orx=0.0, p_sugar=0.0, sugar_mode="",
        )
        self.opt.update(opt)
        self.nin = 0
        self.nargs = 0
        self.structs = []   # flattened later
        self.bodies = []
        self.sites = []
        self.wits = []
        self.rels = []
        self.const0 = []

    def inp(self):
        self.nin += 1
        return self.nin

    def arg(self):
        self.nargs += 1
        return self.nargs

    def design(self):
        r, o = self.r, self.opt
        nt = r.randint(1, o["max_t"])
        nm = r.randint(1, o["max_m"])
        nmods = 2 if r.random() < o["p_two_mods"] else 1
        # bodies: methods first (so that callee ids are known), then transactions
        for i in range(nm):
            nonexcl = r.random() < o["p_nonexcl"]
            hasarg = (r.random() < 0.5) if nonexcl else (r.random() < 0.8)
            self.bodies.append(dict(
                kind="M", ready=self.inp() if r.random() < 0.8 else 0, nonexcl=nonexcl,
                single=r.random() < 0.04, hasarg=hasarg,
                validate=1 if (hasarg and r.random() < o["p_validate"]) else 0,
                # custom combiners of nonexclusive methods: "or" (OR of the active arguments) and "orx" (the same,
                # XOR 1: not the identity even when a single call is active)
                comb=(r.choice(["or", "orx"]) if o["p_orx"] > 0 and r.random() < o["p_orx"] else "or") if (nonexcl and hasarg) else "mux",
                parent=0, ch=[],
                mod=(2 if (nmods == 2 and r.random() < 0.5) else 1), alias=0))
        for i in range(nt):
            self.bodies.append(dict(
                kind="T", ready=self.inp() if r.random() < 0.85 else 0, nonexcl=False, single=False,
                hasarg=False, validate=0, comb="mux", parent=0, ch=[], mod=1, alias=0))
            if o["p_always"] > 0 and r.random() < o["p_always"]:
                self.bodies[-1]["always"] = True
        nb = len(self.bodies)
        meths = [b + 1 for b in range(nm)]
        trans = [b + 1 for b in range(nm, nb)]
        # nesting: a body may be defined inside an earlier-emitted body of the same module
        order = trans + meths  # emission order at top level: transactions then methods (any order is legal)
        r.shuffle(order)
        roots = {1: [], 2: []}
        placed = []
        for b in order:
            B = self.bodies[b - 1]
            cands = [p for p in placed if self.bodies[p - 1]["mod"] == B["mod"]]
            if o["nested"] and cands and r.random() < o["p_nested"]:
                B["parent"] = r.choice(cands)
            placed.append(b)
        # content of bodies: methods with the largest id first (their reach is then known)
        self.reach = {}
        for b in sorted(meths, reverse=True) + trans:
            B = self.bodies[b - 1]
            used = set()
            B["ch"] = self.content(b, meths, 0, used)
            self.reach[b] = used
        # cross-module pair: body xa is defined under the If-alternative of the FIRST control structure of module 1,
        # body xb under the Else-alternative of the FIRST control structure of module 2, and they are related by
        # add_conflict.  Alternatives of structures of different modules are not mutually exclusive.
        xpair = {}
        if o["p_xmod"] > 0 and nmods == 2 and r.random() < o["p_xmod"]:
            c1 = [b for b in order if self.bodies[b - 1]["mod"] == 1 and not self.bodies[b - 1]["parent"]]
            c2 = [b for b in order if self.bodies[b - 1]["mod"] == 2 and not self.bodies[b - 1]["parent"]]
            if c1 and c2:
                xa, xb = r.choice(c1), r.choice(c2)
                if r.random() < 0.5:
                    xpair = {xa: 0, xb: 1}
                else:
                    xpair = {xa: 1, xb: 0}
                self.rels.append(dict(a=xa, b=xb, kind="conflict", prio=r.choice(["U", "L", "R"]), rdep=False))
        # cross-module call sites: two transactions living in DIFFERENT modules are the first definition of their
        # module, and each calls the same exclusive method x inside its first control structure -- one in the If
        # alternative, the other in the Else alternative.  Call sites in different modules are never structurally
        # exclusive, so the two transactions conflict.
        first = {}
        if o["p_xcall"] > 0 and nmods == 2 and r.random() < o["p_xcall"]:
            free = [b for b in trans if not self.bodies[b - 1]["parent"]
                    and not any(B2["parent"] == b for B2 in self.bodies)]
            xs = [x for x in meths if not self.bodies[x - 1]["nonexcl"]]
            if len(free) >= 2 and xs:
                t1, t2 = r.sample(free, 2)
                x = r.choice(xs)
                self.bodies[t2 - 1]["mod"] = 2
                self.bodies[t1 - 1]["ch"].insert(0, {"t": "if", "alts": [{"cond": self.inp(), "ch": [self.call(t1, x)]}]})
                self.bodies[t2 - 1]["ch"].insert(0, {"t": "if", "alts": [{"cond": self.inp(), "ch": []},
                                                                        {"cond": 0, "ch": [self.call(t2, x)]}]})
                first = {t1: 1, t2: 1}
        # place definitions
        for b in order:
            B = self.bodies[b - 1]
            node = {"t": "body", "b": b}
            if b in first:
                roots[B["mod"]].insert(0, node)
                continue
            if b in xpair:
                alts = [{"cond": self.inp(), "ch": []}, {"cond": 0, "ch": []}]
                alts[xpair[b]]["ch"].append(node)
                roots[B["mod"]].insert(0, {"t": "if", "alts": alts})
                continue
            if B["parent"]:
                self.insert_somewhere(self.bodies[B["parent"] - 1]["ch"], node)
            elif r.random() < o["p_body_in_struct"]:
                # definition under an alternative of a top-level structure
                roots[B["mod"]].append(self.wrap_in_struct(node))
            else:
                roots[B["mod"]].append(node)
        # definition order (module 1 is elaborated before its submodule)
        deford = []

        def pre(nodes):
            for n in nodes:
                if n["t"] == "body":
                    deford.append(n["b"])
                    pre(self.bodies[n["b"] - 1]["ch"])
                for key in ("alts", "cases", "states"):
                    if key in n:
                        for a in n[key]:
                            pre(a["ch"])
        pre(roots[1]); pre(roots[2])
        rank = {b: i for i, b in enumerate(deford)}
        allb = list(range(1, nb + 1))
        if r.random() < o["p_rel"] and nb >= 2:
            for _ in range(r.randint(1, 2)):
                a, c = r.sample(allb, 2)
                if r.random() < 0.6:
                    self.rels.append(dict(a=a, b=c, kind="conflict", prio=r.choice(["U", "U", "L", "R"]), rdep=False))
                else:
                    # schedule_before(a, c) needs a defined before c: a usage rule of the library, not one of
                    # C11's listed defects, so it is never broken on purpose (designs that break it are
                    # outside C11's quantifier; TxnCore!LateBefore)
                    if rank[a] > rank[c]:
                        r.random()  # keeps the random stream of earlier versions
                        a, c = c, a
                    self.rels.append(dict(a=a, b=c, kind="before", prio="L",
                                          rdep=o["rdep_rel"] and r.random() < 0.3))
        # the same ordered pair related twice: add_conflict and schedule_before on (a, c), declared in either order
        if o["p_dblrel"] > 0 and nb >= 2 and r.random() < o["p_dblrel"]:
            a, c = r.sample(trans, 2) if (nt >= 2 and r.random() < 0.7) else r.sample(allb, 2)
            if rank[a] > rank[c]:
                a, c = c, a
            two = [dict(a=a, b=c, kind="conflict", prio=r.choice(["U", "U", "L"]), rdep=False),
                   dict(a=a, b=c, kind="before", prio="L", rdep=False)]
            r.shuffle(two)
            self.rels += two
        # a ready-dependent ordering between two transactions that conflict through a shared exclusive method
        # (the library must refuse it: it would deadlock)
        if o["p_rdepconf"] > 0 and nt >= 2 and r.random() < o["p_rdepconf"]:
            xs = [x for x in meths if not self.bodies[x - 1]["nonexcl"]]
            t1, t2 = r.sample(trans, 2)
            if rank[t1] > rank[t2]:
                t1, t2 = t2, t1
            if xs:
                x = r.choice(xs)
                for t in (t1, t2):
                    if not any(s["caller"] == t and s["callee"] == x for s in self.sites):
                        self.bodies[t - 1]["ch"].append(self.call(t, x))
                self.rels.append(dict(a=t1, b=t2, kind="before", prio="L", rdep=True))
        # a relation may be declared on a forwarding method (Method.provide) instead of on the method itself;
        # it then relates the underlying method (aal / bal = length of the provide() chain at that endpoint)
        for rel in self.rels:
            for end, key in ((rel["a"], "aal"), (rel["b"], "bal")):
                rel[key] = r.randint(1, 2) if (o["p_relalias"] > 0 and self.bodies[end - 1]["kind"] == "M"
                                               and r.random() < o["p_relalias"]) else 0
        # priority chains: t0 - t1 - t2 (- t3) conflict pairwise along a path, the ends do not conflict; with
        # LEFT/RIGHT priorities the middle transaction sits between its neighbours in the scheduling order, so
        # "blocked by a neighbour that itself lost" is distinguishable from "blocked by a running neighbour"
        if o["p_chain"] > 0 and nt >= 3 and r.random() < o["p_chain"]:
            path = trans[:]
            r.shuffle(path)
            path = path[:r.randint(3, len(path))]
            mode = r.choice(["L", "L", "R", "mixed", "U"])
            for x, y in zip(path, path[1:]):
                prio = mode if mode in ("L", "R", "U") else r.choice(["L", "R", "U"])
                self.rels.append(dict(a=x, b=y, kind="conflict", prio=prio, rdep=False))
        # run-dependent readiness (Forwarder/Pipe style): ready = input | run(a) or input & ~run(a) where a
        # is declared earlier by nesting or schedule_before (rule of C10); p_badrun breaks the rule on purpose
        for b in allb:
            B = self.bodies[b - 1]
            B["rdyrun"], B["rdymode"] = 0, "or"
            if r.random() >= o["p_rdyrun"]:
                continue
            B["rdymode"] = r.choice(["or", "andnot"])
            if r.random() < o["p_badrun"]:
                others = [a for a in allb if a != b]
                if others:
                    B["rdyrun"] = r.choice(others)
                    B["badrun"] = True
                continue
            if B["parent"] and r.random() < 0.5:
                B["rdyrun"] = B["parent"]
                continue
            earlier = [a for a in allb if rank[a] < rank[b]]
            if earlier:
                a = r.choice(earlier)
                B["rdyrun"] = a
                if not any(x["kind"] == "before" and x["a"] == a and x["b"] == b for x in self.rels):
                    self.rels.append(dict(a=a, b=b, kind="before", prio="L", rdep=o["rdep_rel"] and r.random() < 0.3))
        if o["p_fwdarg"] > 0 and o["fwd_safe"]:
            # keep out of the region of the known C10 finding (a forwarding method with several call sites in
            # front of a validating method elaborates into a combinational cycle: the simulation would not settle)
            while True:
                bad = unsafe_forwarders(self.bodies, self.sites)
                if not bad:
                    break
                s = bad[0]
                s["argk"], s["argv"] = "c", r.randint(0, 3)
        return dict(nin=self.nin, nargs=self.nargs, bodies=self.bodies, sites=self.sites, wits=self.wits,
                    rels=self.rels, sched=o["sched"], roots=[roots[1], roots[2]], nmods=nmods, const0=self.const0,
                    widecond=o["p_widecond"] > 0 and r.random() < o["p_widecond"],
                    # construction style of the methods (same design, other API path): "" = Method.body,
                    # "dm" = @def_method (arg / named / **kwargs parameter forms, dict or struct result),
                    # "vec" = Methods vectors, @def_methods over adjacent bodies, Methods.provide / Methods.__call__
                    sugar=((o["sugar_mode"] or r.choice(["dm", "vec"])) if o["p_sugar"] > 0 and r.random() < o["p_sugar"] else ""))

    def wrap_in_struct(self, node):
        r = self.r
        if r.random() < 0.7:
            alts = [{"cond": self.inp(), "ch": []}]
            if r.random() < 0.6:
                alts.append({"cond": 0, "ch": []})
            r.choice(alts)["ch"].append(node)
            return {"t": "if", "alts": alts}
        cases = [{"pat": 0, "ch": []}, {"pat": 1, "ch": []}]
        if r.random() < 0.5:
            cases.append({"pat": -1, "ch": []})
        r.choice(cases)["ch"].append(node)
        return {"t": "switch", "test": [self.inp(), self.inp()], "cases": cases}

    def insert_somewhere(self, ch, node):
        r = self.r
        spots = [ch]

        def rec(nodes):
            for n in nodes:
                if n["t"] == "if":
                    for a in n["alts"]:
                        spots.append(a["ch"]); rec(a["ch"])
                elif n["t"] == "switch":
                    for c in n["cases"]:
                        spots.append(c["ch"]); rec(c["ch"])
                elif n["t"] == "fsm":
                    for s in n["states"]:
                        spots.append(s["ch"]); rec(s["ch"])
        rec(ch)
        r.choice(spots).append(node)

    def call(self, caller, callee):
        r, o = self.r, self.opt
        C = self.bodies[callee - 1]
        s = dict(caller=caller, callee=callee, en=self.inp() if r.random() < o["p_enable"] else 0,
                 argk="n", argv=0, alias=r.randint(1, 3) if r.random() < o["p_alias"] else 0)
        # a constant enable_call (elaboration-time flag): constant false is modelled as an input that every
        # valuation drives to 0 (design["const0"]) while the circuit gets the Python/Amaranth constant
        if o["p_constenable"] > 0 and r.random() < o["p_constenable"]:
            if r.random() < 0.6:
                if not s["en"]:
                    s["en"] = self.inp()
                s["enc"] = r.choice(["F", "0", "C0"])
                self.const0.append(s["en"])
            else:
                s["en"] = 0
                s["enc"] = r.choice(["T", "C1"])
        if C["hasarg"] and o["p_fwdarg"] > 0 and self.bodies[caller - 1]["kind"] == "M" and self.bodies[caller - 1]["hasarg"] \
                and not self.bodies[caller - 1]["nonexcl"] and r.random() < o["p_fwdarg"]:
            s["argk"], s["argv"] = "f", r.randint(0, 3)
        elif C["hasarg"]:
            if r.random() < 0.7:
                s["argk"], s["argv"] = "i", self.arg()
            else:
                s["argk"], s["argv"] = "c", r.randint(0, 3)
        self.sites.append(s)
        return {"t": "call", "s": len(self.sites)}

    def content(self, b, meths, depth, used):
        """`used`: exclusive methods already reached on the current (non-exclusive) path of body b;
        a callee whose reach intersects it would be a double call and is skipped (except with
        probability p_defect, to produce deliberately ill-formed designs)."""
        r, o = self.r, self.opt
        B = self.bodies[b - 1]
        callees = [m for m in meths if B["kind"] == "T" or m > b]
        if o["p_defect"] and r.random() < o["p_defect"] * 0.25 and B["kind"] == "M":
            callees = list(meths)  # may create recursion
        out = []
        n_items = r.choice([0, 1, 1, 2, 2, 3]) if depth == 0 else r.choice([0, 1, 1, 2])
        for _ in range(n_items):
            x = r.random()
            if x < o["p_struct"] and depth < 2:
                out.append(self.struct(b, meths, depth, used))
            elif callees:
                c = r.choice(callees)
                C = self.bodies[c - 1]
                new = set(self.reach.get(c, set()))
                if not C["nonexcl"]:
                    new.add(c)
                if (new & used) and r.random() >= o["p_defect"]:
                    continue
                if C["nonexcl"] and c in getattr(self, "_ne_used", {}).get(b, set()) and new and r.random() >= o["p_defect"]:
                    continue
                self.__dict__.setdefault("_ne_used", {}).setdefault(b, set()).add(c)
                used |= new
                out.append(self.call(b, c))
        if r.random() < o["p_wit"] and depth == 0:
            for _ in range(o["wit_rounds"]):
                for dom in r.sample(["comb", "sync", "av", "top"], r.randint(1, 4)):
                    self.wits.append(dict(dom=dom))
                    self.insert_somewhere(out, {"t": "wit", "w": len(self.wits)})
        return out

    def alts_content(self, b, meths, depth, used, n):
        """content of n mutually exclusive alternatives: each starts from the same `used`."""
        res, tot = [], set(used)
        for _ in range(n):
            u = set(used)
            res.append(self.content(b, meths, depth + 1, u))
            tot |= u
        used |= tot
        return res

    def struct(self, b, meths, depth, used):
        r, o = self.r, self.opt
        x = r.random()
        if x < o["p_fsm"]:
            ns = r.randint(2, 3)
            chs = self.alts_content(b, meths, depth, used, ns)
            states = []
            for i in range(ns):
                nxt = [[self.inp(), r.choice([j for j in range(1, ns + 1) if j != i + 1])]]
                states.append({"ch": chs[i], "nxt": nxt})
            return {"t": "fsm", "states": states}
        if x < 0.7:
            na = r.choice([1, 2, 2, 3])
            chs = self.alts_content(b, meths, depth, used, na)
            alts = []
            for i in range(na):
                last = i == na - 1 and na > 1 and r.random() < 0.6
                alts.append({"cond": 0 if last else self.inp(), "ch": chs[i]})
            return {"t": "if", "alts": alts}
        pats = r.sample([0, 1, 2, 3], r.randint(1, 3))
        hasd = r.random() < 0.5
        chs = self.alts_content(b, meths, depth, used, len(pats) + (1 if hasd else 0))
        cases = [{"pat": p, "ch": chs[i]} for i, p in enumerate(pats)]
        if hasd:
            cases.append({"pat": -1, "ch": chs[-1]})
        return {"t": "switch", "test": [self.inp(), self.inp()], "cases": cases}


def unsafe_forwarders(bodies, sites):
    """Forwarding sites ("f") of methods that have (transitively, through forwarding) two or more call sites and
    whose forwarded value reaches a method with validate_arguments: the shape of the known C10 finding."""
    ncallers = {}
    for s in sites:
        ncallers[s["callee"]] = ncallers.get(s["callee"], 0) + 1

    def reaches_validated(m, seen=()):
        for s in sites:
            if s["caller"] == m and s["argk"] == "f":
                c = s["callee"]
                if bodies[c - 1]["validate"] or (c not in seen and reaches_validated(c, seen + (m,))):
                    return True
        return False

    def multi(m, seen=()):
        if ncallers.get(m, 0) >= 2:
            return True
        return any(s["callee"] == m and s["argk"] == "f" and s["caller"] not in seen and multi(s["caller"], seen + (m,))
                   for s in sites)

    out = []
    for s in sites:
        if s["argk"] != "f":
            continue
        m, c = s["caller"], s["callee"]
        if multi(m) and (bodies[c - 1]["validate"] or reaches_validated(c)):
            out.append(s)
    return out


def ring_design(rng: random.Random, sched="eager"):
    """Forwarder-style producer / consumer pair plus arbiters: method w, method r whose readiness reads run(w)
    (w.schedule_before(r)), transactions P (calls w), C (calls r) that do NOT conflict with each other, and one or
    two further transactions that share exclusive resource methods with P and C.  The ordering edge between P and C
    constrains the scheduling order only transitively; definition order of the transactions is random."""
    g = Gen(rng, sched=sched)
    r = rng

    def meth(ready=True, **kw):
        g.bodies.append(dict(kind="M", ready=g.inp() if ready else 0, nonexcl=False, single=False, hasarg=False,
                             validate=0, comb="mux", parent=0, ch=[], mod=1, alias=0, rdyrun=0, rdymode="or", **kw))
        return len(g.bodies)

    def trans():
        g.bodies.append(dict(kind="T", ready=g.inp() if r.random() < 0.8 else 0, nonexcl=False, single=False,
                             hasarg=False, validate=0, comb="mux", parent=0, ch=[], mod=1, alias=0, rdyrun=0, rdymode="or"))
        return len(g.bodies)

    w, rd = meth(), meth()
    g.bodies[rd - 1]["rdyrun"] = w
    g.bodies[rd - 1]["rdymode"] = r.choice(["or", "or", "andnot"])
    P, C = trans(), trans()
    others = [trans() for _ in range(r.choice([1, 2, 2, 2, 3]))]
    g.bodies[P - 1]["ch"].append(g.call(P, w))
    g.bodies[C - 1]["ch"].append(g.call(C, rd))
    # P and C never share a resource (they must not conflict); every further transaction x conflicts with P, with C
    # or with both, through resource methods of its own (usually) or shared with an earlier x (sometimes)
    res, res_p, res_c = [], [], []
    for k, x in enumerate(others):
        # the second one usually conflicts with P only: P then has more conflicts than C, and the default
        # tie-break (fewest conflicts first) would like to schedule C before P
        mode = "both" if k == 0 else ("p" if (k == 1 and r.random() < 0.7) else r.choice(["both", "p", "c"]))
        pairs = []
        if mode in ("both", "p"):
            ra = r.choice(res_p) if (res_p and r.random() < 0.25) else meth(ready=r.random() < 0.5)
            res_p.append(ra)
            pairs += [(P, ra), (x, ra)]
        if mode in ("both", "c"):
            rb = r.choice(res_c) if (res_c and r.random() < 0.25) else meth(ready=r.random() < 0.5)
            res_c.append(rb)
            pairs += [(C, rb), (x, rb)]
        for t, m in pairs:
            if m not in res:
                res.append(m)
            if not any(n["t"] == "call" and g.sites[n["s"] - 1]["callee"] == m for n in g.bodies[t - 1]["ch"]):
                g.bodies[t - 1]["ch"].append(g.call(t, m))
    # variant: the producer and the consumer are ALSO related by an unprioritised add_conflict declared (on two
    # further methods, defined and related first) before the ordering of w and r: the same pair of transactions
    # is related twice, and only the second relation carries the order
    pre = []
    if r.random() < 0.4:
        store, load = meth(ready=r.random() < 0.5), meth(ready=r.random() < 0.5)
        g.bodies[P - 1]["ch"].append(g.call(P, store))
        g.bodies[C - 1]["ch"].append(g.call(C, load))
        g.rels.append(dict(a=store, b=load, kind="conflict", prio="U", rdep=False))
        pre = [store, load]
    for s in g.sites:
        s["en"], s["alias"] = 0, 0
    g.rels.append(dict(a=w, b=rd, kind="before", prio="L", rdep=False))
    ts = [P, C] + others
    r.shuffle(ts)
    root = [{"t": "body", "b": b} for b in pre + [w, rd] + res + ts]
    return dict(nin=g.nin, nargs=g.nargs, bodies=g.bodies, sites=g.sites, wits=g.wits, rels=g.rels, sched=sched,
                roots=[root, []], nmods=1, const0=[])


def def_order(design):
    """Definition order of bodies (module 1 is elaborated before its submodule; preorder)."""
    order = []
    bodies = design["bodies"]

    def pre(nodes):
        for n in nodes:
            if n["t"] == "body":
                order.append(n["b"])
                pre(bodies[n["b"] - 1]["ch"])
            for key in ("alts", "cases", "states"):
                if key in n:
                    for a in n[key]:
                        pre(a["ch"])
    for root in design["roots"]:
        pre(root)
    return {b: i for i, b in enumerate(order)}


def orient_rels(design):
    """schedule_before(a, b) is only legal when a is defined before b."""
    rank = def_order(design)
    for rel in design["rels"]:
        if rel["kind"] == "before" and rank[rel["a"]] > rank[rel["b"]]:
            rel["a"], rel["b"] = rel["b"], rel["a"]


# ---------------------------------------------------------------------------------------
# flattening into the JSON value D interpreted by TxnCore.tla

def flatten(design):
    """Adds positions (`pos`) to bodies / sites / wits and the `structs` table; returns the
    JSON-able value for TLC (tree children removed)."""
    structs = []
    bodies = design["bodies"]
    sites = design["sites"]
    wits = design["wits"]
    nin = design["nin"]
    pseudo = []  # pseudo inputs (FSM ongoing flags) appended after the real inputs

    def new_struct(s):
        structs.append(s)
        return len(structs)

    def walk(nodes, pos, mod):
        for n in nodes:
            t = n["t"]
            if t == "if":
                sid = new_struct({"kind": "If", "conds": [a["cond"] for a in n["alts"] if a["cond"]],
                                  "els": any(a["cond"] == 0 for a in n["alts"]), "test": [], "pats": [],
                                  "dflt": False, "obs": [], "body": 0})
                n["sid"] = sid
                for k, a in enumerate(n["alts"]):
                    walk(a["ch"], pos + [[sid, k + 1]], mod)
            elif t == "switch":
                sid = new_struct({"kind": "Switch", "conds": [], "els": False, "test": n["test"],
                                  "pats": [c["pat"] for c in n["cases"] if c["pat"] >= 0],
                                  "dflt": any(c["pat"] < 0 for c in n["cases"]), "obs": [], "body": 0})
                n["sid"] = sid
                for k, c in enumerate(n["cases"]):
                    walk(c["ch"], pos + [[sid, k + 1]], mod)
            elif t == "fsm":
                obs = []
                for _ in n["states"]:
                    pseudo.append(None)
                    obs.append(nin + len(pseudo))
                sid = new_struct({"kind": "FSM", "conds": [], "els": False, "test": [], "pats": [],
                                  "dflt": False, "obs": obs, "body": 0})
                n["sid"] = sid
                n["obs"] = obs
                for k, s in enumerate(n["states"]):
                    walk(s["ch"], pos + [[sid, k + 1]], mod)
            elif t == "body":
                b = n["b"]
                B = bodies[b - 1]
                B["pos"] = list(pos)
                sid = new_struct({"kind": "Body", "conds": [], "els": False, "test": [], "pats": [],
                                  "dflt": False, "obs": [], "body": b})
                B["sid"] = sid
                walk(B["ch"], pos + [[sid, 1]], mod)
            elif t == "call":
                S = sites[n["s"] - 1]
                if S["en"]:
                    # enable_call is lowered by the library to an If around the call
                    sid = new_struct({"kind": "If", "conds": [S["en"]], "els": False, "test": [], "pats": [],
                                      "dflt": False, "obs": [], "body": 0})
                    S["pos"] = pos + [[sid, 1]]
                else:
                    S["pos"] = list(pos)
            elif t == "wit":
                wits[n["w"] - 1]["pos"] = list(pos)

    for mi, root in enumerate(design["roots"]):
        walk(root, [], mi + 1)
    design["structs"] = structs
    design["npseudo"] = len(pseudo)
    D = {
        "nin": nin + len(pseudo), "nargs": design["nargs"], "sched": design["sched"],
        "bodies": [{**{k: B[k] for k in ("kind", "ready", "nonexcl", "single", "hasarg", "validate", "comb",
                                         "parent", "mod", "pos", "sid")},
                    "rdyrun": B.get("rdyrun", 0), "rdymode": B.get("rdymode", "or")} for B in bodies],
        "structs": structs,
        "sites": [{k: S[k] for k in ("caller", "callee", "pos", "argk", "argv")} for S in sites],
        "wits": [{"dom": w["dom"], "pos": w["pos"]} for w in wits],
        "rels": design["rels"],
    }
    return D


# ---------------------------------------------------------------------------------------
# building the real circuit

def build(design, scheduler=None, netlist_only=False):
    """Builds the real circuit.  Returns (simulator, handles).  Raises whatever elaboration
    raises for ill-formed designs."""
    from amaranth import Signal, Module, Elaboratable, Mux, Cat, Const
    from amaranth.sim import Simulator
    from types import SimpleNamespace
    from transactron import TModule, Method, Methods, Transaction, def_method, def_methods
    from transactron.core import TransactionManager, Priority
    from transactron.core.context import TransactronContextElaboratable
    from transactron.utils.dependencies import DependencyContext, DependencyManager

    bodies, sites, wits = design["bodies"], design["sites"], design["wits"]
    sugar = design.get("sugar", "")
    vecpos, vecobj = {}, {}
    H = type("H", (), {})()
    H.inp = [None] + [Signal(name=f"in{i}") for i in range(1, design["nin"] + 1)]
    H.pseudo = []
    H.arg = [None] + [Signal(NARGBITS, name=f"arg{i}") for i in range(1, design["nargs"] + 1)]
    H.mout = [None] + [Signal(NARGBITS, name=f"mout{i}") for i in range(1, len(bodies) + 1)]
    H.sres = [None] + [Signal(NARGBITS, name=f"sres{i}") for i in range(1, len(sites) + 1)]
    H.swit = [None] + [Signal(name=f"swit{i}") for i in range(1, len(sites) + 1)]
    H.wit = [None] + [Signal(name=f"wit{i}") for i in range(1, len(wits) + 1)]
    H.obj = [None] * (len(bodies) + 1)      # Method / Transaction objects
    H.fsm_obs = {}                          # pseudo input index -> Signal

    def sig(i):
        return H.inp[i] if i else Const(1)

    def rdy(B):
        base = sig(B["ready"])
        a = B.get("rdyrun", 0)
        if not a:
            return base
        return (base | H.obj[a].run) if B["rdymode"] == "or" else (base & ~H.obj[a].run)

    def or_combiner(m, args, runs):
        return {"a": reduce(lambda x, y: x | y, [Mux(runs[i], args[i].a, 0) for i in range(len(args))], Const(0, NARGBITS))}

    def orx_combiner(m, args, runs):
        return {"a": or_combiner(m, args, runs)["a"] ^ 1}

    def validator(a):
        return a != 3

    dm = DependencyManager()

    class Mod(Elaboratable):
        def __init__(self, root, sub=None):
            self.root, self.sub = root, sub

        def elaborate(self, platform):
            m = TModule()
            if self.sub is not None:
                m.submodules.sub = self.sub
            self.emit(m, self.root)
            return m

        def body_kw(self, B):
            kw = {}
            if B["nonexcl"]:
                kw["nonexclusive"] = True
                if B["hasarg"]:
                    kw["combiner"] = orx_combiner if B["comb"] == "orx" else or_combiner
            if B["validate"]:
                kw["validate_arguments"] = validator
            if B["single"]:
                kw["single_caller"] = True
            return kw

        def sugar_body(self, m, b, form):
            """The decorated function of @def_method / @def_methods for method b (parameter form 0..2)."""
            B = bodies[b - 1]

            def inner(argobj):
                self.argstack = getattr(self, "argstack", []) + [argobj]
                self.emit(m, B["ch"])
                self.argstack = self.argstack[:-1]
                if (b + form) % 2:
                    return {"r": H.mout[b]}
                out = Signal(H.obj[b].layout_out)
                m.d.top_comb += out.r.eq(H.mout[b])
                return out
            if form == 0:
                def f(arg):
                    return inner(arg)
            elif form == 1 and B["hasarg"]:
                def f(a):
                    return inner(SimpleNamespace(a=a))
            elif form == 1:
                def f():
                    return inner(SimpleNamespace())
            else:
                def f(**kwargs):
                    return inner(SimpleNamespace(**kwargs))
            return f

        def emit(self, m, nodes):
            skip = set()
            if sugar == "vec":
                # sibling order carries no meaning in the design: bring method bodies with equal parameters together
                def order(n):
                    if n["t"] == "body" and bodies[n["b"] - 1]["kind"] != "T":
                        X = bodies[n["b"] - 1]
                        return (0, bool(X["hasarg"]), bool(X["nonexcl"]), str(X.get("comb")), bool(X["validate"]), bool(X["single"]))
                    return (1,)
                nodes = sorted(nodes, key=order)
            for ni, n in enumerate(nodes):
                if ni in skip:
                    continue
                t = n["t"]
                if t == "body" and sugar and bodies[n["b"] - 1]["kind"] != "T":
                    b = n["b"]
                    B = bodies[b - 1]
                    if sugar == "dm":
                        def_method(m, H.obj[b], ready=rdy(B), **self.body_kw(B))(self.sugar_body(m, b, b % 3))
                        continue
                    # "vec": this body and the adjacent sibling method bodies with the same parameters
                    sig_of = lambda X: (X["hasarg"], X["nonexcl"], X.get("comb"), X["validate"], X["single"])  # noqa: E731
                    grp = [b]
                    for nj in range(ni + 1, len(nodes)):
                        n2 = nodes[nj]
                        if n2["t"] == "body" and bodies[n2["b"] - 1]["kind"] != "T" and sig_of(bodies[n2["b"] - 1]) == sig_of(B):
                            grp.append(n2["b"])
                            skip.add(nj)
                        else:
                            break
                    fs = [self.sugar_body(m, x, 0) for x in grp]

                    @def_methods(m, [H.obj[x] for x in grp], ready=lambda i: rdy(bodies[grp[i] - 1]), **self.body_kw(B))
                    def _(i, arg):
                        return fs[i](arg)
                    continue
                if t == "if":
                    def cnd(i, k):
                        # multi-bit condition values (non-zero means true): 2 * input, i.e. bit 0 always clear
                        if design.get("widecond") and (i + k) % 2 == 0:
                            return Cat(Const(0, 1), sig(i))
                        return sig(i)
                    for k, a in enumerate(n["alts"]):
                        cm = m.If(cnd(a["cond"], k)) if k == 0 else (m.Elif(cnd(a["cond"], k)) if a["cond"] else m.Else())
                        with cm:
                            self.emit(m, a["ch"])
                elif t == "switch":
                    with m.Switch(Cat(sig(n["test"][0]), sig(n["test"][1]))):
                        for c in n["cases"]:
                            with (m.Case(c["pat"]) if c["pat"] >= 0 else m.Default()):
                                self.emit(m, c["ch"])
                elif t == "fsm":
                    with m.FSM() as fsm:
                        for k, s in enumerate(n["states"]):
                            with m.State(f"S{k + 1}"):
                                self.emit(m, s["ch"])
                                for i, target in s["nxt"]:
                                    with m.If(sig(i)):
                                        m.next = f"S{target}"
                    for k, s in enumerate(n["states"]):
                        o = Signal(name=f"fsmobs{n['obs'][k]}")
                        m.d.top_comb += o.eq(fsm.ongoing(f"S{k + 1}"))
                        H.fsm_obs[n["obs"][k]] = o
                elif t == "body":
                    b = n["b"]
                    B = bodies[b - 1]
                    if B["kind"] == "T":
                        # always_body = body + an assertion that the transaction is never blocked
                        bodyf = H.obj[b].always_body if B.get("always") else H.obj[b].body
                        with bodyf(m, ready=rdy(B)):
                            self.emit(m, B["ch"])
                    else:
                        meth = H.obj[b]
                        out = Signal(meth.layout_out)
                        m.d.top_comb += out.r.eq(H.mout[b])
                        kw = {}
                        if B["nonexcl"]:
                            kw["nonexclusive"] = True
                            if B["hasarg"]:
                                kw["combiner"] = orx_combiner if B["comb"] == "orx" else or_combiner
                        if B["validate"]:
                            kw["validate_arguments"] = validator
                        if B["single"]:
                            kw["single_caller"] = True
                        with meth.body(m, ready=rdy(B), out=out, **kw) as marg:
                            self.argstack = getattr(self, "argstack", []) + [marg]
                            self.emit(m, B["ch"])
                            self.argstack = self.argstack[:-1]
                elif t == "call":
                    S = sites[n["s"] - 1]
                    callee = H.obj[S["callee"]]
                    for lvl in range(1, S["alias"] + 1):
                        if sugar == "vec" and S["callee"] in vecpos and (S["callee"] + n["s"]) % 2:
                            # alias of the whole vector (Methods.provide); the call goes through element k of the alias vector
                            h, k = vecpos[S["callee"]]
                            prev = vecobj[h] if lvl == 1 else alvec
                            alvec = Methods(len(prev), i=prev.layout_in, o=prev.layout_out)
                            alvec.provide(prev)
                            al = alvec[k]
                        elif sugar == "vec":
                            al = Methods(1, i=callee.layout_in, o=callee.layout_out)
                            al.provide([callee] if isinstance(callee, Method) else callee)
                        else:
                            al = Method(i=callee.layout_in, o=callee.layout_out)
                            al.provide(callee)
                        callee = al
                    kw = {}
                    if S["argk"] == "i":
                        kw["a"] = H.arg[S["argv"]]
                    elif S["argk"] == "c":
                        kw["a"] = S["argv"]
                    elif S["argk"] == "f":
                        # the calling method forwards (a function of) its own argument
                        kw["a"] = self.argstack[-1].a ^ S["argv"]
                    if S.get("enc"):
                        cen = {"F": False, "0": 0, "C0": Const(0), "T": True, "C1": Const(1)}[S["enc"]]
                        res = callee(m, enable_call=cen, **kw)
                        m.d.comb += H.swit[n["s"]].eq(Const(1) if S["enc"] in ("T", "C1") else Const(0))
                    elif S["en"]:
                        res = callee(m, enable_call=sig(S["en"]), **kw)
                        m.d.comb += H.swit[n["s"]].eq(sig(S["en"]))
                    else:
                        res = callee(m, **kw)
                        m.d.comb += H.swit[n["s"]].eq(1)
                    m.d.top_comb += H.sres[n["s"]].eq(res.r)
                elif t == "wit":
                    w = n["w"]
                    dom = wits[w - 1]["dom"]
                    if dom == "comb":
                        m.d.comb += H.wit[w].eq(1)
                    elif dom == "av":
                        m.d.av_comb += H.wit[w].eq(1)
                    elif dom == "top":
                        m.d.top_comb += H.wit[w].eq(1)
                    else:
                        m.d.sync += H.wit[w].eq(~H.wit[w])

    class Top(Elaboratable):
        def __init__(self, inner):
            self.inner = inner

        def elaborate(self, platform):
            m = Module()
            d = Signal()
            m.d.sync += d.eq(1)
            m.submodules.inner = self.inner
            return m

    with DependencyContext(dm):
        vecs = {}
        if sugar == "vec":
            for h in (False, True):
                idx = [b for b, B in enumerate(bodies, start=1) if B["kind"] != "T" and bool(B["hasarg"]) == h]
                vec = Methods(len(idx), name=f"mv{int(h)}_", i=[("a", NARGBITS)] if h else [], o=[("r", NARGBITS)])
                vecobj[h] = vec
                for k, b in enumerate(idx):
                    vecs[b] = vec[k]
                    vecpos[b] = (h, k)
        for b, B in enumerate(bodies, start=1):
            if B["kind"] == "T":
                H.obj[b] = Transaction(name=f"t{b}")
            elif b in vecs:
                H.obj[b] = vecs[b]
            else:
                H.obj[b] = Method(name=f"m{b}", i=[("a", NARGBITS)] if B["hasarg"] else [], o=[("r", NARGBITS)])
        def endpoint(b, k):
            o = H.obj[b]
            for _ in range(k):
                al = Method(i=o.layout_in, o=o.layout_out)
                al.provide(o)
                o = al
            return o

        for rel in design["rels"]:
            a, c = endpoint(rel["a"], rel.get("aal", 0)), endpoint(rel["b"], rel.get("bal", 0))
            if rel["kind"] == "conflict":
                a.add_conflict(c, {"U": Priority.UNDEFINED, "L": Priority.LEFT, "R": Priority.RIGHT}[rel["prio"]])
            else:
                a.schedule_before(c, ready_dependent=rel["rdep"])
        sub = Mod(design["roots"][1]) if design["nmods"] == 2 else None
        top = Mod(design["roots"][0], sub)
        tm = TransactionManager(scheduler) if scheduler is not None else TransactionManager()
        topmod = Top(TransactronContextElaboratable(top, dependency_manager=dm, transaction_manager=tm))
        if netlist_only:
            # structural (bit-level) combinational-cycle check of the elaborated design
            from amaranth.hdl import Fragment
            from amaranth.hdl import _ir, _nir
            frag = Fragment.get(topmod, None)
            try:
                _ir.build_netlist(frag, ports=[s for s in H.inp[1:]] + [H.obj[b].run for b in range(1, len(bodies) + 1)])
                return False, ""
            except _nir.CombinationalCycle as ex:
                return True, str(ex)[:600]
        sim = Simulator(topmod)
    H.tm = tm
    sim.add_clock(1e-6)
    return sim, H


def get_scheduler(name):
    from transactron.core.schedulers import eager_deterministic_cc_scheduler, trivial_roundrobin_cc_scheduler
    return {"eager": eager_deterministic_cc_scheduler, "rr": trivial_roundrobin_cc_scheduler}[name]


def run_design(design, valuations, with_profile=False):
    """Simulate the design for the given per-cycle valuations
    [{inp:[...nin bits], args:[...], mouts:[...]}]; returns the list of observed lines
    (and, with_profile, the transactron Profile recorded by the library's profiler process)."""
    sim, H = build(design, get_scheduler(design["sched"]))
    profile = None
    if with_profile:
        from transactron.profiler import Profile
        from transactron.testing.profiler import profiler_process
        profile = Profile()
        sim.add_process(profiler_process(H.tm, profile))
    bodies, sites, wits = design["bodies"], design["sites"], design["wits"]
    nin = design["nin"]
    sample = []
    for b, B in enumerate(bodies, start=1):
        o = H.obj[b]
        sample += [o.run, o.ready]
        if B["kind"] == "T":
            sample.append(o.runnable)
        elif B["hasarg"]:
            sample.append(o.data_in.a)
    sample += H.sres[1:] + H.swit[1:] + H.wit[1:]
    pseudo = [H.fsm_obs[i] for i in sorted(H.fsm_obs)]
    sample += pseudo
    lines = []

    async def tb(ctx):
        for v in valuations:
            for i in range(1, nin + 1):
                ctx.set(H.inp[i], v["inp"][i - 1])
            for i in range(1, design["nargs"] + 1):
                ctx.set(H.arg[i], v["args"][i - 1])
            for b in range(1, len(bodies) + 1):
                ctx.set(H.mout[b], v["mouts"][b - 1])
            vals = list((await ctx.tick().sample(*sample))[2:])
            k = 0
            run, rdy, rnb, din = [], [], [], []
            for b, B in enumerate(bodies, start=1):
                run.append(int(vals[k])); rdy.append(int(vals[k + 1])); k += 2
                if B["kind"] == "T":
                    rnb.append(int(vals[k])); din.append(0); k += 1
                elif B["hasarg"]:
                    rnb.append(0); din.append(int(vals[k])); k += 1
                else:
                    rnb.append(0); din.append(0)
            ns, nw = len(sites), len(wits)
            sres = [int(x) for x in vals[k:k + ns]]; k += ns
            swit = [int(x) for x in vals[k:k + ns]]; k += ns
            wit = [int(x) for x in vals[k:k + nw]]; k += nw
            ps = [int(x) for x in vals[k:]]
            lines.append({"inp": list(v["inp"]) + ps, "args": list(v["args"]), "mouts": list(v["mouts"]),
                          "run": run, "rdy": rdy, "rnb": rnb, "din": din, "sres": sres, "swit": swit, "wit": wit})

    sim.add_testbench(tb)
    sim.run()
    if with_profile:
        return lines, profile
    return lines


def valuations(design, rng: random.Random, max_cycles=512, sticky=0.0):
    """Input valuations.  Purely combinational designs: every valuation of the control bits once
    (when 2^nin <= max_cycles), else random ones plus the all-ones / one-flipped vectors.  Designs
    with state (FSM, sync witnesses) or `sticky` > 0: a random history of max_cycles cycles."""
    nin, nargs, nb = design["nin"], design["nargs"], len(design["bodies"])
    stateful = design.get("npseudo", 0) > 0 or any(w["dom"] == "sync" for w in design["wits"])
    out = []
    if (1 << nin) <= max_cycles and sticky == 0.0:
        order = list(range(1 << nin))
        rng.shuffle(order)
        for x in order:
            out.append([(x >> i) & 1 for i in range(nin)])
        if stateful:
            for _ in range(min(max_cycles - len(out), 3 * len(order))):
                out.append([rng.randint(0, 1) for _ in range(nin)])
    else:
        cur = [rng.randint(0, 1) for _ in range(nin)]
        bias = rng.choice([0.5, 0.7, 0.85])
        for c in range(max_cycles):
            if c % 64 == 0:
                bias = rng.choice([0.5, 0.7, 0.85, 0.95])
            cur = [(b if rng.random() < sticky else (1 if rng.random() < bias else 0)) for b in cur]
            out.append(list(cur))
        for i in range(nin):  # all-ones with single input flipped
            out.append([0 if j == i else 1 for j in range(nin)])
        out.append([1] * nin)
    for v in out:
        for i in design.get("const0", ()):
            v[i - 1] = 0
    return [{"inp": v, "args": [rng.randint(0, 3) for _ in range(nargs)],
             "mouts": [rng.randint(0, 3) for _ in range(nb)]} for v in out]
