"""Evidence files, violation / known-finding reporting, exit codes."""
from __future__ import annotations

import json
import os
import sys
import time

VERIF = os.path.dirname(os.path.dirname(os.path.abspath(__file__)))
EVID = os.path.join(VERIF, "evidence")
REPLAY = os.environ.get("VERIF_REPLAY_DIR") or os.path.join(EVID, "replay")
FINDINGS = os.path.join(VERIF, "known_findings.json")


def load_findings():
    if not os.path.exists(FINDINGS):
        return []
    return json.load(open(FINDINGS))["findings"]


def _match(pred, obj) -> bool:
    """pred: dict key -> required value | list of allowed values | {"not": v} ; keys may be
    dotted paths into obj."""
    for k, want in pred.items():
        cur = obj
        for part in k.split("."):
            if isinstance(cur, dict) and part in cur:
                cur = cur[part]
            else:
                cur = None
                break
        if isinstance(want, dict) and "not" in want:
            if cur == want["not"]:
                return False
        elif isinstance(want, dict) and "ge" in want:
            if cur is None or cur < want["ge"]:
                return False
        elif isinstance(want, list):
            if isinstance(cur, list):
                # every failing clause of the record must be one the finding explains
                if not cur or not set(map(str, cur)) <= set(map(str, want)):
                    return False
            elif cur not in want:
                return False
        elif cur != want:
            return False
    return True


class Report:
    def __init__(self, pid: str, tier: str, seed: int, level: str = "model_checking"):
        self.pid, self.tier, self.seed, self.level = pid, tier, seed, level
        self.t0 = time.time()
        self.coverage: dict = {"samples": []}
        self.assumptions: list[str] = []
        self.violations = 0
        self.known_hits: dict[str, int] = {}
        self.findings = [f for f in load_findings() if f["property"] == pid]
        self._nreplay = 0
        self.machinery_errors: list[str] = []

    # -- counters ---------------------------------------------------------------------
    def add(self, key: str, n: int = 1):
        self.coverage[key] = self.coverage.get(key, 0) + n

    def sample(self, s, limit=4):
        if len(self.coverage["samples"]) < limit:
            self.coverage["samples"].append(s)

    # -- violations -------------------------------------------------------------------
    def violation(self, desc: dict):
        """desc: {"component":..., "cfg":..., "clauses": [...], ...plus replay data}.
        Known findings are matched on the `match` predicate of known_findings.json."""
        for f in self.findings:
            if f.get("status") == "known" and _match(f["match"], desc):
                key = f["what"]
                self.known_hits[key] = self.known_hits.get(key, 0) + 1
                return False
        self.violations += 1
        if self.violations <= 5:
            os.makedirs(REPLAY, exist_ok=True)
            self._nreplay += 1
            path = os.path.join(REPLAY, f"{self.pid}-{self._nreplay}.json")
            with open(path, "w") as fh:
                json.dump({"property": self.pid, **desc}, fh, indent=1, default=str)
            print(f"VIOLATION property={self.pid} replay={path}", flush=True)
            brief = {k: desc[k] for k in ("component", "cfg", "clauses", "line", "what") if k in desc}
            print("  detail:", json.dumps(brief, default=str)[:600], flush=True)
        return True

    def machinery(self, msg: str):
        self.machinery_errors.append(msg)
        print("MACHINERY-ERROR:", msg, file=sys.stderr, flush=True)

    # -- finish -----------------------------------------------------------------------
    def finish(self) -> int:
        for what, n in self.known_hits.items():
            print(f"KNOWN-FINDING: property={self.pid} {what} (hit {n}x in this run)", flush=True)
        cov = self.coverage
        cov.setdefault("states", 0)
        cov.setdefault("transitions", 0)
        cov.setdefault("traces_validated_against_impl", 0)
        cov.setdefault("evaluations", max(1, cov.get("traces_validated_against_impl", 0)))
        cov.setdefault("distinct_nontrivial", 0)
        cov["known_finding_hits"] = sum(self.known_hits.values())
        ev = {
            "property_id": self.pid,
            "tier": self.tier,
            "seed": self.seed,
            "level": self.level,
            "coverage": cov,
            "assumptions": self.assumptions,
            "wall_s": round(time.time() - self.t0, 2),
            "violations": self.violations,
        }
        if not getattr(self, "no_evidence", False):
            os.makedirs(EVID, exist_ok=True)
            with open(os.path.join(EVID, f"{self.pid}.json"), "w") as fh:
                json.dump(ev, fh, indent=1, default=str)
        if self.machinery_errors:
            return 2
        if self.violations:
            return 1
        print(f"OK property={self.pid} tier={self.tier} wall={ev['wall_s']}s "
              f"states={cov.get('states')} traces={cov.get('traces_validated_against_impl')} "
              f"evaluations={cov.get('evaluations')}", flush=True)
        return 0
