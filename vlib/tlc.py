"""Run TLC and parse what it printed.

All TLC invocations of the framework go through `run`.  A scratch directory is
created per invocation (spec modules are copied into it so that TLC's `states/`
and generated files never land in /verif) and removed afterwards.
"""
from __future__ import annotations

import json
import os
import re
import shutil
import subprocess
import tempfile
import time
from dataclasses import dataclass, field

VERIF = os.path.dirname(os.path.dirname(os.path.abspath(__file__)))
SPECS = os.path.join(VERIF, "specs")
JAR = "/opt/veriftools/tla/tla2tools.jar:/opt/veriftools/tla/CommunityModules-deps.jar"


class MachineryError(Exception):
    """The verification machinery itself failed (exit code 2)."""


@dataclass
class TLCResult:
    rc: int
    out: str
    generated: int = 0
    distinct: int = 0
    depth: int = 0
    prints: list = field(default_factory=list)  # strings printed by PrintT (unquoted)
    invariant_violated: str | None = None
    error: str | None = None
    wall_s: float = 0.0
    coverage: dict = field(default_factory=dict)

    @property
    def ok(self):
        return self.rc == 0 and self.error is None and self.invariant_violated is None


def all_spec_files():
    res = []
    for root, _, files in os.walk(SPECS):
        for f in files:
            if f.endswith(".tla"):
                res.append(os.path.join(root, f))
    return res


def instantiate(template: str, subst: dict) -> str:
    text = open(os.path.join(SPECS, "tpl", template)).read()
    for k, v in subst.items():
        text = text.replace("@" + k + "@", v)
    return text


_UNQ = re.compile(r'^"(.*)"$')


def _unquote(line: str):
    m = _UNQ.match(line)
    if not m:
        return None
    s = m.group(1)
    # TLC escapes backslash and double quote inside printed strings
    return s.replace('\\"', '"').replace("\\\\", "\\")


def run(
    module: str,
    cfg: str,
    *,
    extra_modules: dict | None = None,
    env: dict | None = None,
    workers: int | str = 1,
    timeout: int = 1200,
    simulate: str | None = None,
    depth: int | None = None,
    coverage: bool = False,
    deadlock: bool = False,
    seed: int | None = None,
    dfs: bool = False,
    heap: str = "8g",
    keep_dir: str | None = None,
) -> TLCResult:
    """Run TLC on `module` (a module name found under specs/ or given in
    extra_modules as name -> text) with configuration text `cfg`."""
    tmp = tempfile.mkdtemp(prefix="vtlc_")
    try:
        for f in all_spec_files():
            shutil.copy(f, tmp)
        for name, text in (extra_modules or {}).items():
            with open(os.path.join(tmp, name + ".tla"), "w") as fh:
                fh.write(text)
        with open(os.path.join(tmp, module + ".cfg"), "w") as fh:
            fh.write(cfg)
        cmd = ["java", "-XX:+UseParallelGC", "-Xmx" + heap]
        if dfs:
            cmd.append("-Dtlc2.tool.queue.IStateQueue=StateDeque")
        cmd += ["-cp", JAR, "tlc2.TLC", "-workers", str(workers), "-metadir", os.path.join(tmp, "meta"),
                "-noGenerateSpecTE", "-config", module + ".cfg"]
        if not deadlock:
            cmd.append("-deadlock")  # -deadlock DISABLES deadlock checking
        if coverage:
            cmd += ["-coverage", "1"]
        if simulate is not None:
            cmd += ["-simulate", simulate]
        if depth is not None:
            cmd += ["-depth", str(depth)]
        if seed is not None:
            cmd += ["-seed", str(seed)]
        cmd.append(module + ".tla")
        e = dict(os.environ)
        e.update(env or {})
        t0 = time.time()
        try:
            p = subprocess.run(cmd, cwd=tmp, env=e, capture_output=True, text=True, timeout=timeout)
        except subprocess.TimeoutExpired as ex:
            raise MachineryError(f"TLC timed out after {timeout}s on {module}") from ex
        res = TLCResult(rc=p.returncode, out=p.stdout + p.stderr, wall_s=time.time() - t0)
        _parse(res)
        if keep_dir:
            shutil.copytree(tmp, keep_dir, dirs_exist_ok=True)
        return res
    finally:
        shutil.rmtree(tmp, ignore_errors=True)


def _parse(res: TLCResult):
    for line in res.out.splitlines():
        u = _unquote(line.strip())
        if u is not None:
            res.prints.append(u)
            continue
        m = re.match(r"(\d+) states generated, (\d+) distinct states found", line)
        if m:
            res.generated, res.distinct = int(m.group(1)), int(m.group(2))
        m = re.match(r"The depth of the complete state graph search is (\d+)", line)
        if m:
            res.depth = int(m.group(1))
        m = re.match(r"Error: Invariant (\S+) is violated", line)
        if m:
            res.invariant_violated = m.group(1)
        m = re.match(r"Error: Action property (\S+) is violated", line)
        if m:
            res.invariant_violated = m.group(1)
        if line.startswith("Error:") and res.error is None and res.invariant_violated is None:
            res.error = line
        m = re.match(r"<(\w+) line \d+, col \d+ to line \d+, col \d+ of module (\w+)>: (\d+):(\d+)", line)
        if m:
            res.coverage[m.group(2) + "!" + m.group(1)] = (int(m.group(3)), int(m.group(4)))
    if res.rc != 0 and res.error is None and res.invariant_violated is None:
        res.error = "TLC exit code %d" % res.rc


def tagged(res: TLCResult, tag: str):
    """JSON payloads of printed strings that start with `tag `."""
    out = []
    for s in res.prints:
        if s.startswith(tag + " "):
            out.append(json.loads(s[len(tag) + 1:]))
    return out


def require_ok(res: TLCResult, what: str):
    if not res.ok:
        tail = "\n".join(res.out.splitlines()[-40:])
        raise MachineryError(f"TLC failed on {what}: {res.error or res.invariant_violated}\n{tail}")
