"""C05 sub-check: the forms in which a caller can hand over a method argument (specs/core/ArgForms.tla)."""
from __future__ import annotations

import itertools
import random

FORMS = ["kwargs", "dict", "view_same", "view_perm", "view_perm_alias", "dict_alias"]
LAYOUTS = [[("a", 3), ("b", 2)], [("a", 2), ("b", 3), ("c", 1)], [("x", 1), ("y", 4)], [("p", 2), ("q", 2), ("r", 2)]]


def run_form(layout, form, perm, values):
    """One circuit: method m(layout) -> returns {r: 5 bits = sum of fields mod 32}; one transaction calls it with
    the argument given in `form`; returns one row per value tuple."""
    from amaranth import Signal, Module, Elaboratable
    from amaranth.lib.data import StructLayout
    from amaranth.sim import Simulator
    from transactron import TModule, Method, Transaction, def_method
    from transactron.core.context import TransactronContextElaboratable
    from transactron.utils.dependencies import DependencyContext, DependencyManager

    names = [n for n, _ in layout]
    widths = dict(layout)
    ins = {n: Signal(widths[n], name=f"in_{n}") for n in names}
    din = {n: Signal(widths[n], name=f"din_{n}") for n in names}
    ran, res, out = Signal(), Signal(5), Signal(5)

    class Top(Elaboratable):
        def elaborate(self, platform):
            m = TModule()
            meth = Method(i=layout, o=[("r", 5)], name="m")

            @def_method(m, meth)
            def _(arg):
                acc = 0
                for n in names:
                    m.d.comb += din[n].eq(arg[n])
                    acc = acc + arg[n]
                m.d.comb += ran.eq(1)
                m.d.top_comb += out.eq(acc)
                return {"r": acc}
            target = meth
            if form.endswith("_alias"):
                for _ in range(2):
                    al = Method(i=layout, o=[("r", 5)])
                    al.provide(target)
                    target = al
            with Transaction(name="t").body(m):
                if form == "kwargs":
                    r = target(m, **{n: ins[n] for n in names})
                elif form in ("dict", "dict_alias"):
                    r = target(m, {n: ins[n] for n in reversed(names)})
                else:
                    order = names if form == "view_same" else [names[k] for k in perm]
                    v = Signal(StructLayout({n: widths[n] for n in order}), name="argview")
                    for n in names:
                        m.d.comb += v[n].eq(ins[n])
                    r = target(m, v)
                m.d.top_comb += res.eq(r.r)
            return m

    class Wrap(Elaboratable):
        def __init__(self, inner):
            self.inner = inner

        def elaborate(self, platform):
            m = Module()
            x = Signal()
            m.d.sync += x.eq(1)
            m.submodules.inner = self.inner
            return m

    dm = DependencyManager()
    with DependencyContext(dm):
        sim = Simulator(Wrap(TransactronContextElaboratable(Top(), dependency_manager=dm)))
    sim.add_clock(1e-6)
    rows = []

    async def tb(ctx):
        for vals in values:
            for n, v in zip(names, vals):
                ctx.set(ins[n], v)
            got = await ctx.tick().sample(ran, res, out, *[din[n] for n in names])
            got = [int(x) for x in got[2:]]
            rows.append({"form": form, "fields": names, "given": dict(zip(names, vals)),
                         "din": dict(zip(names, got[3:])), "ran": got[0], "res": got[1], "out": got[2],
                         "perm": list(perm)})

    sim.add_testbench(tb)
    sim.run()
    return rows


def all_rows(seed, thorough=False):
    rng = random.Random(seed)
    rows = []
    for layout in LAYOUTS:
        n = len(layout)
        perms = [p for p in itertools.permutations(range(n)) if list(p) != list(range(n))]
        doms = [range(1 << w) for _, w in layout]
        allv = list(itertools.product(*doms))
        for form in FORMS:
            for perm in (perms if form.startswith("view_perm") else [tuple(range(n))]):
                vals = allv if (thorough or len(allv) <= 64) else rng.sample(allv, 48)
                rows += run_form(layout, form, perm, vals)
    return rows
