"""Helpers shared by the memory checks C21 (MemoryBank), C22 (AsyncMemoryBank) and C23
(multiport memories):

* `PortSim`      : drives an Amaranth-style memory (plain read/write *ports*, no transactron
                   methods) cycle by cycle; one sampled line per clock cycle.
* port-level random schedules, trace recording / TLC validation (MultiMemTrace) and
  replay of the MultiMemMC edge graph into the real memories.
* `Collector`    : a stand-in for `Report` handed to the generic functions of vlib/comp.py.
                   It gathers violations, removes duplicates (one record per component x
                   configuration x failing-clause set), orders them so that records of different
                   root-cause signatures come first, and forwards them to the real report.
* `model_check_variant` : vlib.comp.model_check for another configuration set of the same
                   component module and with a product-shaped argument enumeration
                   (wrapper around the CompMC template; comp.py itself is not modified).

Conventions for configurations (JSON, shared by python and TLA+): `granularity` 0 means None;
`transp` is, per read port, the list of 1-based write-port indices it is transparent for.
"""
from __future__ import annotations

import copy
import importlib
import json
import multiprocessing as mp
import os
import random
import tempfile
import warnings
from collections import defaultdict

from . import tlc
from .comp import MC_CFG, MC_CFG_NOEMIT, plan_walks

warnings.filterwarnings("ignore")

NPROCS = max(1, int(os.environ.get("VERIF_PROCS", "16")))   # simulation pools / TLC workers are bounded by this


def tlc_workers(cap=8):
    return max(1, min(cap, NPROCS))


MEMTYPES = ["Memory", "MultiReadMemory", "MultiportXORMemory", "MultiportXORILVTMemory",
            "MultiportOneHotILVTMemory"]


def mem_ctor(name: str):
    if name == "Memory":
        import amaranth.lib.memory as memory
        return memory.Memory
    mod = importlib.import_module("transactron.utils.amaranth_ext.memory")
    return getattr(mod, name)


def accepts(name: str, *, write_ports: int, granularity: int) -> bool:
    """Configurations the constructors / port factories accept (documented restrictions):
    MultiReadMemory has at most one write port, MultiportXORMemory no granularity."""
    if name == "MultiReadMemory" and write_ports != 1:
        return False
    if name == "MultiportXORMemory" and granularity:
        return False
    return True


def addr_bits(depth: int) -> int:
    return max(1, (depth - 1).bit_length()) if depth > 1 else 0


# ---------------------------------------------------------------------------------------
# plain-port simulation

def _top(mem):
    from amaranth import Elaboratable, Module, Signal

    class Top(Elaboratable):
        def elaborate(self, platform):
            m = Module()
            dummy = Signal()
            m.d.sync += dummy.eq(1)  # makes sure the sync domain exists
            m.submodules.mem = mem
            return m

    return Top()


class PortSim:
    """cfg: memory_type, depth, width, granularity (0 = None), read_ports, write_ports,
    init (list), transp (per read port: list of 1-based write port indices)."""

    def __init__(self, cfg):
        from amaranth.sim import Simulator
        ctor = mem_ctor(cfg["memory_type"])
        self.cfg = cfg
        mem = ctor(shape=cfg["width"], depth=cfg["depth"], init=list(cfg["init"]))
        g = cfg["granularity"] or None
        self.w = [mem.write_port(granularity=g) for _ in range(cfg["write_ports"])]
        self.r = [mem.read_port(transparent_for=[self.w[j - 1] for j in cfg["transp"][p]])
                  for p in range(cfg["read_ports"])]
        self.sim = Simulator(_top(mem))
        self.sim.add_clock(1e-6)

    def run(self, schedule):
        """schedule: list of inputs or callable(i, previous line) -> inputs | None.
        inputs = {"r": [{"en", "addr"}...], "w": [{"en", "addr", "data"}...]}.
        Returns lines = inputs + "data" of every read port as shown during the cycle."""
        lines = []
        sample = [p.data for p in self.r]

        async def tb(ctx):
            i = 0
            prev = None
            while True:
                if callable(schedule):
                    inp = schedule(i, prev)
                else:
                    inp = schedule[i] if i < len(schedule) else None
                if inp is None:
                    break
                for p, x in zip(self.r, inp["r"]):
                    ctx.set(p.en, x["en"])
                    ctx.set(p.addr, x["addr"])
                for p, x in zip(self.w, inp["w"]):
                    ctx.set(p.en, x["en"])
                    ctx.set(p.addr, x["addr"])
                    ctx.set(p.data, x["data"])
                vals = await ctx.tick().sample(*sample)
                vals = vals[2:]
                line = {"r": [{"en": x["en"], "addr": x["addr"], "data": int(v)} for x, v in zip(inp["r"], vals)],
                        "w": [{"en": x["en"], "addr": x["addr"], "data": x["data"]} for x in inp["w"]]}
                lines.append(line)
                prev = line
                i += 1

        self.sim.add_testbench(tb)
        self.sim.run()
        return lines


class HotAddr:
    """Address generator biased towards recently used rows so that reads meet same-cycle and
    recent writes even in deep memories."""

    def __init__(self, depth, rng, keep=3):
        self.depth, self.rng, self.keep = depth, rng, keep
        self.hot = []

    def get(self, p_hot=0.6):
        if self.hot and self.rng.random() < p_hot:
            a = self.rng.choice(self.hot)
        else:
            a = self.rng.randrange(self.depth)
        self.touch(a)
        return a

    def touch(self, a):
        if a in self.hot:
            self.hot.remove(a)
        self.hot.append(a)
        del self.hot[:-self.keep]


def port_random_schedule(cfg, rng: random.Random, cycles: int):
    """Random port activity with bias phases; writing ports never share a row (precondition
    of C23, repaired here, never by dropping traces)."""
    depth, width = cfg["depth"], cfg["width"]
    g = cfg["granularity"] or width
    nmask = 1 << (width // g)
    hot = HotAddr(depth, rng)
    state = {"end": 0}

    def sched(i, prev):
        if i >= cycles:
            return None
        if i >= state["end"]:
            state["end"] = i + rng.choice([3, 8, 20, 40])
            state["pr"] = [rng.choice([0.15, 0.5, 0.85, 1.0]) for _ in range(cfg["read_ports"])]
            state["pw"] = [rng.choice([0.0, 0.15, 0.5, 0.85, 1.0]) for _ in range(cfg["write_ports"])]
            state["full"] = rng.random() < 0.3     # phase with whole-row writes only
        r = [{"en": 1 if rng.random() < state["pr"][p] else 0, "addr": hot.get()} for p in range(cfg["read_ports"])]
        w = []
        used = set()
        for j in range(cfg["write_ports"]):
            en = 0
            if rng.random() < state["pw"][j]:
                en = nmask - 1 if (state["full"] or nmask == 2 and rng.random() < 0.5) else rng.randrange(1, nmask)
            a = hot.get()
            if en:
                tries = 0
                while a in used:
                    a = rng.randrange(depth)
                    tries += 1
                    if tries > 50:
                        en = 0
                        break
                if en:
                    used.add(a)
            w.append({"en": en, "addr": a, "data": rng.randrange(1, 1 << width)})
        return {"r": r, "w": w}

    return sched


def _port_record_task(args):
    cfg, seed, cycles = args
    try:
        ps = PortSim(cfg)
        lines = ps.run(port_random_schedule(cfg, random.Random(seed), cycles))
        return {"cfg": cfg, "seed": seed, "cycles": lines}, None
    except Exception:
        import traceback
        return {"cfg": cfg, "seed": seed, "cycles": []}, traceback.format_exc()


def record_port_traces(cfgs, seeds_per_cfg, cycles, seed, rep, procs=None):
    procs = procs or NPROCS
    tasks = []
    for ci, cfg in enumerate(cfgs):
        for k in range(seeds_per_cfg):
            tasks.append((cfg, seed * 100003 + ci * 1009 + k, cycles))
    with mp.Pool(min(procs, max(1, len(tasks)))) as pool:
        out = pool.map(_port_record_task, tasks, chunksize=max(1, len(tasks) // (procs * 4)))
    traces = []
    for tr, err in out:
        if err:
            rep.violation({"component": tr["cfg"]["memory_type"], "cfg": tr["cfg"],
                           "clauses": ["BuildOrRunException"], "what": err[-1500:], "seed": tr["seed"]})
        else:
            traces.append(tr)
    return traces


PORT_TRACE_CFG = "SPECIFICATION Spec\nCHECK_DEADLOCK FALSE\n"


def validate_port_traces(traces, rep, self_test=False, timeout=1800):
    """TLC (MultiMemTrace) judges every trace; returns the list of rejects."""
    if not traces:
        return []
    fd, path = tempfile.mkstemp(prefix="vtr_", suffix=".json")
    try:
        with os.fdopen(fd, "w") as fh:
            json.dump([{"cfg": t["cfg"], "cycles": t["cycles"]} for t in traces], fh)
        res = tlc.run("MultiMemTrace", PORT_TRACE_CFG, env={"TRACE_FILE": path}, workers=1, timeout=timeout)
    finally:
        os.unlink(path)
    tlc.require_ok(res, "MultiMemTrace")
    acc = tlc.tagged(res, "ACCEPT")
    rej = tlc.tagged(res, "REJECT")
    if len(acc) + len(rej) != len(traces):
        raise tlc.MachineryError(f"MultiMemTrace: {len(acc)} accepted + {len(rej)} rejected != {len(traces)} traces")
    if self_test:
        return rej
    rep.add("traces_validated_against_impl", len(traces))
    rep.add("trace_states", res.distinct)
    for r in rej:
        tr = traces[r["tid"] - 1]
        ln = r["line"]
        rep.violation({"component": tr["cfg"]["memory_type"], "cfg": tr["cfg"], "clauses": sorted(r["clauses"]),
                       "line": ln, "seed": tr.get("seed"), "ports": r.get("ports"),
                       "expected_read_data": r.get("expected"), "observed": tr["cycles"][ln - 1],
                       "what": "read ports %s show %s, ideal memory shows %s" % (
                           r.get("ports"), [x["data"] for x in tr["cycles"][ln - 1]["r"]], r.get("expected")),
                       "schedule": [{"r": [{"en": x["en"], "addr": x["addr"]} for x in c["r"]], "w": c["w"]}
                                    for c in tr["cycles"][:ln]]})
    return rej


def port_corrupt_self_test(traces, rej_tids, rep, rng, n=8):
    """Flip one recorded read datum of accepted traces: each must be rejected at that line."""
    good = [t for i, t in enumerate(traces) if (i + 1) not in rej_tids and t["cycles"]]
    if not good:
        return
    picked = []
    for _ in range(n):
        t = copy.deepcopy(rng.choice(good))
        li = rng.randrange(len(t["cycles"]))
        p = rng.randrange(len(t["cycles"][li]["r"]))
        t["cycles"][li]["r"][p]["data"] ^= 1
        picked.append((t, li + 1))
    rej = {r["tid"]: r for r in validate_port_traces([p[0] for p in picked], rep, self_test=True)}
    ok = sum(1 for i, (t, li) in enumerate(picked) if (i + 1) in rej and rej[i + 1]["line"] == li)
    rep.coverage["selftest_corrupted_traces"] = rep.coverage.get("selftest_corrupted_traces", 0) + len(picked)
    rep.coverage["selftest_corrupted_rejected"] = rep.coverage.get("selftest_corrupted_rejected", 0) + ok
    if ok != len(picked):
        rep.machinery(f"MultiMemTrace: only {ok} of {len(picked)} corrupted traces rejected at the corrupted line")


# ---- spec -> code for MultiMem ----------------------------------------------------------

def _norm_inp(lab):
    return {"r": [{"en": x["en"], "addr": x["addr"]} for x in lab["r"]],
            "w": [{"en": x["en"], "addr": x["addr"], "data": x["data"]} for x in lab["w"]]}


def _port_replay_task(args):
    mt, cfg, walk = args
    bcfg = dict(cfg, memory_type=mt)
    try:
        ps = PortSim(bcfg)
        sched = [_norm_inp(e["lab"]) for e in walk]
        # one idle cycle at the end shows the result of the last read
        idle = {"r": [{"en": 0, "addr": 0} for _ in range(cfg["read_ports"])],
                "w": [{"en": 0, "addr": 0, "data": 0} for _ in range(cfg["write_ports"])]}
        lines = ps.run(sched + [idle])
        for i, line in enumerate(lines):
            exp = walk[i]["from"]["rd"] if i < len(walk) else walk[-1]["to"]["rd"]
            got = [x["data"] for x in line["r"]]
            if got != list(exp):
                return bcfg, {"step": i, "what": f"cycle {i}: read data {got}, model {list(exp)}",
                              "schedule": (sched + [idle])[: i + 1], "observed": line,
                              "model_state": walk[i]["from"] if i < len(walk) else walk[-1]["to"]}, i, None
        return bcfg, None, len(lines), None
    except Exception:
        import traceback
        return bcfg, None, 0, traceback.format_exc()


def replay_port_edges(edges, inits, memtypes, rep, procs=None, max_len=60):
    """Cover every edge of the MultiMemMC graph with walks from reset and drive each walk into
    every memory type that accepts the configuration."""
    procs = procs or NPROCS
    init_by_cfg = {json.dumps(i["cfg"], sort_keys=True): json.dumps(i["st"], sort_keys=True) for i in inits}
    for e in edges:
        e["_init"] = init_by_cfg.get(json.dumps(e["cfg"], sort_keys=True))
    walks = plan_walks(edges, max_len=max_len, rng=random.Random(rep.seed))
    tasks = []
    for cfg, walk in walks:
        for mt in memtypes:
            if accepts(mt, write_ports=cfg["write_ports"], granularity=cfg["granularity"]):
                tasks.append((mt, cfg, walk))
    with mp.Pool(min(procs, max(1, len(tasks)))) as pool:
        results = pool.map(_port_replay_task, tasks, chunksize=max(1, len(tasks) // (procs * 8)))
    per_type = defaultdict(int)
    for (mt, cfg, walk), (bcfg, bad, ncyc, err) in zip(tasks, results):
        per_type[mt] += len(walk)
        rep.add("replay_cycles", ncyc)
        if err:
            rep.violation({"component": mt, "cfg": bcfg, "clauses": ["ReplayException"], "what": err[-1500:]})
        elif bad:
            rep.violation({"component": mt, "cfg": bcfg, "clauses": ["EdgeReplay"], **bad})
    rep.add("edges_total", len(edges))
    rep.add("replay_walks", len(walks))
    rep.coverage["edge_walk_steps_per_memory_type"] = dict(per_type)
    if walks:
        rep.sample({"kind": "edge-walk", "cfg": walks[0][0], "inputs": [_norm_inp(e["lab"]) for e in walks[0][1][:3]]})
    return walks


# ---------------------------------------------------------------------------------------
# violation collection

def signature(desc):
    """Root-cause signature of a violation: the component, the failing clauses and the
    configuration properties a defect of these memories can depend on (everything a
    known-findings predicate needs); depth / width / port counts beyond "one or several
    write ports" are deliberately left out."""
    cfg = desc.get("cfg") or {}
    t = cfg.get("transparent")
    return (str(desc.get("component")), str(cfg.get("memory_type")),
            "gran" if cfg.get("granularity") else "nogran",
            "wp>=2" if (cfg.get("write_ports") or 0) >= 2 else "wp=1",
            "transparent" if t not in (False, "none", None) else "opaque",
            "read_on_resp" if cfg.get("read_on_resp") else "-",
            "init" if cfg.get("init_flag") else "noinit",
            "narrow" if cfg.get("narrow") else "wide",
            ",".join(desc.get("clauses", [])))


def _size(d):
    c = d.get("cfg") or {}
    return (c.get("depth", 0) * c.get("width", 0), c.get("read_ports", 0) + c.get("write_ports", 0),
            d.get("line") or d.get("step") or 0, json.dumps(c, sort_keys=True, default=str))


class Collector:
    """Duck-typed Report for vlib.comp functions.  Violations are held back; `flush` forwards
    ONE record per root-cause signature (the smallest failing configuration, earliest failing
    line), carrying the number of failing traces/walks and the other failing configurations
    of that signature, so one defect yields a bounded number of records and never hides
    another signature."""

    def __init__(self, rep, cfg_fix=None):
        self.rep = rep
        self.pid, self.tier, self.seed = rep.pid, rep.tier, rep.seed
        self.coverage = rep.coverage
        self.cfg_fix = cfg_fix
        self.held = []

    def add(self, key, n=1):
        self.rep.add(key, n)

    def sample(self, s, limit=4):
        self.rep.sample(s, limit)

    def machinery(self, msg):
        self.rep.machinery(msg)

    def violation(self, desc):
        if self.cfg_fix and isinstance(desc.get("cfg"), dict):
            desc = dict(desc, cfg=self.cfg_fix(desc["cfg"]))
        self.held.append(desc)
        return True

    def flush(self):
        by_sig = defaultdict(list)
        for d in self.held:
            by_sig[signature(d)].append(d)
        out = []
        fail_map = []
        for sig in sorted(by_sig):
            ds = sorted(by_sig[sig], key=_size)
            cfgs = []
            for d in ds:
                k = json.dumps(d.get("cfg"), sort_keys=True, default=str)
                if k not in cfgs:
                    cfgs.append(k)
            rec = dict(ds[0], signature=list(sig), occurrences=len(ds), failing_configs=len(cfgs),
                       other_failing_configs=[json.loads(k) for k in cfgs[1:13]])
            out.append(rec)
            fail_map.append({"signature": list(sig), "failing_records": len(ds), "failing_configs": len(cfgs)})
        self.rep.coverage.setdefault("fail_map", []).extend(fail_map)
        for rec in out:
            self.rep.violation(rec)
        self.held = []
        return out


# ---------------------------------------------------------------------------------------
# CompMC template with another configuration set and product-shaped argument enumeration

_ARGSFOR_OLD = ("ArgsFor(S) == {f \\in [S -> UNION {C!ArgDom(cfg, m) : m \\in S}] : "
                "\\A m \\in S : f[m] \\in C!ArgDom(cfg, m)}")
_ARGSFOR_NEW = ("RECURSIVE ArgsFor(_)\n"
                "ArgsFor(S) == IF S = {} THEN {<<>>}\n"
                "              ELSE LET m == CHOOSE x \\in S : TRUE\n"
                "                   IN {f @@ (m :> a) : f \\in ArgsFor(S \\ {m}), a \\in C!ArgDom(cfg, m)}")


def model_check_variant(comp, rep, configs_op="Configs", emit=True, workers=1, timeout=1200):
    """Same as vlib.comp.model_check, but the configurations come from operator `configs_op`
    of the component module and simultaneous-call argument vectors are built as a product
    (the template's filter over [S -> union of domains] explodes with record arguments)."""
    text = tlc.instantiate("CompMC.tla", {"NAME": comp.spec})
    if _ARGSFOR_OLD in text:
        text = text.replace(_ARGSFOR_OLD, _ARGSFOR_NEW)
    if "cfg \\in C!Configs" not in text:
        raise tlc.MachineryError("CompMC template changed: cannot select configuration set")
    text = text.replace("cfg \\in C!Configs", "cfg \\in C!" + configs_op)
    res = tlc.run(comp.spec + "MC", MC_CFG if emit else MC_CFG_NOEMIT,
                  extra_modules={comp.spec + "MC": text}, workers=workers, timeout=timeout)
    if res.invariant_violated:
        rep.violation({"component": comp.name, "what": f"model violates {res.invariant_violated}",
                       "clauses": ["MC:" + res.invariant_violated], "tlc_tail": res.out.splitlines()[-60:]})
        return res, [], []
    tlc.require_ok(res, comp.spec + "MC")
    rep.add("states", res.distinct)
    rep.add("transitions", res.generated)
    edges = tlc.tagged(res, "EDGE") if emit else []
    inits = tlc.tagged(res, "INIT") if emit else []
    rep.coverage.setdefault("mc", []).append(
        {"module": comp.spec + "MC", "configs": configs_op, "distinct_states": res.distinct,
         "states_generated": res.generated, "depth": res.depth, "edges": len(edges),
         "wall_s": round(res.wall_s, 2)})
    return res, edges, inits


# ---------------------------------------------------------------------------------------
# edge-cover planning that respects the component structure of the model graph

def _sccs(nodes, out, target):
    """Tarjan (iterative).  Returns {node: component index}; components are numbered in
    reverse topological order (a component only reaches components with a smaller index)."""
    index, low, comp = {}, {}, {}
    stack, on = [], set()
    counter = [0]
    ncomp = [0]
    for root in nodes:
        if root in index:
            continue
        work = [(root, iter(out.get(root, ())))]
        index[root] = low[root] = counter[0]
        counter[0] += 1
        stack.append(root)
        on.add(root)
        while work:
            v, it = work[-1]
            advanced = False
            for j in it:
                w = target[j]
                if w not in index:
                    index[w] = low[w] = counter[0]
                    counter[0] += 1
                    stack.append(w)
                    on.add(w)
                    work.append((w, iter(out.get(w, ()))))
                    advanced = True
                    break
                elif w in on:
                    low[v] = min(low[v], index[w])
            if advanced:
                continue
            work.pop()
            if work:
                u = work[-1][0]
                low[u] = min(low[u], low[v])
            if low[v] == index[v]:
                while True:
                    w = stack.pop()
                    on.discard(w)
                    comp[w] = ncomp[0]
                    if w == v:
                        break
                ncomp[0] += 1
    return comp


def plan_walks_scc(edges, max_len=300, tail=2, rng=None):
    """Like vlib.comp.plan_walks (greedy edge cover by walks from the reset state), but a walk
    leaves a strongly connected component of the model graph only when nothing uncovered is
    left that it can still reach inside it - model graphs with one-way regions (a row that can
    never become 0 again, overwritten initial contents) then need few resets instead of one
    per handful of edges.  Returns [(cfg, [edge...])]; every edge is covered."""
    from collections import deque
    rng = rng or random.Random(0)
    by_cfg = defaultdict(list)
    for e in edges:
        by_cfg[json.dumps(e["cfg"], sort_keys=True)].append(e)
    walks = []
    for ck, es in by_cfg.items():
        out = defaultdict(list)
        target = []
        for i, e in enumerate(es):
            out[json.dumps(e["from"], sort_keys=True)].append(i)
            target.append(json.dumps(e["to"], sort_keys=True))
        init = es[0].get("_init") or json.dumps(es[0]["from"], sort_keys=True)
        nodes = list(out) + [t for t in target if t not in out]
        comp = _sccs(nodes, out, target)
        uncovered = set(range(len(es)))
        unc_at = {s: set(ix) for s, ix in out.items()}

        def bfs(cur, same_comp):
            prev = {cur: None}
            dq = deque([cur])
            while dq:
                s = dq.popleft()
                for j in out.get(s, ()):
                    t = target[j]
                    if t in prev or (same_comp and comp[t] != comp[cur]):
                        continue
                    prev[t] = (s, j)
                    if unc_at.get(t):
                        path = []
                        while prev[t] is not None:
                            p, k = prev[t]
                            path.append(k)
                            t = p
                        path.reverse()
                        return path
                    dq.append(t)
            return None

        while uncovered:
            cur = init
            walk = []
            while len(walk) < max_len and uncovered:
                cand = unc_at.get(cur)
                if cand:
                    # stay in the current component as long as possible (highest index = earliest)
                    i = max(cand, key=lambda j: (comp[target[j]], -j))
                    path = [i]
                else:
                    path = bfs(cur, True) or bfs(cur, False)
                    if path is None:
                        break
                    if walk and len(walk) + len(path) > max_len:
                        break
                for j in path:
                    walk.append(es[j])
                    if j in uncovered:
                        uncovered.discard(j)
                        unc_at[json.dumps(es[j]["from"], sort_keys=True)].discard(j)
                    cur = target[j]
            if not walk:
                raise tlc.MachineryError(f"{len(uncovered)} edges unreachable from the reset state")
            for _ in range(tail):     # a short random continuation probes the last target state
                if not out.get(cur):
                    break
                j = rng.choice(out[cur])
                walk.append(es[j])
                cur = target[j]
            walks.append((json.loads(ck), walk))
    return walks


def replay_edges_scc(comp, edges, inits, rep, max_len=300, procs=None):
    """vlib.comp.replay_edges with plan_walks_scc as planner (same per-walk replay, same
    violation records)."""
    from .comp import _replay_task
    procs = procs or NPROCS
    init_by_cfg = {json.dumps(i["cfg"], sort_keys=True): json.dumps(i["st"], sort_keys=True) for i in inits}
    for e in edges:
        e["_init"] = init_by_cfg.get(json.dumps(e["cfg"], sort_keys=True))
    walks = plan_walks_scc(edges, max_len=max_len, rng=random.Random(rep.seed))
    tasks = [(comp.module, comp.attr, cfg, walk) for cfg, walk in walks]
    with mp.Pool(min(procs, max(1, len(tasks)))) as pool:
        results = pool.map(_replay_task, tasks, chunksize=1)
    nsteps = sum(len(w) for _, w in walks)
    rep.add("replay_walks", len(walks))
    rep.add("replay_cycles", nsteps)
    for cfg, bad, sched, err in results:
        if err:
            rep.violation({"component": comp.name, "cfg": cfg, "clauses": ["ReplayException"], "what": err[-1500:]})
        for b in bad:
            rep.violation({"component": comp.name, "cfg": cfg, "clauses": ["EdgeReplay"],
                           "what": "; ".join(b["problems"]), "step": b["step"], "schedule": sched[: b["step"] + 1],
                           "model_from": b["from"], "model_label": b["lab"], "observed": b["line"]})
    if walks:
        rep.sample({"kind": "edge-walk", "cfg": walks[0][0], "labels": [w["lab"]["calls"] for w in walks[0][1][:4]]})
    return walks
