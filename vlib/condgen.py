"""Generator + builder of designs that use transactron.lib.simultaneous.condition() (C12) and
Connect / simultaneous() (C13).  Same idea as coregen: one description -> real circuit + JSON."""
from __future__ import annotations

import random
import warnings

warnings.simplefilter("ignore")


def gen_condition(rng: random.Random, nested_ok=True, validate=False):
    nin = 0

    def inp():
        nonlocal nin
        nin += 1
        return nin

    nt = rng.randint(1, 3)
    targets = [{"ready": inp() if rng.random() < 0.85 else 0, "validate": 1 if (validate and rng.random() < 0.5) else 0}
               for _ in range(nt)]
    d = {
        "targets": targets,
        "pkind": rng.choice(["T", "M"]),
        "pready": inp() if rng.random() < 0.8 else 0,
        "cready": inp(),                 # ready of the harness transaction calling a method-parent
        "pcalls": [],                    # targets called by the parent outside the condition
        "blocks": [], "branches": [],
    }
    used_by_parent = set()
    if rng.random() < 0.4:
        t = rng.randint(1, nt)
        d["pcalls"].append(t)
        used_by_parent.add(t)
    shared_conds = [inp() for _ in range(rng.randint(1, 3))]

    def block(encl, depth, forbidden):
        bid = len(d["blocks"]) + 1
        B = {"encl": encl, "nonblocking": rng.random() < 0.5, "priority": rng.random() < 0.5, "branches": []}
        d["blocks"].append(B)
        nb = rng.randint(1, 3)
        has_default = rng.random() < 0.4
        for i in range(nb + (1 if has_default else 0)):
            is_def = has_default and i == nb
            brid = len(d["branches"]) + 1
            avail = [t for t in range(1, nt + 1) if t not in forbidden]
            calls = sorted(rng.sample(avail, rng.randint(0, min(2, len(avail))))) if avail else []
            br = {"block": bid, "cond": 0 if is_def else (rng.choice(shared_conds) if rng.random() < 0.6 else inp()),
                  "calls": calls, "sub": 0}
            d["branches"].append(br)
            B["branches"].append(brid)
            # a nested condition inside the branch (only where it cannot blur "admissible": last branch or no priority)
            if nested_ok and depth == 0 and rng.random() < 0.25 and (not B["priority"] or i == nb + (1 if has_default else 0) - 1):
                br["sub"] = block(brid, depth + 1, forbidden | set(calls))
        return bid

    block(0, 0, used_by_parent)
    # call chain between the harness transaction and a method-parent: transaction -> w1 -> ... -> wk -> parent,
    # every hop plain, under m.If(cond) or with enable_call=cond ("the enclosing body runs" must then be the
    # parent's own run signal, not the transaction's)
    d["chain"] = []
    if d["pkind"] == "M" and rng.random() < 0.6:
        for _ in range(rng.randint(1, 3)):
            kind = rng.choice(["plain", "plain", "if", "en"])
            d["chain"].append({"kind": kind, "cond": inp() if kind != "plain" else 0})
    d["nin"] = nin
    return d


def build_condition(d, netlist_only=False):
    from amaranth import Signal, Module, Elaboratable, Const
    from amaranth.sim import Simulator
    from transactron import TModule, Method, Transaction, def_method
    from transactron.lib.simultaneous import condition
    from transactron.core import TransactionManager
    from transactron.core.context import TransactronContextElaboratable
    from transactron.utils.dependencies import DependencyContext, DependencyManager

    H = type("H", (), {})()
    H.inp = [None] + [Signal(name=f"in{i}") for i in range(1, d["nin"] + 1)]
    H.bw = [None] + [Signal(name=f"bw{i}") for i in range(1, len(d["branches"]) + 1)]
    H.tm = [None]
    H.prun = Signal()
    H.pwit = Signal()

    def sig(i):
        return H.inp[i] if i else Const(1)

    class Top(Elaboratable):
        def elaborate(self, platform):
            m = TModule()
            for k, t in enumerate(d["targets"], start=1):
                meth = Method(name=f"tgt{k}", i=[("a", 5)])
                H.tm.append(meth)

                kw = {"validate_arguments": (lambda a: a != 31)} if t.get("validate") else {}

                @def_method(m, meth, ready=sig(t["ready"]), **kw)
                def _(a):
                    pass

            def emit_block(bid):
                B = d["blocks"][bid - 1]
                with condition(m, nonblocking=B["nonblocking"], priority=B["priority"]) as branch:
                    for brid in B["branches"]:
                        br = d["branches"][brid - 1]
                        cm = branch(sig(br["cond"])) if br["cond"] else branch()
                        with cm:
                            m.d.comb += H.bw[brid].eq(1)
                            for t in br["calls"]:
                                H.tm[t](m, a=brid)
                            if br["sub"]:
                                emit_block(br["sub"])

            def parent_body():
                m.d.comb += H.pwit.eq(1)
                for t in d["pcalls"]:
                    H.tm[t](m, a=7)
                emit_block(1)

            if d["pkind"] == "T":
                with Transaction(name="parent").body(m, ready=sig(d["pready"])) as t:
                    parent_body()
                H.pobj = t
            else:
                src = Method(name="src")

                @def_method(m, src, ready=sig(d["pready"]))
                def _():
                    parent_body()
                def hop(target, lvl):
                    if lvl["kind"] == "if":
                        with m.If(sig(lvl["cond"])):
                            target(m)
                    elif lvl["kind"] == "en":
                        target(m, enable_call=sig(lvl["cond"]))
                    else:
                        target(m)

                chain = d.get("chain") or [{"kind": "plain", "cond": 0}]
                # chain[0] is the transaction's own call, chain[i] the call made by wrapper i
                wrappers = [Method(name=f"w{i}") for i in range(1, len(chain))]
                hops = wrappers + [src]
                def define_wrapper(i, w):
                    @def_method(m, w)
                    def _():
                        hop(hops[i + 1], chain[i + 1])

                for i, w in enumerate(wrappers):
                    define_wrapper(i, w)
                with Transaction(name="caller").body(m, ready=sig(d["cready"])):
                    hop(hops[0], chain[0])
                H.pobj = src
            return m

    class Wrap(Elaboratable):
        def __init__(self, inner):
            self.inner = inner

        def elaborate(self, platform):
            m = Module()
            x = Signal()
            m.d.sync += x.eq(1)
            m.submodules.inner = self.inner
            return m

    dm = DependencyManager()
    with DependencyContext(dm):
        top = Top()
        wrapped = Wrap(TransactronContextElaboratable(top, dependency_manager=dm))
        if netlist_only:
            # structural (bit-level) combinational-cycle check of the elaborated design (C10)
            from amaranth.hdl import Fragment, _ir, _nir
            try:
                _ir.build_netlist(Fragment.get(wrapped, None), ports=[s for s in H.inp[1:]])
                return False, ""
            except _nir.CombinationalCycle as ex:
                return True, str(ex)[:600]
        sim = Simulator(wrapped)
    sim.add_clock(1e-6)
    return sim, H


def run_condition(d, vals):
    sim, H = build_condition(d)
    sample = [H.pobj.run] + H.bw[1:]
    for m in H.tm[1:]:
        sample += [m.run, m.ready, m.data_in.a]
    lines = []

    async def tb(ctx):
        for v in vals:
            for i in range(1, d["nin"] + 1):
                ctx.set(H.inp[i], v[i - 1])
            r = list((await ctx.tick().sample(*sample))[2:])
            nb = len(d["branches"])
            ln = {"inp": list(v), "prun": int(r[0]), "bw": [int(x) for x in r[1:1 + nb]], "trun": [], "trdy": [], "tdin": []}
            k = 1 + nb
            for _ in d["targets"]:
                ln["trun"].append(int(r[k])); ln["trdy"].append(int(r[k + 1])); ln["tdin"].append(int(r[k + 2])); k += 3
            lines.append(ln)

    sim.add_testbench(tb)
    sim.run()
    return lines


def all_vals(nin, rng, cap=512):
    if (1 << nin) <= cap:
        xs = list(range(1 << nin))
        rng.shuffle(xs)
        return [[(x >> i) & 1 for i in range(nin)] for x in xs]
    return [[rng.randint(0, 1) for _ in range(nin)] for _ in range(cap)]


def make_condition_case(args):
    seed, cap = args
    rng = random.Random(seed)
    d = gen_condition(rng)
    try:
        lines = run_condition(d, all_vals(d["nin"], rng, cap))
        return {"design": d, "raised": False, "exc": "", "cycles": lines, "seed": seed}
    except Exception as ex:  # noqa: BLE001
        import traceback
        return {"design": d, "raised": True, "exc": f"{type(ex).__name__}: {str(ex)[:300]}", "cycles": [], "seed": seed,
                "tb": traceback.format_exc()[-1500:]}


# ---------------------------------------------------------------------------------------
# C13: Connect / simultaneous()

def gen_simul(rng: random.Random):
    nin = 0
    nargs = 0

    def inp():
        nonlocal nin
        nin += 1
        return nin

    def arg():
        nonlocal nargs
        nargs += 1
        return nargs

    kind = rng.choice(["connect", "connect", "sim", "sim", "connect", "chainc"])
    d = {"kind": kind, "targets": [], "callers": [], "rev": rng.random() < 0.6, "meths": [], "pairs": []}
    if kind == "chainc":
        # A -> Connect 1 -> B -> Connect 2 -> C; A and C may both call one nonexclusive target
        d["rev"] = False
        d["meths"] = [{"ready": 0}] * 4
        d["pairs"] = [[1, 2], [3, 4]]
        d["shared"] = rng.choice(["none", "nonexcl", "nonexcl"])
        if d["shared"] != "none":
            d["targets"].append({"ready": inp() if rng.random() < 0.7 else 0})
        for meth, meth2 in ((1, 0), (2, 3), (4, 0)):
            d["callers"].append({"ready": inp() if rng.random() < 0.8 else 0, "meth": meth, "meth2": meth2,
                                 "extra": 1 if (d["shared"] != "none" and meth in (1, 4)) else 0, "arg": arg(), "hops": []})
        d["nin"], d["nargs"] = nin, nargs
        return d
    if kind == "connect":
        d["meths"] = [{"ready": 0}, {"ready": 0}]       # 1 = write, 2 = read
        d["pairs"] = [[1, 2]]
        roles = [1, 2] + [rng.choice([1, 2]) for _ in range(rng.randint(0, 2))]
        if rng.random() < 0.1:
            roles = [rng.choice([1, 2])]                # only one side is ever called
    else:
        nm = rng.randint(2, 3)
        d["meths"] = [{"ready": inp() if rng.random() < 0.7 else 0} for _ in range(nm)]
        d["pairs"] = [[i, i + 1] for i in range(1, nm)]
        roles = list(range(1, nm + 1)) + [rng.randint(1, nm) for _ in range(rng.randint(0, 1))]
        if rng.random() < 0.15:
            roles = roles[:-1] if len(roles) > nm else roles[: nm - 1]
    for m in roles:
        extra = 0
        if rng.random() < 0.5:
            # every caller gets its own extra callee: callers of one method are never merged with each
            # other, so a callee shared by a writer and a reader is (documented) unsatisfiable
            d["targets"].append({"ready": inp()})
            extra = len(d["targets"])
        d["callers"].append({"ready": inp() if rng.random() < 0.85 else 0, "meth": m, "extra": extra, "arg": arg()})
    # some callers reach their method through wrapper methods; a hop can be plain, under m.If or with enable_call.
    # (The library refuses simultaneity constraints on conditionally called methods -- a usage rule; if such a
    # design is accepted, the property still has to hold on it.)
    for c in d["callers"]:
        c["hops"] = []
        if rng.random() < 0.3:
            for _ in range(rng.randint(1, 3)):
                kind = rng.choice(["plain"] * 8 + ["if", "en"])
                c["hops"].append({"kind": kind, "cond": inp() if kind != "plain" else 0})
    d["nin"], d["nargs"] = nin, nargs
    return d


def build_simul(d):
    from amaranth import Signal, Module, Elaboratable, Const
    from amaranth.sim import Simulator
    from transactron import TModule, Method, Transaction, def_method
    from transactron.lib import Connect
    from transactron.core.context import TransactronContextElaboratable
    from transactron.utils.dependencies import DependencyContext, DependencyManager

    H = type("H", (), {})()
    H.inp = [None] + [Signal(name=f"in{i}") for i in range(1, d["nin"] + 1)]
    H.arg = [None] + [Signal(3, name=f"arg{i}") for i in range(1, d["nargs"] + 1)]
    H.res = [Signal(3, name=f"res{i}") for i in range(len(d["callers"]))]
    H.trans = []
    H.tm = [None]
    H.meth = [None]

    def sig(i):
        return H.inp[i] if i else Const(1)

    class Top(Elaboratable):
        def elaborate(self, platform):
            m = TModule()
            for k, t in enumerate(d["targets"], start=1):
                meth = Method(name=f"tgt{k}")
                H.tm.append(meth)
                tkw = {"nonexclusive": True} if d.get("shared") == "nonexcl" else {}

                @def_method(m, meth, ready=sig(t["ready"]), **tkw)
                def _():
                    pass
            if d["kind"] == "chainc":
                m.submodules.conn1 = conn1 = Connect([("d", 3)], [])
                m.submodules.conn2 = conn2 = Connect([("d", 3)], [])
                H.meth += [conn1.write, conn1.read, conn2.write, conn2.read]
                for k, c in enumerate(d["callers"]):
                    with Transaction(name=f"c{k}").body(m, ready=sig(c["ready"])) as t:
                        if c["meth"] == 1:
                            conn1.write(m, d=H.arg[c["arg"]])
                        elif c["meth"] == 2:
                            v = conn1.read(m).d
                            conn2.write(m, d=v)
                            m.d.top_comb += H.res[k].eq(v)
                        else:
                            m.d.top_comb += H.res[k].eq(conn2.read(m).d)
                        if c["extra"]:
                            H.tm[c["extra"]](m)
                    H.trans.append(t)
                return m
            if d["kind"] == "connect":
                m.submodules.conn = conn = Connect([("d", 3)], [("r", 3)] if d["rev"] else [])
                H.meth += [conn.write, conn.read]
            else:
                for k, mm in enumerate(d["meths"], start=1):
                    meth = Method(name=f"sm{k}", i=[("d", 3)], o=[("r", 3)])
                    H.meth.append(meth)

                    @def_method(m, meth, ready=sig(mm["ready"]))
                    def _(d):  # noqa: F811
                        return {"r": d + 1}
                for a, b in d["pairs"]:
                    H.meth[a].simultaneous(H.meth[b])
            def hop_call(target, hop, kw):
                """call `target` through one hop; returns a value with the target's output layout"""
                if hop["kind"] == "plain":
                    return target(m, **kw)
                if hop["kind"] == "en":
                    return target(m, enable_call=sig(hop["cond"]), **kw)
                res = Signal(target.layout_out)
                with m.If(sig(hop["cond"])):
                    m.d.top_comb += res.eq(target(m, **kw))
                return res

            def wrap(target, hops, name):
                """hops[0] is the transaction's own call; hops[i] (i >= 1) the call made by wrapper i"""
                for i in range(len(hops) - 1, 0, -1):
                    w = Method(name=f"{name}_w{i}", i=target.layout_in, o=target.layout_out)
                    fields = [n for n, _ in target.layout_in]

                    def define(w=w, inner=target, hop=hops[i]):
                        @def_method(m, w)
                        def _(arg):
                            return hop_call(inner, hop, {f: arg[f] for f in fields})
                    define()
                    target = w
                return target

            for k, c in enumerate(d["callers"]):
                hops = c.get("hops") or []
                real = H.meth[c["meth"]]
                outer = wrap(real, hops, f"c{k}") if hops else real     # wrappers are defined at module level
                with Transaction(name=f"c{k}").body(m, ready=sig(c["ready"])) as t:
                    if hops:
                        h0 = hops[0]

                        def meth(m_, _outer=outer, _h0=h0, **kw):
                            return hop_call(_outer, _h0, kw)
                    else:
                        meth = real
                    if d["kind"] == "connect":
                        if c["meth"] == 1:
                            r = meth(m, d=H.arg[c["arg"]])
                            if d["rev"]:
                                m.d.top_comb += H.res[k].eq(r.r)
                        else:
                            r = meth(m, r=H.arg[c["arg"]]) if d["rev"] else meth(m)
                            m.d.top_comb += H.res[k].eq(r.d)
                    else:
                        r = meth(m, d=H.arg[c["arg"]])
                        m.d.top_comb += H.res[k].eq(r.r)
                    if c["extra"]:
                        H.tm[c["extra"]](m)
                H.trans.append(t)
            return m

    class Wrap(Elaboratable):
        def __init__(self, inner):
            self.inner = inner

        def elaborate(self, platform):
            m = Module()
            x = Signal()
            m.d.sync += x.eq(1)
            m.submodules.inner = self.inner
            return m

    dm = DependencyManager()
    with DependencyContext(dm):
        sim = Simulator(Wrap(TransactronContextElaboratable(Top(), dependency_manager=dm)))
    sim.add_clock(1e-6)
    return sim, H


def run_simul(d, vals, argvals):
    sim, H = build_simul(d)
    sample = []
    for m in H.meth[1:]:
        sample += [m.run, m.data_in.as_value(), m.data_out.as_value()]
    sample += [t.run for t in H.trans] + H.res + [m.run for m in H.tm[1:]]
    lines = []

    async def tb(ctx):
        for v, a in zip(vals, argvals):
            for i in range(1, d["nin"] + 1):
                ctx.set(H.inp[i], v[i - 1])
            for i in range(1, d["nargs"] + 1):
                ctx.set(H.arg[i], a[i - 1])
            r = [int(x) for x in (await ctx.tick().sample(*sample))[2:]]
            nm, nc = len(d["meths"]), len(d["callers"])
            ln = {"inp": list(v), "args": list(a), "mrun": r[0:3 * nm:3], "mdin": r[1:3 * nm:3], "mdout": r[2:3 * nm:3]}
            k = 3 * nm
            ln["crun"] = r[k:k + nc]; k += nc
            ln["cres"] = r[k:k + nc]; k += nc
            ln["trun"] = r[k:]
            lines.append(ln)

    sim.add_testbench(tb)
    sim.run()
    return lines


def simul_usage_rule(d, ex) -> bool:
    """The documented refusal of simultaneity constraints on conditionally called methods (a caller reaches the
    simultaneous method through an `m.If` / `enable_call` hop): a usage rule of the library, not a violation."""
    cond_hop = any(h["kind"] != "plain" for c in d["callers"] for h in c.get("hops", []))
    return cond_hop and "conditionally called" in str(ex)


def make_simul_case(args):
    seed, cap = args
    rng = random.Random(seed)
    d = gen_simul(rng)
    try:
        vals = all_vals(d["nin"], rng, cap)
        argvals = [[rng.randint(1, 7) for _ in range(d["nargs"])] for _ in vals]
        return {"design": d, "raised": False, "exc": "", "cycles": run_simul(d, vals, argvals), "seed": seed}
    except Exception as ex:  # noqa: BLE001
        import traceback
        return {"design": d, "raised": True, "exc": f"{type(ex).__name__}: {str(ex)[:300]}", "cycles": [], "seed": seed,
                "tb": traceback.format_exc()[-1500:],
                # the documented refusal of simultaneity constraints on conditionally called methods
                "usage_rule": simul_usage_rule(d, ex)}
