"""Framework for components with *per-cycle inputs* (properties C18, C19, C29, C30).

Extension of the generic component pattern of vlib/comp.py (which is not modified) for
components that call harness-owned *target* methods or have plain Amaranth ports:

* the target readiness / target return values / plain input ports of a cycle are **inputs**
  (`line["in"]`), driven by the harness;
* what the component does to its environment in the cycle (which targets executed, with which
  argument; plain output ports) is the **observation** (`line["pub"]`);
* a component spec module (functional style, see specs/lib/IOCompMC.tpl for the interface)
  additionally takes `inp` in Callable/Result/CNext, defines `InDom` (inputs enumerated by the
  exhaustive model), `ObsSet` (the set of observations the spec allows - hidden scheduler
  choices stay nondeterministic), `Unspec` (methods whose readiness the property leaves
  undefined in a state), and a ghost history `g` (GInit/GNext/GInv/GBound) for history
  properties.

Three steps as in comp.py: MC (exhaustive TLC run, EDGE dump), S->C (adaptive walks covering
every (state, requests, inputs) group of the edge graph; where the spec allows several
outcomes the observed one selects the edge), C->S (recorded traces judged by <X>Trace).

The simulator driver `IOSim` elaborates once per configuration and re-runs from reset
(`Simulator.reset`) for every schedule, so that thousands of short exhaustive histories are cheap.
"""
from __future__ import annotations

import copy
import importlib
import itertools
import json
import multiprocessing as mp
import os
import random
import tempfile
from collections import defaultdict, deque
from dataclasses import dataclass, field
from typing import Any, Callable

from . import tlc
from .report import Report

NPROCS = int(os.environ.get("VERIF_PROCS", "16"))
HERE = os.path.dirname(os.path.abspath(__file__))
TPL_DIR = os.path.join(os.path.dirname(HERE), "specs", "lib")

MC_CFG_EDGES = """SPECIFICATION Spec
VIEW View
INVARIANT Inv
PROPERTY StepOK
ACTION_CONSTRAINT Emit
CHECK_DEADLOCK FALSE
"""
MC_CFG_HIST = """SPECIFICATION Spec
VIEW ViewG
INVARIANT Inv
INVARIANT GInvOK
PROPERTY StepOK
CONSTRAINT GBoundOK
CHECK_DEADLOCK FALSE
"""
TRACE_CFG = """SPECIFICATION Spec
CHECK_DEADLOCK FALSE
"""


def _violation(rep, desc):
    """rep.violation + a histogram of failing clauses in the evidence (report.py prints only the
    first five violations)."""
    h = rep.coverage.setdefault("violation_clauses", {})
    for c in desc.get("clauses", []):
        h[c] = h.get(c, 0) + 1
    return rep.violation(desc)


def _tpl(name, subst):
    text = open(os.path.join(TPL_DIR, name)).read()
    for k, v in subst.items():
        text = text.replace("@" + k + "@", v)
    return text


@dataclass
class IOComponent:
    spec: str                                  # TLA+ module name
    name: str                                  # implementation class / family name
    build: Callable                            # cfg -> (dut, {method: Method}, pub, extra(m), inputs)
    methods: Callable                          # cfg -> list of spec method names
    has_arg: Callable                          # method name -> bool
    gen_arg: Callable                          # (cfg, method, rng, tracker) -> spec value
    gen_in: Callable                           # (cfg, rng, tracker, phase dict) -> {input name: int | [int]}
    tracker: Callable | None = None            # cfg -> object with .update(line) [, .fix(step, rng)]
    want: Callable | None = None               # (cfg, method, rng, tracker, p) -> bool
    impl_cfg: Callable | None = None           # spec cfg (EDGE json) -> build cfg
    post: Callable | None = None               # (cfg, line) -> None: normalise public don't-cares
    module: str = ""
    attr: str = "COMP"
    has_ghost: bool = False                    # run the second (history) MC pass
    scheduler: Any = None
    dm_setup: Callable | None = None
    in_phase: Callable | None = None           # (cfg, rng) -> phase dict for gen_in (bias)
    shadow: Callable | None = None             # cfg -> exclusive methods that get a second (shadow) caller


# ---------------------------------------------------------------------------------------
# simulator driver

class IOSim:
    """Like drive.CompSim, plus plain inputs, list-valued pub/inputs, and re-runs from reset."""

    def __init__(self, build: Callable, cfg, scheduler=None, dm_setup: Callable | None = None, shadows=()):
        from amaranth.sim import Simulator
        from transactron.core import TransactionManager
        from transactron.core.context import TransactronContextElaboratable
        from transactron.utils.dependencies import DependencyContext, DependencyManager
        from .drive import Harness, _Top
        self.dm = DependencyManager()
        if dm_setup is not None:
            dm_setup(self.dm)
        with DependencyContext(self.dm):
            built = build(cfg)
            dut, methods = built[0], built[1]
            self.pub = built[2] if len(built) > 2 and built[2] else {}
            extra = built[3] if len(built) > 3 else None
            self.inputs = built[4] if len(built) > 4 and built[4] else {}
            self.h = Harness(dut, methods, extra, shadows)
            tm = TransactionManager(scheduler) if scheduler is not None else TransactionManager()
            self.top = _Top(TransactronContextElaboratable(self.h, dependency_manager=self.dm, transaction_manager=tm))
            self.sim = Simulator(self.top)
        self.sim.add_clock(1e-6)
        self.ports = self.h.ports
        self._job = None
        self._started = False
        self._install()

    def _install(self):
        from amaranth import Value
        from .drive import encode, expand, simplify, decode, _zero_like
        ports = self.ports
        def cast(s):
            return s if isinstance(s, Value) else Value.cast(s)

        pub_layout = []   # (name, n or None)
        pub_sigs = []
        for n, s in self.pub.items():
            if isinstance(s, (list, tuple)):
                pub_layout.append((n, len(s)))
                pub_sigs += [cast(x) for x in s]
            else:
                pub_layout.append((n, None))
                pub_sigs.append(cast(s))
        inputs = self.inputs

        async def tb(ctx):
            job = self._job
            schedule = job["schedule"]
            lines = job["lines"]
            sigs = []
            for p in ports.values():
                sigs += [p.trans.run, p.trans.runnable, p.dout.as_value()]
            shadow = self.h.shadow
            for p in shadow.values():
                sigs += [p.trans.run, p.dout.as_value()]
            sigs += pub_sigs
            i = 0
            prev = None
            it = iter(schedule) if not callable(schedule) else None
            while True:
                if it is not None:
                    try:
                        step = next(it)
                    except StopIteration:
                        break
                else:
                    step = schedule(i, prev)
                    if step is None:
                        break
                args = dict(step.get("_args", {}))
                for name, p in ports.items():
                    req = name in step
                    ctx.set(p.en, 1 if req else 0)
                    a = step[name] if req else args.get(name)
                    if a is None:
                        a = _zero_like(p.method.layout_in)
                        raw = 0
                    else:
                        raw = encode(p.method.layout_in, expand(p.method.layout_in, a))
                    ctx.set(p.din.as_value(), raw)
                    args[name] = a
                    if name in shadow:
                        ctx.set(shadow[name].en, 1 if (req and name in step.get("_shadow", ())) else 0)
                        ctx.set(shadow[name].din.as_value(), raw)
                inp = {k: v for k, v in step.get("_in", {}).items() if k != "none"}
                for sname, v in inp.items():
                    s = inputs[sname]
                    if isinstance(s, (list, tuple)):
                        for sig, x in zip(s, v):
                            ctx.set(sig, x)
                    else:
                        ctx.set(s, v)
                vals = await ctx.tick().sample(*sigs)
                vals = vals[2:]
                line = {}
                k = 0
                for name, p in ports.items():
                    run, runnable, dout = vals[k], vals[k + 1], vals[k + 2]
                    k += 3
                    line[name] = {
                        "req": 1 if name in step else 0,
                        "cal": int(runnable),
                        "done": int(run),
                        "arg": args[name],
                        "out": simplify(p.method.layout_out, decode(p.method.layout_out, int(dout))),
                        "both": 0,
                    }
                for name, p in shadow.items():
                    srun, sdout = int(vals[k]), vals[k + 1]
                    k += 2
                    if srun:
                        line[name]["both"] = line[name]["done"]
                        if not line[name]["done"]:
                            line[name]["done"] = 1
                            line[name]["out"] = simplify(p.method.layout_out, decode(p.method.layout_out, int(sdout)))
                    if name in step and name in step.get("_shadow", ()):
                        line[name]["sh"] = 1
                pub = {}
                for n, cnt in pub_layout:
                    if cnt is None:
                        pub[n] = int(vals[k])
                        k += 1
                    else:
                        pub[n] = [int(x) for x in vals[k:k + cnt]]
                        k += cnt
                line["pub"] = pub if pub else {"none": 0}
                line["in"] = copy.deepcopy(inp) if inp else {"none": 0}
                lines.append(line)
                prev = line
                i += 1

        self.sim.add_testbench(tb)

    def run(self, schedule):
        """Run `schedule` from the reset state; returns the trace lines."""
        if self._started:
            self.sim.reset()
        self._started = True
        self._job = {"schedule": schedule, "lines": []}
        self.sim.run()
        return self._job["lines"]


def _warm():
    """Import the heavy libraries in the parent so that forked pool workers share them."""
    import amaranth.sim  # noqa: F401
    import transactron.lib  # noqa: F401
    import transactron.lib.adapters  # noqa: F401
    from . import drive  # noqa: F401


def make_sim(comp: IOComponent, cfg, shadows=False):
    return IOSim(comp.build, cfg, scheduler=comp.scheduler, dm_setup=comp.dm_setup,
                 shadows=list(comp.shadow(cfg)) if (shadows and comp.shadow) else ())


def run_schedule(comp: IOComponent, cfg, sim: IOSim, schedule):
    lines = sim.run(schedule)
    if comp.post:
        for ln in lines:
            comp.post(cfg, ln)
    return lines


# ---------------------------------------------------------------------------------------
# 1. model checking

def model_check(comp: IOComponent, rep: Report, emit=True, workers=1, timeout=1500):
    text = _tpl("IOCompMC.tpl", {"NAME": comp.spec, "EXTRAS": "Extras(calls, inp)"})
    text_hist = _tpl("IOCompMC.tpl", {"NAME": comp.spec, "EXTRAS": "{<<>>}"})
    res = tlc.run(comp.spec + "MC", MC_CFG_EDGES if emit else MC_CFG_EDGES.replace("ACTION_CONSTRAINT Emit\n", ""),
                  extra_modules={comp.spec + "MC": text}, workers=workers, timeout=timeout)
    if res.invariant_violated:
        _violation(rep, {"component": comp.name, "what": f"model violates {res.invariant_violated}",
                       "clauses": ["MC:" + res.invariant_violated], "tlc_tail": res.out.splitlines()[-60:]})
        return res, [], []
    tlc.require_ok(res, comp.spec + "MC")
    rep.add("states", res.distinct)
    rep.add("transitions", res.generated)
    edges = []
    seen = set()
    for e in (tlc.tagged(res, "EDGE") if emit else []):   # TLC may evaluate the constraint twice
        k = _key(e)
        if k not in seen:
            seen.add(k)
            edges.append(e)
    inits = tlc.tagged(res, "INIT")
    rep.coverage.setdefault("mc", []).append(
        {"module": comp.spec + "MC", "pass": "edges", "distinct_states": res.distinct,
         "states_generated": res.generated, "depth": res.depth, "edges": len(edges), "wall_s": round(res.wall_s, 2)})
    if comp.has_ghost:
        res2 = tlc.run(comp.spec + "MC", MC_CFG_HIST, extra_modules={comp.spec + "MC": text_hist},
                       workers=min(NPROCS, 8), timeout=timeout)
        if res2.invariant_violated:
            _violation(rep, {"component": comp.name, "what": f"model (history pass) violates {res2.invariant_violated}",
                           "clauses": ["MC:" + res2.invariant_violated], "tlc_tail": res2.out.splitlines()[-60:]})
            return res, edges, inits
        tlc.require_ok(res2, comp.spec + "MC(hist)")
        rep.add("states", res2.distinct)
        rep.add("transitions", res2.generated)
        rep.coverage["mc"].append(
            {"module": comp.spec + "MC", "pass": "history", "distinct_states": res2.distinct,
             "states_generated": res2.generated, "depth": res2.depth, "wall_s": round(res2.wall_s, 2)})
    return res, edges, inits


# ---------------------------------------------------------------------------------------
# 2. spec -> code: adaptive group-cover walks

def _key(x):
    return json.dumps(x, sort_keys=True)


def _norm(c):
    return {} if isinstance(c, list) else c


def _step_of_edge(e):
    lab = e["lab"]
    step = dict(_norm(lab["req"]))
    step["_in"] = lab["inp"]
    return step


def _edge_problems(comp, bcfg, e, line):
    """Compare an observed line with the expectations of edge e; [] when it matches."""
    lab = e["lab"]
    req, calls, res, cal = _norm(lab["req"]), _norm(lab["calls"]), _norm(lab["res"]), _norm(lab["cal"])
    probs = []
    for m in comp.methods(bcfg):
        exp_done = 1 if m in calls else 0
        if line[m]["done"] != exp_done:
            probs.append(f"{m}.done={line[m]['done']} expected {exp_done}")
        if m in req and cal[m] != -1 and line[m]["cal"] != cal[m]:
            probs.append(f"{m}.callable={line[m]['cal']} expected {cal[m]}")
        if m in calls and res[m] != -1 and line[m]["out"] != res[m]:
            probs.append(f"{m}.out={line[m]['out']} expected {res[m]}")
    if line["pub"] != lab["obs"]:
        probs.append(f"pub={line['pub']} expected {lab['obs']}")
    return probs


class _Graph:
    def __init__(self, edges, init_key):
        self.edges = edges
        self.init = init_key
        self.groups = defaultdict(list)        # (from, action) -> [edge index]
        self.out_groups = defaultdict(list)    # from -> [group key]
        for i, e in enumerate(edges):
            gk = (_key(e["from"]), _key([_norm(e["lab"]["req"]), e["lab"]["inp"]]))
            if gk not in self.groups:
                self.out_groups[gk[0]].append(gk)
            self.groups[gk].append(i)


def _walk_worker(args):
    """Cover the groups assigned to this worker; returns (covered groups, covered edges, cycles, walks, violations)."""
    modname, attr, cfg, edges, init_key, mine, max_len, budget = args
    comp = getattr(importlib.import_module(modname), attr)
    bcfg = comp.impl_cfg(cfg) if comp.impl_cfg else cfg
    try:
        g = _Graph(edges, init_key)
        sim = make_sim(comp, bcfg)
        todo = set(mine)
        covered_groups, covered_edges = set(), set()
        cycles = walks = 0
        viol = []
        attempts = defaultdict(int)
        chosen = {}
        while todo and cycles < budget and not viol:
            walks += 1
            state = {"cur": g.init, "n": 0, "pending": None, "sched": [], "stop": False}

            def plan(cur):
                cand = [gk for gk in g.out_groups[cur] if gk in todo]
                if cand:
                    return min(cand, key=lambda gk: attempts[gk])
                # BFS over states (any edge) to the nearest state with a todo group
                prev = {cur: None}
                dq = deque([cur])
                while dq:
                    s = dq.popleft()
                    for gk in g.out_groups[s]:
                        # a group already exercised: the implementation is assumed to repeat its choice
                        for i in ([chosen[gk]] if gk in chosen else g.groups[gk]):
                            t = _key(g.edges[i]["to"])
                            if t not in prev:
                                prev[t] = (s, gk)
                                if any(x in todo for x in g.out_groups[t]):
                                    # first step of the path
                                    while prev[t][0] != cur:
                                        t = prev[t][0]
                                    return prev[t][1]
                                dq.append(t)
                return None

            def sched(i, prevline):
                if state["pending"] is not None:
                    gk = state["pending"]
                    match = None
                    for ei in g.groups[gk]:
                        if not _edge_problems(comp, bcfg, g.edges[ei], _post(comp, bcfg, prevline)):
                            match = ei
                            break
                    if match is None:
                        e0 = g.edges[g.groups[gk][0]]
                        viol.append({"problems": _edge_problems(comp, bcfg, e0, prevline), "from": e0["from"],
                                     "lab": e0["lab"], "line": prevline, "schedule": list(state["sched"]),
                                     "alternatives": len(g.groups[gk])})
                        return None
                    covered_edges.add(match)
                    chosen[gk] = match
                    if gk in todo:
                        todo.discard(gk)
                        covered_groups.add(gk)
                    state["cur"] = _key(g.edges[match]["to"])
                    state["pending"] = None
                if state["n"] >= max_len or not todo:
                    return None
                gk = plan(state["cur"])
                if gk is None:
                    state["stop"] = True
                    return None
                attempts[gk] += 1
                e = g.edges[g.groups[gk][0]]
                step = _step_of_edge(e)
                state["pending"] = gk
                state["sched"].append(step)
                state["n"] += 1
                return step

            lines = sim.run(sched)
            cycles += len(lines)
            if state["stop"] and not lines:
                break
        # groups left: unreachable under the choices the implementation made where the model is
        # nondeterministic (legitimate), or budget exhausted / deterministic model (machinery error)
        nondet = any(len(v) > 1 for v in g.groups.values())
        left_ok = len(todo) if (nondet and cycles < budget) else 0
        left_bad = len(todo) - left_ok
        return cfg, len(covered_groups), sorted(covered_edges), cycles, walks, viol, (left_ok, left_bad), None
    except Exception:
        import traceback
        return cfg, 0, [], 0, 0, [], (0, 0), traceback.format_exc()


def _post(comp, cfg, line):
    if comp.post and line is not None and not line.get("_posted"):
        comp.post(cfg, line)
        line["_posted"] = 1
    return line


def replay_edges(comp: IOComponent, edges, inits, rep: Report, procs=NPROCS, max_len=60):
    by_cfg = defaultdict(list)
    for e in edges:
        by_cfg[_key(e["cfg"])].append(e)
    init_by_cfg = {_key(i["cfg"]): _key(i["st"]) for i in inits}
    tasks = []
    total_groups = 0
    for ck, es in by_cfg.items():
        g = _Graph(es, init_by_cfg[ck])
        gks = list(g.groups)
        total_groups += len(gks)
        k = max(1, min(procs, len(gks) // 150 + 1))
        for j in range(k):
            mine = gks[j::k]
            tasks.append((comp.module, comp.attr, json.loads(ck), es, init_by_cfg[ck], mine, max_len,
                          60 * len(mine) + 500))
    _warm()
    with mp.Pool(min(procs, max(1, len(tasks)))) as pool:
        results = pool.map(_walk_worker, tasks, chunksize=1)
    cg = cyc = wk = left = left_ok = 0
    cov_edges = {}
    for cfg, ncg, nce, cycles, walks, viol, nleft, err in results:
        if err:
            _violation(rep, {"component": comp.name, "cfg": cfg, "clauses": ["ReplayException"], "what": err[-1500:]})
            continue
        cg += ncg
        cov_edges.setdefault(_key(cfg), set()).update(nce)
        cyc += cycles
        wk += walks
        left_ok += nleft[0]
        left += nleft[1]
        for v in viol:
            _violation(rep, {"component": comp.name, "cfg": cfg, "clauses": ["EdgeReplay"],
                           "what": "; ".join(v["problems"]), "schedule": v["schedule"],
                           "model_from": v["from"], "model_label": v["lab"], "observed": v["line"]})
    rep.add("edges_total", len(edges))
    rep.add("edge_groups_total", total_groups)
    rep.add("edge_groups_replayed_into_impl", cg)
    rep.add("edges_replayed_into_impl", sum(len(v) for v in cov_edges.values()))
    rep.add("edge_groups_not_chosen_by_impl", left_ok)
    rep.add("replay_walks", wk)
    rep.add("replay_cycles", cyc)
    if left and not rep.violations:
        rep.machinery(f"{comp.spec}: {left} edge groups could not be reached by the replay walker")
    if edges:
        rep.sample({"kind": "model-edge", "cfg": edges[0]["cfg"], "from": edges[0]["from"], "lab": edges[0]["lab"]})
    return cg, cyc


# ---------------------------------------------------------------------------------------
# 3. code -> spec: record + validate traces

def random_schedule(comp: IOComponent, cfg, rng: random.Random, cycles: int, shadows=()):
    srng = random.Random(rng.random()) if shadows else None
    methods = comp.methods(cfg)
    tracker = comp.tracker(cfg) if comp.tracker else None
    state = {"phase_end": 0, "p": {}, "inph": None}

    def sched(i, prev):
        if i >= cycles:
            return None
        if tracker is not None and prev is not None:
            tracker.update(prev)
        if i >= state["phase_end"]:
            state["phase_end"] = i + rng.choice([3, 8, 20, 40])
            state["p"] = {m: rng.choice([0.0, 0.15, 0.5, 0.85, 1.0, 1.0]) for m in methods}
            state["inph"] = comp.in_phase(cfg, rng) if comp.in_phase else {"p": rng.choice([0.1, 0.5, 0.9, 1.0])}
        step = {}
        args = {}
        for m in methods:
            if comp.want is not None:
                w = comp.want(cfg, m, rng, tracker, state["p"][m])
            else:
                w = rng.random() < state["p"][m]
            a = comp.gen_arg(cfg, m, rng, tracker) if comp.has_arg(m) else None
            if w:
                step[m] = a
            else:
                args[m] = a
        step["_args"] = {k: v for k, v in args.items() if v is not None}
        step["_in"] = comp.gen_in(cfg, rng, tracker, state["inph"])
        if tracker is not None and hasattr(tracker, "fix"):
            step = tracker.fix(step, rng)
        if shadows:
            step["_shadow"] = [m for m in shadows if m in step and srng.random() < 0.4]
        return step

    return sched


def _record_task(args):
    """One worker: one configuration, many schedules (random seeds and/or explicit lists)."""
    modname, attr, cfg, jobs = args
    comp = getattr(importlib.import_module(modname), attr)
    out = []
    try:
        sim = make_sim(comp, cfg)
        # every second random history runs on a second elaboration that has shadow callers (a second harness
        # transaction per exclusive method): ExclusiveOnce
        shadows = list(comp.shadow(cfg)) if comp.shadow else []
        ssim = None
        for ji, job in enumerate(jobs):
            if job["kind"] == "random":
                rng = random.Random(job["seed"])
                if shadows and job["seed"] % 2 == 1:
                    ssim = ssim or make_sim(comp, cfg, shadows=True)
                    lines = run_schedule(comp, cfg, ssim, random_schedule(comp, cfg, rng, job["cycles"], shadows))
                else:
                    lines = run_schedule(comp, cfg, sim, random_schedule(comp, cfg, rng, job["cycles"]))
                out.append({"cfg": cfg, "seed": job["seed"], "cycles": lines})
            else:
                lines = run_schedule(comp, cfg, sim, job["schedule"])
                out.append({"cfg": cfg, "seed": None, "kind": job["kind"], "cycles": lines})
        return out, None, cfg
    except Exception:
        import traceback
        return out, traceback.format_exc(), cfg


def record_traces(comp: IOComponent, jobs_by_cfg, rep: Report, procs=NPROCS, split=4):
    """jobs_by_cfg: list of (cfg, [job...]); job = {"kind":"random","seed","cycles"} or
    {"kind": <name>, "schedule": [step...]}.  Jobs of one configuration are split over up to
    `split` workers (each elaborates once)."""
    tasks = []
    for cfg, jobs in jobs_by_cfg:
        k = max(1, min(split, len(jobs)))
        for j in range(k):
            part = jobs[j::k]
            if part:
                tasks.append((comp.module, comp.attr, cfg, part))
    _warm()
    with mp.Pool(min(procs, max(1, len(tasks)))) as pool:
        results = pool.map(_record_task, tasks, chunksize=1)
    traces = []
    for out, err, cfg in results:
        traces += out
        if err:
            _violation(rep, {"component": comp.name, "cfg": cfg, "clauses": ["BuildOrRunException"], "what": err[-1500:]})
    return traces


def random_jobs(cfgs, seeds_per_cfg, cycles, seed):
    res = []
    for ci, cfg in enumerate(cfgs):
        res.append((cfg, [{"kind": "random", "seed": seed * 100003 + ci * 1009 + k, "cycles": cycles}
                          for k in range(seeds_per_cfg)]))
    return res


def trace_stats(traces):
    st = defaultdict(int)
    for tr in traces:
        for ln in tr["cycles"]:
            st["cycles"] += 1
            nd = 0
            for m, v in ln.items():
                if not isinstance(v, dict) or "req" not in v:
                    continue
                if v["req"]:
                    st["requests"] += 1
                    if not v["cal"]:
                        st["requested_not_callable"] += 1
                if v["done"]:
                    nd += 1
                    st["executions"] += 1
                    st["exec_" + m] += 1
            if nd >= 2:
                st["cycles_with_simultaneous_calls"] += 1
    return dict(st)


def _strip(line):
    return {k: v for k, v in line.items() if k != "_posted"}


def validate_traces(comp: IOComponent, traces, rep: Report, timeout=2400, self_test=False, chunk=None):
    """Every trace gets a verdict; returns the list of rejects."""
    if not traces:
        return []
    text = _tpl("IOCompTrace.tpl", {"NAME": comp.spec})
    fd, path = tempfile.mkstemp(prefix="vtr_", suffix=".json")
    try:
        with os.fdopen(fd, "w") as fh:
            json.dump([{"cfg": t["cfg"], "cycles": [_strip(c) for c in t["cycles"]]} for t in traces], fh)
        res = tlc.run(comp.spec + "Trace", TRACE_CFG, extra_modules={comp.spec + "Trace": text},
                      env={"TRACE_FILE": path}, workers=1, timeout=timeout)
    finally:
        os.unlink(path)
    tlc.require_ok(res, comp.spec + "Trace")
    acc = tlc.tagged(res, "ACCEPT")
    rej = tlc.tagged(res, "REJECT")
    if len(acc) + len(rej) != len(traces):
        raise tlc.MachineryError(
            f"{comp.spec}Trace: {len(acc)} accepted + {len(rej)} rejected != {len(traces)} traces")
    if self_test:
        return rej
    rep.add("traces_validated_against_impl", len(traces))
    rep.add("trace_states", res.distinct)
    for r in rej:
        tr = traces[r["tid"] - 1]
        ln = r["line"]
        _violation(rep, {"component": comp.name, "cfg": tr["cfg"], "clauses": sorted(r["clauses"]),
                       "line": ln, "seed": tr.get("seed"), "model_state": r["state"], "ghost": r.get("g"),
                       "observed": _strip(tr["cycles"][ln - 1]),
                       "schedule": [sched_of(c) for c in tr["cycles"][:ln]]})
    return rej


def sched_of(line):
    step = {}
    args = {}
    for m, v in line.items():
        if not isinstance(v, dict) or "req" not in v:
            continue
        if v["req"]:
            step[m] = v["arg"]
        else:
            args[m] = v["arg"]
    step["_args"] = args
    sh = [m for m, v in line.items() if isinstance(v, dict) and v.get("sh")]
    if sh:
        step["_shadow"] = sh
    if line.get("in") and line["in"] != {"none": 0}:
        step["_in"] = line["in"]
    return step


def corrupt_self_test(comp: IOComponent, traces, rep: Report, rng: random.Random, n=8):
    """Flip one recorded field (a done bit, a returned datum, a pub field) of accepted traces:
    every corrupted trace must be rejected at or before the corrupted line."""
    good = [t for t in traces if t["cycles"]]
    if not good:
        return
    picked = []
    for _ in range(n * 20):
        if len(picked) >= n:
            break
        t = copy.deepcopy(rng.choice(good))
        li = rng.randrange(len(t["cycles"]))
        ln = t["cycles"][li]
        kind = rng.choice(["done", "out", "pub"])
        if kind == "pub":
            keys = [k for k in ln["pub"] if k != "none"]
            if not keys:
                continue
            k = rng.choice(keys)
            v = ln["pub"][k]
            if isinstance(v, list):
                if not v:
                    continue
                j = rng.randrange(len(v))
                v[j] ^= 1
            else:
                ln["pub"][k] = v ^ 1
            picked.append((t, li + 1, "pub." + k))
            continue
        cands = [m for m, v in ln.items() if isinstance(v, dict) and v.get("done")]
        if not cands:
            continue
        m = rng.choice(cands)
        if kind == "out" and isinstance(ln[m]["out"], int) and ln[m]["out"] != 0:
            ln[m]["out"] ^= 1
            picked.append((t, li + 1, m + ".out"))
        else:
            ln[m]["done"] = 0
            picked.append((t, li + 1, m + ".done"))
    if not picked:
        rep.coverage.setdefault("selftest", {})[comp.spec] = "no candidate field"
        return
    rej = validate_traces(comp, [p[0] for p in picked], rep, self_test=True)
    rejected = {r["tid"]: r for r in rej}
    ok = sum(1 for i, (t, li, what) in enumerate(picked) if (i + 1) in rejected and rejected[i + 1]["line"] <= li)
    rep.add("selftest_corrupted_traces", len(picked))
    rep.add("selftest_corrupted_rejected", ok)
    if ok < len(picked):
        missed = [what for i, (t, li, what) in enumerate(picked)
                  if not ((i + 1) in rejected and rejected[i + 1]["line"] <= li)]
        rep.coverage.setdefault("selftest_missed", []).extend(missed)
    if ok == 0:
        rep.machinery(f"{comp.spec}: none of {len(picked)} corrupted traces was rejected (binding is vacuous)")


# ---------------------------------------------------------------------------------------

def standard_check(comp: IOComponent, rep: Report, *, jobs_by_cfg, mc=True, replay=True, max_walk=60,
                   mc_workers=1, split=4):
    """MC + adaptive edge-group replay + trace validation + corrupt-a-field self-test."""
    import time
    ph = rep.coverage.setdefault("phase_wall_s", {})

    def lap(name, t0):
        ph[comp.spec + ":" + name] = round(time.time() - t0, 2)

    if mc:
        t0 = time.time()
        res, edges, inits = model_check(comp, rep, emit=replay, workers=mc_workers)
        lap("mc", t0)
        if replay and edges:
            t0 = time.time()
            replay_edges(comp, edges, inits, rep, max_len=max_walk)
            lap("replay", t0)
    t0 = time.time()
    traces = record_traces(comp, jobs_by_cfg, rep, split=split)
    lap("record", t0)
    for k, v in trace_stats(traces).items():
        rep.add("impl_" + k, v)
    t0 = time.time()
    validate_traces(comp, traces, rep)
    lap("validate", t0)
    t0 = time.time()
    corrupt_self_test(comp, traces, rep, random.Random(rep.seed))
    lap("selftest", t0)
    if traces:
        t = traces[0]
        rep.sample({"kind": "impl-trace", "cfg": t["cfg"], "first_cycles": [_strip(c) for c in t["cycles"][:2]]})
    return traces


def replay_file(comps, rep: Report, path: str):
    """Re-run the schedule stored in a replay file against the current repository and judge it
    with the trace spec.  `comps`: {component name: IOComponent}."""
    d = json.load(open(path))
    comp = comps[d["component"]] if isinstance(comps, dict) else comps
    cfg = d["cfg"]
    bcfg = comp.impl_cfg(cfg) if (comp.impl_cfg and "EdgeReplay" in d.get("clauses", [])) else cfg
    sim = make_sim(comp, bcfg)
    lines = run_schedule(comp, bcfg, sim, d["schedule"])
    validate_traces(comp, [{"cfg": bcfg, "seed": d.get("seed"), "cycles": lines}], rep)
