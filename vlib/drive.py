"""Cycle-accurate driver for transactron components in Amaranth's Python simulator.

The implementation is observed only through public signals: every public method of the
device under test is called from one harness-owned transaction (request = its `ready`,
`done` = its `run`, `callable` = its `runnable`).  One trace line = one clock cycle; all
values of a line are sampled by a single `tick().sample(...)`.
"""
from __future__ import annotations

import warnings
from dataclasses import dataclass, field
from typing import Any, Callable

from amaranth import *
from amaranth.hdl import ShapeCastable
from amaranth.lib import data, enum as aenum
from amaranth.sim import Simulator

from transactron import TModule, Method, Transaction
from transactron.core import TransactionManager
from transactron.core.context import TransactronContextElaboratable
from transactron.utils.dependencies import DependencyContext, DependencyManager

warnings.filterwarnings("ignore")


# ---------------------------------------------------------------------------------------
# value conversion between spec values (ints / dicts / lists) and amaranth shapes

def decode(shape, bits: int):
    """Decode the integer `bits` as a value of `shape` into ints / dicts / lists."""
    if isinstance(shape, data.StructLayout) or isinstance(shape, data.UnionLayout):
        out = {}
        for name, f in shape:
            out[name] = decode(f.shape, (bits >> f.offset) & ((1 << Shape.cast(f.shape).width) - 1))
        return out
    if isinstance(shape, data.ArrayLayout):
        w = Shape.cast(shape.elem_shape).width
        return [decode(shape.elem_shape, (bits >> (i * w)) & ((1 << w) - 1)) for i in range(shape.length)]
    if isinstance(shape, data.FlexibleLayout):
        raise NotImplementedError
    s = Shape.cast(shape)
    v = bits & ((1 << s.width) - 1) if s.width else 0
    if s.signed and s.width and v >> (s.width - 1):
        v -= 1 << s.width
    return v


def simplify(layout, value):
    """A struct with a single field is represented in specs by the field's value; an
    empty struct by 0."""
    if isinstance(layout, data.StructLayout):
        names = [n for n, _ in layout]
        if len(names) == 0:
            return 0
        if len(names) == 1:
            return simplify(layout[names[0]].shape, value[names[0]])
        return {n: simplify(layout[n].shape, value[n]) for n in names}
    if isinstance(layout, data.ArrayLayout):
        return [simplify(layout.elem_shape, v) for v in value]
    return value


def expand(layout, value):
    """Inverse of `simplify`: spec value -> value accepted by `Simulator.set`."""
    if isinstance(layout, data.StructLayout):
        names = [n for n, _ in layout]
        if len(names) == 0:
            return {}
        if len(names) == 1:
            return {names[0]: expand(layout[names[0]].shape, value)}
        return {n: expand(layout[n].shape, value[n]) for n in names}
    if isinstance(layout, data.ArrayLayout):
        return [expand(layout.elem_shape, v) for v in value]
    return value


def encode(shape, value) -> int:
    """Encode an expanded value into raw bits."""
    if isinstance(shape, data.StructLayout):
        bits = 0
        for name, f in shape:
            if name in value:
                bits |= encode(f.shape, value[name]) << f.offset
        return bits
    if isinstance(shape, data.ArrayLayout):
        w = Shape.cast(shape.elem_shape).width
        bits = 0
        for i, v in enumerate(value):
            bits |= encode(shape.elem_shape, v) << (i * w)
        return bits
    s = Shape.cast(shape)
    return int(value) & ((1 << s.width) - 1) if s.width else 0


# ---------------------------------------------------------------------------------------

@dataclass
class Port:
    """A harness adapter around one method."""
    name: str
    method: Method
    en: Signal = None
    din: Any = None
    dout: Any = None
    trans: Transaction = None


class Harness(Elaboratable):
    """DUT + one single-call transaction per exposed method (+ optional extra logic)."""

    def __init__(self, dut, methods: dict[str, Method], extra: Callable | None = None, shadows=()):
        self.dut = dut
        self.ports = {n: Port(n, m) for n, m in methods.items()}
        # shadow callers: a SECOND harness transaction calling the same method with the same argument; an
        # exclusive method must never be executed for both callers in one cycle
        self.shadow = {n: Port(n + "_sh", methods[n]) for n in shadows if n in methods}
        self.extra = extra
        for p in list(self.ports.values()) + list(self.shadow.values()):
            p.en = Signal(name=f"h_{p.name}_en")
            p.din = Signal(p.method.layout_in, name=f"h_{p.name}_din")
            p.dout = Signal(p.method.layout_out, name=f"h_{p.name}_dout")

    def elaborate(self, platform):
        m = TModule()
        if self.dut is not None:
            m.submodules.dut = self.dut
        for p in list(self.ports.values()) + list(self.shadow.values()):
            p.trans = Transaction(name=f"h_{p.name}")
            with p.trans.body(m, ready=p.en):
                m.d.top_comb += p.dout.eq(p.method(m, p.din))
        if self.extra is not None:
            self.extra(m)
        return m


class _Top(Elaboratable):
    def __init__(self, inner):
        self.inner = inner

    def elaborate(self, platform):
        m = Module()
        _dummy = Signal()
        m.d.sync += _dummy.eq(1)  # makes sure the sync domain exists
        m.submodules.inner = self.inner
        return m


class CompSim:
    """Elaborates a component with its harness and runs it cycle by cycle.

    build(cfg) -> (dut, {spec method name: Method}[, pub signals dict[, extra(m) callback]])
    """

    def __init__(self, build: Callable, cfg, scheduler=None, dm_setup: Callable | None = None, shadows=()):
        self.dm = DependencyManager()
        if dm_setup is not None:
            dm_setup(self.dm)
        with DependencyContext(self.dm):
            built = build(cfg)
            dut, methods = built[0], built[1]
            self.pub = built[2] if len(built) > 2 and built[2] else {}
            extra = built[3] if len(built) > 3 else None
            self.h = Harness(dut, methods, extra, shadows)
            tm = TransactionManager(scheduler) if scheduler is not None else TransactionManager()
            self.top = _Top(TransactronContextElaboratable(self.h, dependency_manager=self.dm, transaction_manager=tm))
            self.sim = Simulator(self.top)
        self.sim.add_clock(1e-6)
        self.ports = self.h.ports
        self.names = list(self.ports)

    def run(self, schedule, plain_inputs: dict | None = None):
        """schedule: iterable or callable.  If iterable: per cycle a dict
        {method: arg or None} of *requested* methods (arg in spec form) plus optionally
        '_args': {method: arg} for non-requested methods and '_in': {signal name: value}.
        If callable: called as schedule(cycle_index, previous_line) -> such a dict or None
        to stop.  Returns the list of trace lines."""
        lines = []
        ports = self.ports
        sample_sigs = []
        for p in ports.values():
            sample_sigs += [p.trans.run, p.trans.runnable, p.dout.as_value()]
        shadow = self.h.shadow
        for p in shadow.values():
            sample_sigs += [p.trans.run, p.dout.as_value()]
        pub_names = list(self.pub)
        for n in pub_names:
            sample_sigs.append(Value.cast(self.pub[n]) if not isinstance(self.pub[n], Value) else self.pub[n])
        plain = plain_inputs or {}

        async def tb(ctx):
            i = 0
            prev = None
            it = iter(schedule) if not callable(schedule) else None
            while True:
                if it is not None:
                    try:
                        step = next(it)
                    except StopIteration:
                        break
                else:
                    step = schedule(i, prev)
                    if step is None:
                        break
                args = dict(step.get("_args", {}))
                for name, p in ports.items():
                    req = name in step
                    ctx.set(p.en, 1 if req else 0)
                    a = step[name] if req else args.get(name)
                    if a is None:
                        a = _zero_like(p.method.layout_in)
                        raw = 0
                    else:
                        raw = encode(p.method.layout_in, expand(p.method.layout_in, a))
                    ctx.set(p.din.as_value(), raw)
                    args[name] = a
                    if name in shadow:
                        ctx.set(shadow[name].en, 1 if (req and name in step.get("_shadow", ())) else 0)
                        ctx.set(shadow[name].din.as_value(), raw)
                for sname, v in step.get("_in", {}).items():
                    ctx.set(plain[sname], v)
                vals = await ctx.tick().sample(*sample_sigs)
                vals = vals[2:]
                line = {}
                k = 0
                for name, p in ports.items():
                    run, runnable, dout = vals[k], vals[k + 1], vals[k + 2]
                    k += 3
                    line[name] = {
                        "req": 1 if name in step else 0,
                        "cal": int(runnable),
                        "done": int(run),
                        "arg": args[name],
                        "out": simplify(p.method.layout_out, decode(p.method.layout_out, int(dout))),
                    }
                    line[name]["both"] = 0
                for name, p in shadow.items():
                    srun, sdout = int(vals[k]), vals[k + 1]
                    k += 2
                    if srun:
                        line[name]["both"] = line[name]["done"]
                        if not line[name]["done"]:
                            line[name]["done"] = 1
                            line[name]["out"] = simplify(p.method.layout_out, decode(p.method.layout_out, int(sdout)))
                    if name in step and name in step.get("_shadow", ()):
                        line[name]["sh"] = 1
                if pub_names:
                    line["pub"] = {n: int(vals[k + j]) for j, n in enumerate(pub_names)}
                if "_in" in step:
                    line["in"] = dict(step["_in"])
                lines.append(line)
                prev = line
                i += 1

        self.sim.add_testbench(tb)
        self.sim.run()
        return lines


def _zero_like(layout):
    return simplify(layout, decode(layout, 0))
