"""Shared runner for hand-written batch trace specs: cases -> JSON file -> TLC -> verdict lines
(ACCEPT / REJECT / DEVIATION json payloads, each carrying `tid`)."""
from __future__ import annotations

import json
import os
import tempfile

from . import tlc

NPROCS = int(os.environ.get("VERIF_PROCS", "16"))
CFG = "SPECIFICATION Spec\nCHECK_DEADLOCK FALSE\n"


def judge(module: str, cases: list, *, workers=None, timeout=3000, cfg=CFG, heap="8g"):
    fd, path = tempfile.mkstemp(prefix="vjudge_", suffix=".json")
    acc = rej = []
    try:
        with os.fdopen(fd, "w") as fh:
            json.dump(cases, fh)
        for w in ((workers or min(8, NPROCS)), 1):
            res = tlc.run(module, cfg, env={"TRACE_FILE": path}, workers=w, timeout=timeout, heap=heap)
            tlc.require_ok(res, module)
            try:
                acc, rej, dev = tlc.tagged(res, "ACCEPT"), tlc.tagged(res, "REJECT"), tlc.tagged(res, "DEVIATION")
            except ValueError:
                continue
            if len(acc) + len(rej) == len(cases) and len({a["tid"] for a in acc + rej}) == len(cases):
                return res, acc, rej, dev
    finally:
        os.unlink(path)
    raise tlc.MachineryError(f"{module}: {len(acc)}+{len(rej)} verdicts for {len(cases)} cases")


def model_check(module: str, data, invariants, *, workers=None, timeout=3000, properties=()):
    fd, path = tempfile.mkstemp(prefix="vmc_", suffix=".json")
    try:
        with os.fdopen(fd, "w") as fh:
            json.dump(data, fh)
        cfg = CFG + "".join(f"INVARIANT {i}\n" for i in invariants) + "".join(f"PROPERTY {p}\n" for p in properties)
        return tlc.run(module, cfg, env={"TRACE_FILE": path}, workers=workers or min(8, NPROCS), timeout=timeout)
    finally:
        os.unlink(path)
