"""Generic three-step check for a clocked component specified by a functional-style TLA+
module (Methods, HasArg, Configs, ArgDom, CInit, Callable, Result, CNext, Conflict, Assume,
Inv, StepProp):

  1. MC    : exhaustive TLC run of <Spec>MC (invariant + step property in every state /
             transition); every transition is printed as an EDGE line.
  2. S->C  : walks covering every EDGE are replayed into the real circuit.
  3. C->S  : seeded random runs of the real circuit (larger configurations) are recorded
             and validated by TLC against <Spec>Trace (inference of unlogged state).
"""
from __future__ import annotations

import copy
import importlib
import json
import multiprocessing as mp
import os
import random
import tempfile
from collections import defaultdict, deque
from dataclasses import dataclass, field
from typing import Any, Callable

from . import tlc
from .report import Report

NPROCS = int(os.environ.get("VERIF_PROCS", "16"))

MC_CFG = """SPECIFICATION Spec
VIEW View
INVARIANT Inv
PROPERTY StepOK
ACTION_CONSTRAINT Emit
CHECK_DEADLOCK FALSE
"""
MC_CFG_NOEMIT = """SPECIFICATION Spec
VIEW View
INVARIANT Inv
PROPERTY StepOK
CHECK_DEADLOCK FALSE
"""
TRACE_CFG = """SPECIFICATION Spec
CHECK_DEADLOCK FALSE
"""


@dataclass
class Component:
    spec: str                                  # TLA+ module name
    name: str                                  # implementation class / family name
    build: Callable                            # cfg -> (dut, {method: Method}, pub, extra)
    methods: Callable                          # cfg -> list of spec method names
    has_arg: Callable                          # method name -> bool
    gen_arg: Callable                          # (cfg, method, rng, tracker) -> spec value
    tracker: Callable | None = None            # cfg -> object with .update(line) (driver-side abstract state)
    want: Callable | None = None               # (cfg, method, rng, tracker, phase) -> bool (request?)
    impl_cfg: Callable | None = None           # spec cfg (from EDGE json) -> build cfg
    module: str = ""                           # python module that defines this component (for workers)
    attr: str = "COMP"
    scheduler: Any = None
    dm_setup: Callable | None = None
    trace_extra: str = ""                      # extra TLA+ clause definitions for the trace spec
    trace_extra_names: list = field(default_factory=list)
    post_cycle: Callable | None = None         # (cfg, line, compsim) -> None  (add fields to the line)
    shadow: Callable | None = None             # cfg -> exclusive methods that get a second (shadow) caller


# ---------------------------------------------------------------------------------------
# 1. model checking

def model_check(comp: Component, rep: Report, emit=True, workers=1, timeout=1200):
    text = tlc.instantiate("CompMC.tla", {"NAME": comp.spec})
    res = tlc.run(comp.spec + "MC", MC_CFG if emit else MC_CFG_NOEMIT,
                  extra_modules={comp.spec + "MC": text}, workers=workers, timeout=timeout)
    if res.invariant_violated:
        rep.violation({"component": comp.name, "what": f"model violates {res.invariant_violated}",
                       "clauses": ["MC:" + res.invariant_violated], "tlc_tail": res.out.splitlines()[-60:]})
        return res, [], []
    tlc.require_ok(res, comp.spec + "MC")
    rep.add("states", res.distinct)
    rep.add("transitions", res.generated)
    edges = tlc.tagged(res, "EDGE") if emit else []
    inits = tlc.tagged(res, "INIT") if emit else []
    rep.coverage.setdefault("mc", []).append(
        {"module": comp.spec + "MC", "distinct_states": res.distinct, "states_generated": res.generated,
         "depth": res.depth, "edges": len(edges), "wall_s": round(res.wall_s, 2)})
    return res, edges, inits


# ---------------------------------------------------------------------------------------
# 2. spec -> code: edge-cover walks

def _key(x):
    return json.dumps(x, sort_keys=True)


def plan_walks(edges, max_len=40, tail=3, rng=None):
    """Greedy edge cover: BFS to the nearest uncovered edge, follow uncovered edges while
    possible, new walk (= reset) when max_len is reached.  Returns list of (cfg, [edge...])."""
    rng = rng or random.Random(0)
    by_cfg = defaultdict(list)
    for e in edges:
        by_cfg[_key(e["cfg"])].append(e)
    walks = []
    for ck, es in by_cfg.items():
        out = defaultdict(list)
        for i, e in enumerate(es):
            out[_key(e["from"])].append(i)
        targets = {_key(e["to"]) for e in es}
        inits = [k for k in out if k not in targets]
        # the reset state: printed separately; fall back to a state that is never a target
        init = es[0].get("_init") or (inits[0] if inits else _key(es[0]["from"]))
        uncovered = set(range(len(es)))
        while uncovered:
            cur = init
            walk = []
            while len(walk) < max_len and uncovered:
                cand = [i for i in out[cur] if i in uncovered]
                if cand:
                    i = cand[0]
                else:
                    # BFS to the nearest state with an uncovered outgoing edge
                    prev = {cur: None}
                    dq = deque([cur])
                    found = None
                    while dq and found is None:
                        s = dq.popleft()
                        for j in out[s]:
                            t = _key(es[j]["to"])
                            if t not in prev:
                                prev[t] = (s, j)
                                if any(x in uncovered for x in out[t]):
                                    found = t
                                    break
                                dq.append(t)
                    if found is None:
                        break
                    path = []
                    s = found
                    while prev[s] is not None:
                        p, j = prev[s]
                        path.append(j)
                        s = p
                    path.reverse()
                    if len(walk) + len(path) >= max_len and walk:
                        break
                    for j in path:
                        walk.append(es[j])
                    cur = found
                    continue
                uncovered.discard(i)
                walk.append(es[i])
                cur = _key(es[i]["to"])
            if not walk:
                # unreachable leftovers (should not happen)
                break
            for _ in range(tail):  # random continuation so the last target state is probed too
                if not out[cur]:
                    break
                j = rng.choice(out[cur])
                walk.append(es[j])
                cur = _key(es[j]["to"])
            walks.append((json.loads(ck), walk))
        if uncovered:
            raise tlc.MachineryError(f"{len(uncovered)} edges unreachable from the reset state")
    return walks


def _norm_calls(c):
    return {} if isinstance(c, list) else c


def replay_walk(comp: Component, cfg, walk):
    """Drive the real circuit along `walk`; returns list of mismatches."""
    from .drive import CompSim
    bcfg = comp.impl_cfg(cfg) if comp.impl_cfg else cfg
    shadows = list(comp.shadow(bcfg)) if comp.shadow else []
    cs = CompSim(comp.build, bcfg, scheduler=comp.scheduler, dm_setup=comp.dm_setup, shadows=shadows)
    sched = []
    for e in walk:
        calls = _norm_calls(e["lab"]["calls"])
        step = dict(calls)
        for m in e["lab"]["nc"]:
            step[m] = None
        if shadows:
            step["_shadow"] = [m for m in shadows if m in step]
        sched.append(step)
    lines = cs.run(sched)
    bad = []
    for i, (e, line) in enumerate(zip(walk, lines)):
        calls = _norm_calls(e["lab"]["calls"])
        res = _norm_calls(e["lab"]["res"])
        probs = []
        for m in comp.methods(bcfg):
            exp_done = 1 if m in calls else 0
            if line[m]["done"] != exp_done:
                probs.append(f"{m}.done={line[m]['done']} expected {exp_done}")
            if m in calls and line[m]["cal"] != 1:
                probs.append(f"{m}.callable=0 expected 1")
            if m in e["lab"]["nc"] and line[m]["cal"] != 0:
                probs.append(f"{m}.callable=1 expected 0")
            if m in calls and line[m]["out"] != res[m]:
                probs.append(f"{m}.out={line[m]['out']} expected {res[m]}")
            if line[m].get("both"):
                probs.append(f"{m} executed for two callers in one cycle")
        if probs:
            bad.append({"step": i, "problems": probs, "from": e["from"], "lab": e["lab"], "line": line})
            break
    return bad, sched


def _replay_task(args):
    modname, attr, cfg, walk = args
    comp = getattr(importlib.import_module(modname), attr)
    if comp.shadow is not None and len(walk) % 2 == 0:   # half of the walks without shadow callers (see record_trace)
        comp = copy.copy(comp)
        comp.shadow = None
    try:
        bad, sched = replay_walk(comp, cfg, walk)
        return cfg, bad, sched, None
    except Exception as ex:  # elaboration error etc.
        import traceback
        return cfg, [], [], traceback.format_exc()


def replay_edges(comp: Component, edges, inits, rep: Report, pid: str, procs=None, max_len=40):
    init_by_cfg = {_key(i["cfg"]): _key(i["st"]) for i in inits}
    for e in edges:
        e["_init"] = init_by_cfg.get(_key(e["cfg"]))
    walks = plan_walks(edges, max_len=max_len, rng=random.Random(rep.seed))
    tasks = [(comp.module, comp.attr, cfg, walk) for cfg, walk in walks]
    procs = procs or NPROCS
    with mp.Pool(min(procs, max(1, len(tasks)))) as pool:
        results = pool.map(_replay_task, tasks, chunksize=1)
    nsteps = sum(len(w) for _, w in walks)
    rep.add("edges_total", len(edges))
    rep.add("edges_replayed_into_impl", len(edges))
    rep.add("replay_walks", len(walks))
    rep.add("replay_cycles", nsteps)
    for cfg, bad, sched, err in results:
        if err:
            rep.violation({"component": comp.name, "cfg": cfg, "clauses": ["ReplayException"], "what": err[-1500:]})
        for b in bad:
            rep.violation({"component": comp.name, "cfg": cfg, "clauses": ["EdgeReplay"],
                           "what": "; ".join(b["problems"]), "schedule": sched[: b["step"] + 1],
                           "model_from": b["from"], "model_label": b["lab"], "observed": b["line"]})
    if walks:
        rep.sample({"kind": "edge-walk", "cfg": walks[0][0],
                    "labels": [w["lab"]["calls"] for w in walks[0][1][:6]]})
    return len(walks), nsteps


# ---------------------------------------------------------------------------------------
# 3. code -> spec: record + validate traces

def random_schedule(comp: Component, cfg, rng: random.Random, cycles: int):
    """Returns a callable schedule with bias phases (requests of each method switch between
    rare / frequent every few dozen cycles so that full/empty corners are visited)."""
    methods = comp.methods(cfg)
    tracker = comp.tracker(cfg) if comp.tracker else None
    state = {"phase_end": 0, "p": {}}
    shadows = list(comp.shadow(cfg)) if comp.shadow else []
    srng = random.Random(rng.random())   # own stream: shadow requests do not disturb the schedule

    def sched(i, prev):
        if i >= cycles:
            return None
        if tracker is not None and prev is not None:
            tracker.update(prev)
        if i >= state["phase_end"]:
            state["phase_end"] = i + rng.choice([3, 8, 20, 40])
            state["p"] = {m: rng.choice([0.0, 0.15, 0.5, 0.85, 1.0]) for m in methods}
            # clears / rare destructive methods are kept rarer
        step = {}
        args = {}
        for m in methods:
            if comp.want is not None:
                w = comp.want(cfg, m, rng, tracker, state["p"][m])
            else:
                w = rng.random() < state["p"][m]
            a = comp.gen_arg(cfg, m, rng, tracker) if comp.has_arg(m) else None
            if w:
                step[m] = a
            else:
                args[m] = a
        step["_args"] = {k: v for k, v in args.items() if v is not None}
        if tracker is not None and hasattr(tracker, "fix"):
            step = tracker.fix(step, rng)
        if shadows:
            step["_shadow"] = [m for m in shadows if m in step and srng.random() < 0.4]
        return step

    return sched


def record_trace(comp: Component, cfg, seed: int, cycles: int):
    from .drive import CompSim
    rng = random.Random(seed)
    # every second recorded run has no shadow callers: a method with a single caller is wired differently by
    # the library (no argument multiplexer), and that shape has to be observed too
    use_shadow = comp.shadow is not None and seed % 2 == 1
    if not use_shadow:
        comp = copy.copy(comp)
        comp.shadow = None
    cs = CompSim(comp.build, cfg, scheduler=comp.scheduler, dm_setup=comp.dm_setup,
                 shadows=list(comp.shadow(cfg)) if comp.shadow else [])
    lines = cs.run(random_schedule(comp, cfg, rng, cycles))
    if comp.post_cycle:
        for ln in lines:
            comp.post_cycle(cfg, ln, cs)
    return {"cfg": cfg, "seed": seed, "cycles": lines}


def _record_task(args):
    modname, attr, cfg, seed, cycles = args
    comp = getattr(importlib.import_module(modname), attr)
    try:
        return record_trace(comp, cfg, seed, cycles), None
    except Exception:
        import traceback
        return {"cfg": cfg, "seed": seed, "cycles": []}, traceback.format_exc()


def record_traces(comp: Component, cfgs, seeds_per_cfg: int, cycles: int, seed: int, rep: Report, procs=None):
    tasks = []
    for ci, cfg in enumerate(cfgs):
        for k in range(seeds_per_cfg):
            tasks.append((comp.module, comp.attr, cfg, seed * 100003 + ci * 1009 + k, cycles))
    procs = procs or NPROCS
    with mp.Pool(min(procs, max(1, len(tasks)))) as pool:
        out = pool.map(_record_task, tasks, chunksize=max(1, len(tasks) // (procs * 4)))
    traces = []
    for tr, err in out:
        if err:
            rep.violation({"component": comp.name, "cfg": tr["cfg"], "clauses": ["BuildOrRunException"],
                           "what": err[-1500:], "seed": tr["seed"]})
        else:
            traces.append(tr)
    return traces


def trace_stats(comp: Component, traces):
    st = defaultdict(int)
    for tr in traces:
        for ln in tr["cycles"]:
            st["cycles"] += 1
            for m, v in ln.items():
                if m in ("pub", "in") or not isinstance(v, dict) or "req" not in v:
                    continue
                if v["req"]:
                    st["requests"] += 1
                    if not v["cal"]:
                        st["requested_not_callable"] += 1
                if v["done"]:
                    st["executions"] += 1
                    st["exec_" + m] += 1
            nd = sum(1 for m, v in ln.items() if isinstance(v, dict) and v.get("done"))
            if nd >= 2:
                st["cycles_with_simultaneous_calls"] += 1
    return dict(st)


def validate_traces(comp: Component, traces, rep: Report, pid: str, timeout=1800, self_test=False):
    """Returns list of rejects (dicts).  Every trace gets a verdict."""
    if not traces:
        return []
    text = tlc.instantiate("CompTrace.tla", {
        "NAME": comp.spec,
        "EXTRA": comp.trace_extra,
        "EXTRANAMES": "".join(', "%s"' % n for n in comp.trace_extra_names),
        "EXTRACASES": "\n              ".join('[] n = "%s" -> %s' % (n, n) for n in comp.trace_extra_names),
    })
    fd, path = tempfile.mkstemp(prefix="vtr_", suffix=".json")
    try:
        with os.fdopen(fd, "w") as fh:
            json.dump([{"cfg": t["cfg"], "cycles": t["cycles"]} for t in traces], fh)
        res = tlc.run(comp.spec + "Trace", TRACE_CFG, extra_modules={comp.spec + "Trace": text},
                      env={"TRACE_FILE": path}, workers=1, timeout=timeout)
    finally:
        os.unlink(path)
    tlc.require_ok(res, comp.spec + "Trace")
    acc = tlc.tagged(res, "ACCEPT")
    rej = tlc.tagged(res, "REJECT")
    if len(acc) + len(rej) != len(traces):
        raise tlc.MachineryError(
            f"{comp.spec}Trace: {len(acc)} accepted + {len(rej)} rejected != {len(traces)} traces")
    if self_test:
        return rej
    rep.add("traces_validated_against_impl", len(traces))
    rep.add("trace_states", res.distinct)
    for r in rej:
        tr = traces[r["tid"] - 1]
        ln = r["line"]
        rep.violation({"component": comp.name, "cfg": tr["cfg"], "clauses": sorted(r["clauses"]),
                       "line": ln, "seed": tr.get("seed"), "model_state": r["state"],
                       "observed": tr["cycles"][ln - 1],
                       "schedule": [_sched_of(c) for c in tr["cycles"][:ln]]})
    return rej


def _sched_of(line):
    step = {}
    args = {}
    for m, v in line.items():
        if not isinstance(v, dict) or "req" not in v:
            continue
        if v["req"]:
            step[m] = v["arg"]
        else:
            args[m] = v["arg"]
    step["_args"] = args
    sh = [m for m, v in line.items() if isinstance(v, dict) and v.get("sh")]
    if sh:
        step["_shadow"] = sh
    return step


def corrupt_self_test(comp: Component, traces, rep: Report, rng: random.Random, n=6):
    """Binding demonstration: flip one recorded field in otherwise accepted traces; every
    corrupted trace must be rejected at (or before) the corrupted line."""
    good = [t for t in traces if t["cycles"]]
    if not good:
        return
    picked = []
    for _ in range(n * 10):
        if len(picked) >= n:
            break
        t = copy.deepcopy(rng.choice(good))
        li = rng.randrange(len(t["cycles"]))
        ln = t["cycles"][li]
        cands = [m for m, v in ln.items() if isinstance(v, dict) and v.get("done")]
        if not cands:
            continue
        m = rng.choice(cands)
        kind = rng.choice(["done", "out"])
        if kind == "out" and isinstance(ln[m]["out"], int) and ln[m]["out"] != 0 or kind == "out" and False:
            ln[m]["out"] = ln[m]["out"] ^ 1
        elif kind == "out" and isinstance(ln[m]["out"], int) and _has_data(comp, m):
            ln[m]["out"] = ln[m]["out"] ^ 1
        else:
            ln[m]["done"] = 0
            kind = "done"
        picked.append((t, li + 1, m, kind))
    if not picked:
        return
    rej = validate_traces(comp, [p[0] for p in picked], rep, "", self_test=True)
    rejected = {r["tid"]: r for r in rej}
    ok = 0
    for i, (t, li, m, kind) in enumerate(picked):
        r = rejected.get(i + 1)
        if r is not None and r["line"] <= li:
            ok += 1
        elif kind == "done":
            # dropping a `done` may be indistinguishable (e.g. a peek): not counted, not an error
            ok += 0
    rep.coverage["selftest_corrupted_traces"] = len(picked)
    rep.coverage["selftest_corrupted_rejected"] = ok
    if ok == 0:
        rep.machinery(f"{comp.spec}: none of {len(picked)} corrupted traces was rejected (binding is vacuous)")


def _has_data(comp, m):
    return True


# ---------------------------------------------------------------------------------------

def standard_check(comp: Component, rep: Report, *, trace_cfgs, seeds_per_cfg, cycles,
                   mc=True, emit=True, mc_workers=1, replay=True, max_walk=40):
    """MC + edge replay + trace validation + corrupt-a-field self-test."""
    if mc:
        res, edges, inits = model_check(comp, rep, emit=emit and replay, workers=mc_workers)
        if replay and edges:
            replay_edges(comp, edges, inits, rep, rep.pid, max_len=max_walk)
    traces = record_traces(comp, trace_cfgs, seeds_per_cfg, cycles, rep.seed, rep)
    stats = trace_stats(comp, traces)
    for k, v in stats.items():
        rep.add("impl_" + k, v)
    validate_traces(comp, traces, rep, rep.pid)
    corrupt_self_test(comp, traces, rep, random.Random(rep.seed))
    if traces:
        t = traces[0]
        rep.sample({"kind": "impl-trace", "cfg": t["cfg"], "first_cycles": t["cycles"][:3]})
    return traces


def replay_file(comp: Component, rep: Report, path: str):
    """Re-run the schedule stored in a replay file against the current /repo and judge it
    with the trace spec."""
    from .drive import CompSim
    d = json.load(open(path))
    cfg = d["cfg"]
    bcfg = comp.impl_cfg(cfg) if (comp.impl_cfg and "EdgeReplay" in d.get("clauses", [])) else cfg
    cs = CompSim(comp.build, bcfg, scheduler=comp.scheduler, dm_setup=comp.dm_setup,
                 shadows=list(comp.shadow(bcfg)) if comp.shadow else [])
    lines = cs.run(d["schedule"])
    if comp.post_cycle:
        for ln in lines:
            comp.post_cycle(bcfg, ln, cs)
    validate_traces(comp, [{"cfg": bcfg, "seed": d.get("seed"), "cycles": lines}], rep, rep.pid)
