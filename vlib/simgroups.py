"""Designs with simultaneous() / simultaneous_alternatives() over several transactions and methods, built with
the real API and simulated (check X02, spec specs/core/SimGroups.tla)."""
from __future__ import annotations

import itertools
import random


def elem(k, i):
    return {"k": k, "i": i}


def trans_for(d, e):
    return {e["i"]} if e["k"] == "t" else {t for t in range(1, d["nt"] + 1) if d["tmeth"][t - 1] == e["i"]}


def well_formed(d):
    """Designs outside the modelled region are not generated: a transaction related to itself (through the method it
    calls), one element being the first alternative of two declarations (the library then merges the two sets of
    alternatives), methods without callers (known C13 finding)."""
    firsts = []
    for dc in d["decls"]:
        for o in dc["others"]:
            if trans_for(d, dc["a"]) & trans_for(d, o):
                return False
        keys = [(o["k"], o["i"]) for o in dc["others"]] + [(dc["a"]["k"], dc["a"]["i"])]
        if len(set(keys)) != len(keys):
            return False
        if dc["kind"] == "alt":
            firsts.append((dc["others"][0]["k"], dc["others"][0]["i"]))
    if len(set(firsts)) != len(firsts):
        return False
    return all(any(tm == m for tm in d["tmeth"]) for m in range(1, len(d["mready"]) + 1))


def gen(rng: random.Random):
    while True:
        nt = rng.randint(2, 6)
        nm = rng.choice([0, 0, 1, 1, 2])
        tmeth = [0] * nt
        for m in range(1, nm + 1):
            free = [t for t in range(nt) if tmeth[t] == 0]
            for t in rng.sample(free, min(len(free), rng.choice([1, 2, 2]))):
                tmeth[t] = m
        nin = 0
        ready = []
        for _ in range(nt):
            if rng.random() < 0.15 or nin >= 7:
                ready.append(0)
            else:
                nin += 1
                ready.append(nin)
        mready = []
        for _ in range(nm):
            if nin >= 8 or rng.random() < 0.3:
                mready.append(0)
            else:
                nin += 1
                mready.append(nin)
        elems = [elem("t", t) for t in range(1, nt + 1)] + [elem("m", m) for m in range(1, nm + 1)]
        decls = []
        for _ in range(rng.choice([1, 1, 2, 2, 3])):
            a = rng.choice(elems)
            rest = [e for e in elems if e != a]
            others = rng.sample(rest, min(len(rest), rng.choice([1, 1, 2, 2, 3])))
            decls.append({"kind": rng.choice(["sim", "alt", "alt"]) if len(others) > 1 else rng.choice(["sim", "alt"]),
                          "a": a, "others": others})
        d = {"nt": nt, "nin": max(nin, 1), "ready": ready, "tmeth": tmeth, "mready": mready, "decls": decls}
        if well_formed(d):
            return d


def systematic(limit=None):
    """All designs over 3 transactions (no methods) with one or two declarations, plus 4 transactions with
    alternatives -- the small universe checked exhaustively."""
    out = []
    for nt in (3, 4):
        ts = [elem("t", t) for t in range(1, nt + 1)]
        single = []
        for a in ts:
            rest = [e for e in ts if e != a]
            for n in (1, 2, 3):
                for others in itertools.permutations(rest, n):
                    ordered = lambda xs: list(xs) == sorted(xs, key=lambda e: e["i"])  # noqa: E731
                    # simultaneous(): the order of the others is irrelevant; alternatives: the first one is special
                    if ordered(others):
                        single.append({"kind": "sim", "a": a, "others": list(others)})
                    if ordered(others[1:]):
                        single.append({"kind": "alt", "a": a, "others": list(others)})
        combos = [[s] for s in single]
        if nt == 3:
            combos += [[s1, s2] for s1 in single for s2 in single if s1 != s2]
        for decls in combos:
            d = {"nt": nt, "nin": nt, "ready": list(range(1, nt + 1)), "tmeth": [0] * nt, "mready": [], "decls": decls}
            if well_formed(d):
                out.append(d)
    if limit and len(out) > limit:
        out = random.Random(7).sample(out, limit)
    return out


def build(d):
    from amaranth import Signal, Module, Elaboratable, Const
    from amaranth.sim import Simulator
    from transactron import TModule, Method, Transaction, def_method
    from transactron.core import TransactionManager
    from transactron.core.context import TransactronContextElaboratable
    from transactron.utils.dependencies import DependencyContext, DependencyManager

    H = type("H", (), {})()
    H.inp = [None] + [Signal(name=f"in{i}") for i in range(1, d["nin"] + 1)]
    H.twit = [Signal(name=f"twit{t}") for t in range(d["nt"])]
    H.mwit = [Signal(name=f"mwit{m}") for m in range(len(d["mready"]))]

    def sig(i):
        return H.inp[i] if i else Const(1)

    class Top(Elaboratable):
        def elaborate(self, platform):
            m = TModule()
            meths = []
            for k, r in enumerate(d["mready"]):
                meth = Method(name=f"m{k + 1}")
                meths.append(meth)

                def body(k):
                    def f():
                        m.d.comb += H.mwit[k].eq(1)
                    return f
                def_method(m, meth, ready=sig(r))(body(k))
            trans = []
            for t in range(d["nt"]):
                tr = Transaction(name=f"t{t + 1}")
                trans.append(tr)
                with tr.body(m, ready=sig(d["ready"][t])):
                    m.d.comb += H.twit[t].eq(1)
                    if d["tmeth"][t]:
                        meths[d["tmeth"][t] - 1](m)

            def obj(e):
                return trans[e["i"] - 1] if e["k"] == "t" else meths[e["i"] - 1]
            for dc in d["decls"]:
                others = [obj(o) for o in dc["others"]]
                if dc["kind"] == "sim":
                    obj(dc["a"]).simultaneous(*others)
                else:
                    obj(dc["a"]).simultaneous_alternatives(*others)
            return m

    class Outer(Elaboratable):
        def __init__(self, inner):
            self.inner = inner

        def elaborate(self, platform):
            m = Module()
            dummy = Signal()
            m.d.sync += dummy.eq(1)
            m.submodules.inner = self.inner
            return m

    dm = DependencyManager()
    with DependencyContext(dm):
        tm = TransactionManager()
        top = Outer(TransactronContextElaboratable(Top(), dependency_manager=dm, transaction_manager=tm))
        sim = Simulator(top)
    sim.add_clock(1e-6)
    H.units = None
    try:
        units = []
        for tr in tm.transactions:
            units.append(sorted(int(x[1:]) for x in tr.name.split("_")))
        H.units = sorted(units)
    except Exception:  # noqa: BLE001 - the attribute / naming is not part of the public contract
        H.units = None
    return sim, H


def all_vals(nin, rng, cap):
    vals = [list(v) for v in itertools.product([0, 1], repeat=nin)]
    rng.shuffle(vals)
    return vals[:cap]


def run(d, vals):
    sim, H = build(d)
    lines = []

    async def tb(ctx):
        for v in vals:
            for i in range(1, d["nin"] + 1):
                ctx.set(H.inp[i], v[i - 1])
            r = [int(x) for x in (await ctx.tick().sample(*(H.twit + H.mwit)))[2:]]
            lines.append({"inp": list(v), "trun": r[:d["nt"]], "mrun": r[d["nt"]:]})

    sim.add_testbench(tb)
    sim.run()
    return lines, H.units


def make_case(args):
    d, seed, cap = args
    rng = random.Random(seed)
    try:
        lines, units = run(d, all_vals(d["nin"], rng, cap))
        return {"design": d, "raised": False, "exc": "", "cycles": lines, "units": units or [], "has_units": units is not None,
                "seed": seed}
    except RuntimeError as ex:
        return {"design": d, "raised": True, "exc": str(ex)[:200], "cycles": [], "units": [], "has_units": False, "seed": seed}


def make_random_case(args):
    seed, cap = args
    return make_case((gen(random.Random(seed)), seed, cap))
