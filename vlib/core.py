"""Shared pipeline of the core properties (C01-C11): generate designs, build them with the
real library, simulate every valuation, let TLC judge every cycle with TxnCoreTrace."""
from __future__ import annotations

import copy
import json
import multiprocessing as mp
import os
import random
import tempfile
from collections import Counter, defaultdict

from . import coregen, tlc
from .report import Report

NPROCS = int(os.environ.get("VERIF_PROCS", "16"))

CLAUSES = {
    "C01": ["ExclusiveOnce", "JointRunOnlyIfExcl"],
    "C02": ["ConflictNeverJoint", "ConflictNeverJointSameTxn"],
    "C03": ["RunImpliesEnabled"],
    "C04": ["MethodRunIffActiveSite", "NestedRunsOnlyWithParent", "SiteWitnessMatches"],
    "C05": ["ArgRouting", "ResultRouting"],
    "C06": ["WitComb", "WitAv", "WitTop", "WitSync", "AvReadyGated"],
    "C07": ["NoWastedCycle"],
    "C08": ["PriorityRespected"],
    "C09": ["AtMostOnePerComponent", "SomeoneRunsIfEnabled", "BoundedWait"],
    "C11": ["RaisedIffIllFormed"],
}
TRACE_CFG = "SPECIFICATION Spec\nCHECK_DEADLOCK FALSE\n"


def make_case(args):
    """Generate one design; try to build + run it; when elaboration raises keep the rejected
    design as a case (for C11) and retry with a random call site / relation removed."""
    seed, opt, max_cycles, sticky = args
    rng = random.Random(seed)
    d = coregen.Gen(rng, **opt).design()
    out = []
    for attempt in range(8):
        dd = copy.deepcopy(d)
        D = coregen.flatten(dd)
        try:
            vals = coregen.valuations(dd, rng, max_cycles, sticky)
            lines = coregen.run_design(dd, vals)
            out.append({"design": D, "raised": False, "exc": "", "cycles": lines, "seed": seed, "attempt": attempt,
                        "tree": dd})
            break
        except Exception as ex:  # noqa: BLE001 - whatever elaboration raises
            out.append({"design": D, "raised": True, "exc": f"{type(ex).__name__}: {str(ex)[:160]}",
                        "cycles": [], "seed": seed, "attempt": attempt, "tree": dd})
            if not _shrink(d, rng, str(ex)):
                break
    return out


def _remove_call(nodes, s):
    for i, n in enumerate(nodes):
        if n["t"] == "call" and n["s"] == s:
            del nodes[i]
            return True
        for key, sub in (("alts", "ch"), ("cases", "ch"), ("states", "ch")):
            if key in n:
                for a in n[key]:
                    if _remove_call(a[sub], s):
                        return True
    return False


def _remove_body_node(nodes, b):
    for i, n in enumerate(nodes):
        if n["t"] == "body" and n["b"] == b:
            del nodes[i]
            return True
        for key in ("alts", "cases", "states"):
            if key in n:
                for a in n[key]:
                    if _remove_body_node(a["ch"], b):
                        return True
    return False


def _shrink(d, rng, msg=""):
    """Repair step after a rejected elaboration: remove one relation, un-nest one nested body or
    remove one call site (renumbering the rest).  Returns False when nothing is left."""
    nested = [i + 1 for i, B in enumerate(d["bodies"]) if B["parent"]]
    if "cycle" in msg or "ready" in msg:
        choices = (["rel"] if d["rels"] else []) + (["unnest"] if nested else [])
        if choices:
            if rng.choice(choices) == "rel":
                d["rels"].pop(rng.randrange(len(d["rels"])))
            else:
                b = rng.choice(nested)
                B = d["bodies"][b - 1]
                _remove_body_node(d["bodies"][B["parent"] - 1]["ch"], b)
                B["parent"] = 0
                d["roots"][B["mod"] - 1].append({"t": "body", "b": b})
                coregen.orient_rels(d)
            return True
    if d["rels"] and (rng.random() < 0.4 or not d["sites"]):
        d["rels"].pop(rng.randrange(len(d["rels"])))
        return True
    if not d["sites"]:
        return False
    s = rng.randrange(1, len(d["sites"]) + 1)
    for B in d["bodies"]:
        if _remove_call(B["ch"], s):
            break
    d["sites"].pop(s - 1)

    def renum(nodes):
        for n in nodes:
            if n["t"] == "call" and n["s"] > s:
                n["s"] -= 1
            for key in ("alts", "cases", "states"):
                if key in n:
                    for a in n[key]:
                        renum(a["ch"])
    for B in d["bodies"]:
        renum(B["ch"])
    return True


def gen_cases(seeds, opt, max_cycles, sticky=0.0, procs=None):
    procs = procs or NPROCS
    with mp.Pool(procs) as pool:
        res = pool.map(make_case, [(s, opt, max_cycles, sticky) for s in seeds], chunksize=4)
    return [c for r in res for c in r]


CHUNK = 160      # cases per TLC run (one JSON file each); larger files make JsonDeserialize and TLC's heap the bottleneck


class _Merged:
    """Sum of the statistics of several TLC runs (what run_core reads from a TLC result)."""

    def __init__(self, results):
        self.distinct = sum(r.distinct for r in results)
        self.generated = sum(r.generated for r in results)
        self.wall_s = max(r.wall_s for r in results)


def validate(cases, timeout=3000):
    if len(cases) <= CHUNK:
        return _validate_chunk(cases, timeout)
    from concurrent.futures import ThreadPoolExecutor
    parts = [(i, cases[i:i + CHUNK]) for i in range(0, len(cases), CHUNK)]
    with ThreadPoolExecutor(4) as ex:
        outs = list(ex.map(lambda p: _validate_chunk(p[1], timeout, workers=4, heap="6g"), parts))
    acc, rej, dev = [], [], []
    for (off, _), (res, a, r, d) in zip(parts, outs):
        for lst, dst in ((a, acc), (r, rej), (d, dev)):
            for x in lst:
                x["tid"] += off
                dst.append(x)
    return _Merged([o[0] for o in outs]), acc, rej, dev


def _validate_chunk(cases, timeout=3000, workers=None, heap="12g"):
    fd, path = tempfile.mkstemp(prefix="vcore_", suffix=".json")
    try:
        with os.fdopen(fd, "w") as fh:
            json.dump([{"design": c["design"], "raised": c["raised"], "cycles": c["cycles"]} for c in cases], fh)
        # cases are independent (tid is chosen in Init), so several TLC workers can share them; every
        # verdict is one self-contained line.  Fall back to one worker if the output does not add up.
        for workers in (workers or min(8, NPROCS), 1):
            res = tlc.run("TxnCoreTrace", TRACE_CFG, env={"TRACE_FILE": path}, workers=workers, timeout=timeout, heap=heap)
            tlc.require_ok(res, "TxnCoreTrace")
            try:
                acc, rej, dev = tlc.tagged(res, "ACCEPT"), tlc.tagged(res, "REJECT"), tlc.tagged(res, "DEVIATION")
            except ValueError:
                continue
            if len(acc) + len(rej) == len(cases) and len({a["tid"] for a in acc + rej}) == len(cases):
                return res, acc, rej, dev
    finally:
        os.unlink(path)
    raise tlc.MachineryError(f"TxnCoreTrace: {len(acc)}+{len(rej)} verdicts for {len(cases)} cases")


def stats(cases):
    st = Counter()
    for c in cases:
        D = c["design"]
        st["designs"] += 1
        if c["raised"]:
            st["designs_rejected_by_elaboration"] += 1
            continue
        st["designs_built"] += 1
        st["cycles"] += len(c["cycles"])
        st["with_nested_body"] += any(b["parent"] for b in D["bodies"])
        st["with_nonexclusive"] += any(b["nonexcl"] for b in D["bodies"])
        st["with_conflict_rel"] += any(r["kind"] == "conflict" for r in D["rels"])
        st["with_prio_rel"] += any(r["kind"] == "conflict" and r["prio"] != "U" for r in D["rels"])
        st["with_before_rel"] += any(r["kind"] == "before" for r in D["rels"])
        st["with_fsm"] += any(s["kind"] == "FSM" for s in D["structs"])
        st["with_switch"] += any(s["kind"] == "Switch" for s in D["structs"])
        st["with_two_modules"] += len({b["mod"] for b in D["bodies"]}) > 1
        st["with_validate"] += any(b["validate"] for b in D["bodies"])
        st["with_forwarded_arg"] += any(s["argk"] == "f" for s in D["sites"])
        st["with_forwarded_arg_to_validating_method"] += any(
            s["argk"] == "f" and D["bodies"][s["callee"] - 1]["validate"] for s in D["sites"])
        callers = defaultdict(set)
        for s in D["sites"]:
            callers[s["callee"]].add(s["caller"])
        st["with_shared_exclusive_method"] += any(
            len(v) > 1 and not D["bodies"][m - 1]["nonexcl"] for m, v in callers.items())
        for ln in c["cycles"]:
            nt = sum(1 for b, B in enumerate(D["bodies"]) if B["kind"] == "T" and ln["run"][b])
            st["cycles_with_2plus_transactions_running"] += nt >= 2
            st["cycles_with_ready_not_run"] += any(
                B["kind"] == "T" and ln["rdy"][b] and ln["rnb"][b] and not ln["run"][b]
                for b, B in enumerate(D["bodies"]))
    return dict(st)


def run_core(rep: Report, pid: str, *, n_designs: int, max_cycles: int, opts: list, only_raised=False):
    """opts: list of (weight-free) generator option dicts; designs are split evenly."""
    cases = []
    per = max(1, n_designs // len(opts))
    for k, opt in enumerate(opts):
        weight = opt.pop("_weight", 1)     # a family that needs more designs to hit its corner
        seeds = [rep.seed * 1000003 + k * 100000 + i for i in range(per * weight)]
        sticky = opt.pop("_sticky", 0.0) if "_sticky" in opt else 0.0
        cases += gen_cases(seeds, dict(opt), max_cycles, sticky)
    if only_raised:
        for c in cases:
            c["cycles"] = c["cycles"][:4]
    res, acc, rej, dev = validate(cases)
    st = stats(cases)
    for k, v in st.items():
        rep.add("impl_" + k, v)
    rep.add("traces_validated_against_impl", len(cases))
    rep.add("trace_states", res.distinct)
    rep.add("model_deviations", len(dev))
    mine = set(CLAUSES[pid])
    other = 0
    for r in rej:
        c = cases[r["tid"] - 1]
        if mine & set(r["clauses"]):
            ln = r["line"]
            rels = c["design"]["rels"]
            rep.violation({"component": "core", "cfg": {"sched": c["design"]["sched"], "seed": c["seed"],
                                                       "attempt": c["attempt"]},
                           "clauses": sorted(r["clauses"]), "line": ln, "verdict": r.get("verdict"),
                           "raised": c["raised"], "exc": c["exc"], "design": c["design"],
                           "observed": c["cycles"][ln - 1] if ln >= 1 else None,
                           "tree": c.get("tree"),
                           "inputs": [{"inp": x["inp"][:c["tree"]["nin"]], "args": x["args"], "mouts": x["mouts"]}
                                      for x in c["cycles"][:max(ln, 0) + 1]] if c.get("tree") else None})
        else:
            other += 1
    rep.coverage["rejections_attributed_to_other_properties"] = other
    verd = Counter(a.get("verdict") for a in acc)
    rep.coverage["verdicts_accepted"] = dict(verd)
    for c in cases:
        if not c["raised"] and c["cycles"]:
            rep.sample({"kind": "design+cycle", "design": c["design"], "cycle": c["cycles"][0]}, limit=1)
            break
    for c in cases:
        if c["raised"]:
            rep.sample({"kind": "rejected design", "exc": c["exc"], "rels": c["design"]["rels"],
                        "sites": c["design"]["sites"]}, limit=2)
            break
    return cases, rej, dev


MC_INVS = {
    "C01": ["ExclusiveOnce", "JointRunOnlyIfExcl"],
    "C02": ["ConflictNeverJoint"],
    "C03": ["RunImpliesEnabled"],
    "C04": ["MethodRunIffActiveSite", "NestedRunsOnlyWithParent"],
    "C05": ["ExclusiveOnce", "MethodRunIffActiveSite"],
    "C06": ["NestedRunsOnlyWithParent"],
    "C07": ["NoWastedCycle"],
    "C08": ["PriorityRespected"],
    "C09": ["AtMostOnePerComponent", "SomeoneRunsIfEnabled", "BoundedWait"],
    "C11": ["ExclusiveOnce"],
}


def model_check(rep: Report, pid: str, cases, max_designs=40, max_nin=7, workers=8):
    """Exhaustive TLC run of the scheduling model over the well-formed designs of this run
    (all valuations of the control inputs x all admissible orders / arbiter states)."""
    des, seen = [], set()
    for c in cases:
        D = c["design"]
        if c["raised"] or D["nin"] > max_nin or D["nargs"] > 3:
            continue
        k = json.dumps(D, sort_keys=True)
        if k in seen:
            continue
        seen.add(k)
        des.append(D)
        if len(des) >= max_designs:
            break
    if not des:
        return
    fd, path = tempfile.mkstemp(prefix="vcoremc_", suffix=".json")
    try:
        with os.fdopen(fd, "w") as fh:
            json.dump(des, fh)
        cfg = "SPECIFICATION Spec\nCHECK_DEADLOCK FALSE\n" + "".join("INVARIANT %s\n" % i for i in MC_INVS[pid])
        res = tlc.run("TxnCoreMC", cfg, env={"TRACE_FILE": path}, workers=workers, timeout=3000)
    finally:
        os.unlink(path)
    if res.invariant_violated:
        rep.violation({"component": "core-model", "clauses": ["MC:" + res.invariant_violated],
                       "what": "the scheduling model itself violates " + res.invariant_violated,
                       "tlc_tail": res.out.splitlines()[-80:]})
        return
    tlc.require_ok(res, "TxnCoreMC")
    rep.add("states", res.distinct)
    rep.add("transitions", res.generated)
    rep.coverage.setdefault("mc", []).append(
        {"module": "TxnCoreMC", "designs": len(des), "invariants": MC_INVS[pid], "distinct_states": res.distinct,
         "states_generated": res.generated, "wall_s": round(res.wall_s, 1)})


def core_check(rep: Report, pid: str, opts, n_quick, n_thorough, cyc_quick=128, cyc_thorough=512, nontrivial_key=None):
    thorough = rep.tier == "thorough"
    cases, rej, dev = run_core(rep, pid, n_designs=n_thorough if thorough else n_quick,
                               max_cycles=cyc_thorough if thorough else cyc_quick, opts=opts)
    model_check(rep, pid, cases, max_designs=120 if thorough else 24, max_nin=8 if thorough else 6,
                workers=min(8, NPROCS))
    cov = rep.coverage
    cov["evaluations"] = cov.get("impl_cycles", 0) + cov.get("impl_designs", 0)
    cov["distinct_nontrivial"] = cov.get(nontrivial_key or "impl_designs_built", 0)
    rep.assumptions += [
        "Amaranth's Python simulator is faithful to the elaborated netlist",
        "designs come from vlib/coregen.py's grammar (<=4 transactions, <=4 methods, nesting <=2, If/Switch/FSM)",
        "the conflict relation used by clauses that need it (C01 joint-run, C07, C08, C09) is the specification's "
        "(TxnCore!ImplicitConf/ExplicitConf), never read from the implementation",
    ]
    return cases, rej, dev


def replay_case(rep: Report, pid: str, path: str):
    """Rebuild the design stored in a replay file with the current /repo, re-run the recorded input
    valuations and judge the result again with TxnCoreTrace."""
    d = json.load(open(path))
    tree = d.get("tree")
    if not tree:
        raise tlc.MachineryError("replay file carries no design tree")
    D = coregen.flatten(copy.deepcopy(tree))
    try:
        lines = coregen.run_design(tree, d.get("inputs") or [])
        case = {"design": D, "raised": False, "exc": "", "cycles": lines, "seed": d["cfg"]["seed"], "attempt": 0, "tree": tree}
    except Exception as ex:  # noqa: BLE001
        case = {"design": D, "raised": True, "exc": f"{type(ex).__name__}: {str(ex)[:160]}", "cycles": [],
                "seed": d["cfg"]["seed"], "attempt": 0, "tree": tree}
    res, acc, rej, dev = validate([case])
    rep.add("traces_validated_against_impl", 1)
    for r in rej:
        if set(CLAUSES[pid]) & set(r["clauses"]):
            rep.violation({"component": "core", "cfg": d["cfg"], "clauses": sorted(r["clauses"]), "line": r["line"],
                           "design": D, "tree": tree, "inputs": d.get("inputs")})
