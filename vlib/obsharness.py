"""Helpers shared by the checks with hand-written MC/Trace modules (C39 round-robin arbiters,
C33 event log, C34 hardware logs): plain-port simulation, batch trace validation by a
hand-written <X>Trace module (same conventions as specs/tpl/CompTrace.tla: `tid` chosen in Init,
one `ACCEPT {json}` / `REJECT {json}` line per trace), reject reporting, corruption self-test,
multiprocessing fan-out.  Nothing here reads private attributes of /repo."""
from __future__ import annotations

import importlib
import json
import multiprocessing as mp
import os
import tempfile
import warnings

from . import tlc
from .report import Report

warnings.filterwarnings("ignore")

TRACE_CFG = "SPECIFICATION Spec\nCHECK_DEADLOCK FALSE\n"
PROCS = max(1, int(os.environ.get("VERIF_PROCS", "16")))


# ---------------------------------------------------------------------------------------
# plain Amaranth ports

def simulate_ports(dut, drive, sample, rows, period=1e-6):
    """Clocked simulation of a plain Elaboratable: per row the values of `drive` signals are
    set, then one `tick().sample(*sample)` is taken (values just before the clock edge, i.e. of
    the cycle in which the row was applied).  Returns a list of int tuples."""
    from amaranth.sim import Simulator
    sim = Simulator(dut)
    sim.add_clock(period)
    out = []

    async def tb(ctx):
        for row in rows:
            for s, v in zip(drive, row):
                ctx.set(s, v)
            vals = await ctx.tick().sample(*sample)
            out.append(tuple(int(x) for x in vals[2:]))

    sim.add_testbench(tb)
    sim.run()
    return out


# ---------------------------------------------------------------------------------------
# multiprocessing: tasks are (module name, function name, args) so that workers import the
# judged repository the same way the parent did (sys.path is inherited through fork)

def _call(task):
    modname, fn, args = task
    try:
        return getattr(importlib.import_module(modname), fn)(*args), None
    except Exception:
        import traceback
        return None, traceback.format_exc()


def fan_out(tasks, procs=None):
    """tasks: list of (module, function, args). Returns list of (result, error-or-None) in order."""
    if not tasks:
        return []
    procs = procs or PROCS
    if len(tasks) == 1 or procs <= 1:
        return [_call(t) for t in tasks]
    with mp.Pool(min(procs, len(tasks))) as pool:
        return pool.map(_call, tasks, chunksize=max(1, len(tasks) // (procs * 4)))


# ---------------------------------------------------------------------------------------
# TLC batch validation with a hand-written trace module

def validate_batch(module: str, traces: list, *, timeout=1800, env=None, extra_modules=None):
    """Runs `<module>` (a *Trace module reading IOEnv.TRACE_FILE) over `traces` (JSON-able list).
    Returns (rejects: {tid (1-based): reject payload}, TLCResult).  Every trace must get a
    verdict, otherwise MachineryError."""
    if not traces:
        raise tlc.MachineryError(f"{module}: no traces to validate")
    fd, path = tempfile.mkstemp(prefix="vtr_", suffix=".json")
    try:
        with os.fdopen(fd, "w") as fh:
            json.dump(traces, fh)
        e = {"TRACE_FILE": path}
        e.update(env or {})
        res = tlc.run(module, TRACE_CFG, env=e, workers=1, timeout=timeout, extra_modules=extra_modules)
    finally:
        os.unlink(path)
    tlc.require_ok(res, module)
    acc = tlc.tagged(res, "ACCEPT")
    rej = tlc.tagged(res, "REJECT")
    if len(acc) + len(rej) != len(traces) or len({r["tid"] for r in acc + rej}) != len(traces):
        raise tlc.MachineryError(f"{module}: {len(acc)} accepted + {len(rej)} rejected != {len(traces)} traces")
    return {r["tid"]: r for r in rej}, res


def corrupt_check(module: str, corrupted: list, rep: Report, key: str, *, env=None, need_all=True):
    """`corrupted`: list of (trace, expected_line or None, description).  Each must be rejected (at
    or before expected_line when given).  Records counts under `key`; a corrupted trace that is
    accepted is a machinery error (the binding would be vacuous there)."""
    if not corrupted:
        rep.machinery(f"{module}: self-test produced no corrupted trace")
        return
    rej, _ = validate_batch(module, [c[0] for c in corrupted], env=env)
    ok = 0
    missed = []
    for i, (_, line, what) in enumerate(corrupted):
        r = rej.get(i + 1)
        if r is not None and (line is None or r.get("line", 0) <= line):
            ok += 1
        else:
            missed.append(what)
    rep.coverage[key + "_corrupted"] = len(corrupted)
    rep.coverage[key + "_rejected"] = ok
    if missed and (need_all or ok == 0):
        rep.machinery(f"{module}: corrupted traces accepted: {missed[:4]}")


def validate_with_selftest(module: str, traces: list, corrupted: list, rep: Report, key="selftest", *, env=None,
                           timeout=1800):
    """One TLC run over `traces` followed by the corrupted copies (`corrupted`: list of (trace,
    expected_line or None, description)).  Returns (rejects of the real traces {tid: payload}, TLCResult).
    Every corrupted trace must be rejected (at or before expected_line when given), otherwise the
    binding is vacuous there -> machinery error."""
    rej, res = validate_batch(module, list(traces) + [c[0] for c in corrupted], env=env, timeout=timeout)
    n = len(traces)
    ok, missed = 0, []
    for i, (_, line, what) in enumerate(corrupted):
        r = rej.get(n + i + 1)
        if r is not None and (line is None or r.get("line", 0) <= line):
            ok += 1
        else:
            missed.append(what)
    rep.coverage[key + "_corrupted"] = len(corrupted)
    rep.coverage[key + "_rejected"] = ok
    if not corrupted:
        rep.machinery(f"{module}: self-test produced no corrupted trace")
    if missed:
        rep.machinery(f"{module}: corrupted traces accepted: {missed[:4]}")
    return {t: r for t, r in rej.items() if t <= n}, res
