"""Function tables: bounded-exhaustive tabulation of combinational Amaranth functions / plain
Python helpers, validated row by row by TLC against TLA+ operators (DESIGN.md 4.3).

  families  : {fn name: Family}; a Family enumerates configurations per tier, builds a small
              combinational DUT around the function (or calls the helper directly) and enumerates the
              input valuations of the *documented* domain.
  tabulate  : all (fn, cfg) tables, fanned out over processes.  One table =
              {"fn": str, "cfg": {...}, "rows": [[in, out], ...]}; `in` is a list, `out` an int or a
              list whose element 0 is always fully specified (self-test corrupts it).
  validate  : TLC evaluates RowOK(fn, cfg, in, out) of the rows module (specs/fn/<Rows>.tla: InDomain,
              Expect, RowOK) for every row; prints MISMATCH / OUTDOMAIN / TABLE lines; accounting is
              asserted (every table reported, every row counted).
  laws      : exhaustive TLC run of the <X>Laws module (algebraic sanity of the TLA+ definitions).
"""
from __future__ import annotations

import copy
import importlib
import json
import multiprocessing as mp
import os
import random
import tempfile
import time
import warnings
from concurrent.futures import ThreadPoolExecutor
from dataclasses import dataclass
from typing import Any, Callable, Iterable

from . import tlc
from .report import Report

CHUNK = 4096          # input valuations per simulation task
PROCS = int(os.environ.get("VERIF_PROCS", "16"))   # simulation processes / parallel TLC runs are bounded by this
PRINT_BAD = 5         # mismatching rows printed per table


@dataclass
class Dut:
    m: Any                      # Elaboratable / Module (combinational)
    ins: list                   # input Signals, set from the ints of a row's `in`
    outs: list                  # output Signals (or Values), read into `out`
    single: bool = True         # out is outs[0] as an int (else a list)
    post: Callable | None = None  # (inp, list of ints) -> out
    pre: Callable | None = None   # inp -> list of values to drive on `ins` (default: inp itself)


@dataclass
class Family:
    fn: str
    cfgs: Callable[[str], list]                 # tier -> list of cfg dicts
    domain: Callable[[dict], Iterable]          # cfg -> input valuations (lists) of the documented domain
    build: Callable[[dict], Dut] | None = None  # simulated families
    direct: Callable | None = None              # (cfg, inp) -> out  for plain Python helpers
    on_raise: Any = None                        # output recorded for every row when building / elaborating
                                                # the DUT raises (None: the exception is a machinery error)
    note: str = ""


# ---------------------------------------------------------------------------------------
# tabulation

def simulate(dut: Dut, inputs: list) -> list:
    """Rows [in, out] of a combinational DUT for the given input valuations."""
    from amaranth.sim import Simulator
    rows = []
    with warnings.catch_warnings():
        warnings.simplefilter("ignore")
        sim = Simulator(dut.m)

        async def tb(ctx):
            for inp in inputs:
                for s, v in zip(dut.ins, dut.pre(inp) if dut.pre is not None else inp):
                    if s is not None:          # None: position of `in` that is a constant of the cfg
                        ctx.set(s, v)
                vals = [ctx.get(o) for o in dut.outs]
                if dut.post is not None:
                    out = dut.post(inp, vals)
                else:
                    out = vals[0] if dut.single else vals
                rows.append([list(inp), out])

        sim.add_testbench(tb)
        sim.run()
    return rows


def rows_of(fam: Family, cfg: dict, inputs: list) -> list:
    if fam.direct is not None:
        rows = []
        for i in inputs:
            try:
                out = fam.direct(cfg, i)
            except Exception:
                if fam.on_raise is None:
                    raise
                out = copy.deepcopy(fam.on_raise)
            rows.append([list(i), out])
        return rows
    try:
        with warnings.catch_warnings():
            warnings.simplefilter("ignore")
            dut = fam.build(cfg)
        return simulate(dut, inputs)
    except Exception:
        if fam.on_raise is None:
            raise
        return [[list(i), copy.deepcopy(fam.on_raise)] for i in inputs]


def _task(args):
    module, attr, fn, cfg, lo, hi = args
    fams = getattr(importlib.import_module(module), attr)
    fam = fams[fn]
    inputs = [list(i) for i in fam.domain(cfg)][lo:hi]
    return rows_of(fam, cfg, inputs)


def tabulate(module: str, families: dict, tier: str, procs: int = PROCS, attr: str = "FAMILIES", only=None):
    """-> list of tables.  Deterministic: order of families, cfgs and domains is fixed."""
    tables, tasks, owner = [], [], []
    for fn, fam in families.items():
        if only and fn not in only:
            continue
        for cfg in fam.cfgs(tier):
            n = sum(1 for _ in fam.domain(cfg))
            tables.append({"fn": fn, "cfg": cfg, "rows": [], "n": n})
            for lo in range(0, max(n, 1), CHUNK):
                tasks.append((module, attr, fn, cfg, lo, min(n, lo + CHUNK)))
                owner.append(len(tables) - 1)
    # big tasks first (better balance), results put back in order.  Simulation costs ~30-100 us per
    # valuation, so small jobs stay in this process; the imports are done before forking.
    order = sorted(range(len(tasks)), key=lambda i: -(tasks[i][5] - tasks[i][4]))
    res = [None] * len(tasks)
    total = sum(t["n"] for t in tables)
    procs = min(procs, 1 + total // 20000, len(tasks))
    if procs > 1:
        res[order[-1]] = _task(tasks[order[-1]])          # warm-up: imports happen once, in the parent
        rest = order[:-1]
        with mp.get_context("fork").Pool(procs) as pool:
            for i, r in zip(rest, pool.imap(_task, [tasks[i] for i in rest], chunksize=max(1, len(rest) // (procs * 8)))):
                res[i] = r
    else:
        for i in order:
            res[i] = _task(tasks[i])
    for i, r in enumerate(res):
        tables[owner[i]]["rows"].extend(r)
    for t in tables:
        if len(t["rows"]) != t.pop("n"):
            raise tlc.MachineryError(f"tabulation of {t['fn']} {t['cfg']}: row count differs from domain size")
    return tables


# ---------------------------------------------------------------------------------------
# TLC validation

TABLE_TLA = r"""---- MODULE @ROWS@Table ----
\* Generated by vlib/table.py: validates every row of every table against @ROWS@!RowOK.
EXTENDS @ROWS@, TLC, Json, IOUtils
Tables == JsonDeserialize(IOEnv.TABLE_FILE)
VARIABLE t
TblMin(S) == CHOOSE m \in S : \A z \in S : m <= z
RECURSIVE FirstK(_, _)
FirstK(S, k) == IF k = 0 \/ S = {} THEN {} ELSE LET m == TblMin(S) IN {m} \cup FirstK(S \ {m}, k - 1)
Judge(k) ==
  LET T == Tables[k]
      n == Len(T.rows)
      od == {i \in 1..n : ~InDomain(T.fn, T.cfg, T.rows[i][1])}
      bad == {i \in (1..n) \ od : ~RowOK(T.fn, T.cfg, T.rows[i][1], T.rows[i][2])}
  IN /\ \A i \in FirstK(bad, @PRINT@) :
          PrintT("MISMATCH " \o ToJson([t |-> k, row |-> i, expected |-> Expect(T.fn, T.cfg, T.rows[i][1])]))
     /\ \A i \in FirstK(od, @PRINT@) : PrintT("OUTDOMAIN " \o ToJson([t |-> k, row |-> i]))
     /\ PrintT("TABLE " \o ToJson([t |-> k, rows |-> n, bad |-> Cardinality(bad), outdom |-> Cardinality(od)]))
Init == t \in 1..Len(Tables) /\ Judge(t)
Next == UNCHANGED t
Spec == Init /\ [][Next]_t
====
"""
TABLE_CFG = "SPECIFICATION Spec\nCHECK_DEADLOCK FALSE\n"


def _run_chunk(rows_module: str, chunk: list, timeout: int):
    fd, path = tempfile.mkstemp(prefix="vtab_", suffix=".json")
    try:
        with os.fdopen(fd, "w") as fh:
            json.dump([{"fn": t["fn"], "cfg": t["cfg"], "rows": t["rows"]} for t in chunk], fh)
        text = TABLE_TLA.replace("@ROWS@", rows_module).replace("@PRINT@", str(PRINT_BAD))
        res = tlc.run(rows_module + "Table", TABLE_CFG, extra_modules={rows_module + "Table": text},
                      env={"TABLE_FILE": path}, workers=1, timeout=timeout, heap="3g")
    finally:
        os.unlink(path)
    tlc.require_ok(res, rows_module + "Table")
    return res


def validate(rows_module: str, tables: list, jobs: int = 8, timeout: int = 1800):
    """-> (per-table verdicts [{"t": global index, "rows", "bad", "outdom", "mismatch": [{row, expected}]}],
    TLC wall seconds).  Every table gets a verdict (asserted)."""
    if not tables:
        return [], 0.0
    # split into `jobs` chunks of similar row count, keeping table order inside a chunk
    idx = sorted(range(len(tables)), key=lambda i: -len(tables[i]["rows"]))
    bins = [[] for _ in range(min(jobs, len(tables)))]
    load = [0] * len(bins)
    for i in idx:
        b = load.index(min(load))
        bins[b].append(i)
        load[b] += len(tables[i]["rows"]) + 20
    bins = [sorted(b) for b in bins if b]
    t0 = time.time()
    with ThreadPoolExecutor(len(bins)) as ex:
        results = list(ex.map(lambda b: _run_chunk(rows_module, [tables[i] for i in b], timeout), bins))
    verdicts = {}
    for b, res in zip(bins, results):
        tabs = tlc.tagged(res, "TABLE")
        if sorted(x["t"] for x in tabs) != list(range(1, len(b) + 1)):
            raise tlc.MachineryError(f"{rows_module}Table: {len(tabs)} verdicts for {len(b)} tables")
        for x in tabs:
            g = b[x["t"] - 1]
            if x["rows"] != len(tables[g]["rows"]):
                raise tlc.MachineryError(f"{rows_module}Table: row count mismatch for table {g}")
            verdicts[g] = {"t": g, "rows": x["rows"], "bad": x["bad"], "outdom": x["outdom"], "mismatch": []}
        for x in tlc.tagged(res, "MISMATCH"):
            verdicts[b[x["t"] - 1]]["mismatch"].append({"row": x["row"], "expected": x["expected"]})
    return [verdicts[i] for i in range(len(tables))], time.time() - t0


def run_laws(laws_module: str, invariants: list, constants: dict, rep: Report, workers="auto", timeout=1200):
    cfg = "SPECIFICATION Spec\n" + "".join(f"CONSTANT {k} = {v}\n" for k, v in constants.items())
    cfg += "".join(f"INVARIANT {i}\n" for i in invariants) + "CHECK_DEADLOCK FALSE\n"
    res = tlc.run(laws_module, cfg, workers=workers, timeout=timeout, heap="4g")
    if res.invariant_violated:
        # a law of the TLA+ definitions fails: the oracle is wrong, not the repository
        raise tlc.MachineryError(f"{laws_module}: law {res.invariant_violated} fails on the TLA+ definitions\n"
                                 + "\n".join(res.out.splitlines()[-30:]))
    tlc.require_ok(res, laws_module)
    rep.add("states", res.distinct)
    rep.add("transitions", res.generated)
    rep.coverage.setdefault("mc", []).append(
        {"module": laws_module, "laws": invariants, "constants": constants, "distinct_states": res.distinct,
         "states_generated": res.generated, "depth": res.depth, "wall_s": round(res.wall_s, 2)})
    return res


# ---------------------------------------------------------------------------------------
# self-test, reporting, replay

def _nonzero(out):
    if isinstance(out, list):
        return any(_nonzero(o) for o in out)
    return out not in (0, "", None)


def _flip(out):
    """Corrupt the fully specified part of an output (element 0 of a list, first key of a record)."""
    if isinstance(out, list):
        if not out:
            raise ValueError("nothing to flip")      # e.g. the marker of a raised exception
        return [_flip(out[0])] + out[1:]
    if isinstance(out, dict):
        if not out:
            raise ValueError("nothing to flip")
        k = sorted(out)[0]
        return {**out, k: _flip(out[k])}
    if isinstance(out, str):
        return out + "~"
    return out ^ 1


def make_corrupted(tables: list, rng: random.Random, n=12, window=40):
    """Self-test material: n windows of rows copied from random tables, one output flipped in each.
    -> list of (source table index, table, 1-based corrupted row, rows of the uncorrupted window)."""
    cands = [i for i, t in enumerate(tables) if t["rows"]]
    picked = []
    for g in rng.sample(cands, min(3 * n, len(cands))):
        if len(picked) >= n:
            break
        rows = tables[g]["rows"]
        r = rng.randrange(len(rows))
        lo = max(0, r - window // 2)
        win = copy.deepcopy(rows[lo:lo + window])
        try:
            win[r - lo][1] = _flip(win[r - lo][1])
        except ValueError:
            continue
        picked.append((g, {"fn": tables[g]["fn"], "cfg": tables[g]["cfg"], "rows": win}, r - lo + 1, lo))
    return picked


def judge_corrupted(rows_module: str, picked: list, tables_verdicts: list, cor_verdicts: list, rep: Report):
    """Every corrupted row (of a window whose original rows were all accepted) must be reported, and
    nothing else in its window."""
    ok = skipped = 0
    missed = []
    for (g, t, r, lo), v in zip(picked, cor_verdicts):
        orig_bad = {m["row"] for m in tables_verdicts[g]["mismatch"]}
        if tables_verdicts[g]["bad"]:
            skipped += 1          # the source table itself has mismatches (reported separately)
            continue
        if v["bad"] == 1 and [m["row"] for m in v["mismatch"]] == [r]:
            ok += 1
        else:
            missed.append((t["fn"], t["cfg"], t["rows"][r - 1]))
    rep.coverage["selftest_corrupted_rows"] = len(picked) - skipped
    rep.coverage["selftest_corrupted_reported"] = ok
    if missed:
        rep.machinery(f"{rows_module}: {len(missed)} corrupted rows were not reported exactly: {missed[:3]}")
    elif ok == 0:
        rep.machinery(f"{rows_module}: self-test did not exercise any row")


def report(rep: Report, tables: list, verdicts: list):
    """Turn verdicts into violations (one per table) / machinery errors; count evidence."""
    total = 0
    nontrivial = 0
    fns = set()
    for t, v in zip(tables, verdicts):
        total += v["rows"]
        fns.add(t["fn"])
        if any(_nonzero(r[1]) for r in t["rows"]):
            nontrivial += 1
        if v["outdom"]:
            rep.machinery(f"{t['fn']} {t['cfg']}: {v['outdom']} tabulated rows are outside the documented "
                          "domain (driver bug)")
        if v["bad"]:
            mm = rep.coverage.setdefault("mismatching_tables", {})
            mm[t["fn"]] = mm.get(t["fn"], 0) + 1
            first = v["mismatch"][0]
            row = t["rows"][first["row"] - 1]
            rep.violation({"component": t["fn"], "cfg": t["cfg"], "clauses": ["RowMatches"], "clause": "RowMatches",
                           "what": f"{t['fn']}: {v['bad']} of {v['rows']} rows differ from the documented value",
                           "line": first["row"], "row": {"in": row[0], "out": row[1]},
                           "expected": first["expected"], "bad_rows": v["bad"],
                           "more": [{"in": t["rows"][m["row"] - 1][0], "out": t["rows"][m["row"] - 1][1],
                                     "expected": m["expected"]} for m in v["mismatch"][1:]]})
    rep.add("evaluations", total)
    rep.add("traces_validated_against_impl", len(tables))
    rep.add("tables", len(tables))
    rep.add("distinct_nontrivial", nontrivial)
    rep.coverage["functions"] = sorted(set(rep.coverage.get("functions", [])) | fns)
    return total


def standard_check(rep: Report, module: str, families: dict, rows_module: str, laws_module: str,
                   law_invariants: list, law_constants: dict, procs=PROCS, jobs=None):
    t0 = time.time()
    # the law run (TLC only) proceeds in the background while the implementation is tabulated
    bg = ThreadPoolExecutor(1)
    laws = bg.submit(lambda: (run_laws(laws_module, law_invariants, law_constants, rep, workers=min(4, procs)),
                              time.time())[1])
    t1 = time.time()
    tables = tabulate(module, families, rep.tier, procs=procs)
    t2 = time.time()
    picked = make_corrupted(tables, random.Random(rep.seed))
    nrows = sum(len(t["rows"]) for t in tables)
    if jobs is None:
        jobs = max(1, min(8, procs, nrows // 12000))
    allv, _ = validate(rows_module, tables + [p[1] for p in picked], jobs=jobs)
    verdicts, cor = allv[:len(tables)], allv[len(tables):]
    t3 = time.time()
    t_laws = laws.result()      # re-raises MachineryError of the law run
    bg.shutdown()
    report(rep, tables, verdicts)
    judge_corrupted(rows_module, picked, verdicts, cor, rep)
    rep.coverage["exhaustive"] = True
    rep.coverage["wall_laws_s"] = round(t_laws - t0, 2)
    rep.coverage["wall_tabulate_s"] = round(t2 - t1, 2)
    rep.coverage["wall_validate_s"] = round(t3 - t2, 2)
    per_fn = {}
    for t in tables:
        d = per_fn.setdefault(t["fn"], {"tables": 0, "rows": 0})
        d["tables"] += 1
        d["rows"] += len(t["rows"])
    rep.coverage["per_function"] = per_fn
    seen = set()
    for t in tables:
        if t["fn"] not in seen and t["rows"]:
            seen.add(t["fn"])
            mid = t["rows"][len(t["rows"]) // 2]
            rep.sample({"fn": t["fn"], "cfg": t["cfg"], "in": mid[0], "out": mid[1]}, limit=40)
    rep.assumptions += ["Amaranth Python simulator is faithful to the elaborated netlist",
                        "exhaustive only within the stated widths / lengths; the TLA+ operators are the oracle"]
    return tables, verdicts


def replay_file(rep: Report, families: dict, rows_module: str, path: str):
    """Recompute the stored row on the current /repo and judge it with TLC."""
    d = json.load(open(path))
    fam = families[d["component"]]
    inp = d["row"]["in"]
    rows = rows_of(fam, d["cfg"], [inp])
    tables = [{"fn": fam.fn, "cfg": d["cfg"], "rows": rows}]
    verdicts, _ = validate(rows_module, tables, jobs=1)
    print(f"replay {fam.fn} cfg={d['cfg']} in={inp}: observed {rows[0][1]}"
          + (f", expected {verdicts[0]['mismatch'][0]['expected']}" if verdicts[0]["bad"] else " (matches)"), flush=True)
    report(rep, tables, verdicts)
