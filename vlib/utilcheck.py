"""Helpers shared by the utility / function checks C40, C42, C43 (hand-written <X>MC / <X>Trace
modules instead of the component templates).  Wraps vlib.tlc; does not change the framework."""
from __future__ import annotations

import json
import os
import tempfile
from concurrent.futures import ThreadPoolExecutor

from . import tlc

TRACE_CFG = "SPECIFICATION Spec\nCHECK_DEADLOCK FALSE\n"


def procs(cap: int = 16) -> int:
    """Parallelism for pools / parallel TLC runs (VERIF_PROCS, default 16)."""
    return max(1, min(cap, int(os.environ.get("VERIF_PROCS", "16"))))


def violation(rep, desc: dict):
    """rep.violation + a per-clause counter in the evidence (only the first few violations are
    printed / stored as replay files by the framework)."""
    vc = rep.coverage.setdefault("violated_clauses", {})
    for c in desc.get("clauses", []):
        vc[c] = vc.get(c, 0) + 1
    return rep.violation(desc)


def validate(module: str, traces: list, *, timeout=1800, env=None, heap="8g"):
    """Run the hand-written batch trace spec `module` (reads IOEnv.TRACE_FILE, prints one
    ACCEPT/REJECT line per trace) over `traces`.  Returns (rejects, tlc result).  Raises
    MachineryError unless every trace got exactly one verdict."""
    if not traces:
        return [], None
    fd, path = tempfile.mkstemp(prefix="vtr_", suffix=".json")
    try:
        with os.fdopen(fd, "w") as fh:
            json.dump(traces, fh)
        e = {"TRACE_FILE": path}
        e.update(env or {})
        res = tlc.run(module, TRACE_CFG, env=e, workers=1, timeout=timeout, heap=heap)
    finally:
        os.unlink(path)
    tlc.require_ok(res, module)
    acc = tlc.tagged(res, "ACCEPT")
    rej = tlc.tagged(res, "REJECT")
    tids = sorted([a["tid"] for a in acc] + [r["tid"] for r in rej])
    if tids != list(range(1, len(traces) + 1)):
        raise tlc.MachineryError(f"{module}: {len(acc)} accepted + {len(rej)} rejected != {len(traces)} traces")
    return rej, res


def validate_chunks(module: str, traces: list, *, chunks: int = 1, **kw):
    """Same as validate, split over `chunks` parallel TLC runs (tids are mapped back)."""
    if chunks <= 1 or len(traces) < 2 * chunks:
        rej, res = validate(module, traces, **kw)
        return rej, (res.distinct if res else 0)
    size = (len(traces) + chunks - 1) // chunks
    parts = [(i, traces[i:i + size]) for i in range(0, len(traces), size)]
    with ThreadPoolExecutor(procs(len(parts))) as ex:
        outs = list(ex.map(lambda p: validate(module, p[1], **kw), parts))
    rej, states = [], 0
    for (off, _), (r, res) in zip(parts, outs):
        for x in r:
            x["tid"] += off
        rej += r
        states += res.distinct if res else 0
    return rej, states


def run_mc(module: str, cfg: str, *, workers=1, timeout=1800, heap="8g", env=None):
    """Exhaustive run of a hand-written MC module; returns the TLCResult (violations of
    invariants / action properties are left to the caller: res.invariant_violated)."""
    res = tlc.run(module, cfg, workers=workers, timeout=timeout, heap=heap, env=env)
    if res.invariant_violated is None:
        tlc.require_ok(res, module)
    return res


def run_mc_parts(module: str, cfgs: list[str], *, timeout=1800, heap="4g"):
    """Several independent MC runs (e.g. a partition of the configurations) in parallel."""
    with ThreadPoolExecutor(procs(max(1, len(cfgs)))) as ex:
        return list(ex.map(lambda c: run_mc(module, c, timeout=timeout, heap=heap), cfgs))


def plan_walks_ids(n_states: int, init: int, edges: list, max_len=60):
    """Greedy edge cover over a graph with integer state ids (same strategy as
    vlib.comp.plan_walks -- follow uncovered edges, BFS to the nearest state that still has
    one, new walk = reset when stuck or max_len is reached -- without re-serialising states).
    edges: list of (from, to); returns a list of walks, each a list of edge indices.
    Every edge reachable from `init` is covered; raises MachineryError otherwise."""
    from collections import deque
    out = [[] for _ in range(n_states)]
    for i, (a, _) in enumerate(edges):
        out[a].append(i)
    unc = [len(o) for o in out]          # uncovered outgoing edges per state
    nxt = [0] * n_states                 # next candidate position in out[s]
    covered = [False] * len(edges)
    left = len(edges)
    walks = []
    while left:
        cur, walk, progress = init, [], False
        while len(walk) < max_len and left:
            if unc[cur]:
                while covered[out[cur][nxt[cur]]]:
                    nxt[cur] += 1
                i = out[cur][nxt[cur]]
                covered[i] = True
                unc[cur] -= 1
                left -= 1
                progress = True
                walk.append(i)
                cur = edges[i][1]
                continue
            prev = {cur: None}
            dq = deque([cur])
            found = None
            while dq and found is None:
                s = dq.popleft()
                for j in out[s]:
                    t = edges[j][1]
                    if t not in prev:
                        prev[t] = (s, j)
                        if unc[t]:
                            found = t
                            break
                        dq.append(t)
            if found is None:
                break
            path = []
            s = found
            while prev[s] is not None:
                s, j = prev[s]
                path.append(j)
            path.reverse()
            if walk and len(walk) + len(path) >= max_len:
                break
            walk += path
            cur = found
        if not progress:
            raise tlc.MachineryError(f"{left} edges unreachable from the reset state")
        walks.append(walk)
    return walks
