"""Helpers shared by the metric checks C31 (counters / histogram) and C32 (latency measurers).

* tag-set construction for TaggedCounter (range / list / Enum flavours) and the descriptive
  flags `onehot` / `gaps` used in violation records;
* elaboration probe: every configuration is built once; configurations the library fails to
  elaborate are reported as ONE violation per root-cause signature (not one per trace);
* grouped trace validation (one violation record per (component, clauses, configuration class));
* spec->code edge replay that also compares the public value registers with the model state
  (metric methods return nothing and are always ready, so the generic replay would be blind);
* structural "metrics disabled => no hardware" check on the Amaranth netlist.

Framework modules (vlib/comp.py ...) are used unchanged; this module only wraps them.
"""
from __future__ import annotations

import enum
import importlib
import json
import multiprocessing as mp
import random
import traceback
from collections import defaultdict

import os

from . import comp as vcomp
from . import tlc


def nprocs():
    """size of the worker pools (VERIF_PROCS, default 16)"""
    return max(1, int(os.environ.get("VERIF_PROCS", "16")))


class Phases:
    """wall time per phase of a check, written to rep.coverage["phase_s"]."""

    def __init__(self, rep):
        import time
        self.rep, self.t, self.time = rep, time.time(), time
        rep.coverage["phase_s"] = {}

    def __call__(self, name):
        now = self.time.time()
        self.rep.coverage["phase_s"][name] = round(self.rep.coverage["phase_s"].get(name, 0) + now - self.t, 2)
        self.t = now


# ---------------------------------------------------------------------------------------
# metrics enable / tag sets

def enable_metrics(en: bool):
    """Must run inside the DependencyContext of the build, BEFORE the metric is constructed."""
    from transactron.lib.metrics import HwMetricsEnabledKey
    from transactron.utils.dependencies import DependencyContext
    DependencyContext.get().add_dependency(HwMetricsEnabledKey(), bool(en))


def make_tags(cfg):
    """cfg["tags"]: list of ints, cfg["form"]: how they are handed to TaggedCounter."""
    tags = list(cfg["tags"])
    form = cfg["form"]
    if form == "range":
        step = tags[1] - tags[0] if len(tags) > 1 else 1
        r = range(tags[0], tags[-1] + step, step)
        assert list(r) == tags, "range form needs an arithmetic progression"
        return r
    if form == "list":
        return tags
    names = {("T%d" % i): v for i, v in enumerate(tags)}
    if form == "enum":          # plain IntEnum
        return enum.IntEnum("TagE", names)
    if form == "penum":         # plain Enum with int values
        return enum.Enum("TagP", names)
    if form in ("aenum", "aenum_wide"):   # amaranth.lib.enum, optionally with an explicit wider shape
        from amaranth.utils import bits_for
        shape = ", shape=%d" % (max(bits_for(v) for v in tags) + 1) if form == "aenum_wide" else ""
        src = "from amaranth.lib import enum as aenum\nclass TagA(aenum.Enum%s):\n" % shape
        src += "".join("    %s = %d\n" % kv for kv in names.items())
        ns: dict = {}
        exec(src, ns)
        return ns["TagA"]
    raise ValueError(form)


def tag_flags(cfg):
    """onehot: every tag value is a power of two (the implementation then decodes the tag as
    one-hot).  gaps: one-hot and some bit position of the tag shape carries no tag."""
    from amaranth.utils import bits_for
    tags = list(cfg["tags"])
    onehot = bool(tags) and all(v > 0 and (v & (v - 1)) == 0 for v in tags)
    if not onehot:
        return False, False
    nbits = max(bits_for(v) for v in tags) + (1 if cfg["form"] == "aenum_wide" else 0)
    return True, nbits > len(set(tags))


# ---------------------------------------------------------------------------------------
# elaboration probe

def _probe_task(args):
    modname, attr, cfg = args
    comp = getattr(importlib.import_module(modname), attr)
    try:
        from .drive import CompSim
        CompSim(comp.build, cfg, scheduler=comp.scheduler, dm_setup=comp.dm_setup)
        return cfg, None, None
    except Exception as ex:
        return cfg, type(ex).__name__ + ": " + str(ex)[:200], traceback.format_exc()[-1500:]


def probe_configs(comp, cfgs, rep, namer, classer, procs=None):
    """Build (elaborate) every configuration once.  Returns the configurations that elaborate.
    Failures are grouped by (component, configuration class, exception) -> one violation each."""
    cfgs = list(cfgs)
    if not cfgs:
        return []
    with mp.Pool(min(procs or nprocs(), len(cfgs))) as pool:
        out = pool.map(_probe_task, [(comp.module, comp.attr, c) for c in cfgs], chunksize=1)
    ok, groups = [], defaultdict(list)
    for cfg, err, tb in out:
        if err is None:
            ok.append(cfg)
        else:
            groups[(namer(cfg), classer(cfg), err)].append((cfg, tb))
    rep.add("configs_probed", len(cfgs))
    rep.add("configs_elaboration_failed", len(cfgs) - len(ok))
    for (name, cls, err), items in sorted(groups.items(), key=lambda kv: str(kv[0])):
        rep.violation({"component": name, "cfg": items[0][0], "clauses": ["ElaborationRaises"],
                       "what": f"{err} while elaborating; configuration class {cls}; "
                               f"{len(items)} configuration(s) affected",
                       "affected": [c for c, _ in items][:40], "traceback": items[0][1]})
    return ok


# ---------------------------------------------------------------------------------------
# grouped trace validation

def chunks_by_lines(traces, max_lines=80000):
    """split a trace list so that one TLC run loads at most ~max_lines cycle lines"""
    out, cur, n = [], [], 0
    for t in traces:
        if cur and n + len(t["cycles"]) > max_lines:
            out.append(cur)
            cur, n = [], 0
        cur.append(t)
        n += len(t["cycles"])
    if cur:
        out.append(cur)
    return out


def validate_grouped(comp, traces, rep, namer, classer, timeout=1800):
    """validate_traces of the framework (in chunks), but one violation record per
    (component, failing clauses, configuration class).  Returned rejects carry tids that index
    `traces` (1-based)."""
    rej, base = [], 0
    for chunk in chunks_by_lines(traces):
        for r in vcomp.validate_traces(comp, chunk, rep, rep.pid, timeout=timeout, self_test=True):
            r["tid"] += base
            rej.append(r)
        base += len(chunk)
    rep.add("traces_validated_against_impl", len(traces))
    groups = defaultdict(list)
    for r in rej:
        tr = traces[r["tid"] - 1]
        groups[(namer(tr["cfg"]), tuple(sorted(r["clauses"])), classer(tr["cfg"]))].append((r, tr))
    for (name, clauses, cls), items in sorted(groups.items(), key=lambda kv: str(kv[0])):
        r, tr = min(items, key=lambda it: it[0]["line"])
        ln = r["line"]
        rep.violation({"component": name, "cfg": tr["cfg"], "clauses": list(clauses), "line": ln,
                       "seed": tr.get("seed"), "model_state": r["state"], "observed": tr["cycles"][ln - 1],
                       "what": f"configuration class {cls}: {len(items)} trace(s) rejected",
                       "affected": [it[1]["cfg"] for it in items][:40],
                       "schedule": [vcomp._sched_of(c) for c in tr["cycles"][:ln]]})
    return rej


def accepted(traces, rej):
    bad = {r["tid"] for r in rej}
    return [t for i, t in enumerate(traces) if i + 1 not in bad]


# ---------------------------------------------------------------------------------------
# spec -> code replay with comparison of public registers

def replay_walk_pub(comp, cfg, walk, proj):
    """proj(cfg, model_state, observed_pub) -> (expected, observed) dicts to be compared."""
    from .drive import CompSim
    bcfg = comp.impl_cfg(cfg) if comp.impl_cfg else cfg
    cs = CompSim(comp.build, bcfg, scheduler=comp.scheduler, dm_setup=comp.dm_setup)
    sched = []
    for e in walk:
        calls = vcomp._norm_calls(e["lab"]["calls"])
        step = dict(calls)
        for m in e["lab"]["nc"]:
            step[m] = None
        sched.append(step)
    lines = cs.run(sched + [{}])       # one idle cycle to see the last successor state
    for i, e in enumerate(walk):
        line = lines[i]
        calls = vcomp._norm_calls(e["lab"]["calls"])
        res = vcomp._norm_calls(e["lab"]["res"])
        probs = []
        for m in comp.methods(bcfg):
            exp_done = 1 if m in calls else 0
            if line[m]["done"] != exp_done:
                probs.append(f"{m}.done={line[m]['done']} expected {exp_done}")
            if m in calls and line[m]["cal"] != 1:
                probs.append(f"{m}.callable=0 expected 1")
            if m in e["lab"]["nc"] and line[m]["cal"] != 0:
                probs.append(f"{m}.callable=1 expected 0")
            if m in calls and line[m]["out"] != res[m]:
                probs.append(f"{m}.out={line[m]['out']} expected {res[m]}")
        exp, obs = proj(bcfg, e["from"], line.get("pub", {}))
        if exp != obs:
            probs.append(f"registers before the cycle {obs} expected {exp}")
        if not probs:
            exp, obs = proj(bcfg, e["to"], lines[i + 1].get("pub", {}))
            if exp != obs:
                probs.append(f"registers after the cycle {obs} expected {exp}")
        if probs:
            return [{"step": i, "problems": probs, "from": e["from"], "lab": e["lab"], "line": line}], sched
    return [], sched


def _replay_task(args):
    modname, attr, projname, cfg, walk = args
    mod = importlib.import_module(modname)
    comp = getattr(mod, attr)
    try:
        bad, sched = replay_walk_pub(comp, cfg, walk, getattr(mod, projname))
        return cfg, bad, sched, None
    except Exception:
        return cfg, [], [], traceback.format_exc()


def replay_edges_pub(comp, edges, inits, rep, projname, namer, classer, procs=None, max_len=40,
                     max_walks_per_cfg=None):
    """Edge-cover walks (framework planner) replayed with register comparison.  Violations
    are grouped per (component, configuration class).  max_walks_per_cfg: replay only the longest
    walks of configurations that need more (quick tier); the evidence counts
    the edges actually replayed."""
    init_by_cfg = {vcomp._key(i["cfg"]): vcomp._key(i["st"]) for i in inits}
    for e in edges:
        e["_init"] = init_by_cfg.get(vcomp._key(e["cfg"]))
    walks = vcomp.plan_walks(edges, max_len=max_len, rng=random.Random(rep.seed))
    if max_walks_per_cfg is not None:
        by = defaultdict(list)
        for cw in walks:
            by[vcomp._key(cw[0])].append(cw)
        walks = []
        for k in sorted(by):      # keep the walks that cover most edges (stable, deterministic)
            walks += sorted(by[k], key=lambda cw: -len(cw[1]))[:max_walks_per_cfg]
    tasks = [(comp.module, comp.attr, projname, cfg, walk) for cfg, walk in walks]
    if not tasks:
        return 0, 0
    with mp.Pool(min(procs or nprocs(), len(tasks))) as pool:
        results = pool.map(_replay_task, tasks, chunksize=1)
    nsteps = sum(len(w) for _, w in walks)
    rep.add("edges_total", len(edges))
    rep.add("edges_replayed_into_impl", len({id(e) for _, w in walks for e in w}))
    rep.add("replay_walks", len(walks))
    rep.add("replay_cycles", nsteps)
    groups = defaultdict(list)
    for cfg, bad, sched, err in results:
        bcfg = comp.impl_cfg(cfg) if comp.impl_cfg else cfg
        if err:
            groups[(namer(bcfg), "ReplayException", classer(bcfg))].append((bcfg, err[-1500:], None, None))
        for b in bad:
            groups[(namer(bcfg), "EdgeReplay", classer(bcfg))].append((bcfg, "; ".join(b["problems"]), b, sched))
    for (name, clause, cls), items in sorted(groups.items(), key=lambda kv: str(kv[0])):
        bcfg, what, b, sched = items[0]
        d = {"component": name, "cfg": bcfg, "clauses": [clause],
             "what": f"{what} (configuration class {cls}, {len(items)} walk(s) affected)"}
        if b is not None:
            d.update({"schedule": sched[: b["step"] + 1], "model_from": b["from"], "model_label": b["lab"],
                      "observed": b["line"]})
        rep.violation(d)
    if walks:
        rep.sample({"kind": "edge-walk", "cfg": walks[0][0], "labels": [w["lab"]["calls"] for w in walks[0][1][:6]]})
    return len(walks), nsteps


# ---------------------------------------------------------------------------------------
# structure: which registers exist in the elaborated design

def netlist_registers(build, cfg):
    """Elaborate build(cfg) with the standard harness and return
    (names of `pub` signals present in the netlist, flip-flop bits, memory cells) - the harness
    itself contributes exactly one 1-bit flip-flop (the clock-domain dummy of drive._Top)."""
    from amaranth.hdl import _nir
    from amaranth.hdl._ir import Fragment, build_netlist
    from transactron.core.context import TransactronContextElaboratable
    from transactron.utils.dependencies import DependencyContext, DependencyManager
    from .drive import Harness, _Top
    dm = DependencyManager()
    with DependencyContext(dm):
        built = build(cfg)
        dut, methods, pub = built[0], built[1], (built[2] if len(built) > 2 and built[2] else {})
        h = Harness(dut, methods, built[3] if len(built) > 3 else None)
        top = _Top(TransactronContextElaboratable(h, dependency_manager=dm))
        frag = Fragment.get(top, None)
        nl = build_netlist(frag, ports=[p.en for p in h.ports.values()])
    present = sorted(n for n, s in pub.items() if any(s is x for x in nl.signals))
    ff_bits = sum(len(c.data) for c in nl.cells if isinstance(c, _nir.FlipFlop))
    mems = sum(1 for c in nl.cells if isinstance(c, _nir.Memory))
    return present, ff_bits, mems


def _netlist_task(args):
    modname, buildname, cfg = args
    try:
        return cfg, netlist_registers(getattr(importlib.import_module(modname), buildname), cfg), None
    except Exception:
        return cfg, None, traceback.format_exc()[-1500:]


def disabled_no_hardware(modname, buildname, cfgs, rep, namer, procs=None):
    """For every cfg: with metrics disabled the netlist contains none of the metric's public
    value registers, no flip-flop besides the harness dummy and no memory; with metrics
    enabled (positive control) every public value register is in the netlist."""
    tasks = []
    for c in cfgs:
        tasks.append((modname, buildname, dict(c, en=False)))
        tasks.append((modname, buildname, dict(c, en=True)))
    with mp.Pool(min(procs or nprocs(), max(1, len(tasks)))) as pool:
        out = pool.map(_netlist_task, tasks, chunksize=1)
    n_ok = 0
    for cfg, res, err in out:
        if err and cfg["en"]:
            rep.add("netlist_enabled_control_not_buildable", 1)   # reported by the elaboration probe
            continue
        if err:
            rep.violation({"component": namer(cfg), "cfg": cfg, "clauses": ["NetlistException"], "what": err})
            continue
        present, ff_bits, mems = res
        if not cfg["en"]:
            if present or ff_bits > 1 or mems:
                rep.violation({"component": namer(cfg), "cfg": cfg, "clauses": ["DisabledNoHardware"],
                               "what": f"metrics disabled but netlist has registers {present}, "
                                       f"{ff_bits - 1} flip-flop bits, {mems} memories"})
            else:
                n_ok += 1
        else:
            if ff_bits <= 1:
                raise tlc.MachineryError(f"positive control failed: enabled metric {cfg} has no register")
            rep.add("netlist_enabled_controls", 1)
    rep.add("netlist_disabled_checked", n_ok)
    return n_ok


# ---------------------------------------------------------------------------------------
# binding self-test for specs whose only observable is the public register file

def corrupt_pub_self_test(comp, traces, rep, rng, n=8):
    """(a) flip one bit of a recorded register value: the trace must be rejected exactly at that
    line by PubMatches; (b) drop one executed call (done 1 -> 0) of an enabled metric: the trace
    must be rejected at that line or the next one (the registers no longer follow)."""
    import copy
    good = [t for t in traces if len(t["cycles"]) >= 4 and t["cycles"][0].get("pub")]
    if not good:
        return
    picked = []
    for k in range(n * 20):
        if len(picked) >= n:
            break
        t = copy.deepcopy(rng.choice(good))
        li = rng.randrange(len(t["cycles"]) - 1)
        ln = t["cycles"][li]
        if k % 2 == 0:
            name = rng.choice(sorted(ln["pub"]))
            ln["pub"][name] ^= 1
            picked.append((t, li + 1, "pub", li + 1))
        else:
            if not t["cfg"].get("en", True):
                continue
            cands = [m for m, v in ln.items() if isinstance(v, dict) and v.get("done")]
            if not cands:
                continue
            ln[rng.choice(cands)]["done"] = 0
            picked.append((t, li + 1, "done", li + 2))
    rej = vcomp.validate_traces(comp, [p[0] for p in picked], rep, "", self_test=True)
    rejected = {r["tid"]: r for r in rej}
    ok_pub = ok_done = n_pub = n_done = 0
    for i, (t, li, kind, latest) in enumerate(picked):
        r = rejected.get(i + 1)
        if kind == "pub":
            n_pub += 1
            ok_pub += int(r is not None and r["line"] == li and "PubMatches" in r["clauses"])
        else:
            n_done += 1
            ok_done += int(r is not None and li <= r["line"] <= latest)
    rep.coverage["selftest_corrupted_traces"] = len(picked)
    rep.coverage["selftest_corrupted_rejected"] = ok_pub + ok_done
    rep.coverage["selftest_detail"] = {"pub_flipped": n_pub, "pub_rejected_at_line": ok_pub,
                                       "done_dropped": n_done, "done_rejected": ok_done}
    if ok_pub != n_pub or (n_done and ok_done == 0):
        rep.machinery(f"{comp.spec}: corrupt-a-field self-test failed: pub {ok_pub}/{n_pub}, done {ok_done}/{n_done}")
