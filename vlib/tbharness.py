"""C43 harness: drives transactron.testing's TestbenchIO / CallTrigger / MethodMock along a
*script* and records one line per clock cycle plus the begin/end events of every testbench
operation.  The script is data (it is also the value the TLA+ model Testbench.tla is applied
to), all stimulus that has to be cycle-exact lives in hardware (ROMs indexed by a cycle
counter), so nothing depends on the relative order in which simulator processes are resumed.

script = {
  "T": number of simulated cycles,
  "srv": [{"rdy": [0/1]*T}, ...]                      served methods (called through TestbenchIO)
  "procs": [[op, ...], ...]                           one testbench process per entry
      op = {"api": "call"|"call_try"|"init_do"|"trig"|"trig_any"|"trig_all",
            "items": [["call", m, arg] | ["samp", m] | ["val"]], "gap": ticks after the op,
            "pre": 0|1 (start the op in the middle of the cycle)}
  "mock": None | {"en": [0/1]*T, "req": [[0/1]*T, [0/1]*T], "arg": [[..]*T, [..]*T],
                  "p1": [..]*T, "p2": [..]*T   (mid-cycle perturbations of A's argument),
                  "valid": 0|k (A refuses arguments divisible by k), "delay": [dA, dB] in ns}
}
"""
from __future__ import annotations

from amaranth import *
from amaranth.lib.data import StructLayout

PERIOD = 1e-6
AW = 4       # argument width
CW = 8       # cycle stamp width
NW = 6       # execution counter width
MOD = 1 << AW


def fa(arg, s):
    """return value of mock A"""
    return (s + 3 * arg + 1) % MOD


def ga(arg, s):
    """state update of mock A (order- and multiplicity-sensitive)"""
    return (2 * s + arg + 1) % MOD


class TbDut(Elaboratable):
    def __init__(self, script):
        from transactron import Method
        self.script = script
        self.T = script["T"]
        self.cyc = Signal(CW)
        self.nsrv = len(script["srv"])
        self.srv = [Method(i=StructLayout({"a": AW}), o=StructLayout({"cyc": CW, "a": AW, "cnt": NW}), name=f"srv{i}")
                    for i in range(self.nsrv)]
        self.rdy = [Signal(name=f"rdy{i}") for i in range(self.nsrv)]
        self.cnt = [Signal(NW, name=f"cnt{i}") for i in range(self.nsrv)]
        self.mock = script.get("mock")
        if self.mock:
            self.tgt = [Method(i=StructLayout({"x": AW}), o=StructLayout({"y": AW}), name=f"tgt{j}") for j in range(2)]
            self.req = [Signal(name=f"req{j}") for j in range(2)]
            self.arg = [Signal(AW, name=f"arg{j}") for j in range(2)]
            self.res = [Signal(AW, name=f"res{j}") for j in range(2)]
            self.ran = [Signal(name=f"ran{j}") for j in range(2)]
            self.pert = Signal(AW)

    def rom(self, m, name, vals, width):
        sig = Signal(width, name=name)
        with m.Switch(self.cyc):
            for t, v in enumerate(vals):
                if v:
                    with m.Case(t):
                        m.d.comb += sig.eq(v)
        return sig

    def _define(self, m, meth, i):
        from transactron import def_method

        @def_method(m, meth, ready=self.rdy[i])
        def _(a):
            m.d.sync += self.cnt[i].eq(self.cnt[i] + 1)
            return {"cyc": self.cyc, "a": a, "cnt": self.cnt[i]}

    def elaborate(self, platform):
        from transactron import TModule, Transaction
        m = TModule()
        m.d.sync += self.cyc.eq(self.cyc + 1)
        for i, meth in enumerate(self.srv):
            m.d.comb += self.rdy[i].eq(self.rom(m, f"rdyrom{i}", self.script["srv"][i]["rdy"], 1))

            self._define(m, meth, i)
        if self.mock:
            for j in range(2):
                m.d.comb += self.req[j].eq(self.rom(m, f"reqrom{j}", self.mock["req"][j], 1))
                base = self.rom(m, f"argrom{j}", self.mock["arg"][j], AW)
                m.d.comb += self.arg[j].eq(base ^ self.pert if j == 0 else base)
                with Transaction(name=f"caller{j}").body(m, ready=self.req[j]):
                    r = self.tgt[j](m, x=self.arg[j])
                    m.d.comb += self.res[j].eq(r.y)
                    m.d.comb += self.ran[j].eq(1)
        return m


def _plain(v):
    """method result -> list (None -> []); anything that is not a method result -> [-99, ...] (an observation
    the model can never produce: judged as a mismatch, not as a harness failure)"""
    if v is None:
        return []
    try:
        return [int(v.cyc), int(v.a), int(v.cnt)]
    except Exception:  # noqa: BLE001
        try:
            return [-99, int(v)]
        except Exception:  # noqa: BLE001
            return [-99]


def _val(v):
    """sampled plain value -> [int]"""
    try:
        return [int(v)]
    except Exception:  # noqa: BLE001
        return [-98]


def run_script(script):
    """Simulate; returns {"lines": [...], "events": [...]} (see module docstring)."""
    from transactron.testing import TestbenchIO, PysimSimulator, CallTrigger
    from transactron.testing.method_mock import MethodMock
    from transactron.lib import AdapterTrans, Adapter
    from transactron.utils.dependencies import DependencyContext, DependencyManager

    lines, events = [], []
    with DependencyContext(DependencyManager()):
        T = script["T"]
        dut = TbDut(script)
        top = Module()
        top.submodules.dut = dut
        tbs = [TestbenchIO(AdapterTrans.create(mth)) for mth in dut.srv]
        for i, tb in enumerate(tbs):
            top.submodules[f"tb{i}"] = tb
        mk = script.get("mock")
        now = [0]          # python view of the cycle number, maintained by a *process* (runs before testbenches)
        py = {"S": 0, "Q": [], "effA": 0, "effB": 0}
        mocks = []
        if mk:
            mtb = [TestbenchIO(Adapter.create(mth)) for mth in dut.tgt]
            for j, tb in enumerate(mtb):
                top.submodules[f"mtb{j}"] = tb

            def mock_a(x):
                x = int(x)
                s = py["S"]

                @MethodMock.effect
                def _():
                    py["S"] = ga(x, py["S"])
                    py["Q"].append(x)
                    py["effA"] += 1

                return {"y": fa(x, s)}

            def mock_b(x):
                x = int(x)
                head = py["Q"][0] if py["Q"] else 0

                @MethodMock.effect
                def _():
                    py["Q"].pop(0)
                    py["effB"] += 1

                return {"y": (head + x) % MOD}

            kw = {}
            if mk.get("valid"):
                kw["validate_arguments"] = lambda x: int(x) % mk["valid"] != 0
            mocks.append(MethodMock(mtb[0].adapter, mock_a, enable=lambda: bool(mk["en"][min(now[0], T - 1)]),
                                    delay=mk["delay"][0] * 1e-9, **kw))
            mocks.append(MethodMock(mtb[1].adapter, mock_b, enable=lambda: len(py["Q"]) > 0, delay=mk["delay"][1] * 1e-9))

        sim = PysimSimulator(top, max_cycles=T + 50, clk_period=PERIOD)
        for mo in mocks:
            sim.add_mock(mo)

        async def ticker(ctx):
            async for _ in ctx.tick():
                now[0] += 1

        sim.add_process(ticker)

        async def monitor(ctx):
            sig = [dut.cyc]
            for i in range(dut.nsrv):
                sig += [dut.rdy[i], dut.srv[i].run, dut.srv[i].data_out.cyc, dut.srv[i].data_out.a,
                        dut.srv[i].data_out.cnt, dut.cnt[i], tbs[i].adapter.en, tbs[i].adapter.done]
            if mk:
                for j in range(2):
                    sig += [dut.req[j], dut.arg[j], dut.res[j], dut.ran[j], mtb[j].adapter.en, mtb[j].adapter.done]
            prev = dict(py, Q=list(py["Q"]))
            for _ in range(T):
                _, _, *v = await ctx.tick().sample(*sig)
                v = [int(x) for x in v]
                line = {"cyc": v[0], "srv": [], "mock": []}
                k = 1
                for i in range(dut.nsrv):
                    rdy, run, oc, oa, on, cnt, en, done = v[k:k + 8]
                    k += 8
                    line["srv"].append({"rdy": rdy, "run": run, "out": [oc, oa, on], "cnt": cnt, "en": en, "done": done})
                if mk:
                    await ctx.delay(PERIOD / 2)   # effects of the cycle that just ended are applied by now
                    for j in range(2):
                        req, arg, res, ran, en, done = v[k:k + 6]
                        k += 6
                        line["mock"].append({"req": req, "arg": arg, "res": res, "ran": ran, "en": en, "done": done})
                    line["S"] = py["S"]
                    line["Q"] = list(py["Q"])
                    line["effA"] = py["effA"] - prev["effA"]
                    line["effB"] = py["effB"] - prev["effB"]
                    prev = dict(py, Q=list(py["Q"]))
                lines.append(line)
            await ctx.tick()   # let operations that returned at the last recorded edge log their event

        sim.add_testbench(monitor)

        def make_proc(p, ops):
            async def proc(ctx):
                for oi, op in enumerate(ops):
                    if op.get("pre"):
                        await ctx.delay(PERIOD * 0.3)
                    start = int(ctx.get(dut.cyc))
                    api, items = op["api"], op["items"]
                    if api == "call":
                        _, mi, a = items[0]
                        res = [_plain(await tbs[mi].call(ctx, a=a))]
                    elif api == "call_try":
                        _, mi, a = items[0]
                        res = [_plain(await tbs[mi].call_try(ctx, {"a": a}))]
                    elif api == "init_do":
                        _, mi, a = items[0]
                        tbs[mi].call_init(ctx, a=a)
                        res = [_plain(await tbs[mi].call_do(ctx))]
                    else:
                        trig = CallTrigger(ctx)
                        for it in items:
                            if it[0] == "call":
                                trig = trig.call(tbs[it[1]], a=it[2])
                            elif it[0] == "samp":
                                trig = trig.sample(tbs[it[1]])
                            else:
                                trig = trig.sample(dut.cyc)
                        if api == "trig":
                            out = await trig
                        elif api == "trig_any":
                            out = await trig.until_done()
                        else:
                            out = await trig.until_all_done()
                        res = [_val(r) if it[0] == "val" else _plain(r) for it, r in zip(items, out)]
                        if len(out) != len(items):
                            res.append([-1])
                    end = int(ctx.get(dut.cyc))
                    events.append({"p": p, "op": oi, "start": start, "end": end, "res": res})
                    for _ in range(op.get("gap", 0)):
                        await ctx.tick()
            return proc

        for p, ops in enumerate(script["procs"]):
            sim.add_testbench(make_proc(p, ops), background=True)

        if mk:
            async def perturb(ctx):
                for t in range(T):
                    await ctx.delay(PERIOD * 0.15)
                    ctx.set(dut.pert, mk["p1"][t])
                    await ctx.delay(PERIOD * 0.15)
                    ctx.set(dut.pert, mk["p2"][t])
                    await ctx.tick()
            sim.add_testbench(perturb, background=True)
        sim.run()
    return {"lines": lines, "events": events}
