"""C27 CircularAllocator hands out identifiers in ring order (spec: specs/lib/AllocRing.tla)."""
from vlib.comp import Component, replay_file
from vlib.c24_27 import check, MaskedCall, STEP_EXTRA, STEP_EXTRA_NAMES

METHODS = ["alloc", "free", "clear"]


def _mask_idents(n, other):
    """idents[i] for i >= count are left open by the property: the harness forces them to 0."""
    def mask(m, arg, out, masked):
        from amaranth import Mux
        m.d.top_comb += masked[other].eq(out[other])
        for i in range(n):
            m.d.top_comb += masked.idents[i].eq(Mux(arg.count > i, out.idents[i], 0))
    return mask


def build(cfg):
    from transactron.lib.allocators import CircularAllocator
    kw = {} if cfg.get("dflt") else {"with_validate_arguments": bool(cfg["val"])}
    dut = CircularAllocator(cfg["entries"], cfg["ma"], cfg["mf"], **kw)
    ms = {"alloc": MaskedCall(dut.alloc, _mask_idents(cfg["ma"], "new_end_idx")),
          "free": MaskedCall(dut.free, _mask_idents(cfg["mf"], "new_start_idx")),
          "clear": dut.clear}
    return dut, ms, {"start_idx": dut.start_idx, "end_idx": dut.end_idx, "allocated": dut.allocated}


def validates(cfg, m):
    return bool(cfg["val"]) and cfg["ma" if m == "alloc" else "mf"] > 1


class Tracker:
    """Allocated count followed from the executed calls (counts) only."""

    def __init__(self, cfg):
        self.n = 0

    def update(self, line):
        if line["clear"]["done"]:
            self.n = 0
            return
        if line["alloc"]["done"]:
            self.n += line["alloc"]["arg"]
        if line["free"]["done"]:
            self.n -= line["free"]["arg"]


def gen_arg(cfg, m, rng, tr):
    mx = cfg["ma" if m == "alloc" else "mf"]
    room = cfg["entries"] - tr.n if m == "alloc" else tr.n
    ok = max(0, min(mx, room))
    if validates(cfg, m) and rng.random() < 0.5:
        return rng.randrange(mx + 1)                  # any count in range: validation must filter
    r = rng.random()
    return ok if r < 0.45 else rng.randrange(ok + 1)  # valid counts, biased to the largest valid


def want(cfg, m, rng, tr, p):
    if m == "clear":
        return rng.random() < p * 0.06
    return rng.random() < p


COMP = Component(
    spec="AllocRing", name="CircularAllocator", build=build, methods=lambda cfg: METHODS,
    has_arg=lambda m: m in ("alloc", "free"), gen_arg=gen_arg, want=want, tracker=Tracker,
    shadow=lambda cfg: ["alloc", "free"],
    module=__name__,
    trace_extra=STEP_EXTRA + "\nPubMatches == Line.pub.start_idx = st.s /\\ Line.pub.end_idx = st.e "
                             "/\\ Line.pub.allocated = st.n",
    trace_extra_names=STEP_EXTRA_NAMES + ["PubMatches"],
)


def trace_cfgs(thorough, rng):
    allc = [{"entries": n, "ma": a, "mf": f, "val": v}
            for n in range(1, 8) for a in (1, 2, 3) for f in (1, 2, 3) for v in (0, 1)]
    if thorough:
        cfgs = allc + [{"entries": n, "ma": a, "mf": f, "val": v}
                       for (n, a, f) in [(9, 4, 2), (11, 3, 4), (12, 4, 4), (16, 3, 3), (13, 5, 1)] for v in (0, 1)]
    else:
        cfgs = rng.sample(allc, 44)
    cfgs.append({"entries": 6, "ma": 2, "mf": 2, "val": 1, "dflt": 1})   # constructor default = validation on
    return cfgs


def run(rep):
    import random
    thorough = rep.tier == "thorough"
    cfgs = trace_cfgs(thorough, random.Random(rep.seed))
    traces = check(COMP, rep, trace_cfgs=cfgs, seeds_per_cfg=5 if thorough else 2,
                   cycles=500 if thorough else 150, mc_set=rep.tier)
    # distinct non-trivial situations in the implementation traces: executed or refused alloc/free
    # with (config, allocated, alloc count or -1, free count or -1, refused-by-validation flags)
    seen = set()
    wraps = refused = 0
    for tr in traces:
        c = tr["cfg"]
        for ln in tr["cycles"]:
            a, f = ln["alloc"], ln["free"]
            n = ln["pub"]["allocated"]
            if a["req"] or f["req"]:
                ra = bool(a["req"] and not a["cal"] and n != c["entries"])
                rf = bool(f["req"] and not f["cal"] and n != 0)
                refused += ra + rf
                seen.add((c["entries"], c["ma"], c["mf"], c["val"], n,
                          a["arg"] if a["done"] else -1, f["arg"] if f["done"] else -1, ra, rf))
            if a["done"] and a["arg"] and ln["pub"]["end_idx"] + a["arg"] >= c["entries"]:
                wraps += 1
    rep.coverage["impl_distinct_situations"] = len(seen)
    rep.coverage["impl_alloc_wraparounds"] = wraps
    rep.coverage["impl_calls_refused_by_validation"] = refused
    rep.coverage["trace_configs"] = len(cfgs)
    rep.coverage["rule"] = (
        "MC: all call sets (alloc(count) x free(count) x clear, every count 0..max; without validation only counts "
        "that fit) in all reachable states of AllocRing!Configs (quick: entries {1,2,3,5}, 28 (ma,mf,val) combos; "
        "thorough: entries 1-7 x ma 1-3 x mf 1-3 x val); S->C: every model edge replayed (methods the model says are not "
        "callable are requested too); C->S: seeded random histories, entries 1-7 incl. non-powers of two (thorough up to "
        "16, max 5), public start_idx/end_idx/allocated compared every cycle; distinct_nontrivial = model edges replayed "
        "+ distinct (config, allocated, alloc count, free count, refused flags) situations in the traces")
    rep.coverage["evaluations"] = rep.coverage.get("impl_cycles", 0) + rep.coverage.get("replay_cycles", 0)
    rep.coverage["distinct_nontrivial"] = rep.coverage.get("edges_total", 0) + len(seen)
    rep.assumptions += ["Amaranth Python simulator is faithful to the elaborated netlist",
                        "counts never exceed max_alloc / max_free (the argument's declared range)",
                        "without argument validation the driver only passes counts that fit (docstring contract)",
                        "idents[i] for i >= count are not constrained (masked to 0 by the harness adapter)"]


def replay(rep, path):
    replay_file(COMP, rep, path)
