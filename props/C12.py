"""C12 condition() picks one admissible branch (specs/core/Condition.tla, ConditionTrace.tla, ConditionMC.tla)."""
import multiprocessing as mp
import os

from vlib import condgen, judge, tlc

NPROCS = int(os.environ.get("VERIF_PROCS", "16"))
PROPS = ["BranchNeedsParentCondAndCallees", "AtMostOneBranch", "DefaultOnlyIfNoCond",
         "ParentNeedsBranchUnlessNonblocking", "PriorityFirstAdmissible"]


def run(rep):
    thorough = rep.tier == "thorough"
    n, cap = (1500, 1024) if thorough else (120, 256)
    with mp.Pool(NPROCS) as pool:
        cases = pool.map(condgen.make_condition_case, [(rep.seed * 100003 + i, cap) for i in range(n)], chunksize=4)
    built = [c for c in cases if not c["raised"]]
    for c in cases:
        if c["raised"]:
            rep.violation({"component": "condition", "cfg": {"seed": c["seed"]}, "clauses": ["ElaborationRaised"],
                           "what": c["exc"], "design": c["design"]})
    res, acc, rej, dev = judge.judge("ConditionTrace", [{"design": c["design"], "cycles": c["cycles"]} for c in built])
    for r in rej:
        c = built[r["tid"] - 1]
        rep.violation({"component": "condition", "cfg": {"seed": c["seed"]}, "clauses": sorted(set(r["clauses"]) & set(PROPS)),
                       "all_failing": r["clauses"], "line": r["line"], "design": c["design"],
                       "observed": c["cycles"][r["line"] - 1]})
    # exhaustive check of the model itself on the small designs of this run
    small = [c["design"] for c in built if c["design"]["nin"] <= 6 and len(c["design"]["branches"]) <= 5][: (200 if thorough else 40)]
    mc = judge.model_check("ConditionMC", small, ["P1", "P2", "P3", "P4", "P5"])
    if mc.invariant_violated:
        rep.violation({"component": "condition-model", "clauses": ["MC:" + mc.invariant_violated],
                       "what": "Condition.tla's model violates a sentence of C12", "tlc_tail": mc.out.splitlines()[-60:]})
    else:
        tlc.require_ok(mc, "ConditionMC")
        rep.add("states", mc.distinct)
        rep.add("transitions", mc.generated)
    cov = rep.coverage
    cov["traces_validated_against_impl"] = len(built)
    cov["impl_cycles"] = sum(len(c["cycles"]) for c in built)
    cov["model_deviations"] = len(dev)
    cov["mc_designs"] = len(small)
    flags = set()
    branch_runs = 0
    blocked = 0
    for c in built:
        d = c["design"]
        for B in d["blocks"]:
            flags.add((B["nonblocking"], B["priority"], any(d["branches"][r - 1]["cond"] == 0 for r in B["branches"]),
                       B["encl"] != 0, d["pkind"]))
        for ln in c["cycles"]:
            branch_runs += sum(ln["bw"])
            blocked += (not ln["prun"])
    cov["distinct_block_kinds"] = len(flags)
    cov["branch_executions"] = branch_runs
    cov["cycles_body_blocked"] = blocked
    cov["evaluations"] = cov["impl_cycles"]
    cov["distinct_nontrivial"] = len(flags)
    cov["rule"] = ("random condition() designs (blocking/nonblocking x priority x default, overlapping conditions, nested "
                   "blocks, transaction or method parent, shared callees) built with the real API; all input valuations "
                   "(<=256/1024); distinct_nontrivial = distinct (nonblocking, priority, default, nested, parent kind) block kinds seen")
    if built:
        rep.sample({"design": built[0]["design"], "cycle": built[0]["cycles"][0]})
    if dev:
        rep.coverage["deviation_example"] = dev[0]
    rep.assumptions += ["Amaranth's Python simulator is faithful to the netlist",
                        "branch execution is observed through a comb witness placed inside each branch"]


def replay(rep, path):
    """Rebuild the stored design with the current /repo, drive every input valuation again and judge the cycles."""
    import json
    import random
    d = json.load(open(path))
    dz = d["design"]
    try:
        lines = condgen.run_condition(dz, condgen.all_vals(dz["nin"], random.Random(d["cfg"].get("seed", 0)), 1024))
    except Exception as ex:  # noqa: BLE001
        rep.violation({"component": "condition", "cfg": d["cfg"], "clauses": ["ElaborationRaised"], "what": str(ex)[:300], "design": dz})
        return
    res, acc, rej, dev = judge.judge("ConditionTrace", [{"design": dz, "cycles": lines}])
    rep.add("traces_validated_against_impl", 1)
    for r in rej:
        rep.violation({"component": "condition", "cfg": d["cfg"], "clauses": sorted(set(r["clauses"]) & set(PROPS)),
                       "all_failing": r["clauses"], "line": r["line"], "design": dz, "observed": lines[r["line"] - 1]})
