"""C35 Profiler records what actually ran (specs/obs/ProfilerTrace.tla over specs/core/TxnCore.tla)."""
import copy
import multiprocessing as mp
import os
import random
import re

from vlib import coregen, core, judge, tlc

NPROCS = int(os.environ.get("VERIF_PROCS", "16"))
PROPS = ["RunningExact", "RunningCallerOK", "LockedOnlyIfConflictRan", "StatsEqualCounts", "SameLength"]
OPTS = [dict(p_wit=0.0), dict(p_wit=0.0, max_m=2, max_t=4), dict(p_wit=0.0, p_rel=1.0), dict(p_wit=0.0, sched="rr", nested=False, rdep_rel=False)]
# extra family (own seed range, so that the designs of the families above never change): conflict paths
# a - b - c whose ends do not conflict, under the round-robin scheduler: a transaction can be ready and runnable
# and not run although nothing that conflicts with it runs -- it must not be reported as locked
XOPT = dict(p_wit=0.0, sched="rr", nested=False, rdep_rel=False, p_chain=1.0, max_t=4, max_m=1, p_rel=0.2)
XBASE = 50000


def make(args):
    seed, opt, cycles = args
    rng = random.Random(seed)
    d = coregen.Gen(rng, **opt).design()
    for attempt in range(8):
        dd = copy.deepcopy(d)
        D = coregen.flatten(dd)
        try:
            vals = coregen.valuations(dd, rng, cycles, sticky=0.5)
            lines, prof = coregen.run_design(dd, vals, with_profile=True)
        except Exception as ex:  # noqa: BLE001
            if not core._shrink(d, rng, str(ex)):
                return None
            continue
        ident = {}
        for i, info in prof.transactions_and_methods.items():
            m = re.search(r"([tm])(\d+)$", info.name)
            ident[i] = int(m.group(2))
        pc = []
        for c in prof.cycles:
            # (a locker that is not a known transaction -- e.g. None -- is recorded as 0 and judged by TLC)
            pc.append({"running": [[ident[i], ident[j] if j is not None else 0] for i, j in c.running.items()],
                       "locked": [[ident[i], ident.get(j, 0)] for i, j in c.locked.items()]})
        byname = {}
        for node in prof.analyze_transactions():
            m = re.search(r"t(\d+)$", node.stat.name)
            byname[int(m.group(1))] = [int(m.group(1)), node.stat.run, node.stat.locked]
        return {"design": D, "seed": seed, "prof": pc, "stats": list(byname.values()),
                "cycles": [{"run": ln["run"], "rdy": ln["rdy"], "rnb": ln["rnb"]} for ln in lines]}
    return None


def run(rep):
    thorough = rep.tier == "thorough"
    n, cycles = (1200, 300) if thorough else (72, 100)
    tasks = [(rep.seed * 100003 + i, OPTS[i % len(OPTS)], cycles) for i in range(n)]
    tasks += [(rep.seed * 100003 + XBASE + i, XOPT, cycles) for i in range(n // 4)]
    with mp.Pool(NPROCS) as pool:
        cases = [c for c in pool.map(make, tasks, chunksize=2) if c]
    res, acc, rej, dev = judge.judge("ProfilerTrace", [{k: c[k] for k in ("design", "prof", "stats", "cycles")} for c in cases])
    for r in rej:
        c = cases[r["tid"] - 1]
        ln = r["line"]
        rep.violation({"component": "profiler", "cfg": {"seed": c["seed"], "sched": c["design"]["sched"]},
                       "clauses": sorted(set(r["clauses"]) & set(PROPS)), "all_failing": r["clauses"], "line": ln,
                       "design": c["design"], "observed": c["cycles"][ln - 1] if ln else None,
                       "profile_cycle": c["prof"][ln - 1] if ln else None, "stats": c["stats"]})
    cov = rep.coverage
    cov["traces_validated_against_impl"] = len(cases)
    cov["states"] = res.distinct
    cov["transitions"] = res.generated
    cov["impl_cycles"] = sum(len(c["cycles"]) for c in cases)
    cov["cycles_with_locked_transaction"] = sum(1 for c in cases for p in c["prof"] if p["locked"])
    cov["running_entries"] = sum(len(p["running"]) for c in cases for p in c["prof"])
    cov["model_deviations"] = len(dev)
    cov["evaluations"] = cov["impl_cycles"]
    cov["distinct_nontrivial"] = cov["cycles_with_locked_transaction"]
    cov["rule"] = ("designs from the core grammar simulated with the library's profiler process attached; every profile cycle "
                   "is compared by TLC with independently sampled run/ready/runnable signals and the specification's conflict "
                   "relation; statistics of analyze_transactions() compared with counts over the profile; "
                   "distinct_nontrivial = cycles in which the profile marks something as locked")
    if cases:
        c = cases[0]
        k = next((i for i, p in enumerate(c["prof"]) if p["locked"]), 0)
        rep.sample({"design": c["design"], "cycle": c["cycles"][k], "profile_cycle": c["prof"][k], "stats": c["stats"]})
    rep.assumptions += ["state/transition counts are those of the trace-validation run (the model side of the conflict relation is "
                        "model-checked under C01/C07)"]


def replay(rep, path):
    """Regenerate the case from its seed (same generator options and cycle count as in the tier that found it:
    both are tried), simulate it with the current /repo and judge the profile again."""
    import json
    d = json.load(open(path))
    seed = d["cfg"]["seed"]
    i = seed % 100003
    for cycles in (100, 300):
        c = make((seed, dict(XOPT if i >= XBASE else OPTS[i % len(OPTS)]), cycles))
        if not c:
            continue
        res, acc, rej, dev = judge.judge("ProfilerTrace", [{k: c[k] for k in ("design", "prof", "stats", "cycles")}])
        rep.add("traces_validated_against_impl", 1)
        for r in rej:
            rep.violation({"component": "profiler", "cfg": d["cfg"], "clauses": sorted(set(r["clauses"]) & set(PROPS)),
                           "all_failing": r["clauses"], "line": r["line"], "design": c["design"]})
