"""C31 Hardware counters and histograms count exactly (spec: specs/lib/Metrics.tla).

HwCounter / TaggedCounter / HwExpHistogram: the public value registers are compared with the
model state in every cycle (clause PubMatches); all ways may run in one cycle; registers are
3-4 bits wide so that wrap-around is exercised.  Metrics disabled: calls accepted, registers
stay at reset (traces) and the netlist contains no register / memory of the metric (structure).
"""
import random

from vlib import metricsharness as mh
from vlib.comp import Component, model_check, record_traces, trace_stats

NAMES = {"counter": "HwCounter", "tagged": "TaggedCounter", "hist": "HwExpHistogram"}


def build(cfg):
    from transactron.lib.metrics import HwCounter, TaggedCounter, HwExpHistogram
    mh.enable_metrics(cfg["en"])
    kind, ways, width = cfg["kind"], cfg["ways"], cfg["width"]
    if kind == "counter":
        d = HwCounter("verif.counter", "c", width_bits=width, ways=ways)
        return d, {f"incr{i}": d.incr[i] for i in range(ways)}, {"count": d.count.value}
    if kind == "tagged":
        d = TaggedCounter("verif.tagged", "t", tags=mh.make_tags(cfg), registers_width=width, ways=ways)
        pub = {f"c{i + 1}": d.counters[t].value for i, t in enumerate(cfg["tags"])}
        return d, {f"incr{i}": d.incr[i] for i in range(ways)}, pub
    d = HwExpHistogram("verif.hist", "h", bucket_count=cfg["buckets"], sample_width=cfg["sw"],
                       registers_width=width, ways=ways)
    pub = {"count": d.count.value, "sum": d.sum.value, "min": d.min.value, "max": d.max.value}
    for i, b in enumerate(d.buckets):
        pub[f"b{i + 1}"] = b.value
    return d, {f"add{i}": d.add[i] for i in range(ways)}, pub


def methods(cfg):
    return [("add" if cfg["kind"] == "hist" else "incr") + str(i) for i in range(cfg["ways"])]


def gen_arg(cfg, m, rng, tracker):
    if cfg["kind"] == "counter":
        return None
    if cfg["kind"] == "tagged":
        return rng.choice(cfg["tags"])
    sw = cfg["sw"]
    if rng.random() < 0.5:   # bucket boundaries and extremes
        cands = [0, 1, (1 << sw) - 1] + [1 << k for k in range(sw)] + [(1 << k) - 1 for k in range(1, sw + 1)]
        return rng.choice(cands)
    return rng.randrange(1 << sw)


def proj(cfg, st, obs):
    """model state (EDGE json) -> the register file it stands for (pure renaming)."""
    if cfg["kind"] == "counter":
        exp = {"count": st["count"]}
    elif cfg["kind"] == "tagged":
        exp = {f"c{i + 1}": v for i, v in enumerate(st["c"])}
    else:
        exp = {k: st[k] for k in ("count", "sum", "min", "max")}
        exp.update({f"b{i + 1}": v for i, v in enumerate(st["b"])})
    return exp, obs


def describe(cfg):
    """spec cfg / generator cfg -> build cfg with the descriptive flags used in reports."""
    c = dict(cfg)
    if c["kind"] == "tagged":
        c["onehot"], c["gaps"] = mh.tag_flags(c)
    return c


def namer(cfg):
    return NAMES[cfg["kind"]]


def classer(cfg):
    if cfg["kind"] == "tagged":
        oh, gaps = mh.tag_flags(cfg)
        return f"onehot={oh} gaps={gaps}" + ("" if cfg["en"] else " disabled")
    if cfg["kind"] == "hist":
        return f"buckets={cfg['buckets']}" + ("" if cfg["en"] else " disabled")
    return "counter" + ("" if cfg["en"] else " disabled")


COMP = Component(
    spec="Metrics", name="metrics", build=build, methods=methods,
    has_arg=lambda m: True, gen_arg=gen_arg, impl_cfg=describe, module=__name__,
    shadow=lambda cfg: methods(cfg) if cfg["en"] else [],   # disabled metrics define empty nonexclusive methods
    trace_extra="PubMatches == Line.pub = C!Pub(cfg, st)",
    trace_extra_names=["PubMatches"],
)


def _cfg(kind, ways, width, tags=(), form="-", buckets=0, sw=0, en=True):
    return describe({"kind": kind, "ways": ways, "width": width, "tags": list(tags), "form": form,
                     "buckets": buckets, "sw": sw, "en": en})


TAGSETS = [
    # (form, tags)                       documented tag sets: range, list of integers, Enum
    ("range", [0, 1, 2, 3]), ("range", [2, 3, 4]), ("range", [-2, -1, 0, 1]), ("range", [0, 2, 4, 6]),
    ("range", [1, 2]),                                    # a range that happens to be one-hot
    ("list", [5, 0, 3]), ("list", [-3, 7, 2]), ("list", [7]), ("list", [1]),
    ("list", [1, 2, 4, 8]), ("list", [4, 1, 2]),          # one-hot, contiguous bits (also unsorted)
    ("list", [1, 4]), ("list", [2, 4, 8]), ("list", [1, 2, 8]), ("list", [2]), ("list", [8, 1]),  # one-hot with gaps
    ("enum", [0, 1, 2]), ("enum", [0, 3, 5]), ("enum", [-1, 1]), ("enum", [1, 2, 4]), ("enum", [1, 4]),
    ("enum", [2, 8]),
    ("penum", [0, 2, 3]), ("aenum", [0, 1, 3]), ("aenum", [1, 2, 4]), ("aenum", [4, 1]),
    ("aenum_wide", [0, 1, 2]), ("aenum_wide", [1, 2]),
]


def trace_configs(tier, rng):
    cfgs = []
    for ways in (1, 2, 3, 4):
        for width in (3, 4):
            cfgs.append(_cfg("counter", ways, width))
    cfgs.append(_cfg("counter", 2, 3, en=False))
    for form, tags in TAGSETS:
        for ways in (1, 2, 3):
            cfgs.append(_cfg("tagged", ways, 3 if ways != 2 else 4, tags, form))
    cfgs.append(_cfg("tagged", 2, 3, [0, 3, 5], "enum", en=False))
    cfgs.append(_cfg("tagged", 2, 3, [1, 4], "list", en=False))
    k = 0
    for buckets in (1, 2, 3, 4, 5):
        for sw in (2, 3, 4, 5):
            for ways in (1, 2, 3):
                k += 1
                if tier == "quick" and ways == 2 and (buckets + sw) % 2:
                    continue
                cfgs.append(_cfg("hist", ways, 3 + k % 2, buckets=buckets, sw=sw))
    cfgs.append(_cfg("hist", 2, 3, buckets=3, sw=3, en=False))
    return cfgs


def situations(traces):
    """distinct non-trivial situations met by the implementation traces."""
    seen = set()
    for tr in traces:
        cfg = tr["cfg"]
        key = (cfg["kind"], cfg["ways"], cfg["width"], tuple(cfg["tags"]), cfg["form"], cfg["buckets"], cfg["sw"],
               cfg["en"])
        prev = None
        for ln in tr["cycles"]:
            done = [m for m in methods(cfg) if ln[m]["done"]]
            if len(done) >= 2:
                seen.add((key, "simultaneous", len(done)))
                args = [ln[m]["arg"] for m in done]
                if cfg["kind"] == "tagged" and len(set(args)) < len(args):
                    seen.add((key, "same-tag-twice"))
            if cfg["kind"] == "tagged":
                for m in done:
                    seen.add((key, "tag", ln[m]["arg"]))
            if cfg["kind"] == "hist":
                for m in done:
                    seen.add((key, "bucket", min(int(ln[m]["arg"]).bit_length(), cfg["buckets"] - 1)))
            if prev is not None:
                for n, v in ln["pub"].items():
                    if v < prev[n] and n != "min":
                        seen.add((key, "wrap", n))
            prev = ln["pub"]
    return seen


def run(rep):
    thorough = rep.tier == "thorough"
    rng = random.Random(rep.seed)
    # (a) exhaustive model + (b) every model edge replayed with register comparison
    T = mh.Phases(rep)
    res, edges, inits = model_check(COMP, rep, emit=True)
    T("mc")
    mc_cfgs = [describe(i["cfg"]) for i in inits]
    cfgs = trace_configs(rep.tier, rng)
    # one elaboration probe over all configurations (model + trace): one record per root cause
    okset = {mh.vcomp._key(c) for c in mh.probe_configs(COMP, mc_cfgs + cfgs, rep, namer, classer)}
    T("probe")
    edges = [e for e in edges if mh.vcomp._key(describe(e["cfg"])) in okset]
    inits = [i for i in inits if mh.vcomp._key(describe(i["cfg"])) in okset]
    mh.replay_edges_pub(COMP, edges, inits, rep, "proj", namer, classer, max_len=400,
                        max_walks_per_cfg=None if thorough else 48)
    T("replay")
    # (c) implementation traces of larger / more varied configurations
    ok = [c for c in cfgs if mh.vcomp._key(c) in okset]
    traces = record_traces(COMP, ok, 4 if thorough else 1, 400 if thorough else 160, rep.seed, rep)
    for k, v in trace_stats(COMP, traces).items():
        rep.add("impl_" + k, v)
    T("record")
    rej = mh.validate_grouped(COMP, traces, rep, namer, classer)
    T("validate")
    # (d) binding self-test
    mh.corrupt_pub_self_test(COMP, mh.accepted(traces, rej), rep, random.Random(rep.seed))
    # metrics disabled => no hardware (structure), with enabled positive controls
    dis = [c for c in cfgs if c["ways"] <= 2 and (thorough or c["width"] == 3)]
    dis = dis if thorough else dis[::7]
    T("selftest")
    mh.disabled_no_hardware(__name__, "build", dis, rep, namer)
    T("netlist")
    sit = situations(traces)
    rep.coverage["distinct_nontrivial"] = rep.coverage.get("edges_replayed_into_impl", 0) + len(sit)
    rep.coverage["evaluations"] = rep.coverage.get("impl_cycles", 0) + rep.coverage.get("replay_cycles", 0)
    rep.coverage["trace_configurations"] = len(ok)
    rep.coverage["rule"] = (
        "MC: Metrics.tla Configs (counter ways 1-3; tagged 5 tag sets x ways 1-2; histogram buckets 2-3), all "
        "call sets with all arguments in every reachable register state, 2-bit registers; S->C: every model edge "
        "replayed, registers compared before and after; C->S: seeded random call histories over counters ways 1-4, "
        f"{len(TAGSETS)} tag sets (range/list/Enum flavours, negative, one-hot with and without gaps) x ways 1-3, "
        "histograms buckets 1-5 x sample width 2-5 x ways 1-3, 3-4-bit registers; distinct_nontrivial = model "
        "edges + distinct (configuration, situation) pairs in traces (k simultaneous ways, same tag on two ways, "
        "each tag, each bucket, each register wrap-around)")
    if traces:
        t = traces[len(traces) // 2]
        rep.sample({"kind": "impl-trace", "cfg": t["cfg"], "first_cycles": t["cycles"][:2]})
    rep.assumptions += ["Amaranth Python simulator is faithful to the elaborated netlist",
                        "TaggedCounter is only called with tags of its tag set (driver; Assume in the spec)"]


def replay(rep, path):
    import json
    d = json.load(open(path))
    if "schedule" not in d:
        mh.probe_configs(COMP, [describe(d["cfg"])], rep, namer, classer)
        return
    from vlib.drive import CompSim
    cfg = describe(d["cfg"])
    cs = CompSim(COMP.build, cfg)
    lines = cs.run(d["schedule"] + [{}])
    mh.validate_grouped(COMP, [{"cfg": cfg, "seed": d.get("seed"), "cycles": lines}], rep, namer, classer)
