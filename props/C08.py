"""C08 Conflict priorities are respected (specs/core/TxnCore.tla, TxnCoreTrace.tla, TxnCoreMC.tla)."""
from vlib.core import core_check

OPTS = [dict(p_rel=1.0), dict(p_rel=1.0, max_m=2, max_t=4), dict(p_rel=1.0, p_nested=0.3),
        dict(p_chain=1.0, max_t=4, max_m=3, p_rel=0.5, p_struct=0.25),
        dict(p_rel=0.5, p_dblrel=1.0, max_m=3, max_t=4, p_nested=0.05, _weight=3)]


def run(rep):
    core_check(rep, "C08", [dict(o) for o in OPTS], 105, 2500, nontrivial_key="impl_with_prio_rel")
    rep.coverage["rule"] = ("random designs from vlib/coregen.py's grammar built with the real API, every valuation of the "
                            "control inputs (or random ones when there are many), both directions bound by TxnCoreTrace; "
                            "clause PriorityRespected for every prioritised conflict lifted to transactions; distinct_nontrivial = built designs with a prioritised conflict")


def replay(rep, path):
    from vlib.core import replay_case
    replay_case(rep, "C08", path)
