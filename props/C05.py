"""C05 Call arguments and results are routed to the right party (specs/core/TxnCore.tla, TxnCoreTrace.tla, TxnCoreMC.tla)."""
from vlib.core import core_check

OPTS = [dict(), dict(p_alias=0.7), dict(p_nonexcl=0.5, max_t=4), dict(p_nonexcl=0.6, p_orx=1.0, max_t=3, max_m=3), dict(sched='rr', nested=False, rdep_rel=False),
        # methods that pass (a function of) their own argument on to their callees
        dict(p_fwdarg=0.9, max_m=4, max_t=3, p_validate=0.3, p_alias=0.3, p_nonexcl=0.1, p_struct=0.3, _weight=2),
        # the same grammar built through the sugar API: @def_method (arg / named / **kwargs parameters, dict or struct
        # results), Methods vectors + @def_methods over adjacent bodies, Methods.provide and Methods.__call__ aliases
        dict(p_sugar=1.0, p_alias=0.5, p_nonexcl=0.3, p_fwdarg=0.3, max_m=4, max_t=3),
        dict(p_sugar=1.0, sugar_mode="vec", max_m=6, max_t=3, p_struct=0.2, p_body_in_struct=0.0, p_validate=0.05, p_nonexcl=0.1, p_nested=0.3, p_alias=0.4)]


def arg_forms(rep):
    """The forms of handing over an argument (kwargs, dict, struct-shaped signals with the fields in any order,
    provide() aliases): every field arrives by NAME (specs/core/ArgForms.tla judges every row)."""
    import json
    import os
    import tempfile
    from vlib import argforms, tlc
    rows = argforms.all_rows(rep.seed, rep.tier == "thorough")
    fd, path = tempfile.mkstemp(prefix="vargf_", suffix=".json")
    try:
        with os.fdopen(fd, "w") as fh:
            json.dump(rows, fh)
        res = tlc.run("ArgForms", "SPECIFICATION Spec\nCHECK_DEADLOCK FALSE\n", env={"TRACE_FILE": path}, workers=1)
    finally:
        os.unlink(path)
    tlc.require_ok(res, "ArgForms")
    done = tlc.tagged(res, "DONE")
    if not done or done[0]["rows"] != len(rows):
        raise tlc.MachineryError("ArgForms: not every row was judged")
    seen = set()
    for r in tlc.tagged(res, "REJECT"):
        row = rows[r["tid"] - 1]
        key = (row["form"], tuple(row["fields"]), tuple(row["perm"]))
        if key in seen:
            continue
        seen.add(key)
        rep.violation({"component": "argument forms", "cfg": {"form": row["form"], "fields": row["fields"], "perm": row["perm"]},
                       "clauses": sorted(r["clauses"]), "observed": row})
    rep.add("argument_form_rows", len(rows))
    rep.add("states", res.distinct)
    rep.coverage["argument_forms"] = argforms.FORMS


def run(rep):
    core_check(rep, "C05", [dict(o) for o in OPTS], 128, 3200, nontrivial_key="impl_designs_built")
    arg_forms(rep)
    rep.coverage["evaluations"] = rep.coverage.get("evaluations", 0) + rep.coverage.get("argument_form_rows", 0)
    rep.coverage["rule"] = ("random designs from vlib/coregen.py's grammar built with the real API, every valuation of the "
                            "control inputs (or random ones when there are many), both directions bound by TxnCoreTrace; "
                            "clauses ArgRouting (exclusive: argument of the single active site; nonexclusive: OR-combiner over exactly the active sites) and ResultRouting (through provide() alias chains of length 0-3); distinct_nontrivial = built designs")


def replay(rep, path):
    from vlib.core import replay_case
    replay_case(rep, "C05", path)
