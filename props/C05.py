"""C05 Call arguments and results are routed to the right party (specs/core/TxnCore.tla, TxnCoreTrace.tla, TxnCoreMC.tla)."""
from vlib.core import core_check

OPTS = [dict(), dict(p_alias=0.7), dict(p_nonexcl=0.5, max_t=4), dict(p_nonexcl=0.6, p_orx=1.0, max_t=3, max_m=3), dict(sched='rr', nested=False, rdep_rel=False),
        # methods that pass (a function of) their own argument on to their callees
        dict(p_fwdarg=0.9, max_m=4, max_t=3, p_validate=0.3, p_alias=0.3, p_nonexcl=0.1, p_struct=0.3, _weight=2)]


def run(rep):
    core_check(rep, "C05", [dict(o) for o in OPTS], 96, 2400, nontrivial_key="impl_designs_built")
    rep.coverage["rule"] = ("random designs from vlib/coregen.py's grammar built with the real API, every valuation of the "
                            "control inputs (or random ones when there are many), both directions bound by TxnCoreTrace; "
                            "clauses ArgRouting (exclusive: argument of the single active site; nonexclusive: OR-combiner over exactly the active sites) and ResultRouting (through provide() alias chains of length 0-3); distinct_nontrivial = built designs")


def replay(rep, path):
    from vlib.core import replay_case
    replay_case(rep, "C05", path)
