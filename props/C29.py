"""C29 Stream adapters obey the ready/valid protocol (spec: specs/lib/Stream.tla)."""
import itertools

from vlib import connharness as ch

W_MC = 2


def make_stage(w, kind):
    """Plain-Amaranth stream stage wrapped by StreamModuleWrapper (exists identically in the spec)."""
    from amaranth import Module, Signal, Array, Mux
    from amaranth.lib import stream, wiring
    from amaranth.lib.wiring import In, Out

    class Stage(wiring.Component):
        def __init__(self):
            super().__init__({"i": In(stream.Signature(w)), "o": Out(stream.Signature(w))})

        def elaborate(self, platform):
            m = Module()
            i, o = self.i, self.o
            if kind == "comb":
                m.d.comb += [o.valid.eq(i.valid), o.payload.eq(i.payload + 1), i.ready.eq(o.ready)]
            elif kind == "reg":
                m.d.comb += i.ready.eq(~o.valid | o.ready)
                with m.If(i.ready):
                    m.d.sync += o.valid.eq(i.valid)
                    with m.If(i.valid):
                        m.d.sync += o.payload.eq(i.payload + 1)
            else:  # fifo2
                buf = Array([Signal(w, name=f"buf{k}") for k in range(2)])
                cnt = Signal(2)
                push = Signal()
                pop = Signal()
                m.d.comb += [i.ready.eq(cnt < 2), o.valid.eq(cnt > 0), o.payload.eq(buf[0]),
                             push.eq(i.valid & i.ready), pop.eq(o.valid & o.ready)]
                with m.If(pop):
                    m.d.sync += buf[0].eq(buf[1])
                with m.If(push):
                    m.d.sync += buf[cnt - pop].eq(i.payload + 1)
                m.d.sync += cnt.eq(cnt + push - pop)
            return m

    return Stage()


def build(cfg):
    from transactron.lib.stream import StreamSource, StreamSink, StreamModuleWrapper
    w = cfg["w"]
    if cfg["kind"] == "source":
        dut = StreamSource(w)
        return dut, {"write": dut.write}, {"valid": dut.o.valid, "payload": dut.o.payload}, None, {"ready": dut.o.ready}
    if cfg["kind"] == "sink":
        dut = StreamSink(w)
        return (dut, {"read": dut.read, "peek": dut.peek, "peek2": dut.peek}, {"ready": dut.i.ready}, None,
                {"valid": dut.i.valid, "payload": dut.i.payload})
    stage = make_stage(w, cfg["stage"])
    dut = StreamModuleWrapper(stage)
    pub = {"iv": stage.i.valid, "ip": stage.i.payload, "ir": stage.i.ready,
           "ov": stage.o.valid, "op": stage.o.payload, "ordy": stage.o.ready}
    return dut, {"write": dut.write, "read": dut.read}, pub, None, {}


def methods(cfg):
    return {"source": ["write"], "sink": ["read", "peek", "peek2"], "wrap": ["write", "read"]}[cfg["kind"]]


def post(cfg, line):
    p = line["pub"]
    if cfg["kind"] == "source":
        if not p["valid"]:
            p["payload"] = 0
    elif cfg["kind"] == "wrap":
        if not p["iv"]:
            p["ip"] = 0
        if not p["ov"]:
            p["op"] = 0


class Tracker:
    """Remembers the last handshake so that the harness producer can (in some phases) obey the
    stream protocol: hold valid and payload until accepted."""

    def __init__(self, cfg):
        self.stalled = None

    def update(self, line):
        i = line["in"]
        if "valid" in i and i["valid"] and not line["pub"]["ready"]:
            self.stalled = dict(i)
        else:
            self.stalled = None


def gen_in(cfg, rng, tracker, ph):
    if cfg["kind"] == "source":
        return {"ready": 1 if rng.random() < ph["p"] else 0}
    if cfg["kind"] == "sink":
        if ph.get("conform") and tracker.stalled is not None:
            return dict(tracker.stalled)
        v = 1 if rng.random() < ph["p"] else 0
        return {"valid": v, "payload": rng.randrange(1, 1 << cfg["w"]) if v or rng.random() < 0.5 else 0}
    return {}


COMP = ch.IOComponent(
    spec="Stream", name="StreamSource/StreamSink/StreamModuleWrapper", build=build, methods=methods,
    has_arg=lambda m: m == "write",
    gen_arg=lambda cfg, m, rng, tr: rng.randrange(1, 1 << cfg["w"]),
    gen_in=gen_in, tracker=Tracker, post=post, module=__name__, has_ghost=True,
    in_phase=lambda cfg, rng: {"p": rng.choice([0.0, 0.2, 0.5, 0.8, 1.0]), "conform": rng.random() < 0.5},
    shadow=lambda cfg: [m for m in methods(cfg) if m in ("read", "write")],   # peek is documented nonexclusive
)


def cfgs(w):
    return ([{"kind": "source", "stage": "-", "w": w}, {"kind": "sink", "stage": "-", "w": w}]
            + [{"kind": "wrap", "stage": s, "w": w} for s in ("reg", "comb", "fifo2")])


def exhaustive_jobs(cfg, length):
    """All handshake/call histories of `length` cycles from reset."""
    if cfg["kind"] == "source":
        per = [({"write": a} if a else {}, {"ready": r}) for a in (0, 1, 2) for r in (0, 1)]
    elif cfg["kind"] == "sink":
        ins = [{"valid": 0, "payload": 0}, {"valid": 1, "payload": 1}, {"valid": 1, "payload": 2}]
        reqs = [{}, {"read": None}, {"peek": None}, {"read": None, "peek": None, "peek2": None}]
        per = [(r, i) for r in reqs for i in ins]
    else:
        per = [(dict(**({"write": a} if a else {}), **({"read": None} if r else {})), {})
               for a in (0, 1, 2) for r in (0, 1)]
    jobs = []
    for hist in itertools.product(per, repeat=length):
        sched = []
        for reqs, inp in hist:
            step = dict(reqs)
            if inp:
                step["_in"] = inp
            sched.append(step)
        jobs.append({"kind": "exhaustive", "schedule": sched})
    return jobs


def run(rep):
    thorough = rep.tier == "thorough"
    lens = {"source": 6 if thorough else 4, "sink": 4 if thorough else 3, "wrap": 6 if thorough else 4}
    jobs = []
    for cfg in cfgs(W_MC):
        jobs.append((cfg, exhaustive_jobs(cfg, lens[cfg["kind"]])))
    for ci, cfg in enumerate(cfgs(4) + cfgs(3)):
        jobs.append((cfg, [{"kind": "random", "seed": rep.seed * 100003 + ci * 1009 + k, "cycles": 300}
                           for k in range(24 if thorough else 4)]))
    traces = ch.standard_check(COMP, rep, jobs_by_cfg=jobs, split=4)
    nex = sum(1 for t in traces if t.get("kind") == "exhaustive")
    stalled = transfers = 0
    for t in traces:
        k = t["cfg"]["kind"]
        for ln in t["cycles"]:
            if k == "source":
                v, r = ln["pub"]["valid"], ln["in"]["ready"]
            elif k == "sink":
                v, r = ln["in"]["valid"], ln["pub"]["ready"]
            else:
                v, r = ln["pub"]["iv"], ln["pub"]["ir"]
            stalled += 1 if v and not r else 0
            transfers += 1 if v and r else 0
    rep.coverage["exhaustive_histories"] = nex
    rep.coverage["exhaustive_history_lengths"] = lens
    rep.coverage["stalled_cycles"] = stalled
    rep.coverage["transfers"] = transfers
    rep.coverage["rule"] = (
        "MC: source, sink, wrapper x 3 stage kinds, 2-bit data, all request sets / handshake inputs in every "
        "reachable state (edge pass) + history pass with written/emitted/read sequences up to length 3 in the "
        "fingerprint; S->C: every (state, request, input) group driven into the real circuit; C->S: all "
        "call/handshake histories of the stated lengths from reset + random 300-cycle histories with 3/4-bit data "
        "(producer in half of the phases protocol-conforming, otherwise arbitrary); evaluations = stalled cycles "
        "(valid and not ready: antecedent of ValidHeld/PayloadStable) + transfers; distinct_nontrivial = distinct "
        "exhaustive histories + model edge groups replayed")
    rep.coverage["evaluations"] = stalled + transfers
    rep.coverage["distinct_nontrivial"] = nex + rep.coverage.get("edge_groups_replayed_into_impl", 0)
    rep.assumptions += [
        "Amaranth Python simulator is faithful to the elaborated netlist",
        "payload is not compared in cycles with valid = 0 (stream protocol don't-care)",
        "the wrapped stages are the three harness stages of props/C29.py (modelled identically in the spec); "
        "Amaranth's own FIFOs are not wrapped",
    ]


def replay(rep, path):
    ch.replay_file(COMP, rep, path)
