"""C01 An exclusive method serves at most one active call per cycle (specs/core/TxnCore.tla)."""
from vlib.core import core_check

OPTS = [dict(), dict(max_m=2, max_t=4, p_nonexcl=0.15), dict(sched="rr", nested=False, rdep_rel=False),
        dict(p_struct=0.7, p_body_in_struct=0.3),
        # call sites of one exclusive method in two different modules, under alternatives of equally placed structures
        dict(p_two_mods=1.0, p_xcall=1.0, max_t=3, max_m=4, p_nonexcl=0.1, p_struct=0.3, _weight=2)]


def run(rep):
    core_check(rep, "C01", [dict(o) for o in OPTS], 80, 2000, nontrivial_key="impl_with_shared_exclusive_method")
    rep.coverage["rule"] = ("random designs from the grammar, built with the real API; every valuation of the control inputs "
                            "(or 128/512 random ones); clauses ExclusiveOnce + JointRunOnlyIfExcl on observed run/witness signals, "
                            "both schedulers; distinct_nontrivial = built designs in which an exclusive method has >=2 caller bodies")


def replay(rep, path):
    from vlib.core import replay_case
    replay_case(rep, "C01", path)
