"""C33 Event log captures and decodes events faithfully (spec: specs/obs/EvLog.tla, hand-written
EvLogMC.tla / EvLogTrace.tla).

  MC   : 2 sites (m.If + `when`; transaction body, signed field), all 32 input valuations per cycle
         to depth 3 (quick) / 4 (thorough): log sorted, one record per activation, save/load and
         reader identity, consumer cycle order under every permutation, StepOK (exactly the active
         sites, sampled values, append-only).
  S->C : every edge of that model replayed into a real design (capture_evlog process), expected log
         compared record by record.
  C->S : random designs (2-5 sites under m.If/Else/Case, transaction and method bodies, top_emit,
         1-8-bit fields, signed / bool / Enum fields, statics) x random input histories; artefacts
         judged by TLC against the model log rebuilt from the harness' own signals: captured log,
         save->load, EventLogWriter->load, decoded(), EventLogReader, EventConsumer.run on a shuffled
         record list, GeneratedEvLogSampler (packed and per-site triggers) over VerilogDebugWrapper.
"""

import copy
import enum
import inspect
import json
import os
import random
import tempfile
import warnings

from vlib import tlc
from vlib.comp import plan_walks
from vlib.obsharness import fan_out, validate_batch, validate_with_selftest, PROCS

warnings.filterwarnings("ignore")

MC_FULL = """SPECIFICATION Spec
VIEW View
INVARIANT Inv
INVARIANT ConsumerInv
PROPERTY StepOK
CHECK_DEADLOCK FALSE
"""
MC_EDGE = """SPECIFICATION Spec
VIEW View
ACTION_CONSTRAINT Emit
CHECK_DEADLOCK FALSE
"""

# ---------------------------------------------------------------------------------------
# event types of the harness (registered once per process)

_EV = None


def ev():
    """Event classes / consumer classes; created lazily so that the judged repository copy
    (VERIF_REPO) is the one that gets imported."""
    global _EV
    if _EV is not None:
        return _EV
    from transactron.evlog import Event, EventConsumer, Static, event, handles

    class Kind(enum.IntEnum):
        A = 0
        B = 1
        C = 2
        D = 3

    class Mode(enum.Enum):
        X = "x"
        Y = "y"

    @event("c33.ev_int")
    class EvInt(Event):
        a: int
        lane: Static[int]
        b: int

    @event("c33.ev_mixed")
    class EvMixed(Event):
        flag: bool
        kind: Kind
        s: int
        note: Static[str] = "n"

    @event("c33.ev_signed")
    class EvSigned(Event):
        s: int
        mode: Static[Mode]
        k: Static[Kind]

    @event("c33.ev_none")
    class EvNone(Event):
        idx: Static[int]

    @event("c33.ev_bit")
    class EvBit(Event):
        v: int

    @event("c33.ev_sbit")
    class EvSBit(Event):
        s: int
        lane: Static[int]

    class BaseCollector(EventConsumer):
        def __init__(self):
            self.out = []

        @handles(EvInt)
        def on_int(self, rec):
            self.out.append(("on_int", rec))

        def on_unhandled(self, rec):
            self.out.append(("unhandled", rec))

    class Collector(BaseCollector):         # handler table is inherited and extended
        @handles(EvMixed)
        def on_mixed(self, rec):
            self.out.append(("on_mixed", rec))

        @handles(EvBit)
        def on_bit(self, rec):
            self.out.append(("on_bit", rec))

    _EV = {"Kind": Kind, "Mode": Mode, "Collector": Collector,
           "int": EvInt, "mixed": EvMixed, "signed": EvSigned, "none": EvNone, "bit": EvBit, "sbit": EvSBit}
    return _EV


# dynamic fields of each event tag: name -> decode kind; handler of the tag in Collector
DYN = {"int": [("a", "int"), ("b", "int")], "mixed": [("flag", "bool"), ("kind", "enum:Kind"), ("s", "int")],
       "signed": [("s", "int")], "none": [], "bit": [("v", "int")], "sbit": [("s", "int")]}
DECL = {"int": ["a", "lane", "b"], "mixed": ["flag", "kind", "s", "note"], "signed": ["s", "mode", "k"],
        "none": ["idx"], "bit": ["v"], "sbit": ["s", "lane"]}
HANDLER = {"int": "on_int", "mixed": "on_mixed", "bit": "on_bit", "signed": "", "none": "", "sbit": ""}
NAME = {t: "c33.ev_" + t for t in DYN}


def typed(v):
    if isinstance(v, enum.Enum):
        return f"enum:{type(v).__name__}:{v.value}"
    if isinstance(v, bool):
        return f"bool:{int(v)}"
    if isinstance(v, int):
        return f"int:{v}"
    return f"str:{v}"


def static_values(site):
    """Python values of the static fields of a site (from its JSON description)."""
    E = ev()
    s = site["statics"]
    if site["ev"] == "signed":
        return {"mode": E["Mode"](s["mode"]), "k": E["Kind"](s["k"])}
    return dict(s)


# ---------------------------------------------------------------------------------------
# design generator

def gen_site(rng, evtag=None):
    t = evtag or rng.choice(["int", "int", "mixed", "mixed", "signed", "none"])
    site = {"ev": t, "whenw": rng.choice([0, 0, 1, 1, 2, 3]), "chain": [], "top_emit": rng.random() < 0.12,
            "widths": {}, "signed": {}, "xform": {}, "statics": {}}
    for name, kind in DYN[t]:
        if kind == "enum:Kind":
            w, sg = 2, False
        elif kind == "bool":
            w, sg = rng.choice([1, 1, 2, 3]), False
        else:
            w = rng.randint(1, 8)
            sg = (t == "signed") or rng.random() < 0.4
        site["widths"][name], site["signed"][name] = w, sg
        site["xform"][name] = "inc" if (kind == "int" and not sg and rng.random() < 0.25) else "id"
    if t == "int":
        site["statics"] = {"lane": rng.randrange(8)}
    elif t == "mixed":
        site["statics"] = {"note": rng.choice(["n", "done", "lane one"])}
    elif t == "signed":
        site["statics"] = {"mode": rng.choice(["x", "y"]), "k": rng.randrange(4)}
    elif t == "none":
        site["statics"] = {"idx": rng.randrange(100)}
    for _ in range(rng.choice([0, 1, 1, 2])):
        c = rng.choice(["c0", "c1", "sw"])
        if c == "sw":
            site["chain"].append(["case", "sw", rng.randrange(4)])
        else:
            site["chain"].append([rng.choice(["if", "if", "else"]), c])
    return site


def gen_design(rng, port_fields=""):
    n = rng.randint(2, 5)
    conts = {"top": [], "t0": [], "t1": [], "ca": [], "cb": [], "m0": []}
    for _ in range(n):
        conts[rng.choice(["top", "top", "t0", "t1", "ca", "m0", "m0"])].append(gen_site(rng))
    order = ["top", "t0", "m0", "ca", "cb", "t1"]
    rng.shuffle(order)
    return {"enabled": True, "port_fields": port_fields,
            "containers": [{"name": c, "sites": conts[c]} for c in order]}


MC_DESIGN = {"enabled": True, "port_fields": "", "containers": [
    {"name": "top", "sites": [{"ev": "bit", "whenw": 1, "chain": [["if", "c0"]], "top_emit": False,
                               "widths": {"v": 1}, "signed": {"v": False}, "xform": {"v": "id"}, "statics": {}}]},
    {"name": "t0", "sites": [{"ev": "sbit", "whenw": 0, "chain": [], "top_emit": False,
                              "widths": {"s": 1}, "signed": {"s": True}, "xform": {"s": "id"}, "statics": {"lane": 7}}]},
]}


# ---------------------------------------------------------------------------------------
# the circuit

def make_circuit(cfg):
    from amaranth import Elaboratable, Signal, signed, unsigned
    from transactron import TModule, Transaction, Method, def_method
    from transactron.evlog import EventSource
    E = ev()

    class EvCircuit(Elaboratable):
        def __init__(self):
            self.conds = {"c0": Signal(1, name="c0"), "c1": Signal(1, name="c1"), "sw": Signal(2, name="sw")}
            self.en = {n: Signal(name="en_" + n) for n in ("t0", "t1", "ca", "cb")}
            self.run = {}                      # name -> run signal (filled by elaborate)
            self.sites = []                    # flat list of site dicts in EMISSION order
            self.when = {}                     # id(site) -> Signal | None
            self.fin = {}                      # id(site) -> {field: input Signal}
            self.src = EventSource("c33.src")
            k = 0
            for cont in cfg["containers"]:
                for site in cont["sites"]:
                    self.when[id(site)] = Signal(site["whenw"], name=f"when{k}") if site["whenw"] else None
                    self.fin[id(site)] = {
                        f: Signal(signed(site["widths"][f]) if site["signed"][f] else unsigned(site["widths"][f]),
                                  name=f"fin{k}_{f}") for f, _ in DYN[site["ev"]]}
                    k += 1

        def inputs(self):
            sigs = dict(self.conds)
            sigs.update({"en_" + n: s for n, s in self.en.items()})
            return sigs

        def _emit(self, m, cont, site):
            """one emission site, below its own chain of m.If / m.Else / m.Case blocks"""
            def body():
                vals = {}
                for f, kind in DYN[site["ev"]]:
                    inp = self.fin[id(site)][f]
                    if site["xform"][f] == "inc":
                        v = (inp + 1)[: site["widths"][f]]       # an expression as field value
                    elif cfg["port_fields"] == "input":
                        v = inp                                  # the undriven harness input itself
                    elif cfg["port_fields"] == "top_comb":
                        v = Signal.like(inp, name=inp.name + "_t")
                        m.d.top_comb += v.eq(inp)                # driven in TModule's top_comb only
                    else:
                        v = self.fint[id(site)][f]               # internal signal driven at the top of elaborate
                    vals[f] = v
                evobj = E[site["ev"]].hw(**vals, **static_values(site))
                w = self.when[id(site)]
                kw = {} if w is None else {"when": w}
                if site["top_emit"]:
                    self.src.top_emit(evobj, **kw)
                else:
                    self.src.emit(m, evobj, **kw)
                self.sites.append((cont, site))

            def nest(i):
                if i == len(site["chain"]):
                    body()
                    return
                c = site["chain"][i]
                if c[0] == "if":
                    with m.If(self.conds[c[1]]):
                        nest(i + 1)
                elif c[0] == "else":
                    with m.If(self.conds[c[1]]):
                        pass
                    with m.Else():
                        nest(i + 1)
                else:
                    with m.Switch(self.conds["sw"]):
                        with m.Case(c[2]):
                            nest(i + 1)
            nest(0)

        def elaborate(self, platform):
            m = TModule()
            cnt = Signal(4, name="c33_cnt")
            m.d.sync += cnt.eq(cnt + 1)                         # makes the sync domain exist
            self.fint = {}
            for cont in cfg["containers"]:
                for site in cont["sites"]:
                    self.fint[id(site)] = {}
                    for f, kind in DYN[site["ev"]]:
                        inp = self.fin[id(site)][f]
                        v = Signal(E["Kind"], name=inp.name + "_e") if kind == "enum:Kind" else \
                            Signal.like(inp, name=inp.name + "_i")
                        m.d.comb += v.eq(inp)                   # unconditional: top level of the module
                        self.fint[id(site)][f] = v
            self.m0 = Method(name="m0")
            sites_of = {c["name"]: c["sites"] for c in cfg["containers"]}
            trans = {}
            for cont in cfg["containers"]:
                name = cont["name"]
                if name == "top":
                    for s in cont["sites"]:
                        self._emit(m, name, s)
                elif name == "m0":
                    @def_method(m, self.m0)
                    def _():
                        for s in cont["sites"]:
                            self._emit(m, name, s)
                else:
                    trans[name] = Transaction(name="c33_" + name)
                    with trans[name].body(m, ready=self.en[name]):
                        for s in cont["sites"]:
                            self._emit(m, name, s)
                        if name in ("ca", "cb"):
                            self.m0(m)                           # ca and cb conflict on m0
            self.run = {"run_" + n: t.run for n, t in trans.items()}
            self.run["run_m0"] = self.m0.run
            return m

    return EvCircuit()


def tla_sites(ck):
    """TLA+ description of the emission sites in registration order."""
    out = []
    for cont, site in ck.sites:
        ctx = []
        if not site["top_emit"]:
            if cont != "top":
                ctx.append(["run_" + cont, 1])
            for c in site["chain"]:
                ctx.append([c[1], 1] if c[0] == "if" else [c[1], 0] if c[0] == "else" else ["sw", c[2]])
        dyn = [f for f, _ in DYN[site["ev"]]]
        sv = static_values(site)
        decl = []
        for f in DECL[site["ev"]]:
            decl.append([f, "dyn", dyn.index(f) + 1] if f in dyn else [f, "static", typed(sv[f])])
        statics = [[f, typed(site["statics"][f])] for f in DECL[site["ev"]] if f not in dyn]
        out.append({"ev": NAME[site["ev"]], "whenw": site["whenw"], "ctx": ctx,
                    "fields": [{"name": f, "width": site["widths"][f], "signed": site["signed"][f], "kind": k,
                                "xform": site["xform"][f]} for f, k in DYN[site["ev"]]],
                    "decl": decl, "statics": statics, "handler": HANDLER[site["ev"]]})
    return out


# ---------------------------------------------------------------------------------------
# stimulus

def gen_stimulus(cfg, rng, cycles):
    """per cycle: values of the condition / request inputs and per site (in description order,
    keyed by position) the `when` value and unsigned field bit patterns"""
    flat = [s for c in cfg["containers"] for s in c["sites"]]
    stim = []
    p = {}
    for i in range(cycles):
        if i % 16 == 0:
            p = {k: rng.choice([0.15, 0.5, 0.85, 1.0]) for k in ("c0", "c1", "t0", "t1", "ca", "cb", "when")}
        st = {"c0": int(rng.random() < p["c0"]), "c1": int(rng.random() < p["c1"]), "sw": rng.randrange(4)}
        for n in ("t0", "t1", "ca", "cb"):
            st["en_" + n] = int(rng.random() < p[n])
        st["sites"] = []
        for s in flat:
            w = 1
            if s["whenw"]:
                w = rng.randrange(1, 1 << s["whenw"]) if rng.random() < p["when"] else 0
            st["sites"].append({"when": w, "vals": {f: rng.randrange(1 << s["widths"][f]) for f, _ in DYN[s["ev"]]}})
        stim.append(st)
    return stim


def _apply(ctx, ck, flat, st, overridden=None):
    from amaranth.hdl import DriverConflict

    def put(sig, v):
        try:
            ctx.set(sig, v)
        except DriverConflict:
            if overridden is None:
                raise
            overridden.add(sig.name)
    for n, sig in ck.inputs().items():
        put(sig, st[n])
    for s, sv in zip(flat, st["sites"]):
        if ck.when[id(s)] is not None:
            put(ck.when[id(s)], sv["when"])
        for f, sig in ck.fin[id(s)].items():
            v = sv["vals"][f]
            w = s["widths"][f]
            put(sig, v - (1 << w) if s["signed"][f] and v >> (w - 1) else v)


def _lines(ck, flat, stim, cycles_seen, runs_seen):
    """observation lines in EMISSION order of the sites; driven inputs are taken from the stimulus,
    run signals from the simulation"""
    pos = {id(s): i for i, s in enumerate(flat)}
    order = [pos[id(site)] for _, site in ck.sites]
    lines = []
    for st, cyc, runs in zip(stim, cycles_seen, runs_seen):
        sig = {k: st[k] for k in ("c0", "c1", "sw")}
        sig.update(runs)
        lines.append({"cycle": cyc, "sig": sig,
                      "sites": [{"when": st["sites"][j]["when"],
                                 "vals": [st["sites"][j]["vals"][f] for f, _ in DYN[flat[j]["ev"]]]} for j in order]})
    return lines


# ---------------------------------------------------------------------------------------
# conversions of the repository's objects to JSON

def raw_list(raw):
    return [[int(c), int(s), [int(v) for v in vals]] for c, s, vals in raw]


def dec_list(recs, schema):
    import dataclasses
    idx = {id(s): i for i, s in enumerate(schema.sites)}
    out = []
    for r in recs:
        out.append([int(r.cycle), idx[id(r.site)],
                    [[f.name, typed(getattr(r.event, f.name))] for f in dataclasses.fields(r.event)]])
    return out


def guarded(fn):
    """An exception while producing one artefact (e.g. decoding) becomes the content of that
    artefact, so that the trace spec rejects it under the artefact's own clause name."""
    try:
        return fn()
    except Exception as ex:
        return [[-1, -1, [["exception", f"{type(ex).__name__}: {ex}"[:200]]]]]


def schema_list(schema):
    return [[s.event_name, [[f.name, f.width, bool(f.signed)] for f in s.fields],
             [[k, typed(v)] for k, v in s.statics.items()]] for s in schema.sites]


# ---------------------------------------------------------------------------------------
# run 1: Amaranth simulation with the capture process (transactron.testing.evlog)

def run_pysim(cfg, stim, seed=0, consumer=True):
    from transactron.utils.dependencies import DependencyContext, DependencyManager
    from transactron.evlog import EvLogEnabledKey, EventLog, EventLogReader, EventLogWriter
    from transactron.testing.evlog import capture_evlog
    from transactron.testing.tick_count import make_tick_count_process, TicksKey
    from transactron.testing.simulator import PysimSimulator
    E = ev()
    flat = [s for c in cfg["containers"] for s in c["sites"]]
    dm = DependencyManager()
    with DependencyContext(dm):
        if cfg["enabled"]:
            dm.add_dependency(EvLogEnabledKey(), True)
        ck = make_circuit(cfg)
        sim = PysimSimulator(ck, max_cycles=len(stim) + 10)
        tickp = make_tick_count_process()
        ticks = dm.get_dependency(TicksKey())
        log, proc = capture_evlog(metadata={"seed": seed})
        sim.add_process(tickp)
        sim.add_process(proc)
        run_names = sorted(ck.run)
        run_sigs = [ck.run[n] for n in run_names]
        cycles_seen, runs_seen = [], []

        async def tb(ctx):
            for st in stim:
                _apply(ctx, ck, flat, st)
                vals = await ctx.tick().sample(ticks, *run_sigs)
                cycles_seen.append(int(vals[2]))
                runs_seen.append({n: int(v) for n, v in zip(run_names, vals[3:])})

        sim.add_testbench(tb)
        sim.run()
    sites = tla_sites(ck) if cfg["enabled"] else []
    lines = _lines(ck, flat, stim, cycles_seen, runs_seen) if cfg["enabled"] else [
        {"cycle": c, "sig": {}, "sites": []} for c in cycles_seen]
    tr = {"cfg": {"sites": sites}, "design": cfg, "kind": "pysim", "lines": lines,
          "raw": {"captured": raw_list(log.raw)},
          "dec": {"decoded": guarded(lambda: dec_list(log.decoded(), log.schema))},
          "schema": {"captured": schema_list(log.schema)}}
    with tempfile.TemporaryDirectory(prefix="c33_") as d:
        p1, p2 = os.path.join(d, "a.jsonl"), os.path.join(d, "b.jsonl")
        log.save(p1)
        loaded = EventLog.load(p1)
        tr["raw"]["loaded"] = raw_list(loaded.raw)
        tr["dec"]["loaded_decoded"] = guarded(lambda: dec_list(loaded.decoded(), loaded.schema))
        tr["schema"]["loaded"] = schema_list(loaded.schema)
        reader = EventLogReader(p1)
        tr["dec"]["reader"] = guarded(lambda: dec_list(list(reader), reader.schema))
        tr["schema"]["reader"] = schema_list(reader.schema)
        with EventLogWriter(p2, log.schema) as wr:          # streaming writer fed record by record
            for c, s, vals in log.raw:
                wr.emit_raw(c, s, vals)
        tr["raw"]["writer"] = raw_list(EventLog.load(p2).raw)
        tr["meta_ok"] = bool(loaded.schema.metadata == {"seed": seed} and loaded.schema == log.schema)
    if consumer and not any(r[0] == -1 for r in tr["dec"]["decoded"]):
        recs = log.decoded()
        perm = list(range(len(recs)))
        random.Random(seed).shuffle(perm)
        col = E["Collector"]()
        # run() takes any iterable of records: a list, a tuple, a generator (what EventLogReader is)
        feed = ["list", "generator", "tuple", "iterator"][seed % 4]
        shuffled = [recs[i] for i in perm]
        col.run({"list": shuffled, "generator": (r for r in shuffled), "tuple": tuple(shuffled),
                 "iterator": iter(shuffled)}[feed])
        idx = {id(s): i for i, s in enumerate(log.schema.sites)}
        import dataclasses
        tr["consumer"] = {"perm": [i + 1 for i in perm], "feed": feed,
                          "out": [[h, int(r.cycle), idx[id(r.site)],
                                   [[f.name, typed(getattr(r.event, f.name))] for f in dataclasses.fields(r.event)]]
                                  for h, r in col.out]}
    return tr


# ---------------------------------------------------------------------------------------
# run 2: the "generated design" path without Yosys: VerilogDebugWrapper exposes the event
# signals, collect_evlog() builds the GeneratedEvLog from the name map of Amaranth's RTLIL
# backend, GeneratedEvLogSampler reads the signals by location through a resolver backed by the
# running Amaranth simulation.

def _wrapped(cfg):
    """(dependency manager, circuit, VerilogDebugWrapper, its Fragment, harness input ports)"""
    from amaranth.hdl import Fragment
    from transactron.core.context import TransactronContextElaboratable
    from transactron.utils.dependencies import DependencyContext, DependencyManager
    from transactron.evlog import EvLogEnabledKey
    from transactron.utils.gen import VerilogDebugWrapper
    dm = DependencyManager()
    with DependencyContext(dm):
        dm.add_dependency(EvLogEnabledKey(), True)
        ck = make_circuit(cfg)
        top = TransactronContextElaboratable(ck, dependency_manager=dm)
        ports = list(ck.inputs().values()) + [s for d in ck.fin.values() for s in d.values()] + \
            [w for w in ck.when.values() if w is not None]
        kw = {"ports": ports} if "ports" in inspect.signature(VerilogDebugWrapper.__init__).parameters else {}
        wrap = VerilogDebugWrapper(top, **kw)
        frag = Fragment.get(wrap, None)
    return dm, ck, wrap, frag, ports


def run_generated(cfg, stim, seed=0):
    """Instance A of the design goes through generate_verilog's steps up to the point where Yosys
    would be called (VerilogDebugWrapper -> Fragment.prepare(ports) -> RTLIL backend name map ->
    collect_evlog -> JSON round trip of GeneratedEvLog).  Instance B (same description) is simulated;
    the resolver maps a signal location of A to the exposed signal at the same position of B's wrapper
    (evlog_records / evlog_triggers) and reads it from the running simulation."""
    from amaranth.sim import Simulator
    from amaranth.back import rtlil
    from transactron.utils.dependencies import DependencyContext
    from transactron.evlog import EventLog, GeneratedEvLog, GeneratedEvLogSampler
    flat = [s for c in cfg["containers"] for s in c["sites"]]
    dm_a, ck_a, wrap_a, frag_a, ports_a = _wrapped(cfg)
    with DependencyContext(dm_a):
        design = frag_a.prepare(ports=ports_a)
        _, name_map = rtlil.convert_fragment(design, name="top", emit_src=False)
        try:
            gen = wrap_a.collect_evlog(name_map)
        except KeyError as ex:
            # an exposed event signal has no location in the backend's name map: generate_verilog
            # would die here with the same KeyError
            return {"kind": "generated", "design": dict(cfg), "build_error": f"collect_evlog: KeyError {ex}"}
    gen = GeneratedEvLog.from_dict(json.loads(json.dumps(gen.to_dict())))      # as stored in GenerationInfo
    pos = {}
    for k, (_, trig, fields) in enumerate(wrap_a.evlog_records):
        pos.setdefault(tuple(name_map[trig]), ("t", k))
        for j, f in enumerate(fields):
            pos.setdefault(tuple(name_map[f]), ("f", k, j))
    if wrap_a.evlog_triggers is not None:
        pos[tuple(name_map[wrap_a.evlog_triggers])] = ("p",)

    dm, ck, wrap, frag, _ = _wrapped(cfg)
    with DependencyContext(dm):
        sim = Simulator(frag)
        sim.add_clock(1e-6)

        def live(p):
            if p[0] == "p":
                return wrap.evlog_triggers
            rec = wrap.evlog_records[p[1]]
            return rec[1] if p[0] == "t" else rec[2][p[2]]

        packed_sink, site_sink = EventLog(gen.schema), EventLog(gen.schema)
        gen_nopack = GeneratedEvLog(schema=gen.schema, site_locations=gen.site_locations, triggers_location=None)
        run_names = sorted(ck.run)
        run_sigs = [ck.run[n] for n in run_names]
        cycles_seen, runs_seen = [], []
        overridden = set()

        async def tb(ctx):
            def resolve(handle):
                sig = live(pos[tuple(handle)])
                return lambda: int(ctx.get(sig))
            packed = GeneratedEvLogSampler(gen, resolve)
            persite = GeneratedEvLogSampler(gen_nopack, resolve)
            for i, st in enumerate(stim):
                _apply(ctx, ck, flat, st, overridden)
                packed.sample(i, packed_sink)                # signals are stable: inputs applied, comb settled
                persite.sample(i, site_sink)
                vals = await ctx.tick().sample(*run_sigs)
                cycles_seen.append(i)
                runs_seen.append({n: int(v) for n, v in zip(run_names, vals[2:])})

        sim.add_testbench(tb)
        sim.run()
    return {"cfg": {"sites": tla_sites(ck)}, "design": dict(cfg), "kind": "generated", "name_map": "rtlil",
            "overridden_inputs": sorted(overridden),
            "has_packed": gen.triggers_location is not None,
            "lines": _lines(ck, flat, stim, cycles_seen, runs_seen),
            "raw": {"sampler_packed": raw_list(packed_sink.raw), "sampler_persite": raw_list(site_sink.raw)},
            "dec": {"sampler_decoded": guarded(lambda: dec_list(packed_sink.decoded(), packed_sink.schema))},
            "schema": {"generated": schema_list(gen.schema)}}


# ---------------------------------------------------------------------------------------
# tasks

def record(seed, cycles, kind, port_fields="", enabled=True):
    rng = random.Random(seed)
    cfg = gen_design(rng, port_fields=port_fields)
    cfg["enabled"] = enabled
    stim = gen_stimulus(cfg, rng, cycles)
    idle = copy.deepcopy(stim[-1])
    for k in ("en_t0", "en_t1", "en_ca", "en_cb"):
        idle[k] = 0
    for s, sd in zip(idle["sites"], [x for c in cfg["containers"] for x in c["sites"]]):
        if sd["whenw"]:
            s["when"] = 0
    stim.append(idle)
    tr = run_pysim(cfg, stim, seed) if kind == "pysim" else run_generated(cfg, stim, seed)
    tr["seed"] = seed
    tr["stim"] = stim
    return tr


def report_build_error(rep, tr):
    rep.violation({"component": "GeneratedEvLogSampler/VerilogDebugWrapper",
                   "cfg": {"kind": "generated", "port_fields": tr["design"]["port_fields"], "enabled": True,
                           "design": tr["design"]},
                   "clauses": ["GeneratedDesignBuild"], "what": tr["build_error"], "seed": tr.get("seed"),
                   "schedule": tr.get("stim", [])[:1]})


def replay_chunk(walks):
    """S->C: the walks (lists of model edges, each starting in the empty log) are driven one
    after the other through ONE simulation of the real MC design (the event log has no hardware
    state; cycle numbers are rebased per walk).  Returns (cycles, mismatch or None)."""
    stim, expect = [], []
    base = 0
    for walk in walks:
        for e in walk:
            lab = e["lab"]
            stim.append({"c0": lab["sig"]["c0"], "c1": 0, "sw": 0, "en_t0": lab["sig"]["run_t0"], "en_t1": 0,
                         "en_ca": 0, "en_cb": 0,
                         "sites": [{"when": lab["sites"][0]["when"], "vals": {"v": lab["sites"][0]["vals"][0]}},
                                   {"when": 1, "vals": {"s": lab["sites"][1]["vals"][0]}}]})
        first = walk[0]["from"]["cyc"]
        assert first == 0 and walk[0]["from"]["log"] == []
        for c, s, vals in walk[-1]["to"]["log"]:
            expect.append([c + base, s, vals])
        base += len(walk)
    tr = run_pysim(MC_DESIGN, stim, 0, consumer=False)
    bad = None
    for name, got in list(tr["raw"].items()):
        if got != expect:
            j = next((i for i, (a, b) in enumerate(zip(got, expect)) if a != b), min(len(got), len(expect)))
            bad = {"artefact": name, "index": j, "got": got[j:j + 3], "expected": expect[j:j + 3],
                   "around_cycle": (expect[j][0] if j < len(expect) else None)}
            break
    # run signals must have followed the labels (the design has no conflicts on t0)
    for i, ln in enumerate(tr["lines"]):
        if ln["sig"]["run_t0"] != stim[i]["en_t0"]:
            bad = bad or {"artefact": "run_t0", "index": i}
    return len(stim), bad, (stim if bad else None)


# ---------------------------------------------------------------------------------------

def strip(tr):
    return {k: tr[k] for k in ("cfg", "lines", "raw", "dec", "schema", "consumer") if k in tr}


def report_rejects(rep, traces, rej):
    for tid, r in sorted(rej.items()):
        tr = traces[tid - 1]
        ln = r["line"]
        comp = "GeneratedEvLogSampler/VerilogDebugWrapper" if tr["kind"] == "generated" else "evlog capture/log/reader/consumer"
        rep.violation({"component": comp,
                       "cfg": {"kind": tr["kind"], "port_fields": tr["design"]["port_fields"],
                               "enabled": tr["design"]["enabled"], "design": tr["design"]},
                       "clauses": sorted(r["clauses"]), "line": ln, "seed": tr.get("seed"),
                       "expected_records": r.get("expected"), "overridden_inputs": tr.get("overridden_inputs"),
                       "observed_line": tr["lines"][ln - 1] if ln <= len(tr["lines"]) else None,
                       "schedule": tr.get("stim", [])[:ln]})


def corrupted_traces(traces, rng):
    cor = []
    pys = [t for t in traces if t["kind"] == "pysim" and len(t["raw"]["captured"]) >= 3]
    gens = [t for t in traces if t["kind"] == "generated" and len(t["raw"]["sampler_packed"]) >= 3]
    muts = ["drop", "value", "dup", "reader_type", "consumer_swap", "loaded_cycle", "persite_drop", "schema_width"]
    for i, mut in enumerate(muts):
        pool = gens if mut == "persite_drop" else pys
        if not pool:
            continue
        t = strip(copy.deepcopy(rng.choice(pool)))
        what = mut
        if mut == "drop":
            del t["raw"]["captured"][rng.randrange(len(t["raw"]["captured"]))]
        elif mut == "value":
            c = [r for r in t["raw"]["captured"] if r[2]]
            if not c:
                continue
            r = rng.choice(c)
            r[2][0] += 1
        elif mut == "dup":
            j = rng.randrange(len(t["raw"]["writer"]))
            t["raw"]["writer"].insert(j, copy.deepcopy(t["raw"]["writer"][j]))
        elif mut == "reader_type":
            c = [r for r in t["dec"]["reader"] if any(v[1].startswith("enum:") or v[1].startswith("bool:") for v in r[2])]
            if not c:
                continue
            r = rng.choice(c)
            for v in r[2]:
                if v[1].startswith("enum:") or v[1].startswith("bool:"):
                    v[1] = "int:" + v[1].rsplit(":", 1)[1]       # decoded as a plain int
                    break
        elif mut == "consumer_swap":
            out = t["consumer"]["out"]
            js = [j for j in range(len(out) - 1) if out[j][1] != out[j + 1][1]]
            if not js:
                continue
            j = rng.choice(js)
            out[j], out[j + 1] = out[j + 1], out[j]
        elif mut == "loaded_cycle":
            rng.choice(t["raw"]["loaded"])[0] += 1
        elif mut == "persite_drop":
            del t["raw"]["sampler_persite"][rng.randrange(len(t["raw"]["sampler_persite"]))]
        elif mut == "schema_width":
            c = [s for s in t["schema"]["captured"] if s[1]]
            if not c:
                continue
            rng.choice(c)[1][0][1] += 1
        cor.append((t, None, what))
    return cor


def run(rep):
    thorough = rep.tier == "thorough"
    depth = "4" if thorough else "3"
    # 1. exhaustive model
    res = tlc.run("EvLogMC", MC_FULL, env={"EVLOG_DEPTH": depth}, workers=min(PROCS, 8), timeout=1500)
    if res.invariant_violated:
        rep.violation({"component": "EvLog model", "what": f"model violates {res.invariant_violated}",
                       "clauses": ["MC:" + res.invariant_violated], "tlc_tail": res.out.splitlines()[-60:]})
        return
    tlc.require_ok(res, "EvLogMC")
    rep.add("states", res.distinct)
    rep.add("transitions", res.generated)
    rep.coverage["mc"] = [{"module": "EvLogMC", "depth_cycles": int(depth), "distinct_states": res.distinct,
                           "states_generated": res.generated, "wall_s": round(res.wall_s, 2)}]
    # 2. spec -> code
    er = tlc.run("EvLogMC", MC_EDGE, env={"EVLOG_DEPTH": depth}, workers=1, timeout=1500)
    tlc.require_ok(er, "EvLogMC(edges)")
    edges = tlc.tagged(er, "EDGE")
    init_key = json.dumps({"log": [], "cyc": 0}, sort_keys=True)
    for e in edges:
        e["_init"] = init_key
    walks = [w for _, w in plan_walks(edges, max_len=int(depth), tail=0, rng=random.Random(rep.seed))]
    nchunk = 16 if len(walks) > 400 else 4
    chunks = [walks[i::nchunk] for i in range(nchunk)]
    results = fan_out([(__name__, "replay_chunk", (c,)) for c in chunks if c])
    rep.add("edges_total", len(edges))
    rep.add("edges_replayed_into_impl", len(edges))
    rep.add("replay_walks", len(walks))
    for out, err in results:
        if err:
            rep.violation({"component": "evlog capture", "cfg": {"kind": "mc-design"}, "clauses": ["ReplayException"],
                           "what": err[-1500:]})
            continue
        n, bad, stim = out
        rep.add("replay_cycles", n)
        if bad:
            rep.violation({"component": "evlog capture", "cfg": {"kind": "mc-design", "design": MC_DESIGN},
                           "clauses": ["EdgeReplay"], "what": json.dumps(bad)[:600],
                           "schedule": stim[: (bad.get("around_cycle") or 0) + 1]})
    # 3. code -> spec
    n_designs = 160 if thorough else 28
    cycles = 200 if thorough else 90
    tasks = []
    for i in range(n_designs):
        seed = rep.seed * 100003 + i
        tasks.append((__name__, "record", (seed, cycles, "pysim")))
        tasks.append((__name__, "record", (seed, cycles, "generated")))
    tasks.append((__name__, "record", (rep.seed * 100003 + 9001, 30, "pysim", "", False)))    # evlog disabled
    # probes of the generated-design path: event fields that are undriven harness inputs (top-level
    # ports, like test_evlog.GenTestCircuit) / signals driven only through TModule's top_comb
    for i in range(4 if thorough else 1):
        tasks.append((__name__, "record", (rep.seed * 100003 + 9100 + i, cycles, "generated", "input")))
        tasks.append((__name__, "record", (rep.seed * 100003 + 9200 + i, cycles, "generated", "top_comb")))
    traces = []
    for (tr, err), t in zip(fan_out(tasks), tasks):
        if err:
            a = list(t[2]) + ["", True]
            rep.violation({"component": "GeneratedEvLogSampler/VerilogDebugWrapper" if a[2] == "generated" else "evlog harness",
                           "cfg": {"kind": a[2], "port_fields": a[3], "seed": a[0], "cycles": a[1]},
                           "clauses": ["BuildOrRunException"], "what": err[-1500:]})
        elif "build_error" in tr:
            report_build_error(rep, tr)
        else:
            traces.append(tr)
    good = [t for t in traces if not t["design"]["port_fields"]]
    rej, vres = validate_with_selftest("EvLogTrace", [strip(t) for t in traces],
                                       corrupted_traces(good, random.Random(rep.seed)), rep)
    rep.add("traces_validated_against_impl", len(traces))
    rep.add("trace_states", vres.distinct)
    report_rejects(rep, traces, rej)
    for t in traces:
        if t["kind"] == "pysim" and not t.get("meta_ok", True):
            rep.violation({"component": "evlog capture/log/reader/consumer", "cfg": {"kind": "pysim", "design": t["design"]},
                           "clauses": ["SchemaRoundTrip"], "what": "schema/metadata changed by save->load", "seed": t["seed"]})
    # statistics (evidence only)
    nrec = sum(len(t["raw"].get("captured", t["raw"].get("sampler_packed", []))) for t in traces)
    ncyc = sum(len(t["lines"]) for t in traces)
    situations = set()
    for t in traces:
        for ln in t["lines"]:
            for k, (site, obs) in enumerate(zip(t["cfg"]["sites"], ln["sites"])):
                ctx = tuple(ln["sig"][c[0]] == c[1] for c in site["ctx"])
                situations.add((t["seed"], t["kind"], k, obs["when"] != 0, ctx))
    rep.add("impl_cycles", ncyc)
    rep.add("impl_records", nrec)
    rep.add("impl_designs", len({t["seed"] for t in traces}))
    rep.coverage["generated_name_map"] = sorted({t.get("name_map") for t in traces if t["kind"] == "generated"})
    rep.coverage["generated_runs_with_packed_triggers"] = sum(1 for t in traces if t.get("has_packed"))
    t0 = traces[0]
    rep.sample({"kind": "impl-trace", "sites": [(s["ev"], s["ctx"]) for s in t0["cfg"]["sites"]],
                "first_line": t0["lines"][0], "first_records": t0["raw"]["captured"][:3]})
    rep.coverage["rule"] = (
        "MC: fixed 2-site design, all 32 input valuations per cycle to the depth; S->C: every model edge replayed "
        "into the real capture process (walks from the empty log, run back to back in one simulation with rebased "
        "cycle numbers); C->S: seeded random designs x random histories, every artefact compared per cycle with the "
        "model log. distinct_nontrivial = model edges replayed + distinct (design, run kind, site, trigger on/off, "
        "context valuation) situations seen in the traces")
    rep.coverage["evaluations"] = rep.coverage.get("replay_cycles", 0) + ncyc
    rep.coverage["distinct_nontrivial"] = len(edges) + len(situations)
    rep.assumptions += [
        "Amaranth Python simulator is faithful to the elaborated netlist",
        "Yosys is absent: generate_verilog cannot run; the generated-design path is exercised as "
        "VerilogDebugWrapper + collect_evlog(name map of Amaranth's RTLIL backend) + GeneratedEvLogSampler with a "
        "resolver reading the named signals from the running Amaranth simulation; the emitted Verilog text and a "
        "Verilog simulator are not involved",
        "enum-typed dynamic fields are only driven with member values (Event.from_raw raises otherwise)",
    ]


def replay(rep, path):
    d = json.load(open(path))
    design = d["cfg"]["design"]
    stim = d["schedule"]
    if d["cfg"].get("kind") == "generated":
        tr = run_generated(design, stim, d.get("seed") or 0)
    else:
        tr = run_pysim(design, stim, d.get("seed") or 0)
    tr["seed"] = d.get("seed")
    tr["stim"] = stim
    if "build_error" in tr:
        report_build_error(rep, tr)
        return
    rej, _ = validate_batch("EvLogTrace", [strip(tr)])
    rep.add("traces_validated_against_impl", 1)
    report_rejects(rep, [tr], rej)
