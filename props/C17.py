"""C17 Forwarder and Pipe are lossless one-slot buffers (spec: specs/lib/OneSlot.tla)."""
from vlib.comp import Component, standard_check

DATA_W = 3


def build(cfg):
    from transactron.lib import Forwarder, Pipe
    cls = Forwarder if cfg["kind"] == "Forwarder" else Pipe
    dut = cls([("data", DATA_W)])
    return dut, {"read": dut.read, "peek": dut.peek, "write": dut.write, "clear": dut.clear}


def want(cfg, m, rng, tracker, p):
    if m == "clear":
        return rng.random() < p * 0.15
    return rng.random() < p


COMP = Component(
    spec="OneSlot", name="Forwarder/Pipe", build=build,
    methods=lambda cfg: ["read", "peek", "write", "clear"],
    has_arg=lambda m: m == "write",
    gen_arg=lambda cfg, m, rng, tr: rng.randrange(1, 1 << DATA_W),
    want=want, module=__name__,
    shadow=lambda cfg: ["read", "write"],
)


def run(rep):
    thorough = rep.tier == "thorough"
    cfgs = [{"kind": "Forwarder"}, {"kind": "Pipe"}]
    standard_check(COMP, rep, trace_cfgs=cfgs, seeds_per_cfg=40 if thorough else 8,
                   cycles=1000 if thorough else 250)
    rep.coverage["rule"] = ("MC: all call sets in all states of both kinds; S->C: every model edge replayed; "
                            "C->S: seeded random call histories; non-trivial = executed method calls")
    rep.coverage["evaluations"] = rep.coverage.get("impl_cycles", 0) + rep.coverage.get("replay_cycles", 0)
    rep.coverage["distinct_nontrivial"] = rep.coverage.get("edges_total", 0)
    rep.assumptions += ["Amaranth Python simulator is faithful to the elaborated netlist",
                        "write arguments are non-zero in traces so that a returned 0 is distinguishable"]


def replay(rep, path):
    from vlib.comp import replay_file
    replay_file(COMP, rep, path)
