"""C36 Bit-manipulation helpers compute their documented functions
(spec: specs/fn/Bits.tla, row oracle specs/fn/C36Rows.tla, laws specs/fn/C36Laws.tla).

Every helper of transactron/utils/amaranth_ext/functions.py named by the property is wrapped in a
small combinational circuit and tabulated for ALL inputs of the documented domain for all widths of
a bounded range; TLC validates every row against the TLA+ operator."""
import itertools

from vlib.table import Dut, Family, standard_check, replay_file

LEVEL = "exploration"
RAISED = 999999      # output recorded when building / elaborating the wrapper raises


def _widths(tier):
    return range(1, 11) if tier == "thorough" else range(1, 8)


def _bits_for(n):
    return max(n, 0).bit_length()


def _wrap(expr, shapes):
    """Module computing expr(*input signals) into an output signal of the expression's own shape."""
    from amaranth import Module, Signal, Value
    m = Module()
    ins = [Signal(s, name=f"i{k}") for k, s in enumerate(shapes)]
    res = Value.cast(expr(*ins))
    out = Signal(len(res), name="o")          # the bit pattern of the result
    m.d.comb += out.eq(res.as_unsigned() if res.shape().signed else res)
    return Dut(m, ins, [out])


# ---- single-input helpers --------------------------------------------------------------------------
def _unary(name, nonzero=False):
    def build(cfg):
        from transactron.utils.amaranth_ext import functions as F
        return _wrap(getattr(F, name), [cfg["w"]])

    return Family(name, cfgs=lambda tier: [{"w": w} for w in _widths(tier)],
                  domain=lambda cfg: ([x] for x in range(1 if nonzero else 0, 1 << cfg["w"])), build=build, on_raise=RAISED)


# ---- cyclic_mask -----------------------------------------------------------------------------------
def _cyclic_build(cfg):
    from transactron.utils.amaranth_ext.functions import cyclic_mask
    b = cfg["bits"]
    # index operands: range(bits), or explicitly narrower signals of sw / ew bits (values that fit are legal indices)
    return _wrap(lambda s, e: cyclic_mask(b, s, e), [cfg.get("sw") or range(b), cfg.get("ew") or range(b)])


def _cyclic_cfgs(tier):
    res = [{"bits": b} for b in (range(1, 13) if tier == "thorough" else range(1, 10))]
    for b in ((5, 6, 9, 12, 17) if tier == "thorough" else (5, 6, 9)):
        for sw, ew in ((1, 1), (1, 2), (2, 1), (2, 3)):
            res.append({"bits": b, "sw": sw, "ew": ew})
    return res


# ---- mod_incr / mod_add ----------------------------------------------------------------------------
def _mods(tier):
    return range(1, 18) if tier == "thorough" else range(1, 10)


def _mod_incr_cfgs(tier):
    return [{"mod": m, "sw": _bits_for(m - 1) + extra} for m in _mods(tier) for extra in (0, 1)]


def _mod_incr_build(cfg):
    from transactron.utils.amaranth_ext.functions import mod_incr
    return _wrap(lambda s: mod_incr(s, cfg["mod"]), [cfg["sw"]])


def _mod_add_cfgs(tier):
    res = []
    for m in _mods(tier):
        for mi in range(1, m + 3):
            for extra in ((0, 1) if mi <= 3 else (0,)):
                res.append({"mod": m, "max_incr": mi, "sw": _bits_for(m - 1) + extra, "iw": _bits_for(mi),
                            "max_incr_gt_mod": mi > m, "mod_pow2": m & (m - 1) == 0})
    return res


def _mod_add_build(cfg):
    from transactron.utils.amaranth_ext.functions import mod_add
    return _wrap(lambda s, i: mod_add(s, cfg["mod"], i, cfg["max_incr"]), [cfg["sw"], cfg["iw"]])


# ---- reductions over value bundles -----------------------------------------------------------------
def _reduce_cfgs(tier):
    maxbits = 12 if tier == "thorough" else 9
    res = []
    kinds = ["flat", "list", "nested", "dict", "view"]
    n = 0
    for w in _widths(tier):
        for k in range(1, 5):
            if k * w <= maxbits:
                res.append({"ws": [w] * k, "w": w, "bundle": kinds[n % len(kinds)]})
                n += 1
    for ws in ([1, 3, 2], [3, 1], [2, 2, 1, 3], [4, 2], [1, 1, 1, 1, 1]):
        res.append({"ws": ws, "w": max(ws), "bundle": kinds[n % len(kinds)]})
        n += 1
    return res


def _bundle(kind, sigs):
    from amaranth import Cat
    from amaranth.lib import data
    if kind == "flat":
        return tuple(sigs)
    if kind == "list":
        return (list(sigs),)
    if kind == "nested":
        return (sigs[0], [list(sigs[1:])]) if len(sigs) > 1 else ([[sigs[0]]],)
    if kind == "dict":
        return ({"a": sigs[0], "rest": {str(i): s for i, s in enumerate(sigs[1:])}},)
    lay = data.StructLayout({f"f{i}": len(s) for i, s in enumerate(sigs)})
    return (data.View(lay, Cat(*sigs)),)


def _reduce(name):
    def build(cfg):
        from transactron.utils.amaranth_ext import functions as F
        return _wrap(lambda *sigs: getattr(F, name)(*_bundle(cfg["bundle"], sigs)), cfg["ws"])

    return Family(name, cfgs=_reduce_cfgs,
                  domain=lambda cfg: (list(v) for v in itertools.product(*[range(1 << w) for w in cfg["ws"]])),
                  build=build, on_raise=RAISED)


# ---- mux / switch_value ----------------------------------------------------------------------------
def _mux_cfgs(tier):
    res = []
    for sw in (1, 2):
        for w1, w0 in ((1, 1), (2, 3), (3, 2), (4, 4)):
            res.append({"sw": sw, "w1": w1, "w0": w0, "kind": "flat"})
        res.append({"sw": sw, "w1": 3, "w0": 3, "kind": "struct"})
        res.append({"sw": sw, "w1": 3, "w0": 3, "kind": "const", "c": 5})
        res.append({"sw": sw, "w1": 3, "w0": 3, "kind": "struct_const", "c": 6})
    if tier == "thorough":
        res.append({"sw": 3, "w1": 5, "w0": 4, "kind": "flat"})
    return res


def _mux_build(cfg):
    from amaranth.lib import data
    from transactron.utils.amaranth_ext.functions import mux
    lay = data.StructLayout({"a": 1, "b": 2})
    k = cfg["kind"]
    if k == "flat":
        return _wrap(lambda s, a, b: mux(s, a, b), [cfg["sw"], cfg["w1"], cfg["w0"]])
    if k == "struct":
        return _wrap(lambda s, a, b: mux(s, lay(a), lay(b)), [cfg["sw"], 3, 3])
    if k == "const":
        return _wrap(lambda s, a: mux(s, a, cfg["c"]), [cfg["sw"], 3])
    return _wrap(lambda s, a: mux(s, lay(a), lay.const({"a": cfg["c"] & 1, "b": cfg["c"] >> 1})), [cfg["sw"], 3])


def _mux_domain(cfg):
    if cfg["kind"] in ("const", "struct_const"):
        return ([s, a, cfg["c"]] for s in range(1 << cfg["sw"]) for a in range(1 << cfg["w1"]))
    return ([s, a, b] for s in range(1 << cfg["sw"]) for a in range(1 << cfg["w1"]) for b in range(1 << cfg["w0"]))


def _i(n):
    return {"k": "int", "v": n}


def _p(s):
    return {"k": "pat", "v": list(s)}


def _case(keys, val):
    return {"keys": keys, "dflt": 0, "val": val}


def _dflt(val):
    return {"keys": [], "dflt": 1, "val": val}


def _switch_cfgs(tier):
    variants = [
        (2, [_case([_i(0)], 1), _case([_i(1)], 2), _dflt(3)]),
        (2, [_case([_i(1), _i(2)], 1), _dflt(2)]),
        (2, [_case([_p("1-")], 1), _case([_i(0)], 2), _dflt(3)]),
        (2, [_case([_i(0), _i(1)], 1), _case([_i(1)], 2), _dflt(3)]),        # overlap: first match wins
        (2, [_case([_i(0)], 1), _case([_i(1)], 2), _case([_i(2)], 3), _case([_i(3)], 1)]),  # total, no default
        (3, [_case([_p("--1")], 1), _case([_p("-1-")], 2), _case([_p("1--")], 3), _dflt(1)]),
        (1, [_case([_i(1)], 1), _case([_i(0)], 2)]),
        (2, [_case([_i(3)], 1), _case([_i(2)], 2)]),                         # partial: domain = matching tests only
    ]
    res = []
    for tw, cases in variants:
        for vw in ((1, 2, 3) if tier == "thorough" else (1, 2)):
            res.append({"tw": tw, "cases": cases, "vw": vw, "nv": max(c["val"] for c in cases), "kind": "flat"})
    res.append({"tw": 2, "cases": variants[0][1], "vw": 3, "nv": 3, "kind": "struct"})
    return res


def _switch_args(cfg, vals):
    cases = []
    for c in cfg["cases"]:
        if c["dflt"]:
            key = None
        else:
            ks = tuple(k["v"] if k["k"] == "int" else "".join(k["v"]) for k in c["keys"])
            key = ks[0] if len(ks) == 1 else ks
        cases.append((key, vals[c["val"] - 1]))
    return cases


def _switch_build(cfg):
    from amaranth.lib import data
    from transactron.utils.amaranth_ext.functions import switch_value
    lay = data.StructLayout({"a": 1, "b": 2})

    def expr(test, *vals):
        if cfg["kind"] == "struct":
            vals = [lay(v) for v in vals]
        return switch_value(test, _switch_args(cfg, list(vals)))

    return _wrap(expr, [cfg["tw"]] + [cfg["vw"]] * cfg["nv"])


def _switch_matches(cfg, test):
    for c in cfg["cases"]:
        if c["dflt"]:
            return True
        for k in c["keys"]:
            if k["k"] == "int":
                if k["v"] == test:
                    return True
            elif all(ch == "-" or int(ch) == (test >> (len(k["v"]) - 1 - i)) & 1 for i, ch in enumerate(k["v"])):
                return True
    return False


def _switch_domain(cfg):
    for test in range(1 << cfg["tw"]):
        if not _switch_matches(cfg, test):     # documented domain: some case (or the default) matches
            continue
        for vals in itertools.product(range(1 << cfg["vw"]), repeat=cfg["nv"]):
            yield [test] + list(vals)


FAMILIES = {}
for _n in ("popcount", "count_leading_zeros", "count_trailing_zeros", "extract_lowest_set_bit",
           "clear_lowest_set_bit", "mask_from_first_set_bit", "mask_before_first_set_bit"):
    FAMILIES[_n] = _unary(_n)
for _n in ("mask_after_first_set_bit", "mask_until_first_set_bit"):
    FAMILIES[_n] = _unary(_n, nonzero=True)
FAMILIES["cyclic_mask"] = Family("cyclic_mask", cfgs=_cyclic_cfgs, build=_cyclic_build, on_raise=RAISED,
                                 domain=lambda cfg: ([s, e] for s in range(min(cfg["bits"], 1 << cfg["sw"]) if cfg.get("sw") else cfg["bits"])
                                                    for e in range(min(cfg["bits"], 1 << cfg["ew"]) if cfg.get("ew") else cfg["bits"])))
FAMILIES["mod_incr"] = Family("mod_incr", cfgs=_mod_incr_cfgs, build=_mod_incr_build, on_raise=RAISED,
                              domain=lambda cfg: ([s] for s in range(cfg["mod"])))
FAMILIES["mod_add"] = Family("mod_add", cfgs=_mod_add_cfgs, build=_mod_add_build, on_raise=RAISED,
                             domain=lambda cfg: ([s, i] for s in range(cfg["mod"]) for i in range(1, cfg["max_incr"] + 1)))
for _n in ("sum_value", "or_value", "and_value", "min_value", "max_value"):
    FAMILIES[_n] = _reduce(_n)
FAMILIES["mux"] = Family("mux", cfgs=_mux_cfgs, build=_mux_build, domain=_mux_domain, on_raise=RAISED)
FAMILIES["switch_value"] = Family("switch_value", cfgs=_switch_cfgs, build=_switch_build, domain=_switch_domain, on_raise=RAISED)

LAWS = ["TypeOK", "RoundTrip", "PopcountLaw", "CountZerosLaw", "LowestBitLaw", "MaskLaw", "CyclicMaskLaw",
        "ModLaw", "ReduceLaw", "SelectLaw"]


def run(rep):
    standard_check(rep, __name__, FAMILIES, "C36Rows", "C36Laws", LAWS,
                   {"W": 7 if rep.tier == "thorough" else 5})
    rep.coverage["rule"] = (
        "every helper x every configuration (widths 1-7, mod 1-9, quick; 1-8 / 1-17 thorough) x EVERY input "
        "valuation of the documented domain, tabulated by simulating a combinational wrapper and compared by TLC "
        "with the TLA+ operator; distinct_nontrivial = distinct (function, configuration) tables with at least "
        "one non-zero output; states/transitions = exhaustive TLC run of the algebraic laws of the TLA+ definitions")
    rep.assumptions += [
        "domain restrictions where the docstrings are silent: mask_after/mask_until on 0 excluded, mod_incr/mod_add "
        "sig < mod, mod_add 0 < incr <= max_incr (documented), switch_value tests that match some case, "
        "reductions over >= 1 unsigned values"]


def replay(rep, path):
    replay_file(rep, FAMILIES, "C36Rows", path)
