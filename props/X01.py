"""X01 (beyond the listed properties) DependentCache: one object per (class, keyword arguments), built once,
handed the cache it lives in (spec: specs/util/DepCache.tla).

MC   : DepCacheMC -- two class sets (plain classes, classes taking the cache, constructors that fetch other
       classes from the cache on one and two levels, a class with too many positional parameters, a class
       that depends on it), 1-2 cache objects, every get() history with <= MaxObjs constructed objects;
       invariants + the documented behaviour as an action property.
S->C : every model transition (EDGE) replayed into real DependentCache objects along edge-cover walks;
       returned object identity, constructor completions (class, kwargs, fetched objects, cache handed over)
       compared with the model.
C->S : seeded random class sets and histories recorded from the real class and validated by DepCacheTrace.
Not registered in MANIFEST.json (the property list is fixed); writes no evidence file.
"""
from __future__ import annotations

import copy
import json
import random

from vlib import tlc, utilcheck
from vlib.comp import _key

MC_CFG = """SPECIFICATION Spec
VIEW View
INVARIANT Inv
PROPERTY StepOK
ACTION_CONSTRAINT Emit
CHECK_DEADLOCK FALSE
CONSTANTS MaxObjs = %d
NCaches = %d
"""

# ---------------------------------------------------------------------------------------
# binding to the real class


def _dec(v):
    """tagged value of the spec -> python value"""
    return v[1] if v[0] == 0 else list(v[1:])


def _enc(v):
    if isinstance(v, int) and not isinstance(v, bool):
        return [0, v]
    if isinstance(v, (list, tuple)) and all(isinstance(x, int) for x in v):
        return [1] + list(v)
    return [2]


def _kwargs(kw):
    return {n: _dec(v) for n, v in kw}


class World:
    """Real DependentCache objects + classes generated from a spec configuration.  Every constructor
    completion is logged: (class index, kwargs received, serial, serials of the fetched objects, index of
    the cache object received as positional argument -- 0 if none, -1 if something else)."""

    def __init__(self, cfg, ncaches):
        from transactron.utils.depcache import DependentCache
        self.caches = [DependentCache() for _ in range(ncaches)]
        self.serial = 0
        self.made = []
        self.ids = {}
        self.keep = []
        self.classes = [self._mk(i + 1, c) for i, c in enumerate(cfg)]

    def _which(self, cache):
        for i, c in enumerate(self.caches):
            if c is cache:
                return i + 1
        return -1

    def _done(self, obj, c, kwargs, deps, k):
        self.serial += 1
        self.ids[id(obj)] = self.serial
        self.keep.append(obj)
        self.made.append({"c": c, "kw": [[n, _enc(v)] for n, v in kwargs.items()], "id": self.serial,
                          "deps": deps, "k": k})

    def _mk(self, idx, cd):
        w = self
        needs = cd["needs"]

        if cd["argc"] == 1:
            class P:
                def __init__(self, **kwargs):
                    w._done(self, idx, kwargs, [], 0)
            cls = P
        elif cd["argc"] == 2:
            class Q:
                def __init__(self, cache, **kwargs):
                    deps = []
                    for nd in needs:
                        o = cache.get(w.classes[nd["c"] - 1], **_kwargs(nd["kw"]))
                        deps.append(w.ids.get(id(o), -1))
                    w._done(self, idx, kwargs, deps, w._which(cache))
            cls = Q
        else:
            class R:
                def __init__(self, cache, other, **kwargs):
                    w._done(self, idx, kwargs, [], w._which(cache))
            cls = R
        cls.__name__ = cls.__qualname__ = f"VCls{idx}"
        return cls

    def get(self, op):
        self.made = []
        try:
            o = self.caches[op["k"] - 1].get(self.classes[op["c"] - 1], **_kwargs(op["kw"]))
            res = {"kind": "ok", "id": self.ids.get(id(o), -1)}
        except KeyError:
            res = {"kind": "KeyError", "id": 0}
        except Exception:  # noqa: BLE001
            res = {"kind": "Error", "id": 0}
        return {"k": op["k"], "c": op["c"], "kw": op["kw"], "res": res, "made": self.made}


def run_ops(cfg, ncaches, ops):
    w = World(cfg, ncaches)
    return [w.get(op) for op in ops]


def _norm_made(made):
    """model `made` (kw printed as a sorted list of the set) / observed `made` (kw in call order) -> comparable"""
    return [{"c": m["c"], "kw": sorted(_key(p) for p in m["kw"]), "id": m["id"], "deps": list(m["deps"]), "k": m["k"]}
            for m in made]


# ---------------------------------------------------------------------------------------

def model_check(rep, max_objs, ncaches):
    res = utilcheck.run_mc("DepCacheMC", MC_CFG % (max_objs, ncaches), workers=1, heap="6g")
    if res.invariant_violated:
        utilcheck.violation(rep, {"component": "DependentCache", "what": f"model violates {res.invariant_violated}",
                                  "clauses": ["MC:" + res.invariant_violated], "tlc_tail": res.out.splitlines()[-40:]})
        return [], []
    rep.add("states", res.distinct)
    rep.add("transitions", res.generated)
    edges, inits = tlc.tagged(res, "EDGE"), tlc.tagged(res, "INIT")
    rep.coverage.setdefault("mc", []).append({"module": "DepCacheMC", "max_objs": max_objs, "ncaches": ncaches,
                                              "configs": len(inits), "edges": len(edges), "depth": res.depth,
                                              "wall_s": round(res.wall_s, 2)})
    return edges, inits


def replay_edges(rep, edges, inits, ncaches):
    by_cfg: dict = {}
    for e in edges:
        by_cfg.setdefault(e["cid"], []).append(e)
    cfgs = {i["cid"]: i["cfg"] for i in inits}
    init_st = {i["cid"]: _key(i["st"]) for i in inits}
    walks = []
    for cid, es in by_cfg.items():
        ids: dict = {}
        init = ids.setdefault(init_st[cid], 0)
        pairs = [(ids.setdefault(_key(e["from"]), len(ids)), ids.setdefault(_key(e["to"]), len(ids))) for e in es]
        for wk in utilcheck.plan_walks_ids(len(ids), init, pairs, max_len=40):
            walks.append((cid, [es[i] for i in wk]))
    covered, nsteps, aborted = set(), 0, 0
    for cid, walk in walks:
        if aborted >= 10:
            break
        w = World(cfgs[cid], ncaches)
        done = []
        for e in walk:
            op = e["lab"]["op"]
            got = w.get(op)
            done.append(op)
            nsteps += 1
            covered.add(_key([cid, e["from"], op]))
            exp = e["lab"]
            if got["res"] != exp["res"] or _norm_made(got["made"]) != _norm_made(exp["made"]):
                utilcheck.violation(rep, {"component": "DependentCache", "cfg": {"classes": cfgs[cid], "ncaches": ncaches},
                                          "clauses": ["EdgeReplay"], "ops": done, "model_from": e["from"],
                                          "what": f"get {op}: observed {got['res']} made {got['made']}, model expects "
                                                  f"{exp['res']} made {exp['made']}"})
                aborted += 1
                break
    rep.add("edges_total", len(edges))
    rep.add("edges_replayed_into_impl", len(covered))
    rep.add("replay_walks", len(walks))
    rep.add("replay_ops", nsteps)
    if not aborted and len(covered) != len(edges):
        raise tlc.MachineryError(f"edge cover incomplete: {len(covered)} of {len(edges)}")


# ---------------------------------------------------------------------------------------
# code -> spec

NAMES = ["a", "b", "x"]


def random_kw(rng):
    kw = []
    for n in rng.sample(NAMES, rng.choice([0, 0, 1, 1, 2, 3])):
        kw.append([n, [0, rng.randint(0, 2)]])
    if rng.random() < 0.2:
        kw.insert(rng.randint(0, len(kw)), ["l", [1] + [rng.randint(0, 2) for _ in range(rng.randint(0, 2))]])
    return kw


def random_history(rng, nops):
    n = rng.randint(2, 7)
    cfg = []
    for i in range(n):
        argc = rng.choice([1, 2, 2, 2, 3]) if i else rng.choice([1, 2])
        needs = []
        if argc == 2 and i:
            for _ in range(rng.choice([0, 1, 1, 2, 3])):
                needs.append({"c": rng.randint(1, i), "kw": random_kw(rng) if rng.random() < 0.5 else []})
        cfg.append({"argc": argc, "needs": needs})
    ncaches = rng.choice([1, 2, 3])
    pool = [random_kw(rng) for _ in range(4)] + [[]]
    ops = []
    for _ in range(nops):
        kw = copy.deepcopy(rng.choice(pool))
        if rng.random() < 0.5:
            rng.shuffle(kw)           # same keyword arguments, other order: same entry
        ops.append({"k": rng.randint(1, ncaches), "c": rng.randint(1, n), "kw": kw})
    return cfg, ncaches, ops


def report_rejects(rep, traces, rej):
    for r in rej:
        t = traces[r["tid"] - 1]
        ln = r["line"]
        utilcheck.violation(rep, {"component": "DependentCache", "cfg": {"classes": t["cfg"], "ncaches": t["ncaches"]},
                                  "clauses": sorted(r["clauses"]), "line": ln, "observed": t["ops"][ln - 1],
                                  "expected": r.get("expected"), "model_state": r.get("state"),
                                  "ops": [{k: o[k] for k in ("k", "c", "kw")} for o in t["ops"][:ln]]})


def corrupt_self_test(rep, traces, rng):
    picked = []
    for _ in range(300):
        if len(picked) >= 8:
            break
        t = copy.deepcopy(rng.choice(traces))
        li = rng.randrange(len(t["ops"]))
        o = t["ops"][li]
        how = rng.choice(["id", "made", "kind"])
        if how == "id" and o["res"]["kind"] == "ok":
            o["res"]["id"] += 1
        elif how == "made" and o["made"]:
            o["made"] = o["made"][:-1]
        elif how == "kind" and o["res"]["kind"] == "KeyError":
            o["res"] = {"kind": "ok", "id": 1}
        else:
            continue
        picked.append((t, li + 1))
    if not picked:
        return
    rej, _ = utilcheck.validate("DepCacheTrace", [p[0] for p in picked])
    at = {r["tid"]: r["line"] for r in rej}
    ok = sum(1 for i, (_, li) in enumerate(picked) if at.get(i + 1) == li)
    rep.coverage["selftest_corrupted_traces"] = len(picked)
    rep.coverage["selftest_corrupted_rejected"] = ok
    if ok != len(picked):
        rep.machinery(f"DepCacheTrace: only {ok} of {len(picked)} corrupted traces rejected at the corrupted line")


def run(rep):
    rep.no_evidence = True
    thorough = rep.tier == "thorough"
    for max_objs, ncaches in ([(4, 1), (3, 2)] if thorough else [(3, 1), (2, 2)]):
        edges, inits = model_check(rep, max_objs, ncaches)
        if edges:
            replay_edges(rep, edges, inits, ncaches)
    rng = random.Random(rep.seed)
    ntr, nops = (3000, 80) if thorough else (400, 40)
    traces = []
    for _ in range(ntr):
        cfg, ncaches, ops = random_history(rng, nops)
        traces.append({"cfg": cfg, "ncaches": ncaches, "ops": run_ops(cfg, ncaches, ops)})
    rej, states = utilcheck.validate_chunks("DepCacheTrace", traces, chunks=4 if thorough else 1)
    rep.add("traces_validated_against_impl", len(traces))
    rep.add("trace_states", states)
    report_rejects(rep, traces, rej)
    sit = set()
    for t in traces:
        for o in t["ops"]:
            sit.add((t["cfg"][o["c"] - 1]["argc"], o["res"]["kind"], min(len(o["made"]), 3), len(o["kw"])))
    rep.coverage["trace_ops"] = ntr * nops
    rep.coverage["trace_situations"] = len(sit)
    rep.sample({"kind": "impl-history", "cfg": traces[0]["cfg"], "ops": traces[0]["ops"][:6]})
    bad = {r["tid"] for r in rej}
    good = [t for i, t in enumerate(traces) if i + 1 not in bad]
    if good:
        corrupt_self_test(rep, good, random.Random(rep.seed + 1))
    rep.coverage["evaluations"] = rep.coverage.get("replay_ops", 0) + ntr * nops
    rep.coverage["distinct_nontrivial"] = rep.coverage.get("edges_total", 0) + len(sit)


def replay(rep, path):
    d = json.load(open(path))
    ops = d["ops"]
    tr = [{"cfg": d["cfg"]["classes"], "ncaches": d["cfg"]["ncaches"], "ops": run_ops(d["cfg"]["classes"], d["cfg"]["ncaches"], ops)}]
    rej, _ = utilcheck.validate("DepCacheTrace", tr)
    report_rejects(rep, tr, rej)
    rep.add("traces_validated_against_impl", 1)
