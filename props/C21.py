"""C21 MemoryBank returns what an ideal memory holds (spec: specs/lib/MemBank.tla, which uses the
ideal-memory operators of specs/lib/MultiMem.tla).

Configuration (python and TLA+): memory_type, depth, width, granularity (0 = None), transparent,
read_on_resp, read_ports, write_ports, init (always False: MemoryBank starts empty).
Spec method names: read_req<i>, read_resp<i>, write<j>; a write argument is always the record
{addr, data, mask} (mask = 1 and ignored by the implementation when granularity is None).
"""
import json
import random
from concurrent.futures import ThreadPoolExecutor

from vlib.comp import Component, corrupt_self_test, record_traces, replay_file, trace_stats, validate_traces
from vlib.memports import MEMTYPES, Collector, accepts, addr_bits, mem_ctor, model_check_variant, replay_edges_scc, tlc_workers


def full_cfg(cfg, mt=None):
    c = dict(cfg)
    if mt is not None:
        c["memory_type"] = mt
    c.setdefault("init", False)
    c["init_flag"] = False
    c["narrow"] = c["width"] < addr_bits(c["depth"])
    return c


def build(cfg):
    from transactron.lib.storage import MemoryBank
    dut = MemoryBank(shape=cfg["width"], depth=cfg["depth"], granularity=cfg["granularity"] or None,
                     transparent=bool(cfg["transparent"]), read_on_resp=bool(cfg["read_on_resp"]),
                     read_ports=cfg["read_ports"], write_ports=cfg["write_ports"],
                     memory_type=mem_ctor(cfg["memory_type"]))
    ms = {}
    for i in range(cfg["read_ports"]):
        ms[f"read_req{i}"] = dut.read_req[i]
        ms[f"read_resp{i}"] = dut.read_resp[i]
    for j in range(cfg["write_ports"]):
        ms[f"write{j}"] = dut.write[j]
    return dut, ms


def methods(cfg):
    return ([f"read_req{i}" for i in range(cfg["read_ports"])] + [f"read_resp{i}" for i in range(cfg["read_ports"])]
            + [f"write{j}" for j in range(cfg["write_ports"])])


class Tracker:
    """Driver-side state: recently used rows (so that reads meet writes and writes meet
    pending reads) and the repair of the property's precondition (no two write ports
    address one row in a cycle)."""

    def __init__(self, cfg):
        self.cfg = cfg
        self.hot = []
        self.pend = [[] for _ in range(cfg["read_ports"])]   # rows of the pending responses (from observed lines)

    def update(self, line):
        for i, q in enumerate(self.pend):
            if line[f"read_resp{i}"]["done"] and q:
                q.pop(0)
            if line[f"read_req{i}"]["done"]:
                q.append(line[f"read_req{i}"]["arg"])

    def waddr(self, rng):
        """row for a write: often one with a pending response (forwarding into the output /
        overflow stage), else like any other address"""
        rows = [a for q in self.pend for a in q]
        if rows and rng.random() < 0.5:
            return rng.choice(rows)
        return self.addr(rng)

    def addr(self, rng):
        d = self.cfg["depth"]
        a = rng.choice(self.hot) if self.hot and rng.random() < 0.65 else rng.randrange(d)
        if a in self.hot:
            self.hot.remove(a)
        self.hot.append(a)
        del self.hot[:-3]
        return a

    def fix(self, step, rng):
        used = set()
        for j in range(self.cfg["write_ports"]):
            m = f"write{j}"
            if m in step:
                a = step[m]["addr"]
                while a in used:
                    a = rng.randrange(self.cfg["depth"])
                step[m] = dict(step[m], addr=a)
                used.add(a)
        return step


def gen_arg(cfg, m, rng, tr):
    if m.startswith("read_req"):
        return tr.addr(rng)
    g = cfg["granularity"]
    nm = 1 << (cfg["width"] // g) if g else 2
    r = rng.random()
    mask = 1 if not g else (nm - 1 if r < 0.35 else rng.randrange(0 if r > 0.95 else 1, nm))
    return {"addr": tr.waddr(rng), "data": rng.randrange(1, 1 << cfg["width"]), "mask": mask}


def want(cfg, m, rng, tracker, p):
    return rng.random() < p


def has_arg(m):
    return not m.startswith("read_resp")


COMPS = {}
for _mt in MEMTYPES:
    COMPS[_mt] = Component(
        spec="MemBank", name="MemoryBank", build=build, methods=methods, has_arg=has_arg, gen_arg=gen_arg,
        tracker=Tracker, want=want, module=__name__, attr="COMP_" + _mt, shadow=methods,
        impl_cfg=(lambda mt: (lambda cfg: full_cfg(cfg, cfg.get("memory_type", mt))))(_mt))
    globals()["COMP_" + _mt] = COMPS[_mt]
COMP = COMPS["Memory"]


def trace_cfgs(tier, seed):
    rng = random.Random(seed * 7919 + 21)
    cfgs = []
    # systematic core: transparent x read_on_resp x read ports x write ports x granularity x memory_type
    shapes = [(4, 4), (16, 2)]
    for mt in MEMTYPES:
        for depth, width in shapes:
            for t in (False, True):
                for ror in (False, True):
                    for rp in (1, 2):
                        for wp in (1, 2):
                            for g in (0, width // 2):
                                if accepts(mt, write_ports=wp, granularity=g):
                                    cfgs.append(full_cfg({"memory_type": mt, "depth": depth, "width": width,
                                                          "granularity": g, "transparent": t, "read_on_resp": ror,
                                                          "read_ports": rp, "write_ports": wp}))
    # write-port counts that are not powers of two (index widths of the live-value tables), whole-word writes
    for mt in MEMTYPES:
        for wp in ((3, 5, 6, 7) if tier == "thorough" else (3,)):
            for t, ror in ((False, False), (True, True)) if tier != "thorough" else ((False, False), (False, True), (True, False), (True, True)):
                if accepts(mt, write_ports=wp, granularity=0):
                    cfgs.append(full_cfg({"memory_type": mt, "depth": 8, "width": 4, "granularity": 0, "transparent": t,
                                          "read_on_resp": ror, "read_ports": 2, "write_ports": wp}))
    extra_shapes = [(2, 2), (2, 4), (3, 4), (5, 6), (7, 3), (8, 8), (9, 2), (12, 3), (16, 3), (16, 8)]
    for _ in range(300 if tier == "thorough" else 30):
        mt = rng.choice(MEMTYPES)
        depth, width = rng.choice(extra_shapes)
        wp = 1 if mt == "MultiReadMemory" else min(depth, rng.choice([1, 2, 2, 3]))
        divs = [g for g in range(1, width + 1) if width % g == 0]
        g = 0 if mt == "MultiportXORMemory" else rng.choice([0, width // 2 if width % 2 == 0 else 0] + divs)
        cfgs.append(full_cfg({"memory_type": mt, "depth": depth, "width": width, "granularity": g,
                              "transparent": rng.random() < 0.5, "read_on_resp": rng.random() < 0.5,
                              "read_ports": rng.choice([1, 2, 3]), "write_ports": wp}))
    return cfgs


def situations(traces):
    """Distinct non-trivial (configuration, situation) pairs: antecedents of the clauses."""
    seen = set()
    counts = {}

    def hit(ck, s):
        seen.add((ck, s))
        counts[s] = counts.get(s, 0) + 1

    for tr in traces:
        cfg = tr["cfg"]
        ck = json.dumps(cfg, sort_keys=True)
        g = cfg["granularity"] or cfg["width"]
        full = (1 << (cfg["width"] // g)) - 1
        pend = [[] for _ in range(cfg["read_ports"])]
        for ln in tr["cycles"]:
            ws = [ln[f"write{j}"]["arg"] for j in range(cfg["write_ports"]) if ln[f"write{j}"]["done"]]
            for i in range(cfg["read_ports"]):
                rq, rs = ln[f"read_req{i}"], ln[f"read_resp{i}"]
                if rq["req"] and not rq["cal"]:
                    hit(ck, "read_req_blocked_two_pending")
                if rs["req"] and not rs["cal"]:
                    hit(ck, "read_resp_blocked_none_pending")
                if rs["done"]:
                    a = pend[i][0]
                    if len(pend[i]) == 2:
                        hit(ck, "resp_from_overflow_buffer")
                    for w in ws:
                        if w["addr"] == a:
                            hit(ck, "resp_with_same_cycle_write" + ("_partial" if w["mask"] != full else ""))
                for k, a in enumerate(pend[i]):
                    for w in ws:
                        if w["addr"] == a and w["mask"]:
                            hit(ck, "write_to_pending_row_%s%s" % ("overflow" if (len(pend[i]) == 2 and k == 0) else "output",
                                                                  "_partial" if w["mask"] != full else ""))
                if rq["done"]:
                    for w in ws:
                        if w["addr"] == rq["arg"]:
                            hit(ck, "req_with_same_cycle_write" + ("_partial" if w["mask"] != full else ""))
                    if rs["done"]:
                        hit(ck, "req_and_resp_same_cycle")
                if rs["done"]:
                    pend[i].pop(0)
                if rq["done"]:
                    pend[i].append(rq["arg"])
    return seen, counts


def run(rep):
    thorough = rep.tier == "thorough"
    col = Collector(rep, cfg_fix=lambda c: full_cfg(c))

    # 1. model check (all Configs) and edge dump (ConfigsEdge / ConfigsEdgeBig) side by side
    with ThreadPoolExecutor(2) as ex:
        f1 = ex.submit(model_check_variant, COMP, rep, "Configs" if thorough else "ConfigsQuick", False, tlc_workers(6))
        f2 = ex.submit(model_check_variant, COMP, col, "ConfigsEdgeBig" if thorough else "ConfigsEdge", True, 1)
        res1, _, _ = f1.result()
        res2, edges, inits = f2.result()
    # model_check_variant added states/transitions twice; keep the exhaustive run's numbers
    rep.coverage["states"] = res1.distinct
    rep.coverage["transitions"] = res1.generated

    # 2. spec -> code: every edge into MemoryBank over every memory type accepting the cfg
    nrep = 0
    for mt in MEMTYPES:
        es = [e for e in edges if accepts(mt, write_ports=e["cfg"]["write_ports"], granularity=e["cfg"]["granularity"])]
        if not es:
            continue
        before = rep.coverage.get("replay_cycles", 0)
        replay_edges_scc(COMPS[mt], es, inits, col)
        rep.coverage.setdefault("edges_replayed_per_memory_type", {})[mt] = len(es)
        nrep += len(es)
        for v in col.held:
            if "EdgeReplay" in v.get("clauses", []) and "memory_type" not in v["cfg"]:
                v["cfg"] = full_cfg(v["cfg"], mt)
    rep.coverage["edges_total"] = len(edges)
    rep.coverage["edges_replayed_into_impl"] = nrep

    # 3. code -> spec
    cfgs = trace_cfgs(rep.tier, rep.seed)
    traces = record_traces(COMP, cfgs, 3 if thorough else 1, 500 if thorough else 160, rep.seed, col)
    for k, v in trace_stats(COMP, traces).items():
        rep.add("impl_" + k, v)
    rej = validate_traces(COMP, traces, col, rep.pid)
    rep.coverage["trace_configs"] = len(cfgs)
    rep.coverage["trace_configs_per_memory_type"] = {mt: sum(1 for c in cfgs if c["memory_type"] == mt) for mt in MEMTYPES}
    seen, counts = situations(traces)
    rep.coverage["situation_counts"] = counts

    # 4. corrupt-a-field self-test on traces that were accepted
    bad = {r["tid"] for r in rej}
    good = [t for i, t in enumerate(traces) if (i + 1) not in bad]
    corrupt_self_test(COMP, good, rep, random.Random(rep.seed), n=8)

    for v in col.held:
        v["component"] = "MemoryBank"
    col.flush()
    if traces:
        rep.sample({"kind": "impl-trace", "cfg": traces[0]["cfg"], "first_cycles": traces[0]["cycles"][:2]})
    rep.coverage["rule"] = (
        "MC: depth 2, width 2 (1 for two read ports), granularity None/1, transparent x read_on_resp, 1-2 write "
        "ports, all sets of simultaneous calls with all arguments. S->C: every edge of the one-read-port "
        "configurations (quick: one write port) replayed into MemoryBank over each memory_type accepting it, "
        "non-callable methods requested as well. C->S: seeded random call histories (hot rows, request-bias phases, "
        "partial masks) over memory_type x transparent x read_on_resp x ports x granularity x depth/width, validated "
        "by TLC (CallableMatches, ResultMatches, ...). distinct_nontrivial = distinct (configuration, situation) "
        "pairs (blocked read_req with two pending, response from overflow buffer, same-cycle write at request / "
        "response, write to a pending row in output / overflow stage, each also with partial mask) + model edges")
    rep.coverage["evaluations"] = rep.coverage.get("impl_cycles", 0) + rep.coverage.get("replay_cycles", 0)
    rep.coverage["distinct_nontrivial"] = len(seen) + len(edges)
    rep.assumptions += [
        "Amaranth Python simulator is faithful to the elaborated netlist",
        "precondition enforced by the driver (Tracker.fix) and stated in Assume: two executed write calls never "
        "carry the same address; addresses < depth",
        "write data in traces is non-zero so that a stale or dropped granule is distinguishable"]


def replay(rep, path):
    d = json.load(open(path))
    mt = d["cfg"].get("memory_type", "Memory")
    replay_file(COMPS[mt], rep, path)
