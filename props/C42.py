"""C42 DependencyManager keys behave as documented (spec: specs/util/DepManager.tla).

MC   : DepManagerMC -- every key type alone (all flag combinations), pairs and a triple of
       keys in one manager, every add/get/get_optional history with <= MaxDeps stored
       dependencies; invariants + the property's sentences as an action property.
S->C : every model transition (EDGE) replayed into the real DependencyManager along
       edge-cover walks, key classes created per flag combination; result / exception kind
       compared.
C->S : seeded random histories (larger managers, parametrised keys, custom combine
       functions, calls through DependencyContext) recorded from the real class and
       validated by DepManagerTrace.
"""
from __future__ import annotations

import copy
import json
import random
from dataclasses import dataclass

from vlib import tlc, utilcheck
from vlib.comp import _key

MC_CFG = """SPECIFICATION Spec
VIEW View
INVARIANT Inv
PROPERTY StepOK
ACTION_CONSTRAINT Emit
CHECK_DEADLOCK FALSE
CONSTANTS MaxDeps = %d
Vals = {%s}
Part = %d
NParts = %d
Small = %s
"""

# ---------------------------------------------------------------------------------------
# binding to the real classes


class FakeUnifier:
    """Stands in for transactron.lib.transformers.Unifier: records the methods it was given."""

    def __init__(self, data):
        self.data = list(data)
        self.method = ("unified", tuple(data))


def make_key_class(name: str, kd: dict, parametrised: bool):
    from transactron.utils.dependencies import DependencyKey, SimpleKey, ListKey
    from transactron.lib.dependencies import UnifierKey

    ns: dict = {"lock_on_get": kd["lock"], "cache": kd["cache"], "empty_valid": kd["ev"]}
    kw = {}
    kind = kd["kind"]
    if kind == "simple":
        base = SimpleKey
        if kd["def"]:
            ns["default_value"] = kd["def"]
    elif kind == "list":
        base = ListKey
    elif kind == "unifier":
        base = UnifierKey
        kw["unifier"] = FakeUnifier
    elif kind == "sum":
        base = DependencyKey
        ns["combine"] = lambda self, data: sum(data)
    elif kind == "max":
        base = DependencyKey
        ns["combine"] = lambda self, data: max(data)
    else:
        raise ValueError(kind)
    if parametrised:
        ns["__annotations__"] = {"idx": int}
    return dataclass(frozen=True)(type(name, (base,), ns, **kw))


_KEYS_CACHE: dict = {}


def make_keys(cfg):
    """cfg: list of key descriptors.  Returns one factory per key; each call of a factory
    builds a fresh (equal, not identical) key object as user code does (`FooKey()`).
    The classes are created once per configuration (a manager is always new)."""
    ck = _key(cfg)
    if ck not in _KEYS_CACHE:
        if len(_KEYS_CACHE) > 5000:
            _KEYS_CACHE.clear()
        _KEYS_CACHE[ck] = _make_keys(cfg)
    return _KEYS_CACHE[ck]


def _make_keys(cfg):
    classes = {}
    facts = []
    for i, kd in enumerate(cfg):
        cid = kd.get("cls", i)
        par = "idx" in kd
        if cid not in classes:
            classes[cid] = make_key_class(f"VKey{cid}", kd, par)
        cls = classes[cid]
        facts.append((lambda c=cls, x=kd["idx"]: c(x)) if par else (lambda c=cls: c()))
    return facts


def _ints(xs):
    return [x if isinstance(x, int) and not isinstance(x, bool) else -1 for x in xs]


def encode_result(op: str, r):
    if r is None:
        if op == "add":
            return {"kind": "ok", "sh": "", "v": [], "u": 0}
        return {"kind": "none", "sh": "", "v": [], "u": 0}
    if isinstance(r, int) and not isinstance(r, bool):
        return {"kind": "ok", "sh": "int", "v": [r], "u": 0}
    if isinstance(r, list):
        return {"kind": "ok", "sh": "list", "v": _ints(r), "u": 0}
    if isinstance(r, tuple) and len(r) == 2 and isinstance(r[1], tuple):
        method, units = r
        if len(units) == 0:
            return {"kind": "ok", "sh": "uni", "v": _ints([method]), "u": 0}
        un = units[0]
        if isinstance(un, FakeUnifier) and method is un.method:
            return {"kind": "ok", "sh": "uni", "v": _ints(un.data), "u": len(units)}
        return {"kind": "ok", "sh": "uni", "v": [-1], "u": len(units)}
    return {"kind": "ok", "sh": "other", "v": [-1], "u": 0}


def do_op(dm, keys, op, via_context=False):
    """Perform one operation on the real manager; returns the encoded outcome."""
    from transactron.utils.dependencies import DependencyContext, DependencyManager
    key = keys[op["key"] - 1]()
    try:
        if via_context:
            depth = len(DependencyContext.stack)
            with DependencyContext(DependencyManager()):
                with DependencyContext(dm):
                    r = _call(DependencyContext.get(), key, op)
            assert len(DependencyContext.stack) == depth
        else:
            r = _call(dm, key, op)
    except KeyError:
        return {"kind": "KeyError", "sh": "", "v": [], "u": 0}
    except AssertionError:
        raise
    except Exception:
        return {"kind": "Error", "sh": "", "v": [], "u": 0}
    return encode_result(op["op"], r)


def _call(dm, key, op):
    if op["op"] == "add":
        return dm.add_dependency(key, op["val"])
    if op["op"] == "get":
        return dm.get_dependency(key)
    return dm.get_optional_dependency(key)


def run_ops(cfg, ops, ctx_flags=None):
    from transactron.utils.dependencies import DependencyManager
    dm = DependencyManager()
    keys = make_keys(cfg)
    out = []
    for i, op in enumerate(ops):
        res = do_op(dm, keys, op, bool(ctx_flags and ctx_flags[i]))
        out.append({"op": op["op"], "key": op["key"], "val": op["val"], "res": res})
    return out


# ---------------------------------------------------------------------------------------

def model_check(rep, max_deps, vals, nparts, small):
    cfgs = [MC_CFG % (max_deps, ",".join(map(str, vals)), i, nparts, "TRUE" if small else "FALSE")
            for i in range(nparts)]
    results = utilcheck.run_mc_parts("DepManagerMC", cfgs)
    edges, inits = [], []
    for res in results:
        if res.invariant_violated:
            utilcheck.violation(rep, {"component": "DependencyManager", "what": f"model violates {res.invariant_violated}",
                           "clauses": ["MC:" + res.invariant_violated], "tlc_tail": res.out.splitlines()[-40:]})
            continue
        rep.add("states", res.distinct)
        rep.add("transitions", res.generated)
        edges += tlc.tagged(res, "EDGE")
        inits += tlc.tagged(res, "INIT")
    rep.coverage.setdefault("mc", []).append(
        {"module": "DepManagerMC", "max_deps": max_deps, "vals": list(vals), "parts": nparts,
         "configs": len(inits), "edges": len(edges), "depth": max(r.depth for r in results),
         "wall_s": round(max(r.wall_s for r in results), 2)})
    return edges, inits


def replay_edges(rep, edges, inits):
    # edge-cover walks per configuration (integer state ids; vlib.comp.plan_walks re-serialises
    # every state it touches, which dominated the run time here)
    by_cfg: dict = {}
    for e in edges:
        by_cfg.setdefault(_key(e["cfg"]), []).append(e)
    init_by_cfg = {_key(i["cfg"]): _key(i["st"]) for i in inits}
    walks = []
    for ck, es in by_cfg.items():
        ids: dict = {}
        init = ids.setdefault(init_by_cfg[ck], 0)
        pairs = [(ids.setdefault(_key(e["from"]), len(ids)), ids.setdefault(_key(e["to"]), len(ids))) for e in es]
        for w in utilcheck.plan_walks_ids(len(ids), init, pairs, max_len=60):
            walks.append((es[0]["cfg"], [es[i] for i in w]))
    covered = set()
    nsteps = 0
    aborted = 0
    for cfg, walk in walks:
        if aborted >= 20:
            break
        from transactron.utils.dependencies import DependencyManager
        dm = DependencyManager()
        keys = make_keys(cfg)
        done = []
        for e in walk:
            op = e["lab"]["op"]
            got = do_op(dm, keys, op)
            done.append(op)
            nsteps += 1
            covered.add(_key([e["cfg"], e["from"], op]))
            if got != e["lab"]["res"]:
                utilcheck.violation(rep, {"component": "DependencyManager", "cfg": cfg, "clauses": ["EdgeReplay"],
                               "what": f"{op}: observed {got}, model expects {e['lab']['res']}",
                               "ops": done, "model_from": e["from"], "observed": got})
                aborted += 1
                break
    rep.add("edges_total", len(edges))
    rep.add("edges_replayed_into_impl", len(covered))
    rep.add("replay_walks", len(walks))
    rep.add("replay_ops", nsteps)
    if walks:
        rep.sample({"kind": "edge-walk", "cfg": walks[0][0], "ops": [w["lab"] for w in walks[0][1][:6]]})
    if not aborted and len(covered) != len(edges):
        raise tlc.MachineryError(f"edge cover incomplete: {len(covered)} of {len(edges)}")


# ---------------------------------------------------------------------------------------
# code -> spec

KINDS = ["simple", "simple", "list", "list", "unifier", "sum", "max"]


def random_cfg(rng: random.Random):
    n = rng.randint(2, 6)
    cfg = []
    ncls = 0
    while len(cfg) < n:
        kind = rng.choice(KINDS)
        kd = {"kind": kind, "lock": rng.random() < 0.5, "cache": rng.random() < 0.6, "ev": rng.random() < 0.5,
              "def": rng.choice([0, 11, 12]) if kind == "simple" else 0, "cls": ncls}
        ncls += 1
        if rng.random() < 0.4:
            # several keys of one parametrised class (frozen dataclass with a field)
            for idx in range(rng.randint(1, 3)):
                if len(cfg) < n:
                    cfg.append(dict(kd, idx=idx))
        else:
            cfg.append(kd)
    return cfg


def random_history(rng: random.Random, nops: int):
    cfg = random_cfg(rng)
    weights = [rng.choice([1, 1, 2, 4]) for _ in cfg]
    ops, flags = [], []
    for _ in range(nops):
        k = rng.choices(range(1, len(cfg) + 1), weights)[0]
        x = rng.random()
        if x < 0.5:
            ops.append({"op": "add", "key": k, "val": rng.randint(1, 9)})
        elif x < 0.85:
            ops.append({"op": "get", "key": k, "val": 0})
        else:
            ops.append({"op": "getopt", "key": k, "val": 0})
        flags.append(rng.random() < 0.3)
    return cfg, ops, flags


def situations(traces):
    """Distinct (key descriptor, operation, #dependencies capped, read before, outcome kind)
    situations met in the recorded histories (vacuity control)."""
    seen = set()
    for t in traces:
        hist = [0] * len(t["cfg"])
        got = [False] * len(t["cfg"])
        for o in t["ops"]:
            k = o["key"] - 1
            kd = t["cfg"][k]
            seen.add((kd["kind"], kd["lock"], kd["cache"], kd["ev"], bool(kd["def"]), o["op"],
                      min(hist[k], 2), got[k], o["res"]["kind"]))
            if o["op"] == "add":
                if o["res"]["kind"] == "ok":
                    hist[k] += 1
            else:
                got[k] = True
    return seen


def report_rejects(rep, traces, rej):
    for r in rej:
        t = traces[r["tid"] - 1]
        ln = r["line"]
        utilcheck.violation(rep, {"component": "DependencyManager", "cfg": t["cfg"], "clauses": sorted(r["clauses"]),
                       "line": ln, "observed": t["ops"][ln - 1], "expected": r.get("expected"),
                       "model_state": r.get("state"), "ops": [{k: o[k] for k in ("op", "key", "val")} for o in t["ops"][:ln]],
                       "ctx_flags": t.get("ctx", [])[:ln]})


def corrupt_self_test(rep, traces, rng):
    picked = []
    for _ in range(200):
        if len(picked) >= 8:
            break
        t = copy.deepcopy(rng.choice(traces))
        li = rng.randrange(len(t["ops"]))
        res = t["ops"][li]["res"]
        if res["kind"] == "ok" and res["v"]:
            j = rng.randrange(len(res["v"]))
            how = rng.choice(["value", "drop"]) if res["sh"] == "list" else "value"
            if how == "drop":
                del res["v"][j]
            else:
                res["v"][j] += 1
        elif res["kind"] == "KeyError":
            t["ops"][li]["res"] = {"kind": "ok", "sh": "", "v": [], "u": 0}
        else:
            continue
        picked.append((t, li + 1))
    if not picked:
        return
    rej, _ = utilcheck.validate("DepManagerTrace", [p[0] for p in picked])
    at = {r["tid"]: r["line"] for r in rej}
    ok = sum(1 for i, (_, li) in enumerate(picked) if at.get(i + 1) == li)
    rep.coverage["selftest_corrupted_traces"] = len(picked)
    rep.coverage["selftest_corrupted_rejected"] = ok
    if ok != len(picked):
        rep.machinery(f"DepManagerTrace: only {ok} of {len(picked)} corrupted traces rejected at the corrupted line")


def run(rep):
    thorough = rep.tier == "thorough"
    # 1. + 2.  model check, every edge replayed
    edges, inits = model_check(rep, 4 if thorough else 3, [1, 2], 4 if thorough else 1, not thorough)
    if edges:
        replay_edges(rep, edges, inits)
    # 3.  random histories from the real class
    rng = random.Random(rep.seed)
    ntr, nops = (4000, 120) if thorough else (600, 50)
    traces = []
    for _ in range(ntr):
        cfg, ops, flags = random_history(rng, nops)
        traces.append({"cfg": cfg, "ops": run_ops(cfg, ops, flags), "ctx": flags})
    rej, states = utilcheck.validate_chunks("DepManagerTrace", traces, chunks=4 if thorough else 1)
    rep.add("traces_validated_against_impl", len(traces))
    rep.add("trace_states", states)
    report_rejects(rep, traces, rej)
    sit = situations(traces)
    rep.coverage["trace_ops"] = ntr * nops
    rep.coverage["trace_situations"] = len(sit)
    rep.sample({"kind": "impl-history", "cfg": traces[0]["cfg"], "ops": traces[0]["ops"][:8]})
    # 4.  binding self-test
    bad = {r["tid"] for r in rej}
    good = [t for i, t in enumerate(traces) if i + 1 not in bad]
    if good:
        corrupt_self_test(rep, good, random.Random(rep.seed + 1))
    rep.coverage["evaluations"] = rep.coverage.get("replay_ops", 0) + ntr * nops
    rep.coverage["distinct_nontrivial"] = rep.coverage.get("edges_total", 0) + len(sit)
    rep.coverage["rule"] = (
        "MC: all add/get/get_optional histories with bounded stored dependencies for every key type alone (all "
        "flag combinations), 20 (quick) / 40 (thorough) key pairs and one triple; S->C: every model edge (config, state, operation) "
        "replayed into the real DependencyManager; C->S: seeded random histories over managers with 2-6 keys "
        "(parametrised key classes, custom combine, calls through DependencyContext). distinct_nontrivial = "
        "distinct model edges replayed + distinct (key flags, operation, #deps capped at 2, read-before, outcome "
        "kind) situations in the recorded histories")
    rep.assumptions += ["dependencies are integers; a stand-in records what UnifierKey hands to its unifier",
                        "exception kinds other than the documented KeyError are compared as 'an error'"]


def replay(rep, path):
    d = json.load(open(path))
    ops = d["ops"]
    if ops and "lab" in ops[0]:
        ops = [o["lab"] for o in ops]
    lines = run_ops(d["cfg"], ops, d.get("ctx_flags"))
    tr = [{"cfg": d["cfg"], "ops": lines}]
    rej, _ = utilcheck.validate("DepManagerTrace", tr)
    report_rejects(rep, tr, rej)
    rep.add("traces_validated_against_impl", 1)
