"""C15 WideFifo behaves as a bounded queue with batched operations (spec: specs/lib/WideQueue.tla,
exhaustive model specs/lib/WideQueueMC.tla)."""
import json
import multiprocessing as mp
import os
import random
from collections import defaultdict, deque

from vlib import tlc
from vlib.comp import Component, MC_CFG, _replay_task, standard_check, replay_file

NPROCS = int(os.environ.get("VERIF_PROCS", "16"))

DATA_W = 4


def build(cfg):
    from amaranth import Elaboratable, Mux, Signal, Value
    from transactron import Method, TModule, def_method
    from transactron.lib.fifo import WideFifo

    fifo = WideFifo(DATA_W, cfg["depth"], cfg["rw"], cfg["ww"], write_max_count=bool(cfg["wmc"]))

    class Masked(Elaboratable):
        """Harness-owned adapter (public API only): forwards read / peek and replaces the returned
        elements at positions >= count by zero.  The property defines only the first `count`
        elements; what the hardware leaves in the other positions is not part of the contract."""

        def __init__(self):
            self.read = Method(i=fifo.read.layout_in, o=fifo.read.layout_out)
            self.peek = Method(o=fifo.peek.layout_out)

        def elaborate(self, platform):
            m = TModule()
            m.submodules.fifo = fifo

            def mask(r):
                out = Signal(fifo.read_layout)
                m.d.av_comb += out.count.eq(r.count)
                for i in range(fifo.read_width):
                    m.d.av_comb += out.data[i].eq(Mux(i < r.count, Value.cast(r.data[i]), 0))
                return out

            @def_method(m, self.read)
            def _(count):
                return mask(fifo.read(m, count=count))

            @def_method(m, self.peek)
            def _():
                return mask(fifo.peek(m))

            return m

    dut = Masked()
    return dut, {"read": dut.read, "peek": dut.peek, "write": fifo.write, "clear": fifo.clear}


METHODS = ["read", "peek", "write", "clear"]


def gen_arg(cfg, m, rng, tr):
    lvl = tr.level if tr is not None else 0
    if m == "read":
        r = rng.random()
        if r < 0.4:
            return cfg["rw"]
        if r < 0.55:
            return min(cfg["rw"], lvl + rng.choice([0, 1]))
        return rng.randrange(0, cfg["rw"] + 1)
    ww = cfg["ww"]
    rem = cfg["depth"] - lvl
    r = rng.random()
    if r < 0.45:
        count = rng.randrange(0, ww + 1)
    elif r < 0.8:
        count = min(ww, max(0, rem + rng.choice([-1, 0, 0, 1])))
    else:
        count = ww
    # elements are never zero, also beyond `count` (they must not be stored)
    arg = {"count": count, "data": [rng.randrange(1, 1 << DATA_W) for _ in range(ww)]}
    if cfg["wmc"]:
        # precondition of the property / interface: count <= max_count
        r = rng.random()
        if r < 0.5:
            mx = count
        elif r < 0.75:
            mx = min(ww, max(count, rem + rng.choice([0, 1])))
        else:
            mx = rng.randrange(count, ww + 1)
        arg["max_count"] = mx
    return arg


MODES = ["random", "random", "fill", "drain", "pp_full", "pp_empty", "clear_race"]


class Tracker:
    """Driver-side level tracking from the observed lines (executed write counts, returned read
    counts) and bias phases: fill, drain, ping-pong at full / empty, clear racing with write."""

    def __init__(self, cfg):
        self.cfg = cfg
        self.level = 0
        self.mode = "random"
        self.until = 0
        self.i = 0

    def update(self, line):
        if line["clear"]["done"]:
            self.level = 0
            return
        if line["write"]["done"]:
            self.level += line["write"]["arg"]["count"]
        if line["read"]["done"]:
            self.level -= line["read"]["out"]["count"]

    def _set(self, step, m, on, rng):
        args = step.setdefault("_args", {})
        if on and m not in step:
            a = args.pop(m, None)
            if m in ("read", "write") and a is None:
                a = gen_arg(self.cfg, m, rng, self)
            step[m] = a
        elif not on and m in step:
            a = step.pop(m)
            if a is not None:
                args[m] = a

    def fix(self, step, rng):
        if self.i >= self.until:
            self.mode = rng.choice(MODES)
            self.until = self.i + rng.choice([4, 10, self.cfg["depth"] + 2, 2 * self.cfg["depth"] + 5])
        self.i += 1
        mo = self.mode
        if mo == "fill":
            self._set(step, "write", True, rng)
            self._set(step, "read", rng.random() < 0.1, rng)
            self._set(step, "clear", False, rng)
        elif mo == "drain":
            self._set(step, "read", True, rng)
            self._set(step, "write", rng.random() < 0.1, rng)
            self._set(step, "clear", False, rng)
        elif mo == "pp_full":
            self._set(step, "write", True, rng)
            self._set(step, "read", rng.random() < 0.5, rng)
            self._set(step, "clear", False, rng)
        elif mo == "pp_empty":
            self._set(step, "read", True, rng)
            self._set(step, "peek", rng.random() < 0.7, rng)
            self._set(step, "write", rng.random() < 0.5, rng)
            self._set(step, "clear", False, rng)
        elif mo == "clear_race":
            self._set(step, "write", True, rng)
            c = rng.random() < 0.3
            self._set(step, "clear", c, rng)
            self._set(step, "read", rng.random() < (0.6 if c else 0.1), rng)
        return step


def want(cfg, m, rng, tracker, p):
    return rng.random() < (p * 0.1 if m == "clear" else p)


COMP = Component(
    spec="WideQueue", name="WideFifo", build=build, methods=lambda cfg: METHODS,
    has_arg=lambda m: m in ("read", "write"), gen_arg=gen_arg, tracker=Tracker, want=want, module=__name__,
    shadow=lambda cfg: ["read", "write"],
)


def model_check(rep, quick):
    """comp.model_check for the hand-written WideQueueMC module (see its header)."""
    res = tlc.run("WideQueueMC", MC_CFG, env={"WQ_SHAPES": "quick" if quick else "all"}, workers=1, timeout=1500)
    if res.invariant_violated:
        rep.violation({"component": COMP.name, "what": f"model violates {res.invariant_violated}",
                       "clauses": ["MC:" + res.invariant_violated], "tlc_tail": res.out.splitlines()[-60:]})
        return [], []
    tlc.require_ok(res, "WideQueueMC")
    rep.add("states", res.distinct)
    rep.add("transitions", res.generated)
    edges, inits = tlc.tagged(res, "EDGE"), tlc.tagged(res, "INIT")
    rep.coverage.setdefault("mc", []).append(
        {"module": "WideQueueMC", "distinct_states": res.distinct, "states_generated": res.generated,
         "depth": res.depth, "edges": len(edges), "configs": len(inits), "wall_s": round(res.wall_s, 2)})
    return edges, inits


def plan_walks(edges, inits, max_len, rng, tail=3):
    """Edge-cover walks from the reset state (same greedy idea as vlib.comp.plan_walks, with the
    state keys computed once per edge: the generic planner is quadratic on graphs of this size).
    Returns [(cfg, [edge, ...])]; every edge is on at least one walk."""
    key = lambda x: json.dumps(x, sort_keys=True)
    init_of = {key(i["cfg"]): key(i["st"]) for i in inits}
    by_cfg = defaultdict(list)
    for e in edges:
        by_cfg[key(e["cfg"])].append(e)
    walks = []
    for ck, es in by_cfg.items():
        ids = {}
        sid = lambda k: ids.setdefault(k, len(ids))
        init = sid(init_of[ck])
        src = [sid(key(e["from"])) for e in es]
        dst = [sid(key(e["to"])) for e in es]
        n = len(ids)
        unc = [[] for _ in range(n)]          # uncovered outgoing edges per state
        adj = [dict() for _ in range(n)]      # successor state -> one edge leading there
        allout = [[] for _ in range(n)]
        for i in range(len(es)):
            unc[src[i]].append(i)
            allout[src[i]].append(i)
            adj[src[i]].setdefault(dst[i], i)
        left = len(es)
        while left:
            cur, walk = init, []
            while len(walk) < max_len and left:
                if unc[cur]:
                    # prefer an edge whose target still has uncovered edges (fewer detours)
                    best = max(range(len(unc[cur])), key=lambda k: len(unc[dst[unc[cur][k]]]))
                    i = unc[cur].pop(best)
                    left -= 1
                    walk.append(i)
                    cur = dst[i]
                    continue
                prev = {cur: None}
                dq = deque([cur])
                found = None
                while dq and found is None:
                    s = dq.popleft()
                    for t, j in adj[s].items():
                        if t not in prev:
                            prev[t] = (s, j)
                            if unc[t]:
                                found = t
                                break
                            dq.append(t)
                if found is None:
                    break
                path = []
                s = found
                while prev[s] is not None:
                    s, j = prev[s][0], prev[s][1]
                    path.append(j)
                path.reverse()
                if walk and len(walk) + len(path) >= max_len:
                    break
                walk += path
                cur = found
            if not walk:
                raise tlc.MachineryError(f"{left} model edges unreachable from the reset state")
            for _ in range(tail):  # random continuation: the last target state is probed as well
                if not allout[cur]:
                    break
                j = rng.choice(allout[cur])
                walk.append(j)
                cur = dst[j]
            walks.append((json.loads(ck), [es[i] for i in walk]))
    return walks


def replay_edges(edges, inits, rep, max_len):
    """vlib.comp.replay_edges with the planner above (same per-cycle comparison: replay_walk)."""
    walks = plan_walks(edges, inits, max_len, random.Random(rep.seed))
    covered = {id(e) for _, w in walks for e in w}
    if any(id(e) not in covered for e in edges):
        raise tlc.MachineryError("edge cover incomplete")
    tasks = [(COMP.module, COMP.attr, cfg, walk) for cfg, walk in walks]
    with mp.Pool(min(NPROCS, max(1, len(tasks)))) as pool:
        results = pool.map(_replay_task, tasks, chunksize=1)
    rep.add("edges_total", len(edges))
    rep.add("edges_replayed_into_impl", len(edges))
    rep.add("replay_walks", len(walks))
    rep.add("replay_cycles", sum(len(w) for _, w in walks))
    for cfg, bad, sched, err in results:
        if err:
            rep.violation({"component": COMP.name, "cfg": cfg, "clauses": ["ReplayException"], "what": err[-1500:]})
        for b in bad:
            rep.violation({"component": COMP.name, "cfg": cfg, "clauses": ["EdgeReplay"],
                           "what": "; ".join(b["problems"]), "schedule": sched[: b["step"] + 1],
                           "model_from": b["from"], "model_label": b["lab"], "observed": b["line"]})
    if walks:
        rep.sample({"kind": "edge-walk", "cfg": walks[0][0],
                    "labels": [w["lab"]["calls"] for w in walks[0][1][:6]]})


def situations(traces):
    seen = set()
    keys = ["read_write_same_cycle", "clear_with_write", "write_refused_full", "write_refused_not_fitting",
            "maxcount_refused_although_count_fits", "read_refused_at_empty", "read_clamped_by_level",
            "read_count_zero", "write_count_zero", "write_crossing_row", "read_crossing_row",
            "write_exactly_filling"]
    cnt = {k: 0 for k in keys}
    for tr in traces:
        cfg = tr["cfg"]
        d, rw, ww = cfg["depth"], cfg["rw"], cfg["ww"]
        cols = max(rw, ww)
        lvl = rpos = wpos = 0
        for ln in tr["cycles"]:
            done = frozenset(m for m in METHODS if ln[m]["done"])
            refused = frozenset(m for m in METHODS if ln[m]["req"] and not ln[m]["cal"])
            rem = d - lvl
            wa = ln["write"]["arg"]
            rc = ln["read"]["out"]["count"] if "read" in done else 0
            wc = wa["count"] if "write" in done else 0
            cls = ("empty" if lvl == 0 else "full" if rem == 0 else
                   ("low" if lvl < rw else "") + ("tight" if rem < ww else "") or "mid")
            if done or refused:
                seen.add((d, rw, ww, cfg["wmc"], cls, done, refused, rc, wc))
            if {"read", "write"} <= done:
                cnt["read_write_same_cycle"] += 1
            if {"clear", "write"} <= done:
                cnt["clear_with_write"] += 1
            if "write" in refused:
                if rem == 0:
                    cnt["write_refused_full"] += 1
                else:
                    cnt["write_refused_not_fitting"] += 1
                    if cfg["wmc"] and wa["count"] <= rem:
                        cnt["maxcount_refused_although_count_fits"] += 1
            if "read" in refused:
                cnt["read_refused_at_empty"] += 1
            if "read" in done:
                if rc < ln["read"]["arg"] and rc == lvl:
                    cnt["read_clamped_by_level"] += 1
                if rc == 0:
                    cnt["read_count_zero"] += 1
                if rpos % cols + rc > cols:
                    cnt["read_crossing_row"] += 1
            if "write" in done:
                if wc == 0:
                    cnt["write_count_zero"] += 1
                if wc == rem:
                    cnt["write_exactly_filling"] += 1
                if wpos % cols + wc > cols:
                    cnt["write_crossing_row"] += 1
            if "clear" in done:
                lvl = rpos = wpos = 0
            else:
                lvl += wc - rc
                rpos = (rpos + rc) % d
                wpos = (wpos + wc) % d
    return seen, cnt


def all_cfgs():
    out = []
    for rw in range(1, 5):
        for ww in range(1, 5):
            cols = max(rw, ww)
            for depth in range(cols, 13, cols):
                for wmc in (False, True):
                    out.append({"depth": depth, "rw": rw, "ww": ww, "wmc": wmc, "zero": 0})
    return out


def run(rep):
    thorough = rep.tier == "thorough"
    edges, inits = model_check(rep, quick=not thorough)
    if edges:
        replay_edges(edges, inits, rep, max_len=1000)
    cfgs = all_cfgs()
    rep.coverage["configs_total"] = len(cfgs)
    if not thorough:
        rng = random.Random(rep.seed)
        # all unequal-width shapes with a non-power-of-two row or column count first, then a sample
        must = [c for c in cfgs if c["rw"] != c["ww"] and (max(c["rw"], c["ww"]) == 3 or c["depth"] in (6, 9, 12))
                and c["depth"] <= 2 * max(c["rw"], c["ww"]) + max(c["rw"], c["ww"])]
        rest = [c for c in cfgs if c not in must]
        rng.shuffle(rest)
        cfgs = must[::2] + rest[:36]
    rep.coverage["configs_traced"] = len(cfgs)
    traces = standard_check(COMP, rep, trace_cfgs=cfgs, seeds_per_cfg=5 if thorough else 2,
                            cycles=800 if thorough else 300, mc=False)
    seen, cnt = situations(traces)
    rep.coverage["corner_counts"] = cnt
    rep.coverage["trace_situations"] = len(seen)
    rep.coverage["rule"] = (
        "MC (WideQueueMC): (depth,rw,ww) in {(4,2,2),(4,1,2),(6,3,2),(3,3,1)} x write_max_count {F,T} "
        "(quick: without (6,3,2,T)), element values {1,2}, all call sets with all arguments in all states, "
        "row/column-shaped state with the abstract queue property as Inv/StepProp; S->C: every model edge "
        "replayed; C->S: seeded histories with bias phases over (depth<=12 multiple of max(rw,ww), rw,ww in 1..4, "
        "write_max_count) - all 142 configurations in thorough, a seeded sample in quick; distinct_nontrivial = "
        "model edges + distinct (config, level class, executed set, refused set, read count, write count)")
    rep.coverage["evaluations"] = rep.coverage.get("impl_cycles", 0) + rep.coverage.get("replay_cycles", 0)
    rep.coverage["distinct_nontrivial"] = rep.coverage.get("edges_total", 0) + len(seen)
    for k, v in cnt.items():
        if v == 0 and not rep.violations:
            rep.machinery(f"C15: corner '{k}' never occurred in the recorded traces (vacuous)")
    rep.assumptions += ["Amaranth Python simulator is faithful to the elaborated netlist",
                        "returned elements at positions >= count are unspecified and masked by a harness adapter",
                        "callers obey count <= max_count (driver-enforced; stated as Assume in the spec)",
                        "element shape is a plain 4-bit unsigned; written elements are never zero"]


def replay(rep, path):
    replay_file(COMP, rep, path)
