"""C24 ContentAddressableMemory behaves as a dictionary (spec: specs/lib/Cam.tla)."""
from vlib.comp import Component, replay_file
from vlib.c24_27 import check, MaskedCall, STEP_EXTRA, STEP_EXTRA_NAMES

METHODS = ["push", "write", "read", "remove"]

# layouts used by the implementation traces ("kl" / "dl" in the configuration)
KEY_LAYOUTS = {"k2": [("k", 2)], "k3": [("k", 3)], "k4": [("k", 4)], "ab": [("a", 2), ("b", 1)]}
DATA_LAYOUTS = {"d2": [("d", 2)], "d4": [("d", 4)], "d5": [("d", 5)], "xy": [("x", 2), ("y", 3)]}


def _mask_read(m, arg, out, masked):
    """The data word of a read that reports not_found is left open by the property: forced to 0."""
    from amaranth import Mux, Value
    m.d.top_comb += masked.not_found.eq(out.not_found)
    m.d.top_comb += Value.cast(masked.data).eq(Mux(out.not_found, 0, Value.cast(out.data)))


def build(cfg):
    from transactron.lib.storage import ContentAddressableMemory
    dut = ContentAddressableMemory(KEY_LAYOUTS[cfg.get("kl", "k2")], DATA_LAYOUTS[cfg.get("dl", "d2")], cfg["entries"])
    return dut, {"push": dut.push, "write": dut.write, "read": MaskedCall(dut.read, _mask_read),
                 "remove": dut.remove}


def _zero(layout):
    return 0 if len(layout) == 1 else {n: 0 for n, _ in layout}


def _rand(layout, rng, nonzero=False):
    while True:
        v = {n: rng.randrange(1 << w) for n, w in layout}
        if not nonzero or any(v.values()):
            break
    return v[layout[0][0]] if len(layout) == 1 else v


def _h(v):
    return tuple(sorted(v.items())) if isinstance(v, dict) else v


class Tracker:
    """Set of present keys followed from the executed push/remove calls; a small key pool
    (entries + 2 keys, always containing the all-zero key = the reset value of the address
    registers) keeps hits frequent."""

    def __init__(self, cfg):
        import random
        self.cfg = cfg
        kl = KEY_LAYOUTS[cfg.get("kl", "k2")]
        bits = sum(w for _, w in kl)
        r = random.Random(cfg["entries"] * 7919 + bits)
        pool = {_h(_zero(kl)): _zero(kl)}
        want = min(cfg["entries"] + 2, 1 << bits)
        while len(pool) < want:
            k = _rand(kl, r)
            pool[_h(k)] = k
        self.pool = list(pool.values())
        self.present = {}

    def update(self, line):
        # all operations refer to the content at the start of the cycle; a pushed key is never present
        if line["remove"]["done"]:
            self.present.pop(_h(line["remove"]["arg"]), None)
        if line["push"]["done"]:
            k = line["push"]["arg"]["addr"]
            self.present[_h(k)] = k

    def absent(self):
        return [k for k in self.pool if _h(k) not in self.present]

    def fix(self, step, rng):
        if "push" in step and _h(step["push"]["addr"]) in self.present:
            ab = self.absent()
            if ab:
                step["push"] = dict(step["push"], addr=rng.choice(ab))
            else:
                step["_args"]["push"] = step.pop("push")
        return step


def gen_arg(cfg, m, rng, tr):
    dl = DATA_LAYOUTS[cfg.get("dl", "d2")]
    if m == "push":
        ab = tr.absent()
        return {"addr": rng.choice(ab or tr.pool), "data": _rand(dl, rng, nonzero=True)}
    # read / write / remove: mostly present keys, sometimes absent ones
    pres = list(tr.present.values())
    k = rng.choice(pres) if pres and rng.random() < 0.65 else rng.choice(tr.pool)
    if m == "write":
        return {"addr": k, "data": _rand(dl, rng, nonzero=True)}
    return k


def want(cfg, m, rng, tr, p):
    return rng.random() < p


COMP = Component(
    spec="Cam", name="ContentAddressableMemory", build=build, methods=lambda cfg: METHODS,
    has_arg=lambda m: True, gen_arg=gen_arg, want=want, tracker=Tracker, module=__name__,
    shadow=lambda cfg: METHODS,
    trace_extra=STEP_EXTRA, trace_extra_names=STEP_EXTRA_NAMES,
)


def trace_cfgs(thorough):
    combos = [("k2", "d2"), ("k3", "d4"), ("ab", "xy"), ("k4", "d5"), ("k3", "xy"), ("ab", "d2")]
    sizes = [1, 2, 3, 4, 5, 6, 8] if thorough else [1, 2, 3, 4]
    cfgs = []
    for n in sizes:
        for i, (kl, dl) in enumerate(combos):
            if not thorough and (i + n) % 2:
                continue
            cfgs.append({"entries": n, "kl": kl, "dl": dl, "zk": _zero(KEY_LAYOUTS[kl]), "zd": _zero(DATA_LAYOUTS[dl])})
    return cfgs


def run(rep):
    thorough = rep.tier == "thorough"
    cfgs = trace_cfgs(thorough)
    traces = check(COMP, rep, trace_cfgs=cfgs, seeds_per_cfg=10 if thorough else 4,
                   cycles=600 if thorough else 200, mc_set=rep.tier, big_set=rep.tier + "-big")
    # distinct non-trivial situations in the implementation traces:
    # (entries, #present, executed method set, read hit?, write hit?, remove hit?, same key used by two calls?)
    seen = set()
    simult = 0
    for tr in traces:
        t = Tracker(tr["cfg"])
        for ln in tr["cycles"]:
            done = tuple(m for m in METHODS if ln[m]["done"])
            if done:
                key = {"push": lambda a: a["addr"], "write": lambda a: a["addr"], "read": lambda a: a, "remove": lambda a: a}
                ks = [_h(key[m](ln[m]["arg"])) for m in done]
                hits = tuple(_h(key[m](ln[m]["arg"])) in t.present for m in done)
                seen.add((tr["cfg"]["entries"], len(t.present), done, hits, len(set(ks)) < len(ks)))
                simult += len(done) >= 2
            t.update(ln)
    rep.coverage["impl_distinct_situations"] = len(seen)
    rep.coverage["impl_cycles_with_2plus_calls"] = simult
    rep.coverage["trace_configs"] = len(cfgs)
    rep.coverage["rule"] = (
        "MC: all sets of simultaneous push/write/read/remove calls over all keys in all reachable slot contents "
        "(quick: entries 1-2 with edge dump, entries 3 model only; thorough: entries 1-3 with edge dump, entries 3-4 "
        "with more keys model only); S->C: every dumped model edge replayed into the real CAM; C->S: seeded random "
        "histories, entries 1-4 (thorough up to 8), key widths 2-4 bits and data 2-5 bits incl. two-field layouts, key "
        "pool of entries+2 keys incl. the all-zero key, pushes restricted by the driver to absent keys; "
        "distinct_nontrivial = model edges replayed + distinct (entries, #present, executed methods, hit flags, "
        "same-key flag) situations in the traces")
    rep.coverage["evaluations"] = rep.coverage.get("impl_cycles", 0) + rep.coverage.get("replay_cycles", 0)
    rep.coverage["distinct_nontrivial"] = rep.coverage.get("edges_total", 0) + len(seen)
    rep.assumptions += ["Amaranth Python simulator is faithful to the elaborated netlist",
                        "a key already present is never pushed (driver + Assume)",
                        "the data word of a read reporting not_found is not constrained (masked to 0 by the harness adapter)"]


def replay(rep, path):
    replay_file(COMP, rep, path)
