"""C25 PriorityEncoderAllocator never double-allocates (spec: specs/lib/AllocPE.tla)."""
import os

from vlib.comp import Component, replay_file
from vlib.c24_27 import check, STEP_EXTRA, STEP_EXTRA_NAMES


def methods(cfg):
    return ([f"alloc{i}" for i in range(cfg["aw"])] + [f"free{i}" for i in range(cfg["fw"])]
            + ["peek", "replace", "clear"])


def build(cfg):
    from transactron.lib.allocators import PriorityEncoderAllocator
    # "dflt": use the constructor's default init (-1 = everything free); cfg["init"] is then the full mask
    # "neg": the same mask written as a negative Python int (infinitely many leading ones, like the default -1,
    # e.g. ~0b1 = "everything but identifier 0"); cfg["init"] stays the effective mask of the low `entries` bits
    kw = {} if cfg.get("dflt") else {"init": cfg["init"] - (1 << cfg["entries"]) if cfg.get("neg") else cfg["init"]}
    dut = PriorityEncoderAllocator(cfg["entries"], cfg["aw"], cfg["fw"], **kw)
    ms = {}
    for i in range(cfg["aw"]):
        ms[f"alloc{i}"] = dut.alloc[i]
    for i in range(cfg["fw"]):
        ms[f"free{i}"] = dut.free[i]
    ms.update(peek=dut.peek, replace=dut.replace, clear=dut.clear)
    return dut, ms


class Tracker:
    """Driver-side abstract state (set of allocated identifiers), followed from the observed
    lines only; used to obey the property's precondition "only allocated identifiers are freed"."""

    def __init__(self, cfg):
        self.cfg = cfg
        self.n = cfg["entries"]
        self.free = {i for i in range(self.n) if cfg["init"] >> i & 1}

    def allocated(self):
        return sorted(set(range(self.n)) - self.free)

    def update(self, line):
        cfg = self.cfg
        if line["clear"]["done"]:
            self.free = {i for i in range(self.n) if cfg["init"] >> i & 1}
        elif line["replace"]["done"]:
            self.free = {i for i in range(self.n) if line["replace"]["arg"] >> i & 1}
        else:
            for i in range(cfg["aw"]):
                v = line[f"alloc{i}"]
                if v["done"]:
                    self.free.discard(v["out"])
            for i in range(cfg["fw"]):
                v = line[f"free{i}"]
                if v["done"]:
                    self.free.add(v["arg"])

    def fix(self, step, rng):
        # requested free ways get pairwise distinct allocated identifiers; surplus requests are dropped
        pool = self.allocated()
        rng.shuffle(pool)
        for i in range(self.cfg["fw"]):
            m = f"free{i}"
            if m in step:
                if pool:
                    step[m] = pool.pop()
                else:
                    del step[m]
                    step["_args"][m] = 0
        return step


def gen_arg(cfg, m, rng, tr):
    if m == "replace":
        r = rng.random()
        full = (1 << cfg["entries"]) - 1
        return 0 if r < 0.1 else full if r < 0.25 else rng.randrange(full + 1)
    return rng.randrange(cfg["entries"])        # free ways: repaired by Tracker.fix when requested


def want(cfg, m, rng, tr, p):
    if m in ("replace", "clear"):
        return rng.random() < p * 0.12
    return rng.random() < p


COMP = Component(
    spec="AllocPE", name="PriorityEncoderAllocator", build=build, methods=methods,
    has_arg=lambda m: m.startswith("free") or m == "replace",
    gen_arg=gen_arg, want=want, tracker=Tracker, module=__name__,
    shadow=lambda cfg: [m for m in methods(cfg) if m.startswith(("alloc", "free")) or m == "replace"],
    trace_extra=STEP_EXTRA, trace_extra_names=STEP_EXTRA_NAMES,
)


def trace_cfgs(thorough, rng):
    cfgs = []
    for n in range(1, 7):
        full = (1 << n) - 1
        combos = [(a, f) for a in (1, 2, 3) for f in (1, 2)]
        if not thorough:
            combos = rng.sample(combos, 3)
        for a, f in combos:
            inits = {full, 0, rng.randrange(full + 1)}
            if thorough:
                inits |= {rng.randrange(full + 1), 0x2A & full}
            for init in sorted(inits):
                cfgs.append({"entries": n, "aw": a, "fw": f, "init": init})
            cfgs.append({"entries": n, "aw": a, "fw": f, "init": full, "dflt": 1})
            cfgs.append({"entries": n, "aw": a, "fw": f, "init": rng.randrange(full + 1) & ~1 & full if n > 1 else 0, "neg": 1})
    if thorough:  # beyond the DESIGN bounds: wider masks, more ways
        for n, a, f in [(7, 4, 3), (8, 4, 4), (11, 3, 2), (13, 2, 3)]:
            full = (1 << n) - 1
            for init in (full, rng.randrange(full + 1)):
                cfgs.append({"entries": n, "aw": a, "fw": f, "init": init})
    return cfgs


def run(rep):
    import random
    thorough = rep.tier == "thorough"
    cfgs = trace_cfgs(thorough, random.Random(rep.seed))
    traces = check(COMP, rep, trace_cfgs=cfgs, seeds_per_cfg=6 if thorough else 2,
                   cycles=500 if thorough else 160, mc_set=rep.tier)
    # distinct non-trivial situations seen in the implementation traces:
    # (config, number of free ids, set of alloc ways executed) with at least one alloc executed
    seen = set()
    multi = 0
    for tr in traces:
        c = tr["cfg"]
        t = Tracker(c)
        for ln in tr["cycles"]:
            ways = tuple(i for i in range(c["aw"]) if ln[f"alloc{i}"]["done"])
            if ways:
                seen.add((c["entries"], c["aw"], c["fw"], c["init"], len(t.free), ways))
                multi += len(ways) >= 2
            t.update(ln)
    rep.coverage["impl_distinct_alloc_situations"] = len(seen)
    rep.coverage["impl_cycles_with_multi_alloc"] = multi
    rep.coverage["trace_configs"] = len(cfgs)
    rep.coverage["rule"] = (
        "MC: all call sets (alloc-way subsets x free args x peek x replace masks x clear) in all states of the "
        "configurations in AllocPE!Configs; S->C: every model edge replayed into the real allocator (also requesting "
        "every way the model says is not callable); C->S: seeded random histories for entries 1-6 x alloc ways 1-3 x "
        "free ways 1-2 x several init masks (thorough: up to 13 entries / 4 ways), frees restricted to allocated ids "
        "by the driver; distinct_nontrivial = model edges replayed + distinct (config, #free, executed alloc ways) "
        "situations in the implementation traces")
    rep.coverage["evaluations"] = rep.coverage.get("impl_cycles", 0) + rep.coverage.get("replay_cycles", 0)
    rep.coverage["distinct_nontrivial"] = rep.coverage.get("edges_total", 0) + len(seen)
    rep.assumptions += ["Amaranth Python simulator is faithful to the elaborated netlist",
                        "only allocated identifiers are freed, each at most once per cycle (driver + Assume)"]


def replay(rep, path):
    replay_file(COMP, rep, path)
