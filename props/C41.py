"""C41 Data helpers are correct
(spec: specs/fn/DataHelpers.tla, row oracle specs/fn/C41Rows.tla, laws specs/fn/C41Laws.tla).

transpose / transpose_layout(_with_keys) / layout_keys of transactron/utils/amaranth_ext/data.py over an
enumerated family of two-level layouts (and ill-formed ones: raises iff documented), and the numeric
helpers + make_hashable of transactron/utils/data_repr.py over every integer of bounded ranges."""
import itertools

from vlib.table import Dut, Family, standard_check, replay_file

LEVEL = "exploration"


# ---- layouts as JSON-able specs --------------------------------------------------------------------
# spec: int w (unsigned(w)) | ["s", w] (signed) | ["A", elem, n] | ["S", [[name, spec]...]] | ["U", [[name, spec]...]]
def _layout(spec):
    from amaranth import signed
    from amaranth.lib import data
    if isinstance(spec, int):
        return spec
    if spec[0] == "s":
        return signed(spec[1])
    if spec[0] == "A":
        return data.ArrayLayout(_layout(spec[1]), spec[2])
    cls = data.StructLayout if spec[0] == "S" else data.UnionLayout
    return cls({k: _layout(v) for k, v in spec[1]})


def _key(k):
    return "#%d" % k if isinstance(k, int) else str(k)


def _kind(lay):
    from amaranth.lib import data
    if isinstance(lay, data.ArrayLayout):
        return "A"
    if isinstance(lay, data.StructLayout):
        return "S"
    if isinstance(lay, data.UnionLayout):
        return "U"
    return "leaf"


def _describe(lay):
    """Positional descriptor of a (claimed) regular two-level layout, read through amaranth's public API."""
    okeys = [k for k, _ in lay]
    inner = [lay[k].shape for k in okeys]
    ikeys = [k for k, _ in inner[0]]
    return {"okind": _kind(lay), "ikind": _kind(inner[0]), "okeys": [_key(k) for k in okeys],
            "ikeys": [_key(k) for k in ikeys],
            "leaf": [[repr(sub[i].shape) for i in [k for k, _ in sub]] for sub in inner],
            "ikinds_same": int(all(_kind(s) == _kind(inner[0]) for s in inner))}


def _tree(lay, depth=2):
    k = _kind(lay)
    if k == "leaf" or depth == 0:
        return {"kind": "leaf" if k == "leaf" else k, "fields": []}
    return {"kind": k, "fields": [{"key": _key(key), "sub": _tree(f.shape, depth - 1)} for key, f in lay]}


def _regular_specs(tier):
    top = 4 if tier == "thorough" else 3
    names = ["a", "b", "c", "d"]
    inames = ["p", "q", "r", "t"]
    res = []
    for no in range(1, top + 1):
        for ni in range(1, top + 1):
            for uniform in (1, 0):
                w = (lambda o, i: 1) if uniform else (lambda o, i: 1 + (o + i) % 3)
                res.append(["A", ["A", 2 - uniform, ni], no])
                res.append(["A", ["S", [[inames[i], w(0, i)] for i in range(ni)]], no])
                res.append(["S", [[names[o], ["A", w(o, 0), ni]] for o in range(no)]])
                res.append(["S", [[names[o], ["S", [[inames[i], w(o, i)] for i in range(ni)]]] for o in range(no)]])
    res.append(["A", ["A", ["s", 2], 2], 2])                                     # signed leaves
    res.append(["S", [["a", ["S", [["p", ["s", 2]], ["q", 1]]]], ["b", ["S", [["p", 2], ["q", ["s", 3]]]]]]])
    return res


def _struct_leaf_specs():
    leaf = ["S", [["x", 1], ["y", 2]]]
    return [["A", ["A", leaf, 2], 3], ["S", [["a", ["S", [["p", leaf], ["q", 2]]]], ["b", ["S", [["p", 1], ["q", leaf]]]]]],
            ["A", ["S", [["p", ["A", 1, 2]], ["q", leaf]]], 2]]


def _layout_cfgs(tier):
    return [{"spec": s, "d": _desc_of(s)} for s in _regular_specs(tier) + _struct_leaf_specs()]


def _desc_of(spec):
    d = _describe(_layout(spec))
    d.pop("ikinds_same")
    return d


def _tr_layout(cfg, inp):
    from transactron.utils.amaranth_ext.data import transpose_layout
    lay = _layout(cfg["spec"])
    once = transpose_layout(lay)
    return [_desc_checked(once), _desc_checked(transpose_layout(once))]


def _desc_checked(lay):
    d = _describe(lay)
    if not d.pop("ikinds_same"):
        d["ikind"] = "mixed"
    return d


def _tr_layout_keys(cfg, inp):
    from transactron.utils.amaranth_ext.data import transpose_layout_with_keys
    ret, ok, ik = transpose_layout_with_keys(_layout(cfg["spec"]))
    return [_desc_checked(ret), [_key(k) for k in ok], [_key(k) for k in ik]]


# ---- transpose of values ---------------------------------------------------------------------------
def _leaf_ranges(spec):
    """Matrix (outer x inner) of value ranges of the leaves of a regular two-level spec."""
    def fields(s):
        return [s[1]] * s[2] if s[0] == "A" else [v for _, v in s[1]]

    def rng(leaf):
        if isinstance(leaf, int):
            return range(1 << leaf)
        return range(-(1 << (leaf[1] - 1)), 1 << (leaf[1] - 1))

    return [[rng(leaf) for leaf in fields(sub)] for sub in fields(spec)]


def _value_cfgs(tier):
    return [{"spec": s, "d": _desc_of(s)} for s in _regular_specs(tier)]


def _value_domain(cfg, budget=256):
    rngs = _leaf_ranges(cfg["spec"])
    flat = [r for row in rngs for r in row]
    ni = len(rngs[0])

    def shape(vals):
        return [[list(vals[o * ni:(o + 1) * ni]) for o in range(len(rngs))]]

    total = 1
    for r in flat:
        total *= len(r)
    if total <= budget:
        for vals in itertools.product(*flat):
            yield shape(vals)
        return
    # too many valuations: all-min, all-max, distinguishable tags, and every single leaf at its maximum
    yield shape([r[0] for r in flat])
    yield shape([r[-1] for r in flat])
    yield shape([r[(k + 1) % len(r)] for k, r in enumerate(flat)])
    yield shape([r[(3 * k + 2) % len(r)] for k, r in enumerate(flat)])
    for k in range(len(flat)):
        yield shape([r[-1] if j == k else r[0] for j, r in enumerate(flat)])


def _native(cfg, mat):
    """matrix -> nested list / dict accepted by Layout.const and ctx.set."""
    spec = cfg["spec"]

    def inner(s, row):
        return list(row) if s[0] == "A" else {k: v for (k, _), v in zip(s[1], row)}

    if spec[0] == "A":
        return [inner(spec[1], row) for row in mat]
    return {k: inner(s, row) for (k, s), row in zip(spec[1], mat)}


def _keys2(lay):
    ok = [k for k, _ in lay]
    ik = [k for k, _ in lay[ok[0]].shape]
    return ok, ik


def _leafval(v):
    from amaranth.lib import data
    return v.as_bits() if isinstance(v, data.Const) else int(v)


def _tr_const(cfg, inp):
    from transactron.utils.amaranth_ext.data import transpose
    lay = _layout(cfg["spec"])
    c = lay.const(_native(cfg, inp[0]))
    t = transpose(c)
    tok, tik = _keys2(t.shape())
    tt = transpose(t)
    ok, ik = _keys2(lay)
    return [[[_leafval(t[i][o]) for o in tik] for i in tok], _desc_checked(t.shape()),
            [[_leafval(tt[o][i]) for i in ik] for o in ok]]


def _tr_view_build(cfg):
    from amaranth import Module, Signal, Value
    from transactron.utils.amaranth_ext.data import transpose
    lay = _layout(cfg["spec"])
    m = Module()
    sig = Signal(lay)
    t = transpose(sig)
    tt = transpose(t)
    tok, tik = _keys2(t.shape())
    ok, ik = _keys2(lay)
    outs = []
    for val in [t[i][o] for i in tok for o in tik] + [tt[o][i] for o in ok for i in ik]:
        v = Value.cast(val)
        s = Signal(v.shape())
        m.d.comb += s.eq(v)
        outs.append(s)
    desc = _desc_checked(t.shape())
    n1, n2 = len(tok), len(tik)

    def post(inp, vals):
        a, b = vals[:n1 * n2], vals[n1 * n2:]
        return [[a[i * n2:(i + 1) * n2] for i in range(n1)], desc, [b[o * n1:(o + 1) * n1] for o in range(n2)]]

    return Dut(m, [sig], outs, single=False, post=post, pre=lambda inp: [_native(cfg, inp[0])])


# ---- ill-formed layouts: raises iff documented -----------------------------------------------------
def _tree_specs():
    leaf = 2
    a2 = ["A", 1, 2]
    a3 = ["A", 1, 3]
    sxy = ["S", [["x", 1], ["y", 2]]]
    sxz = ["S", [["x", 1], ["z", 2]]]
    sx = ["S", [["x", 1]]]
    return [
        ["A", a2, 2], ["A", sxy, 1], ["S", [["a", a2], ["b", ["A", 3, 2]]]], ["S", [["a", sxy], ["b", sxy]]],   # fine
        ["S", [["a", sxy]]], ["A", a3, 1],                                                                       # fine
        ["U", [["a", a2], ["b", a2]]],                     # not Array/Struct
        ["A", a2, 0], ["S", []],                           # no fields
        ["A", leaf, 3], ["S", [["a", a2], ["b", 2]]], ["S", [["a", 1], ["b", a2]]],      # fields not all layouts
        ["S", [["a", ["U", [["x", 1], ["y", 1]]]], ["b", sxy]]],                        # a field is a union
        ["A", ["A", 1, 0], 2], ["S", [["a", ["S", []]], ["b", ["S", []]]]],              # fields have no keys
        ["S", [["a", a2], ["b", a3]]], ["S", [["a", sxy], ["b", sxz]]], ["S", [["a", sxy], ["b", sx]]],  # different keys
        ["S", [["a", sx], ["b", sxy]]], ["S", [["a", a2], ["b", sxy]]], ["S", [["a", sxy], ["b", a2]]],
        ["S", [["a", sxy], ["b", sxy], ["c", sxz]]],
    ]


def _tree_cfgs(tier):
    return [{"spec": s, "tree": _tree(_layout(s))} for s in _tree_specs()]


def _raises(cfg, inp):
    from transactron.utils.amaranth_ext.data import transpose_layout
    try:
        transpose_layout(_layout(cfg["spec"]))
        return 0
    except ValueError:
        return 1
    except Exception:
        return 2          # some other exception: neither of the two documented outcomes


def _keys_cfgs(tier):
    extra = [["U", [["u", 2], ["v", 3], ["w", 1]]], ["A", 4, 3], ["S", [["a", 1], ["b", 2], ["c", 3]]], ["A", 1, 0]]
    return [{"spec": s, "tree": _tree(_layout(s), 1)} for s in extra + _tree_specs()[:6]]


def _layout_keys(cfg, inp):
    from transactron.utils.amaranth_ext.data import layout_keys
    return [_key(k) for k in layout_keys(_layout(cfg["spec"]))]


# ---- numeric helpers -------------------------------------------------------------------------------
def _xlens(tier):
    return [{"xlen": n} for n in (range(1, 13) if tier == "thorough" else range(1, 10))]


def _s2i(cfg, inp):
    from transactron.utils.data_repr import signed_to_int, int_to_signed
    r = signed_to_int(inp[0], cfg["xlen"])
    return [r, int_to_signed(r, cfg["xlen"])]


def _i2s(cfg, inp):
    from transactron.utils.data_repr import signed_to_int, int_to_signed
    r = int_to_signed(inp[0], cfg["xlen"])
    return [r, signed_to_int(r, cfg["xlen"])]


def _neg(cfg, inp):
    from transactron.utils.data_repr import neg
    return neg(inp[0], cfg["xlen"])


def _bfi(cfg, inp):
    from transactron.utils.data_repr import bits_from_int
    return bits_from_int(inp[0], cfg["lower"], cfg["length"])


def _align(name):
    def f(cfg, inp):
        from transactron.utils import data_repr
        return getattr(data_repr, name)(inp[0], cfg["power"])
    return f


def _align_domain(cfg):
    top = 3 * (1 << cfg["power"]) + 3
    return ([n] for n in range(-top, top + 1))


# ---- make_hashable ---------------------------------------------------------------------------------
def _universe(tier):
    ints = [{"t": "I", "v": 0}, {"t": "I", "v": 1}, {"t": "I", "v": -2}]
    strs = [{"t": "S", "v": "a"}, {"t": "S", "v": "k"}]
    atoms = ints + strs
    def L(*xs):
        return {"t": "L", "v": list(xs)}
    def D(*kv):
        return {"t": "D", "v": [[k, v] for k, v in kv]}
    lvl1 = [L(), D(), L(atoms[0]), L(atoms[1]), L(atoms[0], atoms[1]), L(atoms[1], atoms[0]), L(strs[0]), L(strs[1], atoms[1]),
            D(("k", atoms[0])), D(("k", atoms[1])), D(("m", atoms[0])), D(("k", atoms[0]), ("m", atoms[1])),
            D(("m", atoms[1]), ("k", atoms[0])), D(("k", atoms[1]), ("m", atoms[0])), D(("a", strs[0]))]
    lvl2 = [L(lvl1[0]), L(lvl1[1]), L(lvl1[4]), L(lvl1[5]), L(lvl1[8]), L(lvl1[11]), L(lvl1[12]), L(atoms[0], lvl1[2]),
            L(lvl1[2], atoms[0]), D(("k", lvl1[0])), D(("k", lvl1[1])), D(("k", lvl1[4])), D(("k", lvl1[5])),
            D(("k", lvl1[11])), D(("k", lvl1[12])), D(("k", lvl1[11]), ("m", lvl1[4])), D(("m", lvl1[4]), ("k", lvl1[12])),
            L(L(lvl1[11])), L(L(lvl1[12])), D(("k", D(("k", lvl1[4]))))]
    u = atoms + lvl1 + lvl2
    if tier == "thorough":
        u += [L(a, b) for a in lvl1[:8] for b in lvl1[8:12]] + [D(("k", a), ("m", b)) for a in lvl1[2:6] for b in lvl1[9:13]]
    return u


def _py(v):
    if v["t"] in ("I", "S"):
        return v["v"]
    if v["t"] == "L":
        return [_py(x) for x in v["v"]]
    return {k: _py(x) for k, x in v["v"]}


def _mh(cfg, inp):
    from transactron.utils.data_repr import make_hashable
    a, b = _py(inp[0]), _py(inp[1])
    ha, hb = make_hashable(a), make_hashable(b)
    try:
        hashes = (hash(ha), hash(hb))
        hashable = 1
    except TypeError:
        hashes, hashable = (0, 1), 0
    eq = ha == hb
    return [int(eq), int((not eq) or hashes[0] == hashes[1]), int(a == b), hashable]


def _mh_domain(cfg):
    u = _universe(cfg["tier"])
    blk = cfg["block"]
    return ([a, b] for a in u[blk * 8:(blk + 1) * 8] for b in u)


def _mh_cfgs(tier):
    n = len(_universe(tier))
    return [{"tier": tier, "block": k} for k in range((n + 7) // 8)]


ONE = lambda cfg: ([0],)  # noqa: E731   single row per configuration
# outputs recorded when the helper under test raises (type-compatible with the expected values)
RD = {"okind": "raised", "ikind": "raised", "okeys": [], "ikeys": [], "leaf": []}
R = 999999

FAMILIES = {
    "transpose_layout": Family("transpose_layout", cfgs=_layout_cfgs, domain=ONE, direct=_tr_layout, on_raise=[RD, RD]),
    "transpose_layout_with_keys": Family("transpose_layout_with_keys", cfgs=_layout_cfgs, domain=ONE,
                                         direct=_tr_layout_keys, on_raise=[RD, [], []]),
    "transpose.const": Family("transpose.const", cfgs=_value_cfgs, domain=_value_domain, direct=_tr_const, on_raise=[[], RD, []]),
    "transpose.view": Family("transpose.view", cfgs=_value_cfgs, domain=_value_domain, build=_tr_view_build, on_raise=[[], RD, []]),
    "transpose_layout.raises": Family("transpose_layout.raises", cfgs=_tree_cfgs, domain=ONE, direct=_raises),
    "layout_keys": Family("layout_keys", cfgs=_keys_cfgs, domain=ONE, direct=_layout_keys, on_raise=["raised"]),
    "signed_to_int": Family("signed_to_int", cfgs=_xlens, direct=_s2i, on_raise=[R, R],
                            domain=lambda cfg: ([x] for x in range(1 << cfg["xlen"]))),
    "int_to_signed": Family("int_to_signed", cfgs=_xlens, direct=_i2s, on_raise=[R, R],
                            domain=lambda cfg: ([x] for x in range(-(1 << (cfg["xlen"] - 1)), 1 << (cfg["xlen"] - 1)))),
    "neg": Family("neg", cfgs=_xlens, direct=_neg, on_raise=R, domain=lambda cfg: ([x] for x in range(1 << cfg["xlen"]))),
    "bits_from_int": Family("bits_from_int", direct=_bfi, on_raise=R,
                            cfgs=lambda tier: [{"lower": lo, "length": ln} for lo in range(0, 6) for ln in range(0, 6)],
                            domain=lambda cfg: ([x] for x in range(0, 130))),
    "align_to_power_of_two": Family("align_to_power_of_two", direct=_align("align_to_power_of_two"), on_raise=R,
                                    cfgs=lambda tier: [{"power": p} for p in range(0, 9 if tier == "thorough" else 7)],
                                    domain=_align_domain),
    "align_down_to_power_of_two": Family("align_down_to_power_of_two", direct=_align("align_down_to_power_of_two"), on_raise=R,
                                         cfgs=lambda tier: [{"power": p} for p in range(0, 9 if tier == "thorough" else 7)],
                                         domain=_align_domain),
    "make_hashable": Family("make_hashable", cfgs=_mh_cfgs, domain=_mh_domain, direct=_mh, on_raise=[2, 2, 2, 2]),
}

LAWS = ["TypeOK", "SignedLaw", "NegLaw", "BitsLaw", "AlignLaw", "TransposeLaw", "EqLaw"]


def run(rep):
    standard_check(rep, __name__, FAMILIES, "C41Rows", "C41Laws", LAWS,
                   {"W": 6 if rep.tier == "thorough" else 5})
    rep.coverage["rule"] = (
        "transpose family: every two-level layout with outer/inner kind in {ArrayLayout, StructLayout}, 1-3 (thorough "
        "1-4) keys per level, uniform and mixed leaf widths (plus signed and struct leaves) x every valuation when "
        "there are <= 256 of them, otherwise min/max/tag/one-hot valuations, through transpose(Const) and "
        "transpose(View) in simulation; 22 well/ill-formed layouts for the ValueError contract; numeric helpers: "
        "every integer of the width-bounded range for xlen 1-9 (thorough 1-12), align: -3*2^p-3..3*2^p+3 for powers "
        "0-6 (0-8); make_hashable: all ordered pairs of a universe of nested int/str/list/dict values; "
        "distinct_nontrivial = distinct (function, configuration) tables with a non-zero output")
    rep.assumptions += [
        "amaranth's own layout classes and Const/View accessors are trusted to describe layouts and read fields",
        "make_hashable: values are nested ints / strings / lists / dicts (no tuples or sets in the inputs)",
        "layouts whose fields list the same keys in a different order are not exercised (docstring ambiguous)"]


def replay(rep, path):
    replay_file(rep, FAMILIES, "C41Rows", path)
