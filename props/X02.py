"""X02 (beyond the listed properties) simultaneous() / simultaneous_alternatives() over several transactions and
methods: the merged transactions that exist and the sets of transactions that may run in one cycle
(spec: specs/core/SimGroups.tla, SimGroupsTrace.tla, SimGroupsMC.tla).

MC   : SimGroupsMC over the systematic universe (3 transactions: every single declaration and every pair of
       declarations; 4 transactions: every single declaration) x every input valuation: the library's work-list
       computation as transcribed in the spec equals the declarative definition of the groups; the per-cycle
       rules are satisfiable.
S->C : every design of that universe is built with the real API and simulated under every input valuation.
C->S : random designs (2-6 transactions, 0-2 methods with 1-2 callers, 1-3 declarations on transactions and
       methods, unsatisfiable ones included) recorded and judged by SimGroupsTrace: RaisedIffUnsatisfiable,
       UnitsFormed, OnlyEnabledRun, WholeGroupsRun, NoWastedGroup, MethodRunsWithCaller.
Not registered in MANIFEST.json (the property list is fixed); writes no evidence file.
"""
import copy
import json
import multiprocessing as mp
import os
import random

from vlib import judge, simgroups, tlc

NPROCS = int(os.environ.get("VERIF_PROCS", "16"))


def report(rep, cases, rej):
    for r in rej:
        c = cases[r["tid"] - 1]
        ln = r["line"]
        rep.violation({"component": "simultaneous groups", "cfg": {"seed": c["seed"]}, "clauses": sorted(r["clauses"]), "line": ln,
                       "design": c["design"], "raised": c["raised"], "exc": c["exc"], "units_observed": c["units"],
                       "model_groups": r.get("groups"), "model_units": r.get("units"), "model_unsatisfiable": r.get("unsat"),
                       "observed": c["cycles"][ln - 1] if ln >= 1 else None})


def run(rep):
    rep.no_evidence = True
    thorough = rep.tier == "thorough"
    sysd = simgroups.systematic(None if thorough else 500)
    mc = judge.model_check("SimGroupsMC", sysd, ["AlgorithmMeetsDefinition", "Satisfiable", "GroupsAreIndepFreeAndConnected"])
    if mc.invariant_violated:
        rep.violation({"component": "simultaneous groups (model)", "clauses": ["MC:" + mc.invariant_violated],
                       "what": "SimGroups.tla is inconsistent", "tlc_tail": mc.out.splitlines()[-50:]})
        return
    tlc.require_ok(mc, "SimGroupsMC")
    rep.add("states", mc.distinct)
    rep.add("transitions", mc.generated)
    n = 3000 if thorough else 300
    with mp.Pool(NPROCS) as pool:
        cases = pool.map(simgroups.make_case, [(d, i, 64) for i, d in enumerate(sysd)], chunksize=8)
        cases += pool.map(simgroups.make_random_case, [(rep.seed * 100003 + i, 64) for i in range(n)], chunksize=8)
    res, acc, rej, dev = judge.judge("SimGroupsTrace", [{k: c[k] for k in ("design", "raised", "units", "has_units", "cycles")} for c in cases])
    report(rep, cases, rej)
    cov = rep.coverage
    cov["systematic_designs"] = len(sysd)
    cov["random_designs"] = n
    cov["designs_refused"] = sum(c["raised"] for c in cases)
    cov["designs_with_observed_units"] = sum(c["has_units"] for c in cases)
    cov["traces_validated_against_impl"] = len(cases)
    cov["impl_cycles"] = sum(len(c["cycles"]) for c in cases)
    cov["cycles_with_group_running"] = sum(1 for c in cases for ln in c["cycles"] if sum(ln["trun"]) >= 2)
    cov["evaluations"] = cov["impl_cycles"]
    cov["trace_states"] = res.distinct
    # binding self-test: flip one run bit of an accepted case
    bad = {r["tid"] for r in rej}
    good = [c for i, c in enumerate(cases) if i + 1 not in bad and c["cycles"]]
    rng = random.Random(rep.seed + 1)
    picked = []
    for _ in range(8):
        c = copy.deepcopy(rng.choice(good))
        ln = rng.randrange(len(c["cycles"]))
        t = rng.randrange(c["design"]["nt"])
        c["cycles"][ln]["trun"][t] ^= 1
        picked.append(({k: c[k] for k in ("design", "raised", "units", "has_units", "cycles")}, ln + 1))
    _, _, rj, _ = judge.judge("SimGroupsTrace", [p[0] for p in picked])
    at = {r["tid"]: r["line"] for r in rj}
    ok = sum(1 for i, (_, ln) in enumerate(picked) if at.get(i + 1) == ln)
    cov["selftest_corrupted_traces"] = len(picked)
    cov["selftest_corrupted_rejected"] = ok
    if ok != len(picked):
        rep.machinery(f"SimGroupsTrace: only {ok} of {len(picked)} corrupted cases rejected at the corrupted line")


def replay(rep, path):
    d = json.load(open(path))
    c = simgroups.make_case((d["design"], d["cfg"].get("seed", 0), 256))
    res, acc, rej, dev = judge.judge("SimGroupsTrace", [{k: c[k] for k in ("design", "raised", "units", "has_units", "cycles")}])
    report(rep, [c], rej)
    rep.add("traces_validated_against_impl", 1)
