"""C40 Structured assignment copies exactly the selected fields (spec: specs/fn/Assign.tla).

exploration level: TLC is the oracle (Assign!Asg = MustRaise / Selected) for rows observed on
the real `transactron.utils.assign`:

  * the call raised (exception class recorded), or
  * the produced statements are simulated in a tiny Module: every right cell (leaf, Const,
    int or whole union) holds a distinct non-zero value, every left cell starts at 0; the
    observation is the set of left cells that changed and the right cell each equals.

AssignMC.tla additionally checks sanity laws of the definitions for every pair of a bounded
layout universe (model-checking component, no implementation involved).
"""
from __future__ import annotations

import copy
import itertools
import json
import multiprocessing as mp
import random

from vlib import tlc, utilcheck

LEVEL = "exploration"

MC_CFG = """SPECIFICATION Spec
INVARIANT Laws
CHECK_DEADLOCK FALSE
CONSTANTS Level = %d
"""

U5 = {"t": "leaf", "w": 5, "s": False}
U6 = {"t": "leaf", "w": 6, "s": False}
S5 = {"t": "leaf", "w": 5, "s": True}
LEAVES = [U5, U6, S5]
C5 = {"t": "const", "w": 5}
C6 = {"t": "const", "w": 6}
INT = {"t": "int"}
MODES = ["COMMON", "LHS", "RHS", "ALL"]
MAX_CELLS = 15          # right cells hold the values 1..15 (fit every modelled leaf, also signed(5))


def mode(m):
    return {"k": "mode", "m": m}


# ---------------------------------------------------------------------------------------
# binding to the real code: build arguments from trees, observe

def _shape(node):
    from amaranth import signed, unsigned
    from amaranth.lib import data
    t = node["t"]
    if t == "leaf":
        return signed(node["w"]) if node["s"] else unsigned(node["w"])
    if t == "struct":
        return data.StructLayout({n: _shape(node["f"][n]) for n in sorted(node["f"])})
    if t == "union":
        return data.UnionLayout({n: _shape(node["f"][n]) for n in sorted(node["f"])})
    if t == "array":
        return data.ArrayLayout(_shape(node["e"]), node["n"])
    raise ValueError(t)


def _layout_cells(node, shape, path, off):
    """(path, offset, width) of every cell inside a layout node (offsets taken from amaranth)."""
    from amaranth import Shape
    t = node["t"]
    if t in ("leaf", "union"):
        return [(path, off, Shape.cast(shape).width)]
    if t == "struct":
        out = []
        for n in sorted(node["f"]):
            fld = shape[n]
            out += _layout_cells(node["f"][n], fld.shape, path + [n], off + fld.offset)
        return out
    es = shape.elem_shape
    w = Shape.cast(es).width
    out = []
    for i in range(node["n"]):
        out += _layout_cells(node["e"], es, path + [str(i)], off + i * w)
    return out


class Side:
    def __init__(self, right: bool, counter):
        self.right = right
        self.cells = []      # (path, root value or None, offset, width, value)
        self.roots = []      # (root Value, raw int to drive)  (right side)
        self.counter = counter

    def build(self, node, path):
        from amaranth import Signal, C
        t = node["t"]
        if t == "dict":
            return {n: self.build(node["f"][n], path + [n]) for n in sorted(node["f"])}
        if t == "list":
            return [self.build(c, path + [str(i)]) for i, c in enumerate(node["e"])]
        if t == "const":
            v = next(self.counter)
            self.cells.append((path, None, 0, node["w"], v))
            return C(v, node["w"])
        if t == "int":
            v = next(self.counter)
            self.cells.append((path, None, 0, 8, v))
            return v
        if t == "struct" and node.get("px"):
            return self.build_proxy(node, path)
        shape = _shape(node)
        sig = Signal(shape)
        root = sig if t == "leaf" else sig.as_value()
        raw = 0
        for p, off, w in _layout_cells(node, shape, path, 0):
            v = next(self.counter) if self.right else 0
            raw |= v << off
            self.cells.append((p, root, off, w, v))
        self.roots.append((root, raw))
        return sig


def _build_proxy(self, node, path):
    """A struct operand given as an element of a node["px"]-dimensional amaranth `Array` of struct signals selected by
    index signals (an ArrayProxy).  For the specification this is the struct itself; the cells of the elements that
    are NOT selected are tracked under paths marked "~": on the left they must stay unassigned, on the right their
    (distinct) values must not be copied."""
    from amaranth import Signal, Array
    dims = node["px"]
    shape = _shape(node)
    sel = [1, 0, 1][:dims] if self.right else [0] * dims      # left index signals are not driven: they read 0
    idx = [Signal(1) for _ in range(dims)]
    for sg, v in zip(idx, sel):
        self.roots.append((sg, v))

    def mk(pos):
        if len(pos) == dims:
            sig = Signal(shape)
            root = sig.as_value()
            p0 = path if list(pos) == sel else path + ["~" + "".join(map(str, pos))]
            raw = 0
            for p, off, w in _layout_cells(node, shape, p0, 0):
                v = next(self.counter) if self.right else 0
                raw |= v << off
                self.cells.append((p, root, off, w, v))
            self.roots.append((root, raw))
            return sig
        return Array([mk(pos + (i,)) for i in range(2)])

    arr = mk(())
    out = arr
    for sg in idx:
        out = out[sg]
    return out


Side.build_proxy = _build_proxy


def _conv_name(n):
    return int(n) if n.isdigit() else n


def conv_fields(fs, salt=0):
    from transactron.utils import AssignType
    if fs["k"] == "mode":
        return AssignType[fs["m"]]
    if fs["k"] == "iter":
        names = [_conv_name(n) for n in fs["n"]]
        return [names, set(names), tuple(names)][salt % 3]
    return {_conv_name(n): conv_fields(v, salt + 1) for n, v in fs["m"].items()}


def count_cells(node):
    t = node["t"]
    if t in ("leaf", "const", "int", "union"):
        return 1
    if t in ("struct", "dict"):
        return sum(count_cells(c) for c in node["f"].values()) * (2 ** node.get("px", 0) if t == "struct" else 1)
    if t == "array":
        return node["n"] * count_cells(node["e"])
    return sum(count_cells(c) for c in node["e"])


def observe_batch(cases):
    """cases: list of (l, r, fs).  Returns the list of obs dicts."""
    from amaranth import Module
    from amaranth.sim import Simulator
    from transactron.utils import assign
    m = Module()
    obs = [None] * len(cases)
    live = []
    for i, (l, r, fs) in enumerate(cases):
        left = Side(False, None)
        right = Side(True, itertools.count(1))
        lhs = left.build(l, [])
        rhs = right.build(r, [])
        try:
            stmts = list(assign(lhs, rhs, fields=conv_fields(fs, i)))
        except Exception as ex:
            obs[i] = {"raised": True, "exc": type(ex).__name__, "pairs": []}
            continue
        try:
            m.d.comb += stmts
        except Exception as ex:
            obs[i] = {"raised": True, "exc": "Late" + type(ex).__name__, "pairs": []}
            continue
        live.append((i, left, right))
    if live:
        sim = Simulator(m)
        raws = {}

        async def tb(ctx):
            for _, _, right in live:
                for root, raw in right.roots:
                    ctx.set(root, raw)
            for i, left, _ in live:
                for root, _ in left.roots:
                    raws[id(root)] = ctx.get(root)

        sim.add_testbench(tb)
        sim.run()
        for i, left, right in live:
            byval = {c[4]: c[0] for c in right.cells}
            pairs = []
            for p, root, off, w, _ in left.cells:
                raw = raws[id(root)]
                if raw < 0:
                    raw += 1 << 32
                v = (raw >> off) & ((1 << w) - 1)
                if v:
                    pairs.append([p, byval.get(v, ["?"])])
            obs[i] = {"raised": False, "exc": "", "pairs": pairs}
    return obs


def observe(cases, batch=40):
    out = []
    for k in range(0, len(cases), batch):
        chunk = cases[k:k + batch]
        try:
            out += observe_batch(chunk)
        except Exception:
            # one case broke elaboration / simulation of the batch: judge them one by one
            for c in chunk:
                try:
                    out += observe_batch([c])
                except Exception as ex:
                    out.append({"raised": True, "exc": "Sim" + type(ex).__name__, "pairs": []})
    return out


def _observe_task(cases):
    return observe(cases)


# ---------------------------------------------------------------------------------------
# generation

def structs(names, children):
    out = []
    for k in range(len(names) + 1):
        for sub in itertools.combinations(names, k):
            for ch in itertools.product(children, repeat=len(sub)):
                out.append({"t": "struct", "f": dict(zip(sub, ch))})
    return out


def unions(names, children):
    return [{"t": "union", "f": s["f"]} for s in structs(names, children) if s["f"]]


def arrays(children, lens):
    return [{"t": "array", "e": c, "n": n} for c in children for n in lens]


def dicts(names, children):
    return [{"t": "dict", "f": s["f"]} for s in structs(names, children)]


def lists(children, maxlen):
    return [{"t": "list", "e": list(ch)} for k in range(maxlen + 1) for ch in itertools.product(children, repeat=k)]


def exhaustive_universe():
    """The bounded universe enumerated completely in the thorough tier: all depth-1 layouts
    (struct / array / union of leaves), dicts and lists of plain values, Const / int on the
    right; every pair, with every AssignType and a family of iterable selections."""
    lay = depth1_layouts()
    lc = [U5, U6]
    rc = [U5, U6, C5, INT]
    lhs = lay + dicts(["a", "b"], lc) + lists(lc, 2)
    rhs = lay + dicts(["a", "b"], rc) + lists(rc, 2) + [C5, C6, INT]
    sels = [mode(m) for m in MODES] + [{"k": "iter", "n": n} for n in ([], ["a"], ["b"], ["a", "b"], ["0"], ["0", "1"])]
    return [(l, r, fs) for l in lhs for r in rhs for fs in sels]


def depth1_layouts():
    return LEAVES + structs(["a", "b"], LEAVES) + arrays(LEAVES, [1, 2, 3]) + unions(["a", "b"], [U5, U6])


def nested_family():
    """Enumerated depth-2 family: l = {a: X, b: u5}, r = {a: Y, b: u5} for all depth-1 layouts
    X, Y, with AssignTypes, iterables and nested mappings addressing the sub-structure."""
    lay = depth1_layouts()
    sels = [mode(m) for m in MODES] + [{"k": "iter", "n": ["a"]}, {"k": "iter", "n": ["a", "b"]}]
    sels += [{"k": "map", "m": {"a": mode(m)}} for m in MODES]
    sels += [{"k": "map", "m": {"a": {"k": "iter", "n": ["a"]}, "b": mode("ALL")}}]
    return [({"t": "struct", "f": {"a": x, "b": U5}}, {"t": "struct", "f": {"a": y, "b": U5}}, fs)
            for x in lay for y in lay for fs in sels]


def wrapper_family():
    """Enumerated family around "a single-value structure is assigned through its only field":
    values wrapped 0-2 times in single-field structs / length-1 arrays on either side."""
    def wraps(x):
        s = lambda n, c: {"t": "struct", "f": {n: c}}
        a = lambda c: {"t": "array", "e": c, "n": 1}
        return [x, s("a", x), a(x), s("a", s("b", x)), a(s("a", x)), s("a", a(x))]
    cores = [U5, U6, S5, {"t": "union", "f": {"a": U5}}, {"t": "struct", "f": {"a": U5, "b": U6}}]
    return [(l, r, mode(m)) for x in cores for y in cores for l in wraps(x) for r in wraps(y) for m in MODES]


NAMES = ["a", "b", "c"]


def rand_layout(rng, depth):
    x = rng.random()
    if depth == 0 or x < 0.25:
        return rng.choice(LEAVES)
    if x < 0.65:
        names = [n for n in NAMES if rng.random() < 0.55]
        return {"t": "struct", "f": {n: rand_layout(rng, depth - 1) for n in names}}
    if x < 0.85:
        return {"t": "array", "e": rand_layout(rng, depth - 1), "n": rng.randint(1, 3)}
    names = [n for n in NAMES if rng.random() < 0.5] or [rng.choice(NAMES)]
    return {"t": "union", "f": {n: rng.choice([U5, U6, S5]) for n in names}}


def rand_arg(rng, depth, right):
    x = rng.random()
    if depth > 0 and x < 0.22:
        names = [n for n in NAMES if rng.random() < 0.55]
        return {"t": "dict", "f": {n: rand_arg(rng, depth - 1, right) for n in names}}
    if depth > 0 and x < 0.34:
        return {"t": "list", "e": [rand_arg(rng, depth - 1, right) for _ in range(rng.randint(0, 3))]}
    if right and x < 0.42:
        return rng.choice([C5, C6, INT])
    return rand_layout(rng, depth)


def mutate(rng, node, right):
    """A near copy of `node` (so that matching structures are common): drop / add / change one
    field somewhere, change a leaf, change an array length, or re-wrap as dict / list."""
    node = copy.deepcopy(node)
    x = rng.random()
    t = node["t"]
    if x < 0.3:
        return node
    if t in ("struct", "dict", "union") and node["f"] and x < 0.75:
        n = rng.choice(sorted(node["f"]))
        y = rng.random()
        if y < 0.3 and (t != "union" or len(node["f"]) > 1):
            del node["f"][n]
        elif y < 0.65 and t != "union":
            node["f"][n] = mutate(rng, node["f"][n], right)
        else:
            free = [m for m in NAMES if m not in node["f"]]
            if free:
                node["f"][rng.choice(free)] = rng.choice([U5, U6])
        return node
    if t == "array" and x < 0.75:
        if rng.random() < 0.5:
            node["n"] = rng.randint(1, 3)
        else:
            node["e"] = mutate(rng, node["e"], right)
        return node
    if t == "struct" and x < 0.9:
        return {"t": "dict", "f": node["f"]}       # same fields, as a Python dict of Views / Signals
    if t == "array" and x < 0.9:
        return {"t": "list", "e": [copy.deepcopy(node["e"]) for _ in range(node["n"])]}
    if t == "leaf":
        return rng.choice(LEAVES + ([C5, INT] if right else []))
    return node


def fields_of(node):
    t = node["t"]
    if t in ("struct", "dict", "union"):
        return sorted(node["f"])
    if t == "array":
        return [str(i) for i in range(node["n"])]
    if t == "list":
        return [str(i) for i in range(len(node["e"]))]
    return []


def child(node, n):
    t = node["t"]
    if t in ("struct", "dict", "union"):
        return node["f"].get(n)
    if t == "array":
        return node["e"] if n.isdigit() and int(n) < node["n"] else None
    if t == "list":
        return node["e"][int(n)] if n.isdigit() and int(n) < len(node["e"]) else None
    return None


def rand_fields(rng, l, r, depth=2):
    x = rng.random()
    if x < 0.5 or l is None or r is None:
        return mode(rng.choice(MODES))
    pool = sorted(set(fields_of(l)) | set(fields_of(r)))
    y = rng.random()
    if y < 0.6:
        names = [n for n in pool if n in fields_of(l) and n in fields_of(r)]   # mostly satisfiable
        names = [n for n in names if rng.random() < 0.8]
    else:
        names = [n for n in pool if rng.random() < 0.6]
    if rng.random() < 0.08:
        names.append(rng.choice(NAMES + ["0", "3"]))
    if x < 0.72 or depth == 0:
        if names and rng.random() < 0.15:
            names.append(names[0])           # duplicates are legal in an iterable
        return {"k": "iter", "n": names}
    return {"k": "map", "m": {n: rand_fields(rng, child(l, n), child(r, n), depth - 1) for n in dict.fromkeys(names)}}


def well_formed(node, left, in_layout=False):
    t = node["t"]
    if t == "leaf":
        return True
    if t in ("const", "int"):
        return not left and not in_layout
    if t == "union":
        return bool(node["f"]) and all(c["t"] == "leaf" for c in node["f"].values())
    if t == "struct":
        return all(well_formed(c, left, True) for c in node["f"].values())
    if t == "array":
        return well_formed(node["e"], left, True)
    if in_layout:
        return False
    cs = node["f"].values() if t == "dict" else node["e"]
    return all(well_formed(c, left, False) for c in cs)


def _plain_struct(node):
    return node["t"] == "leaf" or (node["t"] == "struct" and all(_plain_struct(c) for c in node["f"].values()))


def random_case(rng):
    while True:
        if rng.random() < 0.5:
            l = rand_arg(rng, 2, False)
            r = mutate(rng, l, True)
        else:
            r = rand_arg(rng, 2, True)
            l = mutate(rng, r, False)
            if not well_formed(l, True):
                continue
        if rng.random() < 0.15:
            r = rand_arg(rng, 2, True)
        if not (well_formed(l, True) and well_formed(r, False)):
            continue
        # some standalone struct operands (top level, or directly inside a dict / list) are handed over as
        # ArrayProxy values: elements of 1-3 dimensional Arrays of struct signals indexed by signals
        for side in (l, r):
            if rng.random() < 0.2:
                cands = [side] if side["t"] == "struct" else \
                    [c for c in (side["f"].values() if side["t"] == "dict" else side["e"] if side["t"] == "list" else [])
                     if c["t"] == "struct"]
                # only structs made of leaves and structs: an ArrayProxy over views with array / union members is
                # not supported by assign (arrayproxy_fields reads .members of every element layout)
                cands = [c for c in cands if _plain_struct(c)]
                if cands:
                    rng.choice(cands)["px"] = rng.choice([1, 2, 3])
        if count_cells(r) > MAX_CELLS or count_cells(l) > 40:
            for side in (l, r):
                for c in [side] + list(side.get("f", {}).values() if isinstance(side.get("f"), dict) else []) + list(side.get("e", []) if isinstance(side.get("e"), list) else []):
                    if isinstance(c, dict):
                        c.pop("px", None)
            if count_cells(r) > MAX_CELLS or count_cells(l) > 40:
                continue
        return l, r, rand_fields(rng, l, r)


# ---------------------------------------------------------------------------------------

def has_fields(node):
    return node["t"] in ("struct", "array", "dict", "list")


def judge(rep, rows, chunks):
    rej, states = utilcheck.validate_chunks("AssignTable", rows, chunks=chunks)
    rep.add("table_rows_validated", len(rows))
    rep.add("table_states", states)
    for r in rej:
        row = rows[r["tid"] - 1]
        lab = "signed_unwrap_unchecked" if r.get("signed_unwrap_unchecked") else "unexplained"
        rep.coverage.setdefault("rejected_rows_by_label", {}).setdefault(lab, 0)
        rep.coverage["rejected_rows_by_label"][lab] += 1
        utilcheck.violation(rep, {
            "component": "assign",
            "cfg": {"l": row["l"], "r": row["r"], "fs": row["fs"], "observed_raised": row["obs"]["raised"],
                    # TRUE iff the observation is exactly what "a signed field reached by unwrapping a
                    # single-field View is not shape-checked" predicts (finding in notes/C40.md)
                    "signed_unwrap_unchecked": bool(r.get("signed_unwrap_unchecked"))},
            "clauses": sorted(r["clauses"]), "observed": row["obs"], "expected": r["expected"]})
    return rej


def self_test(rep, rows, rng):
    """corrupt-a-field: flip an observation; the table spec must reject exactly those rows."""
    picked = []
    for _ in range(400):
        if len(picked) >= 12:
            break
        row = copy.deepcopy(rng.choice(rows))
        o = row["obs"]
        how = rng.choice(["raise", "drop", "extra", "swap"])
        if how == "raise":
            o["raised"] = not o["raised"]
            o["pairs"] = []
        elif o["raised"] or not o["pairs"]:
            continue
        elif how == "drop":
            del o["pairs"][rng.randrange(len(o["pairs"]))]
        elif how == "extra":
            o["pairs"].append([["zz"], ["zz"]])
        else:
            if len(o["pairs"]) < 2:
                continue
            o["pairs"][0][1], o["pairs"][1][1] = o["pairs"][1][1], o["pairs"][0][1]
        picked.append(row)
    if not picked:
        return
    rej, _ = utilcheck.validate("AssignTable", picked)
    rep.coverage["selftest_corrupted_rows"] = len(picked)
    rep.coverage["selftest_corrupted_rejected"] = len(rej)
    if len(rej) != len(picked):
        rep.machinery(f"AssignTable: only {len(rej)} of {len(picked)} corrupted rows rejected")


def run(rep):
    thorough = rep.tier == "thorough"
    rng = random.Random(rep.seed)
    # 1. sanity laws of the definitions over the bounded layout universe (TLC only)
    res = utilcheck.run_mc("AssignMC", MC_CFG % (1 if thorough else 0), workers=utilcheck.procs(8 if thorough else 4))
    if res.invariant_violated:
        utilcheck.violation(rep, {"component": "Assign.tla", "clauses": ["MC:" + res.invariant_violated],
                                  "what": "a sanity law of the definitions fails", "tlc_tail": res.out.splitlines()[-40:]})
    rep.add("states", res.distinct)
    rep.add("transitions", res.generated)
    rep.coverage["mc"] = {"module": "AssignMC", "level": 1 if thorough else 0, "triples": res.distinct,
                          "wall_s": round(res.wall_s, 2)}
    # 2. rows observed on the real assign
    fams = [("depth1", exhaustive_universe(), 1000), ("nested", nested_family(), 500),
            ("wrappers", wrapper_family(), 400)]
    cases = []
    for name, uni, nq in fams:
        cases += list(uni) if thorough else rng.sample(uni, nq)
        rep.coverage["enumerated_universe_" + name] = len(uni)
    rep.coverage["exhaustive"] = thorough
    rep.coverage["enumerated_rows"] = len(cases)
    nrand = 8000 if thorough else 1000
    cases += [random_case(rng) for _ in range(nrand)]
    rep.coverage["random_rows"] = nrand
    procs = utilcheck.procs()
    size = max(40, (len(cases) + procs * 4 - 1) // (procs * 4))
    size -= size % 40
    parts = [cases[i:i + size] for i in range(0, len(cases), size)]
    with mp.Pool(min(procs, len(parts))) as pool:
        obs = [o for part in pool.map(_observe_task, parts) for o in part]
    rows = [{"l": l, "r": r, "fs": fs, "obs": o} for (l, r, fs), o in zip(cases, obs)]
    rej = judge(rep, rows, utilcheck.procs(8) if thorough else min(2, utilcheck.procs()))
    # 3. measured counts
    seen, assigning, raising_struct = set(), 0, 0
    excs: dict = {}
    for row in rows:
        k = json.dumps([row["l"], row["r"], row["fs"]], sort_keys=True)
        if k in seen:
            continue
        seen.add(k)
        if row["obs"]["raised"]:
            excs[row["obs"]["exc"]] = excs.get(row["obs"]["exc"], 0) + 1
            if has_fields(row["l"]) and has_fields(row["r"]):
                raising_struct += 1
        elif row["obs"]["pairs"]:
            assigning += 1
    rep.coverage["distinct_rows"] = len(seen)
    rep.coverage["distinct_rows_assigning"] = assigning
    rep.coverage["distinct_rows_raising_both_structured"] = raising_struct
    rep.coverage["exception_classes"] = excs
    rep.coverage["evaluations"] = len(rows)
    rep.coverage["traces_validated_against_impl"] = len(rows)
    rep.coverage["distinct_nontrivial"] = assigning + raising_struct
    rep.coverage["rule"] = (
        "rows = (lhs tree, rhs tree, field selection): a seeded sample (quick) / all (thorough) of three enumerated "
        "universes -- depth1: {depth-1 struct/array/union layouts over names a,b and leaves u5,u6,s5; dicts and "
        "lists of Signals/Const/int} x {4 AssignTypes, 6 iterables}; nested: {a: X, b: u5} vs {a: Y, b: u5} for all "
        "depth-1 layouts X, Y x 11 selections incl. nested mappings; wrappers: values wrapped 0-2 times in "
        "single-field structs / length-1 arrays on both sides x 4 AssignTypes -- plus seeded random depth<=2 trees (names a,b,c, arrays "
        "1-3, unions, dict/list wrappers, nested mappings) where one side is a near copy of the other; each row "
        "runs the real assign and simulates its statements. distinct_nontrivial = distinct rows that assigned at "
        "least one cell + distinct rows that raised although both sides are field-containing")
    for row in rows[:1] + [r for r in rows if not r["obs"]["raised"] and len(r["obs"]["pairs"]) > 1][:2]:
        rep.sample(row)
    bad = {r["tid"] for r in rej}
    good = [row for i, row in enumerate(rows) if i + 1 not in bad]
    self_test(rep, good, random.Random(rep.seed + 1))
    rep.assumptions += ["Amaranth Python simulator is faithful for combinational assignments",
                        "right cells hold distinct values 1..15, so a copied value identifies its source",
                        "union members are plain leaves (a union is one observable cell)"]


def replay(rep, path):
    d = json.load(open(path))
    cfg = d["cfg"]
    case = (cfg["l"], cfg["r"], cfg["fs"])
    obs = observe([case])[0]
    judge(rep, [{"l": case[0], "r": case[1], "fs": case[2], "obs": obs}], 1)
