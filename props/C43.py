"""C43 Testbench helpers call methods exactly once (spec: specs/util/Testbench.tla).

MC   : TestbenchMC -- every pair of testbench programs of a bounded universe (call, call_try,
       call_init+call_do, CallTrigger with several calls / samples, until_done, until_all_done,
       gaps) x every readiness valuation in every cycle; the two mocks (scripted enable,
       state-dependent enable, validate_arguments) x every enable/request/argument valuation.
       Inv + the property's sentences as an action property (StepOK).
S->C : every model transition (EDGE) is replayed into the real TestbenchIO / CallTrigger /
       MethodMock along edge-cover walks: one simulation per walk, the walk's inputs become
       the hardware scripts; per cycle the executions, the operations that return and their
       results, the mock enables / results / python state are compared with the edge.
C->S : seeded random scripts (more methods and processes, longer programs, mid-cycle operation
       starts, mid-cycle argument changes, mock delays) are simulated with the real helpers,
       recorded cycle by cycle and validated by TestbenchTrace.
"""
from __future__ import annotations

import copy
import json
import random
from concurrent.futures import ProcessPoolExecutor

from vlib import tlc, utilcheck
from vlib.comp import _key

MC_CFG = """SPECIFICATION Spec
VIEW View
INVARIANT Inv
PROPERTY StepOK
ACTION_CONSTRAINT Emit
CHECK_DEADLOCK FALSE
CONSTANTS Mode = "%s"
MaxAge = %d
MaxQ = %d
Part = %d
NParts = %d
Small = %s
"""

COMPONENT = "transactron.testing"


def _sim(script):
    from vlib import tbharness
    return tbharness.run_script(script)


def simulate(scripts):
    if len(scripts) < 8:
        return [_sim(s) for s in scripts]
    with ProcessPoolExecutor(utilcheck.procs()) as ex:
        return list(ex.map(_sim, scripts, chunksize=max(1, len(scripts) // (4 * utilcheck.procs()))))


# ---------------------------------------------------------------------------------------
# script <-> trace

def cfg_of(script):
    mk = script.get("mock")
    return {"procs": [[{"api": o["api"], "items": o["items"], "gap": o.get("gap", 0)} for o in ops]
                      for ops in script["procs"]],
            "valid": mk["valid"] if mk else 0, "nsrv": len(script["srv"]), "hasmock": 1 if mk else 0}


def inputs_of(script, t):
    mk = script.get("mock")
    return {"rdy": [s["rdy"][t] for s in script["srv"]],
            "men": mk["en"][t] if mk else 0,
            "req": [mk["req"][0][t], mk["req"][1][t]] if mk else [0, 0],
            "arg": [mk["argf"][0][t], mk["argf"][1][t]] if mk else [0, 0]}


def to_trace(script, rec):
    T = script["T"]
    lines = []
    for t, ln in enumerate(rec["lines"]):
        d = dict(ln)
        d["inp"] = inputs_of(script, t)
        d["ends"] = []
        lines.append(d)
    for e in rec["events"]:
        if 1 <= e["end"] <= T:
            lines[e["end"] - 1]["ends"].append({"p": e["p"] + 1, "op": e["op"] + 1, "start": e["start"], "res": e["res"]})
    return {"cfg": cfg_of(script), "lines": lines}


def finish_mock(mk, rng):
    """argf (the argument present at the clock edge) is what the model sees; the ROM holds
    argf ^ p2 and the testbench changes the perturbation twice inside every cycle."""
    T = len(mk["en"])
    mk.setdefault("p1", [rng.randrange(16) for _ in range(T)])
    mk.setdefault("p2", [rng.choice([0, 0, rng.randrange(16)]) for _ in range(T)])
    mk["arg"] = [[a ^ p for a, p in zip(mk["argf"][0], mk["p2"])], list(mk["argf"][1])]
    return mk


# ---------------------------------------------------------------------------------------
# MC + edge replay

def model_check(rep, mode, nparts, small, max_age=2, max_q=2):
    cfgs = [MC_CFG % (mode, max_age, max_q, i, nparts, "TRUE" if small else "FALSE") for i in range(nparts)]
    results = utilcheck.run_mc_parts("TestbenchMC", cfgs)
    edges, inits = [], []
    for part, res in enumerate(results):
        if res.invariant_violated:
            utilcheck.violation(rep, {"component": COMPONENT, "what": f"model violates {res.invariant_violated}",
                                      "clauses": ["MC:" + res.invariant_violated], "tlc_tail": res.out.splitlines()[-40:]})
            continue
        rep.add("states", res.distinct)
        rep.add("transitions", res.generated)
        for e in tlc.tagged(res, "EDGE"):
            e["cid"] = (part, e["cid"])
            edges.append(e)
        for i in tlc.tagged(res, "INIT"):
            i["cid"] = (part, i["cid"])
            inits.append(i)
    rep.coverage.setdefault("mc", []).append(
        {"module": "TestbenchMC", "mode": mode, "parts": nparts, "configs": len(inits), "edges": len(edges),
         "max_age": max_age, "depth": max(r.depth for r in results), "wall_s": round(max(r.wall_s for r in results), 2)})
    return edges, inits


def _norm_state(s):
    """JSON of a model state: functions over 0..n-1 come back as dicts, empty ones as []."""
    out = {}
    for k, v in s.items():
        if isinstance(v, dict):
            v = [v[str(i)] for i in range(len(v))]
        out[k] = v
    return out


def _seq(v):
    if isinstance(v, dict):
        return [v[str(i)] for i in range(len(v))]
    return v


def walk_script(cfg, walk, rng):
    T = len(walk) + 1
    inps = [e["lab"]["inp"] for e in walk]
    pad = lambda xs, fill: xs + [fill]
    script = {"T": T, "srv": [{"rdy": pad([i["rdy"][m] for i in inps], 0)} for m in range(cfg["nsrv"])],
              "procs": [[dict(o, pre=rng.randrange(2)) for o in ops] for ops in cfg["procs"]], "mock": None}
    if cfg["hasmock"]:
        mk = {"en": pad([i["men"] for i in inps], 0),
              "req": [pad([i["req"][j] for i in inps], 0) for j in range(2)],
              "argf": [pad([i["arg"][j] for i in inps], 0) for j in range(2)],
              "valid": cfg["valid"], "delay": [rng.choice([0, 1, 2]), rng.choice([0, 1, 3])]}
        script["mock"] = finish_mock(mk, rng)
    return script


def compare_edge(cfg, e, t, line, ends_at):
    """Observed cycle t of a walk against the expectation of edge e.  Returns failing clause names."""
    exp = e["lab"]["exp"]
    frm = _norm_state(e["from"])
    to = _norm_state(e["to"])
    bad = []
    run = _seq(exp["run"])
    if [s["run"] for s in line["srv"]] != list(run):
        bad.append("RunMatches")
    if [s["cnt"] for s in line["srv"]] != list(frm["cnt"]):
        bad.append("CountExact")
    want = sorted(_key([x["p"], x["op"], t - x["age"], [[r[0] + t] + r[1:] if r else [] for r in x["res"]]]) for x in exp["ends"])
    got = sorted(_key([x["p"], x["op"], x["start"], x["res"]]) for x in ends_at)
    if want != got:
        bad.append("EndsMatch")
    if cfg["hasmock"]:
        mo = line["mock"]
        if [m["en"] for m in mo] != exp["men"]:
            bad.append("MockEnable")
        if [m["done"] for m in mo] != exp["done"] or [m["ran"] for m in mo] != exp["done"]:
            bad.append("MockDone")
        if any(exp["done"][j] and mo[j]["res"] != exp["res"][j] for j in range(2)):
            bad.append("MockReturnSameCycle")
        if [line["effA"], line["effB"]] != exp["done"] or line["S"] != to["S"] or line["Q"] != list(to["Q"]):
            bad.append("MockEffectOncePerExecution")
    return bad


def replay_edges(rep, edges, inits, rng):
    by_cfg: dict = {}
    for e in edges:
        by_cfg.setdefault(e["cid"], []).append(e)
    cfgs = {i["cid"]: i["cfg"] for i in inits}
    init_state = {i["cid"]: _key(i["st"]) for i in inits}
    jobs = []
    for cid, es in by_cfg.items():
        ids: dict = {}
        init = ids.setdefault(init_state[cid], 0)
        pairs = [(ids.setdefault(_key(e["from"]), len(ids)), ids.setdefault(_key(e["to"]), len(ids))) for e in es]
        for w in utilcheck.plan_walks_ids(len(ids), init, pairs, max_len=40):
            walk = [es[i] for i in w]
            jobs.append((cid, walk, walk_script(cfgs[cid], walk, rng)))
    recs = simulate([j[2] for j in jobs])
    covered, nsteps, failed = set(), 0, 0
    for (cid, walk, script), rec in zip(jobs, recs):
        cfg = cfgs[cid]
        ends = {}
        for ev in rec["events"]:
            ends.setdefault(ev["end"] - 1, []).append({"p": ev["p"] + 1, "op": ev["op"] + 1, "start": ev["start"], "res": ev["res"]})
        for t, e in enumerate(walk):
            nsteps += 1
            bad = compare_edge(cfg, e, t, rec["lines"][t], ends.get(t, []))
            covered.add((cid, _key(e["from"]), _key(e["lab"]["inp"])))
            if bad:
                failed += 1
                if failed <= 20:
                    sc = dict(script, T=t + 2)
                    utilcheck.violation(rep, {"component": COMPONENT, "cfg": cfg, "clauses": ["EdgeReplay:" + b for b in bad],
                                              "what": f"cycle {t}: observed differs from the model edge",
                                              "script": script, "cycle": t, "observed": rec["lines"][t],
                                              "observed_ends": ends.get(t, []), "model_edge": e["lab"], "model_from": e["from"]})
                break
    rep.add("edges_total", len(edges))
    rep.add("edges_replayed_into_impl", len(covered))
    rep.add("replay_walks", len(jobs))
    rep.add("replay_cycles", nsteps)
    if jobs:
        rep.sample({"kind": "edge-walk", "cfg": cfgs[jobs[0][0]], "inputs": [e["lab"]["inp"] for e in jobs[0][1][:6]]})
    if not failed and len(covered) != len(edges):
        raise tlc.MachineryError(f"edge cover incomplete: {len(covered)} of {len(edges)}")


# ---------------------------------------------------------------------------------------
# random scripts

def bits(rng, T, dens, tail_ones=0):
    out = []
    while len(out) < T:
        b = 1 if rng.random() < dens else 0
        out += [b] * rng.choice([1, 1, 1, 2, 3])
    out = out[:T]
    for i in range(max(0, T - tail_ones), T):
        out[i] = 1
    return out


def random_op(rng, owned, allm):
    if owned:
        api = rng.choice(["call", "call", "call_try", "call_try", "init_do", "trig", "trig", "trig_any", "trig_all"])
    else:
        api = rng.choice(["trig", "trig", "trig_any", "trig_all"])
    arg = lambda: rng.randrange(1, 16)
    if api in ("call", "call_try", "init_do"):
        items = [["call", rng.choice(owned), arg()]]
    else:
        items = []
        ms = list(owned)
        rng.shuffle(ms)
        for m in ms[:rng.randint(0 if allm else 1, len(ms))]:
            items.append(["call", m, arg()])
        for _ in range(rng.randint(0, 2)):
            if allm:
                items.append(["samp", rng.choice(allm)])
        if api == "trig" and rng.random() < 0.5:
            # value samples only in single-cycle triggers: how until_done treats a sampled
            # plain value is not part of the property
            items.append(["val"])
        if not items:
            items.append(["samp", rng.choice(allm)] if allm else ["val"])
        rng.shuffle(items)
    return {"api": api, "items": items, "gap": rng.choice([0, 0, 0, 1, 1, 2, 3]), "pre": rng.randrange(2)}


def random_script(rng, T):
    nsrv = rng.randint(1, 4)
    nproc = rng.randint(1, 3)
    owner = [rng.randrange(nproc) for _ in range(nsrv)]
    allm = list(range(nsrv))
    script = {"T": T,
              "srv": [{"rdy": bits(rng, T, rng.choice([0.15, 0.4, 0.6, 0.9]))} for _ in range(nsrv)],
              "procs": [], "mock": None}
    for p in range(nproc):
        owned = [m for m in allm if owner[m] == p]
        script["procs"].append([random_op(rng, owned, allm) for _ in range(rng.randint(1, 12))])
    if rng.random() < 0.6:
        mk = {"en": bits(rng, T, rng.choice([0.3, 0.6, 0.9])),
              "req": [bits(rng, T, rng.choice([0.4, 0.8])), bits(rng, T, rng.choice([0.3, 0.7]))],
              "argf": [[rng.randrange(16) for _ in range(T)], [rng.randrange(16) for _ in range(T)]],
              "valid": rng.choice([0, 0, 2, 3]), "delay": [rng.choice([0, 1, 2]), rng.choice([0, 1, 3])]}
        script["mock"] = finish_mock(mk, rng)
    return script


def situations(traces):
    """Distinct (api, #items, waited cycles capped, outcome) situations of returned operations and
    (mock, enabled, requested, executed) situations met in the recorded simulations."""
    seen = set()
    for tr in traces:
        cfg = tr["cfg"]
        for ln in tr["lines"]:
            for e in ln["ends"]:
                op = cfg["procs"][e["p"] - 1][e["op"] - 1]
                seen.add(("op", op["api"], len(op["items"]), min(ln["cyc"] - e["start"], 3),
                          tuple(bool(r) for r in e["res"])))
            for j, m in enumerate(ln.get("mock", [])):
                seen.add(("mock", j, m["en"], m["req"], m["done"], min(len(ln["Q"]), 2)))
    return seen


def report_rejects(rep, scripts, traces, rej):
    for r in rej:
        i = r["tid"] - 1
        ln = r["line"]
        utilcheck.violation(rep, {"component": COMPONENT, "cfg": traces[i]["cfg"], "clauses": sorted(r["clauses"]),
                                  "line": ln, "observed": traces[i]["lines"][ln - 1], "model_state": r.get("state"),
                                  "expected_ends": r.get("expected_ends"), "expected_run": r.get("expected_run"),
                                  "script": scripts[i]})


def corrupt_self_test(rep, traces, rng):
    picked = []
    for _ in range(400):
        if len(picked) >= 10:
            break
        t = copy.deepcopy(rng.choice(traces))
        li = rng.randrange(len(t["lines"]))
        ln = t["lines"][li]
        how = rng.choice(["run", "res", "none", "drop", "mockres", "eff"])
        if how == "run" and ln["srv"]:
            s = rng.choice(ln["srv"])
            s["run"] ^= 1
        elif how == "res" and ln["ends"] and any(r for r in ln["ends"][0]["res"]):
            r = next(r for r in ln["ends"][0]["res"] if r)
            r[0] += 1
        elif how == "none" and ln["ends"] and any(len(r) == 3 for r in ln["ends"][0]["res"]):
            e = ln["ends"][0]
            k = next(k for k, r in enumerate(e["res"]) if len(r) == 3)
            e["res"][k] = []
        elif how == "drop" and ln["ends"]:
            ln["ends"].pop()
        elif how == "mockres" and ln.get("mock") and ln["mock"][0]["ran"]:
            ln["mock"][0]["res"] = (ln["mock"][0]["res"] + 1) % 16
        elif how == "eff" and ln.get("mock") and ln["mock"][0]["done"]:
            ln["effA"] = 2
        else:
            continue
        picked.append((t, li + 1))
    if not picked:
        return
    rej, _ = utilcheck.validate("TestbenchTrace", [p[0] for p in picked])
    at = {r["tid"]: r["line"] for r in rej}
    ok = sum(1 for i, (_, li) in enumerate(picked) if at.get(i + 1) == li)
    rep.coverage["selftest_corrupted_traces"] = len(picked)
    rep.coverage["selftest_corrupted_rejected"] = ok
    if ok != len(picked):
        rep.machinery(f"TestbenchTrace: only {ok} of {len(picked)} corrupted traces rejected at the corrupted line")


def run(rep):
    thorough = rep.tier == "thorough"
    rng = random.Random(rep.seed)
    # 1. + 2.  model check both halves, replay every edge
    for mode, nparts in (("mock", 1), ("call", 16 if thorough else 8)):
        edges, inits = model_check(rep, mode, nparts, not thorough, max_age=3 if thorough else 2,
                                   max_q=3 if thorough else 2)
        if edges:
            replay_edges(rep, edges, inits, rng)
    # 3.  random scripts through the real helpers
    ntr, T = (2000, 60) if thorough else (400, 40)
    scripts = [random_script(rng, T) for _ in range(ntr)]
    recs = simulate(scripts)
    traces = [to_trace(s, r) for s, r in zip(scripts, recs)]
    rej, states = utilcheck.validate_chunks("TestbenchTrace", traces, chunks=8 if thorough else 2)
    rep.add("traces_validated_against_impl", len(traces))
    rep.add("trace_states", states)
    report_rejects(rep, scripts, traces, rej)
    sit = situations(traces)
    rep.coverage["trace_cycles"] = ntr * T
    rep.coverage["trace_situations"] = len(sit)
    rep.coverage["operations_returned"] = sum(len(ln["ends"]) for t in traces for ln in t["lines"])
    rep.sample({"kind": "impl-simulation", "cfg": traces[0]["cfg"], "lines": traces[0]["lines"][:3]})
    # 4.  binding self-test
    bad = {r["tid"] for r in rej}
    good = [t for i, t in enumerate(traces) if i + 1 not in bad]
    if good:
        corrupt_self_test(rep, good, random.Random(rep.seed + 1))
    rep.coverage["evaluations"] = rep.coverage.get("replay_cycles", 0) + ntr * T
    rep.coverage["distinct_nontrivial"] = rep.coverage.get("edges_total", 0) + len(sit)
    rep.coverage["rule"] = (
        "MC: every pair of testbench programs (<=2 operations of call / call_try / call_init+call_do / CallTrigger "
        "single-cycle, until_done, until_all_done with calls, samples and gaps) x every readiness valuation per "
        "cycle, and the two mocks x every enable/request/argument valuation; S->C: every model edge (programs, "
        "state, inputs) replayed into the real helpers; C->S: seeded random scripts (1-4 methods, 1-3 processes, "
        "<=12 operations each, mid-cycle starts, mid-cycle argument changes, mock delays 0-3 ns). "
        "distinct_nontrivial = model edges replayed + distinct (api, #items, waited cycles capped, which items "
        "returned a result) / (mock, enabled, requested, executed, queue length capped) situations observed")
    rep.assumptions += [
        "a TestbenchIO is driven by one testbench process at a time; a CallTrigger calls a method at most once",
        "value samples appear only in single-cycle triggers (how until_done treats them is not part of the property)",
        "cycle-exact stimulus comes from hardware ROMs indexed by a cycle counter; mock enable scripts read a "
        "python cycle counter maintained by a simulator process (resumed before testbenches)",
        "python-side mock state is read in the middle of the following cycle (mock delays are nanoseconds)"]


def replay(rep, path):
    d = json.load(open(path))
    script = d["script"]
    rec = _sim(script)
    tr = [to_trace(script, rec)]
    rej, _ = utilcheck.validate("TestbenchTrace", tr)
    report_rejects(rep, [script], tr, rej)
    rep.add("traces_validated_against_impl", 1)
