"""C07 Eager scheduler wastes no cycle (specs/core/TxnCore.tla, TxnCoreTrace.tla, TxnCoreMC.tla)."""
from vlib.core import core_check

OPTS = [dict(), dict(max_m=2, max_t=4, p_nonexcl=0.2), dict(p_rel=1.0), dict(p_struct=0.7, p_nonexcl=0.4),
        dict(p_chain=1.0, max_t=4, max_m=3, p_rel=0.3, p_struct=0.25, p_enable=0.15)]


def run(rep):
    core_check(rep, "C07", [dict(o) for o in OPTS], 80, 2000, nontrivial_key="impl_cycles_with_ready_not_run")
    rep.coverage["rule"] = ("random designs from vlib/coregen.py's grammar built with the real API, every valuation of the "
                            "control inputs (or random ones when there are many), both directions bound by TxnCoreTrace; "
                            "clause NoWastedCycle with the specification's conflict relation; distinct_nontrivial = cycles in which a ready+runnable transaction did not run")


def replay(rep, path):
    from vlib.core import replay_case
    replay_case(rep, "C07", path)
