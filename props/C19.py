"""C19 Serializer and ArgumentsToResultsZipper keep requests and responses matched
(spec: specs/lib/ReqRes.tla)."""
from vlib import connharness as ch


def build(cfg):
    from transactron.lib.adapters import Adapter
    from transactron.lib.reqres import Serializer, ArgumentsToResultsZipper
    from transactron.utils.data_repr import data_layout
    w = cfg["w"]
    lay = data_layout(w)
    if cfg["kind"] == "zip":
        dut = ArgumentsToResultsZipper(lay, lay)
        return (dut, {"write_args": dut.write_args, "write_results": dut.write_results, "read": dut.read,
                      "peek_arg": dut.peek_arg}, {}, None, {})
    req = Adapter(i=lay)        # server request method: readiness = input, argument = witness
    resp = Adapter(o=lay)       # server response method: readiness and returned value = inputs
    dut = Serializer(port_count=cfg["ports"], serialized_req_method=req.iface,
                     serialized_resp_method=resp.iface, depth=cfg["depth"])
    methods = {}
    for i in range(cfg["ports"]):
        methods[f"in{i + 1}"] = dut.serialize_in[i]
    for i in range(cfg["ports"]):
        methods[f"out{i + 1}"] = dut.serialize_out[i]
    methods["clear"] = dut.clear

    def extra(m):
        m.submodules.srv_req = req
        m.submodules.srv_resp = resp

    pub = {"qran": req.done, "qarg": req.data_out.as_value(), "pran": resp.done}
    inputs = {"qrdy": req.en, "prdy": resp.en, "pval": resp.data_in.as_value()}
    return dut, methods, pub, extra, inputs


def methods(cfg):
    if cfg["kind"] == "zip":
        return ["write_args", "write_results", "read", "peek_arg"]
    n = cfg["ports"]
    return [f"in{i + 1}" for i in range(n)] + [f"out{i + 1}" for i in range(n)] + ["clear"]


def has_arg(m):
    return m.startswith("in") or m in ("write_args", "write_results")


def post(cfg, line):
    if cfg["kind"] == "ser" and not line["pub"]["qran"]:
        line["pub"]["qarg"] = 0


class Server:
    """Driver-side in-order server with random latency (the environment of the Serializer):
    follows the executed requests/responses from the observed lines; a `clear` flushes it."""

    def __init__(self, cfg):
        self.cfg = cfg
        self.srv = []      # [payload, cycle from which the response is available]
        self.now = 0
        self.lat = 1

    def update(self, line):
        self.now += 1
        if self.cfg["kind"] != "ser":
            return
        if line["clear"]["done"]:
            self.srv = []
            return
        if line["pub"]["pran"]:
            self.srv.pop(0)
        if line["pub"]["qran"]:
            self.srv.append([line["pub"]["qarg"], self.now + self.lat])


def gen_in(cfg, rng, tr, ph):
    if cfg["kind"] != "ser":
        return {}
    tr.lat = rng.choice(ph["lat"])
    q = 1 if rng.random() < ph["q"] else 0
    if tr.srv:
        p = 1 if (tr.srv[0][1] <= tr.now + 1 and rng.random() < ph["p"]) else 0
        v = tr.srv[0][0]
    else:
        p = 1 if rng.random() < 0.2 else 0     # an idle server may present ready; nothing is pending
        v = rng.randrange(1 << cfg["w"])
    return {"qrdy": q, "prdy": p, "pval": v}


def gen_arg(cfg, m, rng, tr):
    if cfg["kind"] == "ser":
        i = int(m[2:])
        return i * 4 + rng.randrange(4)        # client id in the upper bits, 2-bit tag
    return rng.randrange(1, 1 << cfg["w"])


def want(cfg, m, rng, tr, p):
    if m == "clear":
        return rng.random() < p * 0.05
    return rng.random() < p


COMP = ch.IOComponent(
    spec="ReqRes", name="Serializer/ArgumentsToResultsZipper", build=build, methods=methods, has_arg=has_arg,
    gen_arg=gen_arg, gen_in=gen_in, tracker=Server, want=want, post=post, module=__name__, has_ghost=True,
    impl_cfg=lambda c: dict(c, w=4),
    shadow=lambda cfg: [m for m in methods(cfg) if not m.startswith("peek") and m != "clear"],   # peek / clear forward nonexclusive methods
    in_phase=lambda cfg, rng: {"q": rng.choice([0.2, 0.6, 1.0, 1.0]), "p": rng.choice([0.1, 0.5, 1.0]),
                               "lat": rng.choice([[0], [0, 1, 2], [0, 3, 6], [5]])},
)


def run(rep):
    thorough = rep.tier == "thorough"
    cfgs = [{"kind": "ser", "ports": p, "depth": d, "w": 4} for p in (2, 3) for d in (1, 2, 3, 4)]
    cfgs += [{"kind": "zip", "ports": 0, "depth": 2, "w": 4}, {"kind": "zip", "ports": 0, "depth": 2, "w": 2}]
    jobs = ch.random_jobs(cfgs, 24 if thorough else 4, 600 if thorough else 250, rep.seed)
    traces = ch.standard_check(COMP, rep, jobs_by_cfg=jobs, split=4)
    delivered = pairs = clears = 0
    for t in traces:
        for ln in t["cycles"]:
            if t["cfg"]["kind"] == "ser":
                delivered += ln["pub"]["pran"]
                clears += ln["clear"]["done"]
            else:
                pairs += ln["read"]["done"]
    rep.coverage["responses_delivered"] = delivered
    rep.coverage["clears"] = clears
    rep.coverage["pairs_read"] = pairs
    rep.coverage["rule"] = (
        "MC: Serializer 2 ports x depth 1-2 x 2 tags per client and the Zipper, all request sets / server "
        "readiness inputs in every reachable FIFO state (edge pass), history pass with per-client request/response "
        "histories (total length <= 4, Zipper <= 5) and the prefix/no-loss invariant; S->C: every (state, requests, "
        "inputs) group driven into the real circuit (which of two requesting clients wins is chosen by the "
        "implementation); C->S: random interleavings of client requests, in-order server latencies 0-6 and response "
        "readiness for ports 2-3 x depth 1-4, Zipper with 2/4-bit data; evaluations = responses delivered + pairs "
        "read (each checked against the client's own request history); distinct_nontrivial = model edge groups replayed")
    rep.coverage["evaluations"] = delivered + pairs
    rep.coverage["distinct_nontrivial"] = rep.coverage.get("edge_groups_replayed_into_impl", 0)
    rep.assumptions += [
        "Amaranth Python simulator is faithful to the elaborated netlist",
        "server answers in order (echo of the request payload) and is flushed together with Serializer.clear "
        "(driver obeys; stated as Assume in the spec)",
    ]


def replay(rep, path):
    ch.replay_file(COMP, rep, path)
