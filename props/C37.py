"""C37 Shifters and rotators are correct
(spec: specs/fn/Shifters.tla, row oracle specs/fn/C37Rows.tla, laws specs/fn/C37Laws.tla).

All twelve functions of transactron/utils/amaranth_ext/shifter.py, tabulated for every value,
every offset 0..width (0..length) and both placeholder bits / arbitrary placeholder entries."""
import itertools

from vlib.table import Dut, Family, standard_check, replay_file

LEVEL = "exploration"
RAISED = 999999      # output recorded when building / elaborating the wrapper raises


def _bits_for(n):
    return max(n, 0).bit_length()


def _mk(ins, results):
    """results: list of Values -> Dut with one output signal per result."""
    from amaranth import Module, Signal, Value
    m = Module()
    outs = []
    for k, r in enumerate(results):
        r = Value.cast(r)
        o = Signal(len(r), name=f"o{k}")
        m.d.comb += o.eq(r.as_unsigned() if r.shape().signed else r)
        outs.append(o)
    return m, outs


# ---- bit shifters ----------------------------------------------------------------------------------
def _bit_widths(tier):
    return range(1, 9) if tier == "thorough" else range(1, 8)


def _offset_shape(cfg, limit):
    """offset operand: "range" = range(limit + 1), "wide" = one bit wider, "narrow" = range(limit): an index signal
    that cannot hold `limit` itself (narrower than bits_for(limit) when limit is a power of two)"""
    from amaranth import Shape
    if cfg["ow"] == "narrow":
        return Shape.cast(range(max(limit, 1)))
    return Shape.cast(range(limit + 1)) if cfg["ow"] == "range" else Shape(_bits_for(limit) + 1)


def _max_off(cfg, limit):
    """largest offset that is documented (<= limit) and representable in the offset operand"""
    if cfg["ow"] == "narrow":
        return min(limit, (1 << _bits_for(max(limit, 1) - 1)) - 1) if limit > 1 else 0
    return limit


def _shift_cfgs(tier):
    res = []
    for w in _bit_widths(tier):
        res.append({"w": w, "ow": "range", "ph": "sig"})
        res.append({"w": w, "ow": "range" if w % 2 else "wide", "ph": "default"})
        if w in (1, 2, 5):
            res.append({"w": w, "ow": "wide", "ph": "const1"})
        if w in (2, 4, 8, 3):
            res.append({"w": w, "ow": "narrow", "ph": "sig"})
    return res


def _shift_build(name):
    def build(cfg):
        from amaranth import Signal
        from transactron.utils.amaranth_ext import shifter as S
        f = getattr(S, name)
        x = Signal(cfg["w"])
        off = Signal(_offset_shape(cfg, cfg["w"]))
        if cfg["ph"] == "sig":
            ph = Signal(1)
            m, outs = _mk([x, off, ph], [f(x, off, ph)])
            return Dut(m, [x, off, ph], outs)
        if cfg["ph"] == "const1":
            m, outs = _mk([x, off], [f(x, off, placeholder=1)])
        else:
            m, outs = _mk([x, off], [f(x, off)])
        return Dut(m, [x, off], outs)

    return build


def _shift_domain(cfg):
    phs = {"sig": (0, 1), "default": (0,), "const1": (1,)}[cfg["ph"]]
    return ([x, off, ph] for x in range(1 << cfg["w"]) for off in range(_max_off(cfg, cfg["w"]) + 1) for ph in phs)


def _rot_cfgs(tier):
    return [{"w": w, "ow": ow} for w in _bit_widths(tier)
            for ow in (("range", "wide", "narrow") if w in (2, 4) else ("range", "wide") if w <= 4 else ("range",))]


def _rot_build(name):
    def build(cfg):
        from amaranth import Signal
        from transactron.utils.amaranth_ext import shifter as S
        x = Signal(cfg["w"])
        off = Signal(_offset_shape(cfg, cfg["w"]))
        m, outs = _mk([x, off], [getattr(S, name)(x, off)])
        return Dut(m, [x, off], outs)

    return build


def _gen_cfgs(tier):
    return [{"w": w, "ow": "range"} for w in (range(1, 6) if tier == "thorough" else range(1, 5))]


def _gen_build(name):
    def build(cfg):
        from amaranth import Signal
        from transactron.utils.amaranth_ext import shifter as S
        a, b = Signal(cfg["w"]), Signal(cfg["w"])
        off = Signal(_offset_shape(cfg, cfg["w"]))
        m, outs = _mk([a, b, off], [getattr(S, name)(a, b, off)])
        return Dut(m, [a, b, off], outs)

    return build


# ---- vector shifters -------------------------------------------------------------------------------
def _elem_shape(cfg):
    from amaranth.lib import data
    k, ew = cfg["elem"], cfg["ew"]
    if k == "flat":
        return ew
    if k == "array":
        return data.ArrayLayout(1, ew)
    return data.StructLayout({"a": 1, "b": ew - 1}) if ew > 1 else data.StructLayout({"a": 1})


def _vec_grid(tier, budget_q, budget_t):
    """(n, ew, elem) with n*ew within the bit budget; lengths 1..6 (8 thorough)."""
    budget = budget_t if tier == "thorough" else budget_q
    res = []
    for n in range(1, 9 if tier == "thorough" else 7):
        for ew, elems in ((1, ["flat", "struct"]), (2, ["flat", "array", "struct"]), (3, ["struct"])):
            if n * ew <= budget:
                for e in elems:
                    res.append((n, ew, e))
    return res


def _vec_cfgs(tier):
    res = []
    k = 0
    for n, ew, e in _vec_grid(tier, 8, 10):
        phs = ["default", "const"]
        if n * ew + ew <= (10 if tier == "thorough" else 8):
            phs.append("sig")
        ph = phs[k % len(phs)]
        k += 1
        res.append({"n": n, "ew": ew, "elem": e, "ph": ph, "phc": (1 << ew) - 1 if ph == "const" else 0,
                    "ow": "range" if k % 3 else "wide", "container": "list" if k % 2 else "view"})
    if tier == "thorough":
        res.append({"n": 6, "ew": 2, "elem": "struct", "ph": "const", "phc": 2, "ow": "range", "container": "list"})
    return res


def _vec_inputs(cfg, count):
    """count groups of n element signals (flat Signals; wrapped into views for structured elements)."""
    from amaranth import Signal, Cat
    from amaranth.lib import data
    shape = _elem_shape(cfg)
    groups = []
    for g in range(count):
        sigs = [Signal(cfg["ew"], name=f"e{g}_{i}") for i in range(cfg["n"])]
        if cfg.get("container") == "view":
            seq = data.View(data.ArrayLayout(shape, cfg["n"]), Cat(*sigs))      # a Sequence-like View
        elif isinstance(shape, int):
            seq = list(sigs)
        else:
            seq = [shape(s) for s in sigs]
        groups.append((sigs, seq))
    return shape, groups


def _vec_shift_build(name):
    def build(cfg):
        from amaranth import Signal
        from transactron.utils.amaranth_ext import shifter as S
        f = getattr(S, name)
        shape, [(sigs, seq)] = _vec_inputs(cfg, 1)
        off = Signal(_offset_shape(cfg, cfg["n"]))
        if cfg["ph"] == "sig":
            ph = Signal(cfg["ew"], name="ph")
            res = f(seq, off, ph if isinstance(shape, int) else shape(ph))
            ins = [off, ph] + sigs
        elif cfg["ph"] == "const":
            c = cfg["phc"]
            res = f(seq, off, c if isinstance(shape, int) else shape.from_bits(c))
            ins = [off, None] + sigs
        else:
            res = f(seq, off)
            ins = [off, None] + sigs
        m, outs = _mk(ins, list(res))
        return Dut(m, ins, outs, single=False)

    return build


def _vec_shift_domain(cfg):
    n, ew = cfg["n"], cfg["ew"]
    phs = range(1 << ew) if cfg["ph"] == "sig" else (cfg["phc"],)
    for off in range(n + 1):
        for ph in phs:
            for es in itertools.product(range(1 << ew), repeat=n):
                yield [off, ph] + list(es)


def _vec_rot_cfgs(tier):
    res = []
    for k, (n, ew, e) in enumerate(_vec_grid(tier, 8, 11)):
        res.append({"n": n, "ew": ew, "elem": e, "ow": "range" if k % 3 else "wide",
                    "container": "list" if k % 2 else "view"})
    return res


def _vec_rot_build(name):
    def build(cfg):
        from amaranth import Signal
        from transactron.utils.amaranth_ext import shifter as S
        shape, [(sigs, seq)] = _vec_inputs(cfg, 1)
        off = Signal(_offset_shape(cfg, cfg["n"]))
        ins = [off, None] + sigs
        m, outs = _mk(ins, list(getattr(S, name)(seq, off)))
        return Dut(m, ins, outs, single=False)

    return build


def _vec_rot_domain(cfg):
    for off in range(cfg["n"] + 1):
        for es in itertools.product(range(1 << cfg["ew"]), repeat=cfg["n"]):
            yield [off, 0] + list(es)


def _vec_gen_cfgs(tier):
    res = []
    for k, (n, ew, e) in enumerate(_vec_grid(tier, 4, 5)):
        res.append({"n": n, "ew": ew, "elem": e, "ow": "range", "container": "list" if k % 2 else "view"})
    return res


def _vec_gen_build(name):
    def build(cfg):
        from amaranth import Signal
        from transactron.utils.amaranth_ext import shifter as S
        shape, [(sa, seqa), (sb, seqb)] = _vec_inputs(cfg, 2)
        off = Signal(_offset_shape(cfg, cfg["n"]))
        ins = [off] + sa + sb
        m, outs = _mk(ins, list(getattr(S, name)(seqa, seqb, off)))
        return Dut(m, ins, outs, single=False)

    return build


def _vec_gen_domain(cfg):
    for off in range(cfg["n"] + 1):
        for es in itertools.product(range(1 << cfg["ew"]), repeat=2 * cfg["n"]):
            yield [off] + list(es)


FAMILIES = {}
for _n in ("shift_right", "shift_left"):
    FAMILIES[_n] = Family(_n, cfgs=_shift_cfgs, domain=_shift_domain, build=_shift_build(_n), on_raise=RAISED)
for _n in ("rotate_right", "rotate_left"):
    FAMILIES[_n] = Family(_n, cfgs=_rot_cfgs, build=_rot_build(_n), on_raise=RAISED,
                          domain=lambda cfg: ([x, off] for x in range(1 << cfg["w"]) for off in range(_max_off(cfg, cfg["w"]) + 1)))
for _n in ("generic_shift_right", "generic_shift_left"):
    FAMILIES[_n] = Family(_n, cfgs=_gen_cfgs, build=_gen_build(_n), on_raise=RAISED,
                          domain=lambda cfg: ([a, b, off] for a in range(1 << cfg["w"]) for b in range(1 << cfg["w"])
                                              for off in range(_max_off(cfg, cfg["w"]) + 1)))
for _n in ("shift_vec_right", "shift_vec_left"):
    FAMILIES[_n] = Family(_n, cfgs=_vec_cfgs, domain=_vec_shift_domain, build=_vec_shift_build(_n), on_raise=[RAISED])
for _n in ("rotate_vec_right", "rotate_vec_left"):
    FAMILIES[_n] = Family(_n, cfgs=_vec_rot_cfgs, domain=_vec_rot_domain, build=_vec_rot_build(_n), on_raise=[RAISED])
for _n in ("generic_shift_vec_right", "generic_shift_vec_left"):
    FAMILIES[_n] = Family(_n, cfgs=_vec_gen_cfgs, domain=_vec_gen_domain, build=_vec_gen_build(_n), on_raise=[RAISED])

LAWS = ["TypeOK", "IdentityLaw", "ArithLaw", "RotateLaw", "GenericLaw", "MirrorLaw", "VecLaw"]


def run(rep):
    standard_check(rep, __name__, FAMILIES, "C37Rows", "C37Laws", LAWS,
                   {"W": 6 if rep.tier == "thorough" else 5})
    rep.coverage["rule"] = (
        "every function of shifter.py x configurations (bit widths 1-7 quick / 1-8 thorough; vectors of length "
        "1-6 / 1-8 over flat, ArrayLayout and StructLayout entries of 1-3 bits, passed as list or as an "
        "ArrayLayout view; placeholder default / constant / arbitrary signal; offset signal of shape "
        "range(width+1) or one bit wider) x EVERY value x EVERY offset 0..width x every placeholder; "
        "distinct_nontrivial = distinct (function, configuration) tables with a non-zero output; "
        "states/transitions = exhaustive TLC run of the laws of the TLA+ definitions")
    rep.assumptions += [
        "offsets are restricted to 0..width (0..length): the docstrings give no meaning to larger offsets "
        "(the implementation reads zeros past the doubled word there; see notes/C37.md)"]


def replay(rep, path):
    replay_file(rep, FAMILIES, "C37Rows", path)
