"""C34 Hardware logs and assertions fire exactly when triggered (spec: specs/obs/HwLog.tla,
hand-written HwLogMC.tla / HwLogTrace.tla).

  MC   : 3 statements (info under m.If with a field, assertion in a transaction body, top_warning
         registered after it) x 6 (min level, namespace) settings, all 128 input valuations per cycle
         to depth 2 (quick) / 3 (thorough): ReportedIffTriggered, ErrorEndsSimulation, order, nothing
         reported after the failure.
  S->C : every (setting, running/failed, input valuation) edge of that model replayed into a real
         simulation with transactron.testing.logging.make_logging_process.
  C->S : random designs (2-4 statements: debug/info/warning/error/custom levels/assertions, top_*
         variants, under m.If/Else/Case, transaction and method bodies; 0-3 fields of 1-8 bits with
         random format specs) x random input histories x (min level, namespace filter); what Python's
         logging received per cycle and whether the simulation ended is judged by TLC; half of the runs
         go through the repository's own test environment (TestCaseWithSimulatorBase: on_error =
         AssertionError, level/filter from the environment variables, formatter output parsed for the
         cycle number).  Plus a table of LogRecordInfo.format results against the TLA+ digit generator.
"""
import copy
import io
import json
import logging as pylog
import os
import random
import re
import sys
import warnings

from vlib import tlc
from vlib.comp import plan_walks
from vlib.obsharness import fan_out, validate_batch, validate_with_selftest, PROCS

warnings.filterwarnings("ignore")

MC_FULL = """SPECIFICATION Spec
VIEW View
INVARIANT Inv
PROPERTY ReportedIffTriggered
PROPERTY ErrorEndsSimulation
PROPERTY OncePerCycleInOrder
CHECK_DEADLOCK FALSE
"""
MC_EDGE = """SPECIFICATION Spec
VIEW ViewEdge
ACTION_CONSTRAINT Emit
CHECK_DEADLOCK FALSE
"""
LEVELS = {"debug": 10, "info": 20, "warning": 30, "error": 40, "assertion": 40, "assertion_fn": 40, "log25": 25, "log45": 45}


class SimFailure(Exception):
    """raised by the harness' on_error hook"""


# ---------------------------------------------------------------------------------------
# format specifications

def spec_str(sp):
    return (sp["fill"] + sp["align"] + sp["sign"] + ("#" if sp["alt"] else "") + ("0" if sp["zero"] else "")
            + (str(sp["width"]) if sp["width"] else "") + sp["type"])


def gen_spec(rng):
    if rng.random() < 0.2:
        return {"fill": "", "align": "", "sign": "", "alt": False, "zero": False, "width": 0, "type": rng.choice(["", "d", "x", "b"])}
    align = rng.choice(["", "", "<", ">", "="])
    fill = rng.choice(["", "", "*", "_", ".", "0", " "]) if align else ""
    return {"fill": fill, "align": align, "sign": rng.choice(["", "", "+", "-", " "]), "alt": rng.random() < 0.3,
            "zero": rng.random() < 0.35, "width": rng.choice([0, 0, 1, 2, 3, 4, 5, 6, 8, 11]),
            "type": rng.choice(["", "d", "d", "x", "x", "X", "b", "o"])}


# ---------------------------------------------------------------------------------------
# design generator

def gen_stmt(rng, k):
    fn = rng.choice(["debug", "info", "info", "warning", "warning", "error", "assertion", "assertion_fn", "log25", "log45"])
    st = {"id": k, "fn": fn, "top": rng.random() < 0.2, "group": rng.choice(["g0", "g1"]), "chain": [],
          "trigw": rng.choice([1, 1, 2, 3]), "fields": [], "chunks": [{"lit": f"s{k}"}]}
    for i in range(rng.choice([0, 1, 1, 2, 3])):
        st["fields"].append({"width": rng.randint(1, 8), "signed": rng.random() < 0.4, "kw": rng.random() < 0.3})
        # literal text incl. characters that are special to printf-style formatting ("%") -- the message must
        # arrive verbatim whatever the Python logging layer does with it
        st["chunks"].append({"lit": rng.choice([" ", " a=", ", val:", " 0x", "|", " 50% ", " %d ", "%%", " %s"])})
        st["chunks"].append({"field": i + 1, "spec": gen_spec(rng)})
    if rng.random() < 0.5:
        st["chunks"].append({"lit": rng.choice(["!", " end", "", "%", " 100%"])})
    for _ in range(rng.choice([0, 1, 1, 2])):
        c = rng.choice(["c0", "c1", "sw"])
        if c == "sw":
            st["chain"].append(["case", "sw", rng.randrange(4)])
        else:
            st["chain"].append([rng.choice(["if", "if", "else"]), c])
    return st


def gen_design(rng):
    n = rng.randint(2, 4)
    conts = {"top": [], "t0": [], "t1": [], "ca": [], "cb": [], "m0": []}
    for k in range(n):
        conts[rng.choice(["top", "top", "t0", "t1", "ca", "m0", "m0"])].append(gen_stmt(rng, k))
    order = ["top", "t0", "m0", "ca", "cb", "t1"]
    rng.shuffle(order)
    return {"minlevel": rng.choice([0, 0, 10, 20, 25, 30, 40, 50]),
            "filter": rng.choice([[], [], ["c34"], ["c34", "g0"], ["c34", "g1"]]),
            "infra": rng.random() < 0.5,
            "containers": [{"name": c, "stmts": conts[c]} for c in order]}


def _nospec(t):
    return {"fill": "", "align": "", "sign": "", "alt": False, "zero": False, "width": 0, "type": t}


def mc_design(minlevel, filt):
    """the design of HwLogMC.tla"""
    return {"minlevel": minlevel, "filter": filt, "infra": False, "containers": [
        {"name": "top", "stmts": [{"id": 0, "fn": "info", "top": False, "group": "g0", "chain": [["if", "c0"]], "trigw": 1,
                                   "fields": [{"width": 1, "signed": False, "kw": False}],
                                   "chunks": [{"lit": "v="}, {"field": 1, "spec": _nospec("b")}]}]},
        {"name": "t0", "stmts": [{"id": 1, "fn": "assertion", "top": False, "group": "g1", "chain": [], "trigw": 1,
                                  "fields": [], "chunks": [{"lit": "a"}]}]},
        {"name": "t1", "stmts": [{"id": 2, "fn": "warning", "top": True, "group": "g0", "chain": [], "trigw": 1,
                                  "fields": [{"width": 1, "signed": True, "kw": False}],
                                  "chunks": [{"lit": "w="}, {"field": 1, "spec": dict(_nospec("x"), zero=True, width=2)}]}]},
    ]}


def logger_name(st):
    return f"c34.{st['group']}.s{st['id']}"


def format_string(st):
    out = ""
    for ch in st["chunks"]:
        if "lit" in ch:
            out += ch["lit"]
        else:
            f = st["fields"][ch["field"] - 1]
            s = spec_str(ch["spec"])
            out += "{" + (f"k{ch['field']}" if f["kw"] else "") + (":" + s if s else "") + "}"
    return out


# ---------------------------------------------------------------------------------------
# the circuit

def make_circuit(cfg):
    from amaranth import Elaboratable, Signal, signed, unsigned
    from transactron import TModule, Transaction, Method, def_method
    from transactron.utils import logging as tlog

    class LogCircuit(Elaboratable):
        def __init__(self):
            self.conds = {"c0": Signal(1, name="c0"), "c1": Signal(1, name="c1"), "sw": Signal(2, name="sw")}
            self.en = {n: Signal(name="en_" + n) for n in ("t0", "t1", "ca", "cb")}
            self.run = {}
            self.order = []                    # (container, stmt) in REGISTRATION order
            self.trig = {}
            self.fin = {}
            for cont in cfg["containers"]:
                for st in cont["stmts"]:
                    self.trig[st["id"]] = Signal(st["trigw"], name=f"trig{st['id']}")
                    self.fin[st["id"]] = [Signal(signed(f["width"]) if f["signed"] else unsigned(f["width"]),
                                                 name=f"f{st['id']}_{i}") for i, f in enumerate(st["fields"])]

        def inputs(self):
            sigs = dict(self.conds)
            sigs.update({"en_" + n: s for n, s in self.en.items()})
            return sigs

        def _log(self, m, cont, st):
            def body():
                lg = tlog.HardwareLogger(logger_name(st))
                args = [s for s, f in zip(self.fin[st["id"]], st["fields"]) if not f["kw"]]
                kwargs = {f"k{i + 1}": s for i, (s, f) in enumerate(zip(self.fin[st["id"]], st["fields"])) if f["kw"]}
                fmt = format_string(st)
                trig = self.trig[st["id"]]
                fn, top = st["fn"], st["top"]
                if fn in ("debug", "info", "warning", "error"):
                    if top:
                        getattr(lg, "top_" + fn)(trig, fmt, *args, **kwargs)
                    else:
                        getattr(lg, fn)(m, trig, fmt, *args, **kwargs)
                elif fn in ("log25", "log45"):
                    if top:
                        lg.top_log(LEVELS[fn], trig, fmt, *args, **kwargs)
                    else:
                        lg.log(m, LEVELS[fn], trig, fmt, *args, **kwargs)
                elif fn == "assertion":
                    if top:
                        lg.top_assertion(trig, fmt, *args, **kwargs)
                    else:
                        lg.assertion(m, trig, fmt, *args, **kwargs)
                else:   # module-level short forms
                    if top:
                        tlog.top_assertion(trig, fmt, *args, name=logger_name(st), **kwargs)
                    else:
                        tlog.assertion(m, trig, fmt, *args, name=logger_name(st), **kwargs)
                self.order.append((cont, st))

            def nest(i):
                if i == len(st["chain"]):
                    body()
                    return
                c = st["chain"][i]
                if c[0] == "if":
                    with m.If(self.conds[c[1]]):
                        nest(i + 1)
                elif c[0] == "else":
                    with m.If(self.conds[c[1]]):
                        pass
                    with m.Else():
                        nest(i + 1)
                else:
                    with m.Switch(self.conds["sw"]):
                        with m.Case(c[2]):
                            nest(i + 1)
            nest(0)

        def elaborate(self, platform):
            m = TModule()
            cnt = Signal(4, name="c34_cnt")
            m.d.sync += cnt.eq(cnt + 1)
            self.m0 = Method(name="m0")
            trans = {}
            names = [c["name"] for c in cfg["containers"]]
            for cont in cfg["containers"]:
                name = cont["name"]
                if name == "top":
                    for st in cont["stmts"]:
                        self._log(m, name, st)
                elif name == "m0":
                    @def_method(m, self.m0)
                    def _():
                        for st in cont["stmts"]:
                            self._log(m, name, st)
                else:
                    trans[name] = Transaction(name="c34_" + name)
                    with trans[name].body(m, ready=self.en[name]):
                        for st in cont["stmts"]:
                            self._log(m, name, st)
                        if name in ("ca", "cb") and "m0" in names:
                            self.m0(m)
            self.run = {"run_" + n: t.run for n, t in trans.items()}
            if "m0" in names:
                self.run["run_m0"] = self.m0.run
            return m

    return LogCircuit()


def tla_cfg(cfg, ck):
    stmts = []
    for cont, st in ck.order:
        ctx = []
        if cont != "top":
            ctx.append(["run_" + cont, 1])
        for c in st["chain"]:
            ctx.append([c[1], 1] if c[0] == "if" else [c[1], 0] if c[0] == "else" else ["sw", c[2]])
        stmts.append({"level": LEVELS[st["fn"]], "name": logger_name(st).split("."),
                      "kind": "assert" if st["fn"].startswith("assertion") else "log", "top": st["top"], "ctx": ctx,
                      "fields": [{"width": f["width"], "signed": f["signed"]} for f in st["fields"]],
                      "chunks": [ch for ch in st["chunks"] if not ("lit" in ch and ch["lit"] == "")]})
    return {"minlevel": cfg["minlevel"], "filter": cfg["filter"], "stmts": stmts}


# ---------------------------------------------------------------------------------------
# stimulus and simulation

def gen_stimulus(cfg, rng, cycles):
    flat = [s for c in cfg["containers"] for s in c["stmts"]]
    p_err = rng.choice([0.0, 0.02, 0.05, 0.3])
    stim, p = [], {}
    for i in range(cycles):
        if i % 12 == 0:
            p = {k: rng.choice([0.15, 0.5, 0.85, 1.0]) for k in ("c0", "c1", "t0", "t1", "ca", "cb", "trig")}
        st = {"c0": int(rng.random() < p["c0"]), "c1": int(rng.random() < p["c1"]), "sw": rng.randrange(4)}
        for n in ("t0", "t1", "ca", "cb"):
            st["en_" + n] = int(rng.random() < p[n])
        st["stmts"] = {}
        for s in flat:
            hi = rng.randrange(1, 1 << s["trigw"])
            if s["fn"].startswith("assertion"):
                t = 0 if rng.random() < p_err else hi               # the asserted value: 0 = violated
            elif LEVELS[s["fn"]] >= 40:
                t = hi if rng.random() < p_err else 0
            else:
                t = hi if rng.random() < p["trig"] else 0
            st["stmts"][str(s["id"])] = {"trig": t, "vals": [rng.randrange(1 << f["width"]) for f in s["fields"]]}
        stim.append(st)
    return stim


_PREFIX = re.compile(r"^\[[^\]]*:\d+\] ")
_ANSI = re.compile(r"\033\[[0-9;]*m")


class _Collect(pylog.Handler):
    def __init__(self):
        super().__init__(level=0)
        self.buf = []

    def emit(self, record):
        self.buf.append((record.name, record.levelno, _PREFIX.sub("", record.getMessage(), count=1)))


def simulate(cfg, stim):
    """Runs the design with the repository's simulation logging process.  Returns the trace."""
    from transactron.utils.dependencies import DependencyContext, DependencyManager
    from transactron.testing.simulator import PysimSimulator
    from transactron.testing.tick_count import make_tick_count_process, TicksKey
    from transactron.testing.logging import make_logging_process
    flat = [s for c in cfg["containers"] for s in c["stmts"]]
    regexp = ".*" if not cfg["filter"] else "^" + re.escape(".".join(cfg["filter"])) + r"(\.|$)"
    root = pylog.getLogger()
    old_level, old_handlers = root.level, root.handlers[:]
    col = _Collect()
    root.setLevel(1)
    root.addHandler(col)
    lines = []
    state = {"ck": None, "ticks": None}
    failure = None
    stream = io.StringIO()

    def make_tb(ck, get_ticks):
        ids = None

        async def tb(ctx):
            nonlocal ids
            by_name = {logger_name(st): i for i, (_, st) in enumerate(ck.order)}
            run_names = sorted(ck.run)
            for i, st in enumerate(stim):
                for n, sig in ck.inputs().items():
                    ctx.set(sig, st[n])
                for s in flat:
                    sv = st["stmts"][str(s["id"])]
                    ctx.set(ck.trig[s["id"]], sv["trig"])
                    for sig, f, v in zip(ck.fin[s["id"]], s["fields"], sv["vals"]):
                        ctx.set(sig, v - (1 << f["width"]) if f["signed"] and v >> (f["width"] - 1) else v)
                sig = {k: st[k] for k in ("c0", "c1", "sw")}
                sig.update({n: int(ctx.get(ck.run[n])) for n in run_names})       # comb settled
                line = {"cycle": int(ctx.get(get_ticks())), "sig": sig,
                        "stmts": [{"trig": st["stmts"][str(s["id"])]["trig"], "vals": st["stmts"][str(s["id"])]["vals"]}
                                  for _, s in ck.order],
                        "reports": [], "ended": False}
                lines.append(line)
                state["by_name"] = by_name
                await ctx.tick()
                line["reports"] = [[by_name.get(n, -1), lv, n, msg] for n, lv, msg in col.buf]
                col.buf.clear()
        return tb

    try:
        if cfg["infra"]:
            # the repository's own test environment: level / filter from the environment variables,
            # on_error = `assert False, "Simulation finished due to an error"`, messages formatted by
            # its formatter onto a StreamHandler (stderr at construction time)
            from transactron.testing.test_case import TestCaseWithSimulatorBase
            env_old = {k: os.environ.get(k) for k in ("__TRANSACTRON_LOG_LEVEL", "__TRANSACTRON_LOG_FILTER")}
            os.environ["__TRANSACTRON_LOG_LEVEL"] = {10: "debug", 20: "INFO", 30: "warning", 40: "error"}.get(
                cfg["minlevel"], str(cfg["minlevel"]))
            os.environ["__TRANSACTRON_LOG_FILTER"] = regexp
            err_old = sys.stderr
            sys.stderr = stream
            try:
                tc = TestCaseWithSimulatorBase()
                with tc.ctx_testing_env("c34_scratch"):
                    ck = state["ck"] = make_circuit(cfg)
                    dm = tc.dependency_manager
                    with tc.run_simulation(ck, max_cycles=len(stim) + 10) as sim:
                        sim.add_testbench(make_tb(ck, lambda: dm.get_dependency(TicksKey())))
            finally:
                sys.stderr = err_old
                for k, v in env_old.items():
                    if v is None:
                        os.environ.pop(k, None)
                    else:
                        os.environ[k] = v
        else:
            dm = DependencyManager()
            with DependencyContext(dm):
                ck = state["ck"] = make_circuit(cfg)
                sim = PysimSimulator(ck, max_cycles=len(stim) + 10)
                sim.add_process(make_tick_count_process())

                def on_error():
                    raise SimFailure()

                sim.add_process(make_logging_process(cfg["minlevel"], regexp, on_error))
                sim.add_testbench(make_tb(ck, lambda: dm.get_dependency(TicksKey())))
                sim.run()
    except (SimFailure, AssertionError) as ex:
        failure = "SimFailure" if isinstance(ex, SimFailure) else f"AssertionError: {ex}"
        if isinstance(ex, AssertionError) and "Simulation finished due to an error" not in str(ex):
            raise
    finally:
        root.setLevel(old_level)
        root.handlers[:] = old_handlers
    ck = state["ck"]
    if failure is not None:                      # the failing cycle: reports arrived, testbench never resumed
        by_name = state["by_name"]
        lines[-1]["reports"] = [[by_name.get(n, -1), lv, n, msg] for n, lv, msg in col.buf]
        lines[-1]["ended"] = True
    tr = {"kind": "sim", "cfg": tla_cfg(cfg, ck), "design": cfg, "lines": lines, "failure": failure}
    if cfg["infra"]:
        # "<cycle> <LEVEL> <logger> [file:line] <message>" per record, as the repository's formatter prints
        seen = []
        for ln in _ANSI.sub("", stream.getvalue()).splitlines():
            mt = re.match(r"^(\d+) (\S+) (\S+) \[[^\]]*:\d+\] (.*)$", ln)
            if mt:
                seen.append([int(mt.group(1)), mt.group(3), mt.group(4)])
        # the environment's formatter only knows the four standard levels (custom levels raise a KeyError
        # inside logging's handler, which logging swallows): compare the standard-level records
        mine = [[ln["cycle"], r[2], r[3]] for ln in lines for r in ln["reports"] if r[1] in (10, 20, 30, 40)]
        tr["stream_agrees"] = (seen == mine)
        tr["stream_records"] = len(seen)
        tr["stream_sample"] = seen[:2]
    return tr


def record(seed, cycles):
    rng = random.Random(seed)
    cfg = gen_design(rng)
    stim = gen_stimulus(cfg, rng, cycles)
    tr = simulate(cfg, stim)
    tr["seed"] = seed
    tr["stim"] = stim
    return tr


def fmt_table(seed, n):
    """LogRecordInfo.format over random (spec, value) rows (public API, no simulation)."""
    from transactron.utils.logging import LogRecordInfo, LogChunkInfo
    rng = random.Random(seed)
    rows = []
    for _ in range(n):
        sp = gen_spec(rng)
        w = rng.choice([1, 3, 4, 8, 8, 12, 16])
        v = rng.randrange(-(1 << (w - 1)), 1 << w)
        info = LogRecordInfo("c34.fmt", 20, [LogChunkInfo(False, "<"), LogChunkInfo(True, spec_str(sp)), LogChunkInfo(False, ">")],
                             ("c34", 0))
        msg = info.format(v)
        rows.append({"spec": sp, "val": v, "msg": msg[1:-1] if msg.startswith("<") and msg.endswith(">") else "BAD:" + msg})
    return {"kind": "fmt", "cfg": {}, "lines": rows, "seed": seed}


# ---------------------------------------------------------------------------------------
# spec -> code

def replay_walk(cfg_lab, walk):
    """one walk of model edges (ends at the first failing edge) = one real simulation"""
    design = mc_design(cfg_lab["minlevel"], cfg_lab["filter"])
    stim = []
    for e in walk:
        ln = e["lab"]["line"]
        stim.append({"c0": ln["sig"]["c0"], "c1": 0, "sw": 0, "en_t0": ln["sig"]["run_t0"], "en_t1": 0, "en_ca": 0, "en_cb": 0,
                     "stmts": {"0": {"trig": ln["stmts"][0]["trig"], "vals": ln["stmts"][0]["vals"]},
                               "1": {"trig": ln["stmts"][1]["trig"], "vals": []},
                               "2": {"trig": ln["stmts"][2]["trig"], "vals": ln["stmts"][2]["vals"]}}})
    tr = simulate(design, stim)
    for i, e in enumerate(walk):
        if i >= len(tr["lines"]):
            return len(stim), {"step": i, "problem": "simulation ended early", "schedule": stim[:i + 1]}
        got = tr["lines"][i]
        exp_rep = e["lab"]["reports"]
        if got["reports"] != exp_rep or got["ended"] != e["lab"]["ended"] or got["sig"]["run_t0"] != e["lab"]["line"]["sig"]["run_t0"]:
            return len(stim), {"step": i, "problem": f"reports={got['reports']} ended={got['ended']} expected "
                               f"{exp_rep} ended={e['lab']['ended']}", "schedule": stim[:i + 1]}
        if got["ended"] and i != len(walk) - 1:
            return len(stim), {"step": i, "problem": "walk continues after failure (machinery)", "schedule": stim[:i + 1]}
    if len(tr["lines"]) != len(walk):
        return len(stim), {"step": len(walk), "problem": "simulation ran past the modelled failure", "schedule": stim}
    return len(stim), None


def _replay_task(cfg_lab, walk):
    return replay_walk(cfg_lab, walk)


# ---------------------------------------------------------------------------------------

def strip(tr):
    return {"kind": tr["kind"], "cfg": tr["cfg"], "lines": tr["lines"]}


def report_rejects(rep, traces, rej):
    for tid, r in sorted(rej.items()):
        tr = traces[tid - 1]
        ln = r["line"]
        if tr["kind"] == "fmt":
            rep.violation({"component": "LogRecordInfo.format", "cfg": {"kind": "fmt"}, "clauses": sorted(r["clauses"]),
                           "line": ln, "seed": tr["seed"], "observed": tr["lines"][ln - 1], "expected": r.get("expected")})
            continue
        rep.violation({"component": "HardwareLogger/make_logging_process",
                       "cfg": {"kind": "sim", "minlevel": tr["design"]["minlevel"], "filter": tr["design"]["filter"],
                               "infra": tr["design"]["infra"], "design": tr["design"]},
                       "clauses": sorted(r["clauses"]), "line": ln, "seed": tr.get("seed"),
                       "expected_reports": r.get("expected"), "observed": tr["lines"][ln - 1],
                       "schedule": tr.get("stim", [])[:ln]})


def corrupted_traces(traces, rng):
    cor = []
    sims = [t for t in traces if t["kind"] == "sim"]
    with_rep = [t for t in sims if any(ln["reports"] for ln in t["lines"])]
    with_msg = [t for t in sims if any(any(ch for ch in s["chunks"] if "field" in ch) and True for s in t["cfg"]["stmts"])
                and any(ln["reports"] for ln in t["lines"])]
    ended = [t for t in sims if t["lines"] and t["lines"][-1]["ended"]]
    for mut in ["drop_report", "message", "level", "not_ended", "extra_line", "swap", "fmt_row"]:
        t = None
        if mut == "drop_report" and with_rep:
            t = strip(copy.deepcopy(rng.choice(with_rep)))
            ln = rng.choice([x for x in t["lines"] if x["reports"]])
            del ln["reports"][rng.randrange(len(ln["reports"]))]
        elif mut == "message" and with_msg:
            t = strip(copy.deepcopy(rng.choice(with_msg)))
            ln = rng.choice([x for x in t["lines"] if x["reports"]])
            r = rng.choice(ln["reports"])
            r[3] = r[3][:-1] + ("0" if not r[3].endswith("0") else "1") if r[3] else "x"
        elif mut == "level" and with_rep:
            t = strip(copy.deepcopy(rng.choice(with_rep)))
            ln = rng.choice([x for x in t["lines"] if x["reports"]])
            rng.choice(ln["reports"])[1] += 10
        elif mut == "not_ended" and ended:
            t = strip(copy.deepcopy(rng.choice(ended)))
            t["lines"][-1]["ended"] = False
        elif mut == "extra_line" and ended:
            t = strip(copy.deepcopy(rng.choice(ended)))
            extra = copy.deepcopy(t["lines"][-1])
            extra["cycle"] += 1
            extra["reports"], extra["ended"] = [], False
            extra["stmts"] = [{"trig": (1 if s["kind"] == "assert" else 0), "vals": o["vals"]}
                              for s, o in zip(t["cfg"]["stmts"], extra["stmts"])]
            t["lines"].append(extra)
        elif mut == "swap":
            c = [(t0, ln) for t0 in with_rep for ln in t0["lines"] if len(ln["reports"]) >= 2]
            if c:
                t0, ln0 = rng.choice(c)
                t = strip(copy.deepcopy(t0))
                ln = t["lines"][t0["lines"].index(ln0)]
                ln["reports"][0], ln["reports"][1] = ln["reports"][1], ln["reports"][0]
        elif mut == "fmt_row":
            f = [x for x in traces if x["kind"] == "fmt"]
            if f:
                t = strip(copy.deepcopy(f[0]))
                t["lines"] = t["lines"][:50]
                t["lines"][rng.randrange(len(t["lines"]))]["msg"] += "0"
        if t is not None:
            cor.append((t, None, mut))
    return cor


def run(rep):
    thorough = rep.tier == "thorough"
    depth = "3" if thorough else "2"
    # 1. exhaustive model
    res = tlc.run("HwLogMC", MC_FULL, env={"HWLOG_DEPTH": depth}, workers=min(PROCS, 8), timeout=1500)
    if res.invariant_violated:
        rep.violation({"component": "HwLog model", "what": f"model violates {res.invariant_violated}",
                       "clauses": ["MC:" + res.invariant_violated], "tlc_tail": res.out.splitlines()[-60:]})
        return
    tlc.require_ok(res, "HwLogMC")
    rep.add("states", res.distinct)
    rep.add("transitions", res.generated)
    rep.coverage["mc"] = [{"module": "HwLogMC", "depth_cycles": int(depth), "distinct_states": res.distinct,
                           "states_generated": res.generated, "wall_s": round(res.wall_s, 2)}]
    # 2. spec -> code: the automaton (setting, running/failed) x all input valuations
    er = tlc.run("HwLogMC", MC_EDGE, env={"HWLOG_DEPTH": "1000000"}, workers=1, timeout=1500)
    tlc.require_ok(er, "HwLogMC(edges)")
    edges = tlc.tagged(er, "EDGE")
    for e in edges:                      # the component automaton: history and cycle number are not state
        e["cfg"] = {"minlevel": e["cfg"]["minlevel"], "filter": e["cfg"]["filter"]}
        e["from"] = {"ended": e["from"]["ended"]}
        e["to"] = {"ended": e["to"]["ended"]}
        e["_init"] = json.dumps({"ended": False}, sort_keys=True)
    walks = plan_walks(edges, max_len=48, tail=0, rng=random.Random(rep.seed))
    results = fan_out([(__name__, "_replay_task", (c, w)) for c, w in walks])
    rep.add("edges_total", len(edges))
    rep.add("edges_replayed_into_impl", len(edges))
    rep.add("replay_walks", len(walks))
    for (out, err), (c, w) in zip(results, walks):
        if err:
            rep.violation({"component": "HardwareLogger/make_logging_process", "cfg": {"kind": "mc-design", **c},
                           "clauses": ["ReplayException"], "what": err[-1500:]})
            continue
        n, bad = out
        rep.add("replay_cycles", n)
        if bad:
            rep.violation({"component": "HardwareLogger/make_logging_process",
                           "cfg": {"kind": "mc-design", **c, "design": mc_design(c["minlevel"], c["filter"])},
                           "clauses": ["EdgeReplay"], "what": bad["problem"][:600], "schedule": bad["schedule"]})
    # 3. code -> spec
    n_designs = 400 if thorough else 64
    cycles = 120 if thorough else 60
    tasks = [(__name__, "record", (rep.seed * 100003 + i, cycles)) for i in range(n_designs)]
    tasks.append((__name__, "fmt_table", (rep.seed, 20000 if thorough else 2500)))
    traces = []
    for (tr, err), t in zip(fan_out(tasks), tasks):
        if err:
            rep.violation({"component": "HardwareLogger/make_logging_process", "cfg": {"kind": "sim", "seed": t[2][0]},
                           "clauses": ["BuildOrRunException"], "what": err[-1500:]})
        else:
            traces.append(tr)
    rej, vres = validate_with_selftest("HwLogTrace", [strip(t) for t in traces],
                                       corrupted_traces(traces, random.Random(rep.seed)), rep)
    rep.add("traces_validated_against_impl", len(traces))
    rep.add("trace_states", vres.distinct)
    report_rejects(rep, traces, rej)
    sims = [t for t in traces if t["kind"] == "sim"]
    for t in sims:
        if t["design"]["infra"] and not t.get("stream_agrees", True):
            rep.violation({"component": "HardwareLogger/make_logging_process",
                           "cfg": {"kind": "sim", "infra": True, "design": t["design"]}, "clauses": ["FormatterCycleStamp"],
                           "what": "cycle/logger/message printed by the test environment's formatter differ from the "
                                   "records received per cycle", "seed": t["seed"], "schedule": t["stim"]})
    # statistics (evidence only)
    situations = set()
    nrep = nend = 0
    for t in sims:
        for ln in t["lines"]:
            nrep += len(ln["reports"])
            nend += int(ln["ended"])
            for k, (s, o) in enumerate(zip(t["cfg"]["stmts"], ln["stmts"])):
                situations.add((t["seed"], k, o["trig"] != 0, tuple(ln["sig"][c[0]] == c[1] for c in s["ctx"])))
    ncyc = sum(len(t["lines"]) for t in sims)
    nrows = sum(len(t["lines"]) for t in traces if t["kind"] == "fmt")
    rep.add("impl_cycles", ncyc)
    rep.add("impl_reports", nrep)
    rep.add("impl_failed_simulations", nend)
    rep.add("impl_designs", len(sims))
    rep.add("impl_runs_through_test_environment", sum(1 for t in sims if t["design"]["infra"]))
    rep.add("impl_formatter_lines_cross_checked", sum(t.get("stream_records", 0) for t in sims))
    rep.add("format_rows", nrows)
    rep.coverage["distinct_format_specs"] = len({spec_str(r["spec"]) for t in traces if t["kind"] == "fmt" for r in t["lines"]})
    t0 = next(t for t in sims if any(ln["reports"] for ln in t["lines"]))
    rep.sample({"kind": "impl-trace", "stmts": [(s["level"], ".".join(s["name"]), s["ctx"]) for s in t0["cfg"]["stmts"]],
                "first_reports": [ln["reports"] for ln in t0["lines"] if ln["reports"]][:2]})
    rep.coverage["rule"] = (
        "MC: fixed 3-statement design x 6 (min level, namespace) settings, all 128 input valuations per cycle to the depth; "
        "S->C: every (setting, running/failed, valuation) edge replayed (one real simulation per failing walk); C->S: "
        "seeded random designs x histories, reports received from Python logging per cycle + simulation end judged per "
        "cycle; format table rows judged one by one. distinct_nontrivial = model edges replayed + distinct (design, "
        "statement, trigger on/off, context valuation) situations + distinct format specs")
    rep.coverage["evaluations"] = rep.coverage.get("replay_cycles", 0) + ncyc + nrows
    rep.coverage["distinct_nontrivial"] = len(edges) + len(situations) + rep.coverage["distinct_format_specs"]
    rep.assumptions += [
        "Amaranth Python simulator is faithful to the elaborated netlist",
        "format specifications are drawn from the modelled subset: [[fill]align(<>=)][sign][#][0][width][type in '', d, x, X, b, o]; "
        "'s'/'c' conversions, '_' grouping and ValueCastable (enum/struct) arguments are not modelled",
        "records registered after the ERROR-level record that ends the simulation are not reported in the failing "
        "cycle (the failure is raised while the records of that cycle are handled in registration order)",
        "root logger level is lowered by the harness so that DEBUG/INFO records reach the handlers (pytest's caplog "
        "does the same in the repository's tests)",
    ]


def replay(rep, path):
    d = json.load(open(path))
    design = d["cfg"]["design"]
    tr = simulate(design, d["schedule"])
    tr["seed"] = d.get("seed")
    tr["stim"] = d["schedule"]
    rej, _ = validate_batch("HwLogTrace", [strip(tr)])
    rep.add("traces_validated_against_impl", 1)
    report_rejects(rep, [tr], rej)
