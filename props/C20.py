"""C20 Semaphore counts acquisitions (spec: specs/lib/Semaphore.tla)."""
from vlib.comp import Component, standard_check, replay_file

TRACE_HIST = 1000000  # larger than any trace: the history clause is never switched off on traces


def build(cfg):
    from transactron.lib.fifo import Semaphore
    dut = Semaphore(cfg["max"])
    return dut, {"acquire": dut.acquire, "release": dut.release, "clear": dut.clear}, {"count": dut.count}


def want(cfg, m, rng, tracker, p):
    return rng.random() < (p * 0.08 if m == "clear" else p)


COMP = Component(
    spec="Semaphore", name="Semaphore", build=build,
    methods=lambda cfg: ["acquire", "release", "clear"],
    has_arg=lambda m: False, gen_arg=lambda cfg, m, rng, tr: None,
    want=want, module=__name__,
    shadow=lambda cfg: ["acquire", "release"],
    # the public count register against the model register, and against the history of the
    # observed executed calls (acq / rel are accumulated by the trace spec from `done` bits)
    trace_extra=("PubMatches == Line.pub.count = st.count\n"
                 "HistoryMatches == ~st.sat => Line.pub.count + st.rel = st.acq"),
    trace_extra_names=["PubMatches", "HistoryMatches"],
)


def situations(traces):
    seen = set()
    cnt = {"acquire_refused_at_max": 0, "release_refused_at_zero": 0, "acquire_and_release": 0,
           "clear_with_acquire_or_release": 0}
    for tr in traces:
        mx = tr["cfg"]["max"]
        for ln in tr["cycles"]:
            c = ln["pub"]["count"]
            done = frozenset(m for m in ("acquire", "release", "clear") if ln[m]["done"])
            refused = frozenset(m for m in ("acquire", "release", "clear") if ln[m]["req"] and not ln[m]["cal"])
            if done or refused:
                seen.add((mx, c, done, refused))
            if "acquire" in refused:
                cnt["acquire_refused_at_max"] += 1
            if "release" in refused:
                cnt["release_refused_at_zero"] += 1
            if {"acquire", "release"} <= done:
                cnt["acquire_and_release"] += 1
            if "clear" in done and len(done) > 1:
                cnt["clear_with_acquire_or_release"] += 1
    return seen, cnt


def run(rep):
    thorough = rep.tier == "thorough"
    maxes = list(range(1, 10)) + ([12, 15, 16, 17, 31] if thorough else [16])
    cfgs = [{"max": n, "hist": TRACE_HIST} for n in maxes]
    traces = standard_check(COMP, rep, trace_cfgs=cfgs, seeds_per_cfg=16 if thorough else 4,
                            cycles=1000 if thorough else 300)
    seen, cnt = situations(traces)
    rep.coverage["corner_counts"] = cnt
    rep.coverage["trace_situations"] = len(seen)
    rep.coverage["rule"] = (
        "MC: max 1-5 with history counters up to 7 acquisitions, all call sets in all states (complete for the "
        "count register); S->C: every model edge replayed; C->S: seeded histories, max 1-9 and 16 (thorough also "
        "12,15,17,31), public count compared with the model register and with the accumulated history of observed "
        "calls; distinct_nontrivial = model edges + distinct (max, count, executed set, refused set) in traces")
    rep.coverage["evaluations"] = rep.coverage.get("impl_cycles", 0) + rep.coverage.get("replay_cycles", 0)
    rep.coverage["distinct_nontrivial"] = rep.coverage.get("edges_total", 0) + len(seen)
    for k in ("acquire_refused_at_max", "release_refused_at_zero", "acquire_and_release",
              "clear_with_acquire_or_release"):
        if cnt[k] == 0 and not rep.violations:
            rep.machinery(f"C20: corner '{k}' never occurred in the recorded traces (vacuous)")
    rep.assumptions += ["Amaranth Python simulator is faithful to the elaborated netlist",
                        "the exhaustive model follows the history counters only up to 7 acquisitions per clear epoch "
                        "(the per-step clause is unbounded); traces carry unbounded history counters"]


def replay(rep, path):
    replay_file(COMP, rep, path)
