"""C22 AsyncMemoryBank reads current contents (spec: specs/lib/AsyncMem.tla, which uses the
ideal-memory operators of specs/lib/MultiMem.tla).

Configuration: depth, width, granularity (0 = None), read_ports, write_ports, memory_type
(always "Memory": the multiport memories of transactron offer synchronous read ports only and
reject `read_port(domain="comb")`).  Spec method names: read<i>, write<j>; a write argument is
always the record {addr, data, mask} (mask = 1 and ignored when granularity is None).
"""
import json
import random

from vlib.comp import Component, corrupt_self_test, record_traces, replay_file, trace_stats, validate_traces
from vlib.memports import Collector, addr_bits, model_check_variant, replay_edges_scc, tlc_workers


def full_cfg(cfg):
    c = dict(cfg)
    c.setdefault("memory_type", "Memory")
    c["init_flag"] = False
    c["narrow"] = c["width"] < addr_bits(c["depth"])
    return c


def build(cfg):
    from transactron.lib.storage import AsyncMemoryBank
    dut = AsyncMemoryBank(shape=cfg["width"], depth=cfg["depth"], granularity=cfg["granularity"] or None,
                          read_ports=cfg["read_ports"], write_ports=cfg["write_ports"])
    ms = {f"read{i}": dut.read[i] for i in range(cfg["read_ports"])}
    ms.update({f"write{j}": dut.write[j] for j in range(cfg["write_ports"])})
    return dut, ms


def methods(cfg):
    return [f"read{i}" for i in range(cfg["read_ports"])] + [f"write{j}" for j in range(cfg["write_ports"])]


class Tracker:
    """Recently used rows (reads meet fresh writes) and the repair of the precondition: two
    executed write calls never carry the same address."""

    def __init__(self, cfg):
        self.cfg = cfg
        self.hot = []

    def update(self, line):
        pass

    def addr(self, rng):
        a = rng.choice(self.hot) if self.hot and rng.random() < 0.65 else rng.randrange(self.cfg["depth"])
        if a in self.hot:
            self.hot.remove(a)
        self.hot.append(a)
        del self.hot[:-3]
        return a

    def fix(self, step, rng):
        used = set()
        for j in range(self.cfg["write_ports"]):
            m = f"write{j}"
            if m in step:
                a = step[m]["addr"]
                while a in used:
                    a = rng.randrange(self.cfg["depth"])
                step[m] = dict(step[m], addr=a)
                used.add(a)
        return step


def gen_arg(cfg, m, rng, tr):
    if m.startswith("read"):
        return tr.addr(rng)
    g = cfg["granularity"]
    nm = 1 << (cfg["width"] // g) if g else 2
    r = rng.random()
    mask = 1 if not g else (nm - 1 if r < 0.35 else rng.randrange(0 if r > 0.95 else 1, nm))
    return {"addr": tr.addr(rng), "data": rng.randrange(1, 1 << cfg["width"]), "mask": mask}


COMP = Component(spec="AsyncMem", name="AsyncMemoryBank", build=build, methods=methods, has_arg=lambda m: True,
                 gen_arg=gen_arg, tracker=Tracker, module=__name__, impl_cfg=full_cfg,
                 shadow=methods)


def trace_cfgs(tier, seed):
    rng = random.Random(seed * 7919 + 22)
    cfgs = []
    for depth, width in [(2, 2), (4, 4), (5, 6), (16, 2), (16, 8)]:
        for rp in (1, 2):
            for wp in (1, 2):
                for g in sorted({0, width // 2, 1, width}):
                    cfgs.append(full_cfg({"depth": depth, "width": width, "granularity": g,
                                          "read_ports": rp, "write_ports": wp}))
    for _ in range(120 if tier == "thorough" else 10):
        depth, width = rng.choice([(3, 4), (7, 3), (8, 8), (9, 2), (12, 3), (16, 3), (6, 6)])
        divs = [g for g in range(1, width + 1) if width % g == 0]
        cfgs.append(full_cfg({"depth": depth, "width": width, "granularity": rng.choice([0] + divs),
                              "read_ports": rng.choice([1, 2, 3]), "write_ports": min(depth, rng.choice([1, 2, 3]))}))
    return cfgs


def situations(traces):
    seen = set()
    counts = {}

    def hit(ck, s):
        seen.add((ck, s))
        counts[s] = counts.get(s, 0) + 1

    for tr in traces:
        cfg = tr["cfg"]
        ck = json.dumps(cfg, sort_keys=True)
        g = cfg["granularity"] or cfg["width"]
        full = (1 << (cfg["width"] // g)) - 1
        last = {}
        for i, ln in enumerate(tr["cycles"]):
            ws = [ln[f"write{j}"]["arg"] for j in range(cfg["write_ports"]) if ln[f"write{j}"]["done"]]
            for p in range(cfg["read_ports"]):
                r = ln[f"read{p}"]
                if not r["done"]:
                    continue
                for w in ws:
                    if w["addr"] == r["arg"] and w["mask"]:
                        hit(ck, "read_with_same_cycle_write" + ("_partial" if w["mask"] != full else ""))
                if r["arg"] in last:
                    d = i - last[r["arg"]][0]
                    hit(ck, "read_%s_after_write%s" % ("1" if d == 1 else "later", "_partial" if last[r["arg"]][1] else ""))
            for w in ws:
                if w["mask"]:
                    last[w["addr"]] = (i, w["mask"] != full)
    return seen, counts


def run(rep):
    thorough = rep.tier == "thorough"
    col = Collector(rep, cfg_fix=full_cfg)
    res, edges, inits = model_check_variant(COMP, col, "Configs", True, 1)
    if edges:
        replay_edges_scc(COMP, edges, inits, col)
        rep.coverage["edges_total"] = rep.coverage["edges_replayed_into_impl"] = len(edges)
    cfgs = trace_cfgs(rep.tier, rep.seed)
    traces = record_traces(COMP, cfgs, 4 if thorough else 1, 600 if thorough else 200, rep.seed, col)
    for k, v in trace_stats(COMP, traces).items():
        rep.add("impl_" + k, v)
    rej = validate_traces(COMP, traces, col, rep.pid)
    bad = {r["tid"] for r in rej}
    corrupt_self_test(COMP, [t for i, t in enumerate(traces) if (i + 1) not in bad], rep, random.Random(rep.seed), n=8)
    seen, counts = situations(traces)
    rep.coverage["situation_counts"] = counts
    rep.coverage["trace_configs"] = len(cfgs)
    col.flush()
    if traces:
        rep.sample({"kind": "impl-trace", "cfg": traces[0]["cfg"], "first_cycles": traces[0]["cycles"][:2]})
    rep.coverage["rule"] = (
        "MC: depth 2, width 2, granularity None/1/2, 1-2 read and write ports, all sets of simultaneous calls with "
        "all arguments (masks incl. 0). S->C: every model edge replayed. C->S: seeded random call histories (hot "
        "rows, partial masks) over depth 2-16 x width 2-8 x granularity x ports. distinct_nontrivial = distinct "
        "(configuration, situation) pairs (read with same-cycle write, read 1 / more cycles after a (partial) "
        "write) + model edges replayed")
    rep.coverage["evaluations"] = rep.coverage.get("impl_cycles", 0) + rep.coverage.get("replay_cycles", 0)
    rep.coverage["distinct_nontrivial"] = len(seen) + len(edges)
    rep.assumptions += [
        "Amaranth Python simulator is faithful to the elaborated netlist",
        "precondition enforced by the driver (Tracker.fix) and stated in Assume: two executed write calls never "
        "carry the same address; addresses < depth",
        "only memory_type=Memory: the transactron multiport memories do not offer combinational read ports"]


def replay(rep, path):
    replay_file(COMP, rep, path)
