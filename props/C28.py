"""C28 PipelineBuilder pipelines are ordered, lossless and compute the composed stages
(specs: specs/lib/Pipeline.tla, PipelineMC.tla, PipelineTrace.tla).

A pipeline shape is a JSON value
  {"nodes": [{"kind": "ext"|"call"|"fn", "req": [field..], "gen": [field..],
              "fn": [{"op","x","y","c"} per gen field], "nodep": bool,
              "conn": "pipe"|"fifo", "depth": d   (connector in front of the node)}...],
   "allow_unused": bool, "allow_empty": bool}
built for real with PipelineBuilder (external methods called by harness transactions, called
methods and stage functions owned by the harness with a trigger input and witness signals) and
handed to TLC as data.
"""
from __future__ import annotations

import json
import multiprocessing as mp
import os
import random
import tempfile
import traceback
from collections import defaultdict

from vlib import tlc
from vlib import comp as vcomp
from vlib import metricsharness as mh

W = 4                     # width of every pipeline field
MOD = 1 << W
FIELDS = ["id", "a", "b", "c"]


# ---------------------------------------------------------------------------------------
# stage functions (identical definitions live in Pipeline.tla: Eval)

def eval_fn(f, vals):
    """vals: field -> amaranth Value or int"""
    op = f["op"]
    if op == "inc":
        return vals[f["x"]] + 1
    if op == "dbl":
        return vals[f["x"]] * 2
    if op == "add":
        return vals[f["x"]] + vals[f["y"]]
    if op == "copy":
        return vals[f["x"]]
    if op == "const":
        return f["c"]
    if op == "ctr":          # source nodes: value of the harness item counter
        return vals["__ctr"]
    raise ValueError(op)


# ---------------------------------------------------------------------------------------
# the device under test: a PipelineBuilder pipeline around harness-owned stages

def make_dut(shape):
    from amaranth import Elaboratable, Signal, Cat, C
    from transactron import Method, TModule, def_method
    from transactron.lib.pipeline import PipelineBuilder

    class PipeDut(Elaboratable):
        def __init__(self):
            nodes = shape["nodes"]
            self.ext = {}
            self.trig = {}
            self.wit = {}
            for j, nd in enumerate(nodes):
                if nd["kind"] == "ext":
                    self.ext[j] = Method(name=f"ext{j}", i=[(f, W) for f in nd["gen"]], o=[(f, W) for f in nd["req"]])
                else:
                    self.trig[j] = Signal(name=f"trig{j}")
                    self.wit[f"f{j}"] = Signal(name=f"wf{j}")
                    for f in nd["req"]:
                        self.wit[f"r{j}_{f}"] = Signal(W, name=f"wr{j}_{f}")
                    for f in nd["gen"]:
                        self.wit[f"g{j}_{f}"] = Signal(W, name=f"wg{j}_{f}")
            self.clear = Method(name="pclear")
            self.ctr = Signal(W, name="item_ctr")
            self.p = None

        def elaborate(self, platform):
            m = TModule()
            nodes = shape["nodes"]
            p = PipelineBuilder(allow_unused=shape.get("allow_unused", False), allow_empty=shape.get("allow_empty", False))
            self.p = p
            m.submodules.pipeline = p

            def body(j, nd, argvals):
                """common body of called methods and stage functions: witnesses + the function"""
                m.d.comb += self.wit[f"f{j}"].eq(1)
                vals = dict(argvals)
                vals["__ctr"] = self.ctr
                for f in nd["req"]:
                    m.d.comb += self.wit[f"r{j}_{f}"].eq(argvals[f])
                out = {}
                for f, fn in zip(nd["gen"], nd["fn"]):
                    v = Signal(W, name=f"o{j}_{f}")
                    m.d.av_comb += v.eq(eval_fn(fn, vals))
                    m.d.comb += self.wit[f"g{j}_{f}"].eq(v)
                    out[f] = v
                if any(fn["op"] == "ctr" for fn in nd["fn"]):
                    m.d.sync += self.ctr.eq(self.ctr + 1)
                return out

            for j, nd in enumerate(nodes):
                if j > 0 and nd.get("conn") == "fifo":
                    p.fifo(nd["depth"])
                kw = {"no_dependency": True} if nd.get("nodep") else {}
                if nd["kind"] == "ext":
                    p.add_external(self.ext[j], **kw)
                elif nd["kind"] == "call":
                    target = Method(name=f"target{j}", i=[(f, W) for f in nd["req"]], o=[(f, W) for f in nd["gen"]])

                    def mk(j=j, nd=nd):
                        @def_method(m, target, ready=self.trig[j])
                        def _(arg):
                            return body(j, nd, {f: arg[f] for f in nd["req"]})
                    mk()
                    p.call_method(target, **kw)
                else:
                    def mk(j=j, nd=nd):
                        def func(arg):
                            return body(j, nd, {f: arg[f] for f in nd["req"]}) or None
                        if nd.get("named"):
                            # parameters matched by name against the live pipeline signals
                            ns = {"body": body, "j": j, "nd": nd}
                            params = ", ".join(nd["req"])
                            dct = "{" + ", ".join(f"'{f}': {f}" for f in nd["req"]) + "}"
                            exec(f"def func({params}):\n    return body(j, nd, {dct}) or None\n", ns)
                            p.stage(m, o=[(f, W) for f in nd["gen"]], ready=self.trig[j], **kw)(ns["func"])
                        else:
                            p.stage(m, o=[(f, W) for f in nd["gen"]], i=[(f, W) for f in nd["req"]],
                                    ready=self.trig[j], **kw)(func)
                    mk()
            self.clear.provide(p.clear)
            return m

    return PipeDut()


def build(shape):
    dut = make_dut(shape)
    meths = {f"ext{j}": mth for j, mth in dut.ext.items()}
    meths["clear"] = dut.clear
    return dut, meths, dict(dut.wit)


# ---------------------------------------------------------------------------------------
# shape generator

def _mkfn(rng, req, field):
    if not req:
        return {"op": "const", "x": "", "y": "", "c": rng.randrange(1, MOD)}
    op = rng.choice(["inc", "dbl", "add", "copy", "add", "inc"])
    return {"op": op, "x": rng.choice(req), "y": rng.choice(req), "c": 0}


def gen_shape(rng, n=None):
    """A well-formed random shape (the builder's own rules: every generated field is used later,
    something is live between nodes, no_dependency nodes require nothing).  `id` is generated by
    the first node only and read by the last one."""
    n = n or rng.choice([2, 3, 3, 4, 4, 5])
    allow_unused = rng.random() < 0.15
    nodes, defined, unused = [], set(), set()
    for j in range(n):
        last = j == n - 1
        nd = {"kind": rng.choice(["ext", "call", "fn", "fn"]), "nodep": False, "conn": "none", "depth": 0}
        if j == 0:
            nd["kind"] = rng.choice(["ext", "ext", "ext", "call", "fn"])
            nd["req"] = []
            nd["gen"] = ["id"] + sorted(rng.sample(["a", "b", "c"], rng.choice([0, 1, 1, 2])))
            nd["nodep"] = rng.random() < 0.1
            nd["fn"] = [] if nd["kind"] == "ext" else \
                [{"op": "ctr", "x": "", "y": "", "c": 0}] + [_mkfn(rng, [], f) for f in nd["gen"][1:]]
        else:
            nd["conn"] = rng.choice(["pipe", "pipe", "fifo"])
            nd["depth"] = rng.randint(1, 3) if nd["conn"] == "fifo" else 1
            nodep = (not last) and rng.random() < 0.2
            if last:
                nd["kind"] = rng.choice(["ext", "ext", "call", "fn"])
            if nodep:
                req = []
            else:
                pool = sorted(defined)
                req = sorted(rng.sample(pool, rng.randint(0 if not last else 1, len(pool))))
                if last:
                    req = sorted(set(req) | {"id"} | (set() if allow_unused else unused))
            free = [f for f in ("a", "b", "c") if f not in unused or f in req or allow_unused]
            gen = [] if last and not allow_unused else sorted(rng.sample(free, rng.randint(0, min(2, len(free)))))
            if nodep and not gen:
                gen = [rng.choice(free)] if free else []
                nodep = bool(gen)
            nd.update({"nodep": nodep, "req": req, "gen": gen})
            nd["fn"] = [] if nd["kind"] == "ext" else [_mkfn(rng, req, f) for f in gen]
        if nd["kind"] == "fn":
            nd["named"] = rng.random() < 0.5
        unused -= set(nd["req"])
        defined |= set(nd["gen"])
        unused |= set(nd["gen"])
        nodes.append(nd)
    return {"nodes": nodes, "allow_unused": allow_unused, "allow_empty": False}


def gen_regenerate_shape(rng):
    """allow_empty family (test_pipeline's TwoExternals pattern): a node consumes every live field,
    a no_dependency node supplies them again."""
    def conn():
        c = rng.choice(["pipe", "fifo"])
        return {"conn": c, "depth": rng.randint(1, 3) if c == "fifo" else 1}
    k2 = rng.choice(["ext", "call"])
    nodes = [
        {"kind": "ext", "req": [], "gen": ["id", "a"], "fn": [], "nodep": False, "conn": "none", "depth": 0},
        dict({"kind": rng.choice(["ext", "call", "fn"]), "req": ["a", "id"], "gen": [], "fn": [], "nodep": False}, **conn()),
        dict({"kind": k2, "req": [], "gen": ["a", "id"], "nodep": True,
              "fn": [] if k2 == "ext" else [{"op": "const", "x": "", "y": "", "c": 7}, {"op": "ctr", "x": "", "y": "", "c": 0}]},
             **conn()),
        dict({"kind": rng.choice(["ext", "call"]), "req": ["a", "id"], "gen": [], "fn": [], "nodep": False}, **conn()),
    ]
    return {"nodes": nodes, "allow_unused": False, "allow_empty": True}


def break_shape(rng, shape):
    """One random edit that may or may not be legal for the builder (counted, never a violation)."""
    s = json.loads(json.dumps(shape))
    nd = rng.choice(s["nodes"])
    k = rng.randrange(5)
    if k == 0:
        nd["nodep"] = True
    elif k == 1 and nd["req"]:
        nd["req"] = nd["req"][1:]
        for f in nd["fn"]:
            f.update({"op": "const", "c": 3})
    elif k == 2:
        f = rng.choice(["a", "b", "c"])
        if f not in nd["req"]:
            nd["req"] = sorted(nd["req"] + [f])
    elif k == 3:
        f = rng.choice(["a", "b", "c"])
        if f not in nd["gen"]:
            nd["gen"] = nd["gen"] + [f]
            nd["fn"] = nd["fn"] + ([{"op": "const", "x": "", "y": "", "c": 5}] if nd["kind"] != "ext" else [])
    else:
        s["allow_empty"] = not s["allow_empty"]
        s["allow_unused"] = not s["allow_unused"]
    return s


# ---------------------------------------------------------------------------------------
# driving and recording

def _arg(fields, vals):
    if not fields:
        return None
    if len(fields) == 1:
        return vals[fields[0]]
    return {f: vals[f] for f in fields}


def _aslist(fields, v):
    if not fields:
        return []
    if len(fields) == 1:
        return [v]
    return [v[f] for f in fields]


def total_cap(shape):
    return sum((nd["depth"] if nd["conn"] == "fifo" else 1) + (1 if nd["nodep"] else 0) for nd in shape["nodes"])


def repack(shape, line, drain):
    out = []
    for j, nd in enumerate(shape["nodes"]):
        if nd["kind"] == "ext":
            e = line[f"ext{j}"]
            f, r, g = e["done"], _aslist(nd["req"], e["out"]), _aslist(nd["gen"], e["arg"])
        else:
            p = line["pub"]
            f = p[f"f{j}"]
            r = [p[f"r{j}_{x}"] for x in nd["req"]]
            g = [p[f"g{j}_{x}"] for x in nd["gen"]]
        out.append({"f": 0 if nd["nodep"] else f, "s": f if nd["nodep"] else 0,
                    "r": r if f else [0] * len(r), "g": g if f else [0] * len(g)})
    return {"n": out, "clear": line["clear"]["done"], "drain": drain}


def run_schedule(shape, steps):
    """steps: list of {"trig": [j..], "args": {j: {field: v}}, "clear": bool}; returns repacked lines"""
    from vlib.drive import CompSim
    cs = CompSim(build, shape)
    dut = cs.h.dut
    plain = {f"t{j}": s for j, s in dut.trig.items()}
    sched = []
    for st in steps:
        step = {"_in": {f"t{j}": int(j in st["trig"]) for j in dut.trig}, "_args": {}}
        for j, nd in enumerate(shape["nodes"]):
            if nd["kind"] == "ext":
                a = _arg(nd["gen"], st["args"].get(j) or st["args"].get(str(j)) or {f: 0 for f in nd["gen"]})
                if j in st["trig"]:
                    step[f"ext{j}"] = a
                elif a is not None:
                    step["_args"][f"ext{j}"] = a
        if st.get("clear"):
            step["clear"] = None
        sched.append(step)
    lines = cs.run(sched, plain_inputs=plain)
    return [repack(shape, ln, int(bool(st.get("drain")))) for ln, st in zip(lines, steps)]


def random_steps(shape, rng, cycles):
    """Seeded random history of triggers / outside calls / clears, followed by a drain phase in
    which nothing enters, nothing is cleared and every other node is offered every cycle."""
    nodes = shape["nodes"]
    n = len(nodes)
    steps, nid = [], 1
    phase_end, p, pclear = 0, {}, 0.0
    for i in range(cycles):
        if i >= phase_end:
            phase_end = i + rng.choice([3, 8, 20, 40])
            p = {j: rng.choice([0.15, 0.5, 0.85, 1.0, 1.0]) for j in range(n)}
            pclear = rng.choice([0.0, 0.0, 0.03, 0.1])
        st = {"trig": [j for j in range(n) if rng.random() < p[j]], "args": {}, "clear": rng.random() < pclear}
        for j, nd in enumerate(nodes):
            if nd["kind"] == "ext" and nd["gen"]:
                st["args"][j] = {f: (nid + i) % MOD if f == "id" else rng.randrange(MOD) for f in nd["gen"]}
        steps.append(st)
    d = total_cap(shape) + 2 * n + 4
    for i in range(d):
        st = {"trig": list(range(1, n)), "args": {}, "clear": False, "drain": i == d - 1}
        for j, nd in enumerate(nodes):
            if nd["kind"] == "ext" and nd["gen"]:
                st["args"][j] = {f: rng.randrange(MOD) for f in nd["gen"]}
        steps.append(st)
    return steps


def _record_task(args):
    shape, seed, cycles = args
    try:
        rng = random.Random(seed)
        steps = random_steps(shape, rng, cycles)
        return {"cfg": shape, "seed": seed, "cycles": run_schedule(shape, steps), "steps": steps}, None
    except Exception as ex:
        return {"cfg": shape, "seed": seed, "cycles": []}, (type(ex).__name__, traceback.format_exc()[-1500:])


TRACE_CFG = "SPECIFICATION Spec\nCHECK_DEADLOCK FALSE\n"


def validate(traces, timeout=1800):
    """-> (rejects, states): every trace gets a verdict from PipelineTrace (TLC runs over chunks)"""
    rej, states, base = [], 0, 0
    for chunk in mh.chunks_by_lines(traces):
        fd, path = tempfile.mkstemp(prefix="vtr_", suffix=".json")
        try:
            with os.fdopen(fd, "w") as fh:
                json.dump([{"cfg": t["cfg"], "cycles": t["cycles"]} for t in chunk], fh)
            res = tlc.run("PipelineTrace", TRACE_CFG, env={"TRACE_FILE": path}, workers=1, timeout=timeout)
        finally:
            os.unlink(path)
        tlc.require_ok(res, "PipelineTrace")
        acc, rj = tlc.tagged(res, "ACCEPT"), tlc.tagged(res, "REJECT")
        if len(acc) + len(rj) != len(chunk):
            raise tlc.MachineryError(f"PipelineTrace: {len(acc)} accepted + {len(rj)} rejected != {len(chunk)} traces")
        for r in rj:
            r["tid"] += base
            rej.append(r)
        base += len(chunk)
        states += res.distinct
    return rej, states


# ---------------------------------------------------------------------------------------
# (a) exhaustive model, (b) replay of its edges

MC_CFG = ("SPECIFICATION Spec\nVIEW View\nINVARIANT Inv\nINVARIANT DrainOK\nPROPERTY ClearProp\n"
          "ACTION_CONSTRAINT Emit\nCHECK_DEADLOCK FALSE\n")


def model_check(rep):
    res = tlc.run("PipelineMC", MC_CFG, workers=1, timeout=1500)
    if res.invariant_violated:
        rep.violation({"component": "PipelineBuilder", "what": f"model violates {res.invariant_violated}",
                       "clauses": ["MC:" + res.invariant_violated], "tlc_tail": res.out.splitlines()[-60:]})
        return res, [], []
    tlc.require_ok(res, "PipelineMC")
    rep.add("states", res.distinct)
    rep.add("transitions", res.generated)
    edges, inits = tlc.tagged(res, "EDGE"), tlc.tagged(res, "INIT")
    rep.coverage.setdefault("mc", []).append(
        {"module": "PipelineMC", "distinct_states": res.distinct, "states_generated": res.generated,
         "depth": res.depth, "edges": len(edges), "wall_s": round(res.wall_s, 2),
         "invariants": ["Inv (capacity, NoLoss/no duplication, EachStageOnceInOrder, ExitOrder, FieldsComputed, "
                        "ClearDropsInflight)", "DrainOK (NoLoss, bounded drain)", "ClearProp"]})
    return res, edges, inits


def _proj_state(st):
    """what the implementation state depends on: buffer contents (fields only), counters"""
    return {"conn": [[it["f"] for it in (c or [])] for c in st["conn"]], "np": [list(x or []) for x in st["np"]],
            "entered": st["entered"], "ctr": st["ctr"]}


def project_edges(edges, inits):
    seen, out = set(), []
    for e in edges:
        pe = {"cfg": e["cfg"], "from": _proj_state(e["from"]), "to": _proj_state(e["to"]), "lab": e["lab"]}
        k = vcomp._key([pe["cfg"]["name"], pe["from"], pe["lab"]])
        if k not in seen:
            seen.add(k)
            out.append(pe)
    pin = [{"cfg": i["cfg"], "st": _proj_state(i["st"])} for i in inits]
    return out, pin


def _steps_of_walk(shape, walk):
    steps = []
    for e in walk:
        lab = e["lab"]
        args = {}
        for j, nd in enumerate(shape["nodes"]):
            if nd["kind"] == "ext" and nd["gen"]:
                a = lab["args"][j] if lab["args"] else []
                args[j] = dict(zip(nd["gen"], a)) if a else {f: 0 for f in nd["gen"]}
        steps.append({"trig": [t - 1 for t in lab["trig"]], "args": args, "clear": bool(lab["clear"])})
    return steps


def replay_walk(shape, walk):
    """-> (kind, step index, text, steps) with kind in {None, "timing", "data"}"""
    steps = _steps_of_walk(shape, walk)
    lines = run_schedule(shape, steps)
    for i, (e, ln) in enumerate(zip(walk, lines)):
        lab = e["lab"]
        fires = {j for j, x in enumerate(ln["n"]) if x["f"]}
        sup = {j for j, x in enumerate(ln["n"]) if x["s"]}
        if fires != {t - 1 for t in lab["fires"]} or sup != {t - 1 for t in lab["sup"]}:
            return ("timing", i, f"fired {sorted(fires)} supplied {sorted(sup)}; model: fires "
                    f"{[t - 1 for t in lab['fires']]} supplies {[t - 1 for t in lab['sup']]}", steps)
        if ln["clear"] != int(bool(lab["clear"])):
            return "timing", i, f"clear executed={ln['clear']} requested={lab['clear']}", steps
        for j in sorted(fires | sup):
            er, eg = list(lab["r"][j] or []), list(lab["g"][j] or [])
            if ln["n"][j]["r"] != er or ln["n"][j]["g"] != eg:
                return ("data", i, f"node {j} saw r={ln['n'][j]['r']} g={ln['n'][j]['g']}; model r={er} g={eg}", steps)
    return None, None, None, steps


def _replay_task(args):
    shape, walk = args
    try:
        return shape, replay_walk(shape, walk), None
    except Exception:
        return shape, None, traceback.format_exc()[-1500:]


def replay_edges(rep, edges, inits, max_walks_per_shape):
    pedges, pinits = project_edges(edges, inits)
    init_by = {vcomp._key(i["cfg"]): vcomp._key(i["st"]) for i in pinits}
    for e in pedges:
        e["_init"] = init_by.get(vcomp._key(e["cfg"]))
    walks = vcomp.plan_walks(pedges, max_len=60, tail=0, rng=random.Random(rep.seed))
    by = defaultdict(list)
    for cw in walks:
        by[cw[0]["name"]].append(cw)
    chosen = []
    for k in sorted(by):
        ws = sorted(by[k], key=lambda cw: -len(cw[1]))
        chosen += ws if max_walks_per_shape is None else ws[:max_walks_per_shape]
    with mp.Pool(min(mh.nprocs(), max(1, len(chosen)))) as pool:
        out = pool.map(_replay_task, chosen, chunksize=4)
    rep.add("edges_total", len(pedges))
    rep.add("edges_replayed_into_impl", len({id(e) for _, w in chosen for e in w}))
    rep.add("replay_walks", len(chosen))
    rep.add("replay_cycles", sum(len(w) for _, w in chosen))
    dev = defaultdict(list)
    bad = defaultdict(list)
    for (shape, res, err), (_, walk) in zip(out, chosen):
        if err:
            bad[(shape["name"], "ReplayException")].append((shape, err, [], 0))
            continue
        kind, i, text, steps = res
        if kind == "timing":
            dev[shape["name"]].append((text, steps[: i + 1]))
        elif kind == "data":
            bad[(shape["name"], "FieldsComputed")].append((shape, text, steps, i))
    for (name, clause), items in sorted(bad.items()):
        shape, text, steps, i = items[0]
        rep.violation({"component": "PipelineBuilder", "cfg": shape, "clauses": [clause, "EdgeReplay"],
                       "what": f"{text} ({len(items)} walk(s) of shape {name})", "steps": steps[: i + 1]})
    # timing conformance with the exact bounded-buffer model is stronger than the property: diagnostic only
    rep.coverage["model_deviations"] = sum(len(v) for v in dev.values())
    for name, items in sorted(dev.items()):
        print(f"MODEL-DEVIATION property=C28 shape={name} walks={len(items)}: {items[0][0]}", flush=True)
        rep.coverage.setdefault("model_deviation_samples", []).append({"shape": name, "what": items[0][0],
                                                                       "steps": items[0][1]})


# ---------------------------------------------------------------------------------------
# (c) traces of generated shapes

def shape_sig(shape):
    return " ".join(nd["kind"][0] + ("*" if nd["nodep"] else "") + (f"<{nd['depth']}" if nd["conn"] == "fifo" else "")
                    for nd in shape["nodes"])


def shape_class(shape):
    return ("nodep " if any(nd["nodep"] for nd in shape["nodes"]) else "") + \
           ("fifo " if any(nd["conn"] == "fifo" for nd in shape["nodes"]) else "") + \
           ("allow_unused " if shape["allow_unused"] else "") + ("allow_empty" if shape["allow_empty"] else "")


def record(rep, shapes, cycles, tag):
    tasks = [(sh, rep.seed * 7919 + i, cycles) for i, sh in enumerate(shapes)]
    with mp.Pool(min(mh.nprocs(), max(1, len(tasks)))) as pool:
        out = pool.map(_record_task, tasks, chunksize=max(1, len(tasks) // (mh.nprocs() * 4)))
    traces, rejected = [], []
    for tr, err in out:
        if err is None:
            traces.append(tr)
        elif err[0] in ("ValueError", "TypeError", "RuntimeError"):
            rejected.append((tr["cfg"], err[1].strip().splitlines()[-1][:200]))   # shape not accepted by the builder
        else:
            rep.violation({"component": "PipelineBuilder", "cfg": tr["cfg"], "clauses": ["BuildOrRunException"],
                           "what": err[1], "seed": tr["seed"]})
    rep.add(f"shapes_{tag}_built", len(traces))
    rep.add(f"shapes_{tag}_not_accepted", len(rejected))
    return traces, rejected


def judge(rep, traces):
    rej, states = validate(traces)
    rep.add("traces_validated_against_impl", len(traces))
    rep.add("trace_states", states)
    groups = defaultdict(list)
    for r in rej:
        tr = traces[r["tid"] - 1]
        groups[(tuple(sorted(r["clauses"])), shape_class(tr["cfg"]))].append((r, tr))
    for (clauses, cls), items in sorted(groups.items(), key=lambda kv: str(kv[0])):
        r, tr = min(items, key=lambda it: (len(it[1]["cfg"]["nodes"]), it[0]["line"]))
        ln = r["line"]
        rep.violation({"component": "PipelineBuilder", "cfg": tr["cfg"], "clauses": list(clauses), "line": ln,
                       "seed": tr["seed"], "shape": shape_sig(tr["cfg"]), "model_state": r["state"],
                       "observed": tr["cycles"][ln - 1],
                       "what": f"shape class [{cls.strip()}]: {len(items)} trace(s) rejected, e.g. shape {shape_sig(tr['cfg'])}",
                       "steps": tr["steps"][:ln]})
    return rej


def corrupt_self_test(rep, traces, rng, n=8):
    """Binding: (a) change one observed required-field value of a firing node -> rejected at that line;
    (b) hide one firing of the last node -> rejected at that line or later (order / NoLoss)."""
    import copy
    picked = []
    good = [t for t in traces if len(t["cycles"]) > 10]
    for k in range(n * 30):
        if len(picked) >= n or not good:
            break
        t = copy.deepcopy(rng.choice(good))
        li = rng.randrange(len(t["cycles"]))
        nodes = t["cfg"]["nodes"]
        ln = t["cycles"][li]
        if k % 2 == 0:
            c = [j for j, x in enumerate(ln["n"]) if x["f"] and x["r"]]
            if not c:
                continue
            j = rng.choice(c)
            ln["n"][j]["r"][rng.randrange(len(ln["n"][j]["r"]))] ^= 1
            picked.append((t, li + 1, "r"))
        else:
            j = len(nodes) - 1
            if not ln["n"][j]["f"]:
                continue
            ln["n"][j]["f"] = 0
            picked.append((t, li + 1, "f"))
    if not picked:
        return
    rej, _ = validate([p[0] for p in picked])
    rejected = {r["tid"]: r for r in rej}
    ok_r = sum(1 for i, p in enumerate(picked) if p[2] == "r" and (i + 1) in rejected and rejected[i + 1]["line"] == p[1])
    ok_f = sum(1 for i, p in enumerate(picked) if p[2] == "f" and (i + 1) in rejected and rejected[i + 1]["line"] >= p[1])
    n_r = sum(1 for p in picked if p[2] == "r")
    rep.coverage["selftest_corrupted_traces"] = len(picked)
    rep.coverage["selftest_corrupted_rejected"] = ok_r + ok_f
    rep.coverage["selftest_detail"] = {"value_flipped": n_r, "rejected_at_line": ok_r,
                                       "exit_hidden": len(picked) - n_r, "rejected": ok_f}
    if ok_r != n_r or ok_f != len(picked) - n_r:
        rep.machinery(f"PipelineTrace: corrupt-a-field self-test failed: {rep.coverage['selftest_detail']}")


def situations(traces):
    seen = set()
    for tr in traces:
        sig = shape_sig(tr["cfg"]) + "|" + vcomp._key([nd["req"] + ["/"] + nd["gen"] for nd in tr["cfg"]["nodes"]])
        entered = left = 0
        for ln in tr["cycles"]:
            k = sum(1 for x in ln["n"] if x["f"] or x["s"])
            if k >= 2:
                seen.add((sig, "simultaneous", k))
            entered += ln["n"][0]["f"] or ln["n"][0]["s"]
            left += ln["n"][-1]["f"]
            if ln["clear"]:
                seen.add((sig, "clear-with-inflight", min(entered - left, 4)))
                entered = left = 0
            else:
                seen.add((sig, "inflight", min(entered - left, 6)))
    return seen


def run(rep):
    thorough = rep.tier == "thorough"
    T = mh.Phases(rep)
    rng = random.Random(rep.seed)
    res, edges, inits = model_check(rep)
    T("mc")
    if edges:
        replay_edges(rep, edges, inits, None if thorough else 30)
    T("replay")
    nshapes = 700 if thorough else 90
    shapes = [gen_shape(rng) if i % 8 else gen_regenerate_shape(rng) for i in range(nshapes)]
    traces, rejected = record(rep, shapes, 300 if thorough else 120, "wellformed")
    broken = [break_shape(rng, gen_shape(rng)) for _ in range(nshapes // 3)]
    traces2, rejected2 = record(rep, broken, 300 if thorough else 120, "edited")
    T("record")
    if rejected:
        print(f"NOTE property=C28 {len(rejected)} generated well-formed shape(s) not accepted by the builder, "
              f"e.g. {shape_sig(rejected[0][0])}: {rejected[0][1]}", flush=True)
        rep.coverage["wellformed_not_accepted_samples"] = [{"shape": s, "error": e} for s, e in rejected[:5]]
    rep.coverage["edited_not_accepted_reasons"] = sorted({e.split(":")[0] + ":" + e.split(":")[-1][:60] for _, e in rejected2})[:12]
    alltr = traces + traces2
    rej = judge(rep, alltr)
    T("validate")
    bad = {r["tid"] for r in rej}
    corrupt_self_test(rep, [t for i, t in enumerate(alltr) if i + 1 not in bad], random.Random(rep.seed))
    T("selftest")
    sit = situations(alltr)
    cyc = sum(len(t["cycles"]) for t in alltr)
    rep.coverage["impl_cycles"] = cyc
    rep.coverage["impl_node_firings"] = sum(sum(x["f"] + x["s"] for x in ln["n"]) for t in alltr for ln in t["cycles"])
    rep.coverage["impl_clears"] = sum(ln["clear"] for t in alltr for ln in t["cycles"])
    rep.coverage["distinct_shapes_validated"] = len({vcomp._key(t["cfg"]) for t in alltr})
    rep.coverage["evaluations"] = cyc + rep.coverage.get("replay_cycles", 0)
    rep.coverage["distinct_nontrivial"] = rep.coverage.get("edges_replayed_into_impl", 0) + len(sit)
    rep.coverage["rule"] = (
        "MC: PipelineMC.tla, 5 shapes (3-4 nodes; ext/call/fn; pipe, fifo 1-2; no_dependency ext and call), exact "
        "bounded-buffer model, every offer set x outside arguments {1,2} x clear, at most 3 items entering; "
        "invariants NoLoss/no duplication, EachStageOnceInOrder, ExitOrder, FieldsComputed, ClearDropsInflight, bounded "
        "drain.  S->C: model edges (deduplicated modulo history variables) replayed with exactly the model's offer "
        "sets; data mismatch = violation, firing-set mismatch = MODEL-DEVIATION diagnostic (timing is not part of the "
        "property).  C->S: generated well-formed shapes (2-5 nodes over ext/call/fn x pipe/fifo 1-3 x no_dependency, "
        "allow_unused, allow_empty regenerate family) plus randomly edited shapes that the builder still accepts, "
        "seeded random offer/clear histories followed by a drain phase, judged by the timing-free PipelineTrace.tla; "
        "distinct_nontrivial = replayed model edges + distinct (shape, situation): k nodes firing together, "
        "k items in flight, clear with k items in flight")
    if alltr:
        t = alltr[0]
        rep.sample({"kind": "impl-trace", "shape": shape_sig(t["cfg"]), "cfg": t["cfg"], "first_cycles": t["cycles"][:2]})
    rep.assumptions += ["Amaranth Python simulator is faithful to the elaborated netlist",
                        "stage functions / called methods are harness-owned (x+1, 2x, x+y, copy, const) and exist "
                        "identically in the spec", "fields are 4 bit wide; items are distinguished by id (mod 16) and data"]


def replay(rep, path):
    d = json.load(open(path))
    shape = d["cfg"]
    steps = d["steps"]
    for s in steps:
        s["args"] = {int(k): v for k, v in s["args"].items()}
    lines = run_schedule(shape, steps)
    judge(rep, [{"cfg": shape, "seed": d.get("seed"), "cycles": lines, "steps": steps}])
